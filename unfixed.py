import subprocess,os,json,re
R='/tmp/ag/c13/repo'; V='/tmp/ag/c13/verif'; D='/tmp/ag/c13/deliver/'
env=dict(os.environ,GOFLAGS='-mod=mod',GOPROXY='off',GOSUMDB='off',GOTOOLCHAIN='local',VERIF_REPO=R)
def sh(c,cwd=R):
    r=subprocess.run(c,shell=True,cwd=cwd,capture_output=True,text=True,env=env); return r.returncode,r.stdout+r.stderr
cases={'unpatched':[], 'without-dotdot':['fix-C13-netpath.diff','fix-C13-fold.diff'], 'without-netpath':['fix-C13-dotdot.diff','fix-C13-fold.diff'],
       'without-fold':['fix-C13-dotdot.diff','fix-C13-netpath.after-dotdot.diff']}
for name,diffs in cases.items():
    sh('git checkout -- . && git checkout d9620a5 -- trustedresourceurl.go internal/safehtmlutil/safehtmlutil.go')
    for d in diffs:
        rc,o=sh('git apply '+D+d); assert rc==0,(d,o)
    rc,out=sh('./bin/check C13 --tier quick',cwd=V)
    # classify all oracle failures of this run
    ops=open(V+'/build/run/C13/ops.txt').read().split('\n')[:-1]; real=open(V+'/build/run/C13/real.txt').read().split('\n')[:-1]
    p=subprocess.run([V+'/lean/.lake/build/bin/driver'],input="\n".join("O|%s|%s"%(o,r) for o,r in zip(ops,real))+"\n",capture_output=True,text=True)
    import collections
    c=collections.Counter(x for x in p.stdout.split('\n')[:len(ops)] if x!='pass')
    m=re.search(r'replay=(\S+)',out); kind=''
    if m:
        rp=json.load(open(m.group(1))); kind=rp.get('kind','')+' '+str(rp.get('clause',''))+' op='+str(rp.get('op',''))[:80]+' real='+str(rp.get('real',''))[:50]
    print('==',name,'exit',rc,dict(c)); print('   ',kind)
    for l in out.split('\n'):
        if l.startswith(('VIOLATION','proof obligation')): print('   ',l[:200])
sh('git checkout 4e7ecc8 -- . && git status --short')
