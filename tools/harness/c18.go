package main

import (
	"github.com/google/safehtml"
)

func realIdentConst(v string) string {
	return guard(func() string { return okHex(safehtml.VerifIdentifierFromConstant(v).String()) })
}

func realIdentPrefix(p, v string) string {
	return guard(func() string { return okHex(safehtml.VerifIdentifierFromConstantPrefix(p, v).String()) })
}

func init() {
	replayers["ident.const"] = func(a []string) string { return realIdentConst(a[0]) }
	replayers["ident.prefix"] = func(a []string) string { return realIdentPrefix(a[0], a[1]) }
	generators["C18"] = genC18
}

// hostile pieces for identifier-like strings
var identPieces = []string{
	"a", "Z", "q", "0", "9", "-", "_", "\n", "\r", "\x00", " ", "\t", ".", ":", "é", "ß", "Ω", "٣", "́", "‍",
	"\xff", "\xc3", "\xe2\x82", "\xed\xa0\x80", "\xc0\xaf", "Ａ", "１", "ſ", "K", "$",
}

func genC18(c *Ctx) {
	c.stats.Rule = "ops ident.const / ident.prefix; all byte strings of length ≤1 (quick) or ≤2 (thorough) as value and as prefix, " +
		"plus seeded strings over identifier bytes and hostile pieces (newline, NUL, non-ASCII letters/digits, combining marks, invalid UTF-8). " +
		"Non-trivial: the value contains at least one identifier byte [-_A-Za-z0-9] (so acceptance depends on the other bytes) or the call returns."
	nontrivial := func(v, res string) bool {
		if res != "panic" {
			return true
		}
		for i := 0; i < len(v); i++ {
			b := v[i]
			if b == '-' || b == '_' || (b|32 >= 'a' && b|32 <= 'z') || (b >= '0' && b <= '9') {
				return true
			}
		}
		return false
	}
	do := func(p, v, class string) {
		r := realIdentConst(v)
		c.emit("ident.const", []string{v}, r, nontrivial(v, r), class)
		r2 := realIdentPrefix(p, v)
		c.emit("ident.prefix", []string{p, v}, r2, nontrivial(v, r2), class)
		r3 := realIdentPrefix(v, p)
		c.emit("ident.prefix", []string{v, p}, r3, nontrivial(v, r3), class)
	}
	// exhaustive short strings
	do("pre", "", "len0")
	for a := 0; a < 256; a++ {
		do("pre", string([]byte{byte(a)}), "len1")
	}
	if c.thorough {
		for a := 0; a < 256; a++ {
			for b := 0; b < 256; b++ {
				do("p", string([]byte{byte(a), byte(b)}), "len2")
			}
		}
		c.stats.Exhaustive = true
		c.stats.ExhaustiveWhat = "all byte strings of length ≤ 2 as value, as constant and as prefix"
	} else {
		for i := 0; i < 2000; i++ {
			do("p", string([]byte{byte(c.rng.Intn(256)), byte(c.rng.Intn(256))}), "len2-sample")
		}
	}
	prefixes := []string{"pre", "a", "", "9", "a b", "x-", "é", "a\n"}
	for i := 0; i < c.n(3000, 60000); i++ {
		v := c.randFrom(identPieces, 8)
		do(pick(c, prefixes), v, "seeded")
	}
}
