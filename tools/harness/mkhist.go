package main

import (
	"bufio"
	"fmt"
	"os"
	"strings"
)

// mkhist: developer tool. Reads a readable history script and prints the `tmpl.hist.<id>` op line.
//
//	new 0 root
//	parse 0 <template text to end of line>
//	exec 0 <data wire, e.g.  m { 58 s 61 }  — keys hex>
//	exect 0 name <data wire> | exechtml | execthtml | assocnew 0 name 1 | lookup 0 name 1 | clone 0 1 | templates 0 | csp 0
func mkhist(opName, file string) {
	f, err := os.Open(file)
	if err != nil {
		fmt.Fprintln(os.Stderr, err)
		os.Exit(2)
	}
	defer f.Close()
	hb := newHistBuilder()
	sc := bufio.NewScanner(f)
	sc.Buffer(make([]byte, 1<<20), 1<<26)
	num := func(s string) int { var n int; fmt.Sscan(s, &n); return n }
	for sc.Scan() {
		line := strings.TrimRight(sc.Text(), "\r")
		if strings.TrimSpace(line) == "" || strings.HasPrefix(line, "#") {
			continue
		}
		f := strings.SplitN(line, " ", 3)
		var st Step
		switch f[0] {
		case "new":
			st = Step{Op: "new", H: num(f[1]), Name: f[2]}
		case "parse":
			st = Step{Op: "parse", H: num(f[1]), Text: f[2]}
		case "exec", "exechtml":
			v, _, err := parseValWire(strings.Fields(f[2]))
			if err != nil {
				panic(err)
			}
			st = Step{Op: f[0], H: num(f[1]), Data: v}
		case "exect", "execthtml":
			g := strings.SplitN(f[2], " ", 2)
			v, _, err := parseValWire(strings.Fields(g[1]))
			if err != nil {
				panic(err)
			}
			st = Step{Op: f[0], H: num(f[1]), Name: g[0], Data: v}
		case "assocnew", "lookup":
			g := strings.Fields(f[2])
			st = Step{Op: f[0], H: num(f[1]), Name: g[0], H2: num(g[1])}
		case "clone":
			st = Step{Op: "clone", H: num(f[1]), H2: num(f[2])}
		case "templates", "csp":
			st = Step{Op: f[0], H: num(f[1])}
		default:
			panic("bad line " + line)
		}
		if hb.add(st) == "" {
			panic("cannot serialise " + line)
		}
	}
	fmt.Println(opName + " " + hxs(hb.hist()))
	fmt.Fprintln(os.Stderr, hb.result())
}
