package main

import (
	"go/ast"
	"go/parser"
	"go/token"
	"os"
	"sort"
	"strconv"
	"strings"

	"github.com/google/safehtml/template"
)

func init() {
	generators["C04"] = genC04
	replayers["pol.attr"] = func(a []string) string { return realPolAttr(a[0], a[1], a[2]) }
	replayers["pol.elem"] = func(a []string) string { return realPolElem(a[0]) }
	replayers["pol.probe"] = func(a []string) string { return lastOf(runLinesStr(a[6])) }
}

func realPolAttr(e, a, rel string) string {
	return guard(func() string {
		n, err := template.VerifSanitizationContextForAttrVal(e, a, rel)
		if err != nil {
			return "err"
		}
		return "ok " + n
	})
}

func realPolElem(e string) string {
	return guard(func() string {
		n, err := template.VerifSanitizationContextForElementContent(e)
		if err != nil {
			return "err"
		}
		return "ok " + n
	})
}

func runLinesStr(hist string) []string {
	var lines []string
	for _, l := range strings.Split(hist, "\n") {
		if strings.TrimSpace(l) != "" {
			lines = append(lines, l)
		}
	}
	return runLines(lines)
}

func lastOf(r []string) string {
	if len(r) == 0 {
		return "bad"
	}
	return r[len(r)-1]
}

// sourceNames: every string literal of template/sanitizers.go of the repo under test that looks like a
// name — a superset of all table keys, so that new or changed rows are always probed.
func sourceNames() []string {
	repo := os.Getenv("VERIF_REPO")
	if repo == "" {
		repo = "/repo"
	}
	fset := token.NewFileSet()
	f, err := parser.ParseFile(fset, repo+"/template/sanitizers.go", nil, 0)
	if err != nil {
		return nil
	}
	seen := map[string]bool{}
	ast.Inspect(f, func(n ast.Node) bool {
		if bl, ok := n.(*ast.BasicLit); ok && bl.Kind == token.STRING {
			if s, err := strconv.Unquote(bl.Value); err == nil && len(s) > 0 && len(s) < 40 && !strings.ContainsAny(s, " %[]\"") {
				seen[s] = true
			}
		}
		return true
	})
	var out []string
	for s := range seen {
		out = append(out, s)
	}
	sort.Strings(out)
	return out
}

var probeElems = []string{"", "a", "A", "svg", "math", "object", "embed", "applet", "base", "meta", "iframe", "frame", "script", "style", "link", "LINK",
	"template", "noscript", "xmp", "plaintext", "listing", "marquee", "blink", "x-custom", "my:elem", "foreignobject", "animate", "set", "use", "image",
	"isindex", "keygen", "menuitem", "portal", "param", "track", "col", "body", "html", "head", "title", "textarea", "select", "button", "input", "form", "img", "video", "audio", "source"}
var probeAttrs = []string{"", "href", "HREF", "src", "srcdoc", "srcset", "style", "onclick", "onerror", "onload", "onmouseover", "ONCLICK", "on", "formaction", "action",
	"data", "data-", "data-x", "data-X", "data--", "data-_", "data-1", "data-x\n", "data-é", "aria-label", "aria-unknown", "xlink:href", "xml:base", "xmlns", "is", "ping",
	"background", "codebase", "classid", "manifest", "poster", "cite", "longdesc", "usemap", "profile", "icon", "dynsrc", "lowsrc", "autofocus", "unknown", "id", "name", "class",
	"title", "value", "type", "rel", "target", "dir", "loading", "async", "integrity", "nonce", "content", "http-equiv", "sandbox", "allow", "csp", "referrerpolicy", "download"}
var probeRels = []string{"", "stylesheet", "icon", "alternate", "alternate stylesheet", "stylesheet alternate", "STYLESHEET", "Icon", "icon\tstylesheet", "preload", "import", "manifest",
	"next x", " icon ", "icon\fstylesheet", "unknown", "author help"}

func genC04(c *Ctx) {
	c.stats.Rule = "policy function probed directly (pol.attr / pol.elem through the verif-tag wrappers) for every name found in template/sanitizers.go ∪ probe names (obsolete, SVG/MathML, custom, malformed, mixed case, on*, aria-*, data-* edge spellings) × rel values; and black box through real templates (pol.probe: <E A=\"{{.}}\">, <E A='{{.}}'>, <E A={{.}}>, <E {{.}}>, <{{.}}>, <E>{{.}}</E>) with probe values of every type. Non-trivial: the name pair is known to some table or is a data-* spelling, or the template was accepted."
	names := sourceNames()
	elems := append(append([]string{}, probeElems...), names...)
	attrs := append(append([]string{}, probeAttrs...), names...)
	// 1. policy function: full cross product in the thorough tier, sampled in quick
	nt := func(r string) bool { return r != "err" }
	if c.thorough {
		for _, e := range elems {
			for _, a := range attrs {
				r := realPolAttr(e, a, "")
				c.emit("pol.attr", []string{e, a, ""}, r, nt(r), "attr")
			}
		}
		c.stats.Exhaustive = true
		c.stats.ExhaustiveWhat = "pol.attr over (source names ∪ probe names)² with empty rel; link/href × all probe rels; pol.elem over all names"
	} else {
		for _, a := range attrs {
			for i := 0; i < 6; i++ {
				e := pick(c, elems)
				r := realPolAttr(e, a, "")
				c.emit("pol.attr", []string{e, a, ""}, r, nt(r), "attr")
			}
		}
		for _, e := range elems {
			for i := 0; i < 6; i++ {
				a := pick(c, attrs)
				r := realPolAttr(e, a, "")
				c.emit("pol.attr", []string{e, a, ""}, r, nt(r), "attr")
			}
		}
	}
	for _, e := range elems {
		r := realPolElem(e)
		c.emit("pol.elem", []string{e}, r, nt(r), "elem")
	}
	for _, rel := range probeRels {
		for _, e := range []string{"link", "a", "LINK", "area"} {
			for _, a := range []string{"href", "src", "rel"} {
				r := realPolAttr(e, a, rel)
				c.emit("pol.attr", []string{e, a, rel}, r, true, "rel")
			}
		}
	}
	for _, n := range names {
		// the listed word itself, and near misses that merely contain it or are contained in it
		for _, rel := range []string{n, "x" + n, n + "x", "module" + n, "no" + n, "apple-touch-" + n, n + "-mask", n[:len(n)-1], " " + n + " ", n + "\tstylesheet", "stylesheet " + n, n + "\u00a0stylesheet"} {
			r := realPolAttr("link", "href", rel)
			c.emit("pol.attr", []string{"link", "href", rel}, r, true, "rel")
		}
	}
	// 2. black box through real templates
	forms := []string{"dq", "sq", "unq", "attrname", "tagname", "content", "content", "selfclose", "selfclose-attr", "cond-glued", "cond-glued", "loop-names", "break-names"}
	vals := []*Val{{Kind: "s", S: "x"}, {Kind: "s", S: "javascript:alert(1)"}, {Kind: "s", S: "ltr"}, {Kind: "s", S: "async"}, {Kind: "s", S: "_blank"}, {Kind: "s", S: "lazy"},
		{Kind: "t", Tag: "H", S: "<b>x</b>"}, {Kind: "t", Tag: "S", S: "alert(1)"}, {Kind: "t", Tag: "Y", S: "color:red;"}, {Kind: "t", Tag: "E", S: "p{}"},
		{Kind: "t", Tag: "U", S: "http://x/"}, {Kind: "t", Tag: "R", S: "https://x/a.js"}, {Kind: "t", Tag: "I", S: "id1"}}
	nprobe := c.n(1500, 60000)
	for i := 0; i < nprobe; i++ {
		form := pick(c, forms)
		e := pick(c, elems)
		if e == "" {
			e = "div"
		}
		a := pick(c, attrs)
		if a == "" {
			a = "title"
		}
		if strings.ContainsAny(e+a, "\n \t\"'<>=/") || !(e[0]|32 >= 'a' && e[0]|32 <= 'z') {
			continue // not a tag at all for an HTML tokenizer: `<` followed by a non-letter is text
		}
		rel := ""
		v := pick(c, vals)
		var text string
		switch form {
		case "dq":
			text = "<" + e + " " + a + "=\"{{.}}\">"
		case "sq":
			text = "<" + e + " " + a + "='{{.}}'>"
		case "unq":
			text = "<" + e + " " + a + "={{.}}>"
		case "attrname":
			text = "<" + e + " {{.}}>"
		case "tagname":
			text = "<{{.}}>"
		case "content":
			text = "<" + e + ">{{.}}</" + e + ">"
		case "selfclose":
			// the solidus does not close a non-void HTML element: this is still the content of <e>
			text = "<" + e + pick(c, []string{"/", " /", "\t/", " / "}) + ">{{.}}</" + e + ">"
		case "selfclose-attr":
			text = "<" + e + " class=\"w\"" + pick(c, []string{"/", " /"}) + ">{{.}}</" + e + ">"
		case "loop-names":
			// the loop body ends in the context it started in, but the element open at the action differs per iteration
			text = "<img {{range .}}" + a + "=\"{{.}}\"{{if .}}><" + e + " {{else}}><img {{end}}{{end}}>"
		case "break-names":
			text = "<img {{range .}}><" + e + " {{if .}}{{break}}{{end}}title=\"t\"></" + e + "><img {{end}}" + a + "=\"{{.}}\">"
		case "cond-glued":
			// a conditional valueless attribute whose branch ends in white space, the next attribute name glued to {{end}}
			text = "<" + e + " {{if .}}" + pick(c, []string{"hidden", "disabled", "data-x", "checked"}) + " {{end}}" + a + "=\"{{.}}\">"
		}
		if strings.ToLower(e) == "link" && c.rng.Intn(2) == 0 && (form == "dq" || form == "sq") {
			rel = pick(c, probeRels)
			if strings.ContainsAny(rel, "\"") {
				rel = "icon"
			}
			text = "<" + e + " rel=\"" + rel + "\" " + a + "=\"{{.}}\">"
		}
		hb := newHistBuilder()
		hb.add(Step{Op: "new", H: 0, Name: "root"})
		if hb.add(Step{Op: "parse", H: 0, Text: text}) == "" {
			continue
		}
		data := v
		if form == "loop-names" || form == "break-names" {
			data = &Val{Kind: "l", L: []*Val{v, v}}
		}
		r := hb.add(Step{Op: "exec", H: 0, Data: data})
		kind := "s"
		if v.Kind == "t" {
			kind = v.Tag
		}
		if form == "break-names" {
			kind = "list" // the action after the loop prints the list itself: never a safe type
		}
		c.emit("pol.probe", []string{form, e, a, rel, kind, v.S, hb.hist()}, r, strings.HasPrefix(r, "ok"), "probe-"+form)
	}
}
