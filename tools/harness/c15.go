package main

import (
	"encoding/hex"
	"reflect"
	"strings"

	"github.com/google/safehtml"
)

// plain fields in the documented (struct) order; must agree with Oracle.C15.plainNames
var c15Plain = []string{"Display", "BackgroundColor", "BackgroundPosition", "BackgroundRepeat", "BackgroundSize",
	"Color", "Height", "Width", "Left", "Right", "Top", "Bottom", "FontWeight", "Padding", "ZIndex"}

func encList(xs []string) string {
	if len(xs) == 0 {
		return ""
	}
	var q []string
	for _, x := range xs {
		if x == "" {
			q = append(q, "-")
		} else {
			q = append(q, hex.EncodeToString([]byte(x)))
		}
	}
	return strings.Join(q, ",")
}

func decList(a string) []string {
	if a == "" {
		return nil
	}
	var out []string
	for _, h := range strings.Split(a, ",") {
		if h == "-" {
			out = append(out, "")
			continue
		}
		b, _ := hex.DecodeString(h)
		out = append(out, string(b))
	}
	return out
}

func realStyleProps(args []string) string {
	if len(args) != 2+len(c15Plain) {
		return "bad-args"
	}
	return guard(func() string {
		var p safehtml.StyleProperties
		p.BackgroundImageURLs = decList(args[0])
		p.FontFamily = decList(args[1])
		v := reflect.ValueOf(&p).Elem()
		for i, n := range c15Plain {
			v.FieldByName(n).SetString(args[2+i])
		}
		return okHex(safehtml.StyleFromProperties(p).String())
	})
}

func realStyleConst(s string) string {
	return guard(func() string { return okHex(safehtml.VerifStyleFromConstant(s).String()) })
}

func init() {
	replayers["style.props"] = realStyleProps
	replayers["style.const"] = func(a []string) string { return realStyleConst(a[0]) }
	generators["C15"] = genC15
}

// hostile pieces for CSS values
var cssHostile = []string{
	";", ":", "{", "}", "(", ")", "\"", "'", "\\", "/", "*", "@", "!", "<", ">", ",", "\n", "\r", "\f", "\t", " ",
	"\x00", "\x01", "\x1f", "\x7f", "\xc2\x80", "\xc2\x9f", "\u2028", "\u2029", "é", "Ω", "\xff", "\xc3", "\xed\xa0\x80",
	"/*", "*/", "//", "**", "\\22", "\\\"", "\\\n", "\\a ", "url(", "URL(", "u\\72l(", "expression(", "-->", "<!--", "</style>",
	"!important", "&", "#", "%", "+", "-", ".", "_", "=", "[", "]", "`", "$", "|", "~", "^", "?",
}

var cssBenign = []string{"red", "1px", "10%", "#fff", "a", "Z", "0", "9", "e", "1e3", "-x", "--y", "serif", "Arial", "sans-serif",
	"http://x/y", "https://a.b/c?d=e#f", "javascript:alert(1)", "JaVaScRiPt:x", "data:x", "/rel", "a b", "inherit"}

func (c *Ctx) cssValue() string {
	n := 1 + c.rng.Intn(4)
	var b strings.Builder
	for i := 0; i < n; i++ {
		if c.rng.Intn(3) == 0 {
			b.WriteString(pick(c, cssBenign))
		} else {
			b.WriteString(pick(c, cssHostile))
		}
	}
	return b.String()
}

func isHostileCSS(s string) bool {
	for i := 0; i < len(s); i++ {
		b := s[i]
		if !((b|32 >= 'a' && b|32 <= 'z') || (b >= '0' && b <= '9')) {
			return true
		}
	}
	return false
}

func genC15(c *Ctx) {
	c.stats.Rule = "op style.props (two list fields + 15 plain fields); every field × every hostile piece alone, wrapped and in ordered pairs; " +
		"list fields of length 0–3; seeded combinations over all fields; thorough: all byte strings of length ≤ 2 in one enum and one regular field and " +
		"all single bytes in every field. Non-trivial: some field is non-empty and contains a byte outside [A-Za-z0-9] (so the result depends on filtering/escaping)."
	emit := func(urls, fonts []string, plain map[string]string, class string) {
		args := []string{encList(urls), encList(fonts)}
		nt := false
		for _, u := range urls {
			nt = nt || isHostileCSS(u)
		}
		for _, u := range fonts {
			nt = nt || isHostileCSS(u)
		}
		for _, n := range c15Plain {
			args = append(args, plain[n])
			nt = nt || isHostileCSS(plain[n])
		}
		c.emit("style.props", args, realStyleProps(args), nt, class)
	}
	single := func(field int, v, class string) { // field: 0 urls, 1 fonts, 2.. plain
		switch field {
		case 0:
			emit([]string{v}, nil, nil, class)
		case 1:
			emit(nil, []string{v}, nil, class)
		default:
			emit(nil, nil, map[string]string{c15Plain[field-2]: v}, class)
		}
	}
	// long values: any cap, window or chunking of the escaped text must not cut an escape sequence
	for _, n := range []int{255, 256, 511, 512, 1019, 1020, 1021, 1022, 1023, 1024, 1025, 1026, 1027, 2047, 2048, 4095, 4096} {
		for _, tail := range []string{"\\", "\"", "\n", "<", "\\\\", "'", "\x00"} {
			long := strings.Repeat("a", n) + tail
			emit(nil, []string{long}, map[string]string{"Color": "red", "Width": "1px"}, "long-font")
			emit(nil, []string{long, ";background-image:url(//evil.example/x);x:", long}, map[string]string{"Color": "red"}, "long-font")
			emit([]string{"https://x.example/" + long}, nil, map[string]string{"Color": "red"}, "long-url")
		}
	}
	nf := 2 + len(c15Plain)
	emit(nil, nil, nil, "empty")
	all := append(append([]string{}, cssHostile...), cssBenign...)
	// every field × every piece, alone and wrapped
	for f := 0; f < nf; f++ {
		for _, h := range all {
			single(f, h, "field×piece")
			single(f, "a"+h+"b", "field×piece-wrapped")
			single(f, "\""+h+"\"", "field×piece-quoted")
		}
	}
	// ordered pairs of pieces: all pairs on three representative fields, a sample on the others
	for f := 0; f < nf; f++ {
		full := f <= 3 || c.thorough
		for _, h1 := range cssHostile {
			for _, h2 := range cssHostile {
				if full || c.rng.Intn(12) == 0 {
					single(f, h1+h2, "field×pair")
				}
			}
		}
	}
	// list fields of length 0–3
	for i := 0; i < c.n(1500, 20000); i++ {
		mk := func() []string {
			n := c.rng.Intn(4)
			var xs []string
			for j := 0; j < n; j++ {
				if c.rng.Intn(6) == 0 {
					xs = append(xs, "")
				} else {
					xs = append(xs, c.cssValue())
				}
			}
			return xs
		}
		emit(mk(), mk(), nil, "lists-0-3")
	}
	// combinations over all fields
	for i := 0; i < c.n(1500, 20000); i++ {
		plain := map[string]string{}
		for _, n := range c15Plain {
			if c.rng.Intn(3) == 0 {
				plain[n] = c.cssValue()
			}
		}
		var urls, fonts []string
		for j := c.rng.Intn(3); j > 0; j-- {
			urls = append(urls, c.cssValue())
		}
		for j := c.rng.Intn(3); j > 0; j-- {
			fonts = append(fonts, c.cssValue())
		}
		emit(urls, fonts, plain, "combination")
	}
	// exhaustive short byte strings
	for f := 0; f < nf; f++ {
		for a := 0; a < 256; a++ {
			single(f, string([]byte{byte(a)}), "len1")
		}
	}
	if c.thorough {
		for _, f := range []int{2, 7, 0, 1} {
			for a := 0; a < 256; a++ {
				for b := 0; b < 256; b++ {
					if f < 2 && !(a < 128 && b < 128) {
						continue
					}
					single(f, string([]byte{byte(a), byte(b)}), "len2")
				}
			}
		}
		c.stats.Exhaustive = true
		c.stats.ExhaustiveWhat = "all byte strings of length ≤ 2 in Display and Color, all ASCII strings of length ≤ 2 as single URL / font name, all single bytes in every field"
	}
	// StyleFromConstant's checks
	for _, s := range []string{"", ";", ":", ":;", "a:b;", "a:b", "a<:b;", "a>:b;", "ab;", "width: 1em;height:1em;", "x:}y{z:w;"} {
		c.emit("style.const", []string{s}, realStyleConst(s), true, "const")
	}
}
