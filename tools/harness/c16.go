package main

import (
	"strings"

	"github.com/google/safehtml"
	"github.com/google/safehtml/uncheckedconversions"
)

func realCSSRule(sel, style string) string {
	return guard(func() string {
		ss, err := safehtml.CSSRule(sel, uncheckedconversions.StyleFromStringKnownToSatisfyTypeContract(style))
		if err != nil {
			return "err"
		}
		return okHex(ss.String())
	})
}

func init() {
	replayers["css.rule"] = func(a []string) string { return realCSSRule(a[0], a[1]) }
	generators["C16"] = genC16
}

var selPieces = []string{
	"a", "div", "x1", "-", "_", "0", "9", "e", "#", ".", ":", "*", " ", ",", ">", "+", "~", "[", "]", "(", ")", "=", "^", "$", "|",
	"\"", "'", "\\", "url(", "URL(", "uRl(", "u\\72l(", "url", "not(", "nth-child(", "-url(", "aurl(", "#url(", ".url(", "1url(", "url( ", "url(  \"",
	"\n", "\f", "\r", "\t", "\r\n", "\x00", "/*", "*/", "/", "{", "}", ";", "@", "@x", "<", "<!--", "-->", "--", "->", "!", "%", "&", "é", "\xff",
	"\"a\"", "'b'", "\"<\"", "'</style>'", "\"a<b\"", "\"{\"", "'}'", "\";\"", "\"\\\"\"", "'\\''", "\"\\\n\"", "\"\\\r\"", "\"\\\r\n\"", "\"\\\f\"", "\"\n\"", "\"\\41 \"", "\"\\41\n\"", "\"(\"", "\"[\"", "\"/*\"", "'*/'",
	"\"\\\\\"", "\"\\\"", "\"x", "'y", "\"url(\"", "\"\x00\"", "\"é\"", "\"\xff\"", "\"\\\xff\"", "\")\"", "1e", "1e+", "+.5", "-1", "u+1",
}

// short alphabet for the exhaustive part
var selCore = []string{"\"<\"", "\"\"", "a", "-", " ", "[", "]", "(", ")", "\"", "'", "\\", "url(", "\n", "\f", "{", "}", ";", "@", "<", "/*", ">", "\"{\"", "'}'", "x\"){}y{", "1", "#", ".", "=", "u", "r", "l"}

func genC16(c *Ctx) {
	c.stats.Rule = "op css.rule (selector, style): selectors assembled from a grammar of pieces (identifiers, combinators, brackets, quotes, complete and broken strings, " +
		"url( and other function-like tokens in several spellings, escapes, newlines/FF/CR/NUL, comment markers, braces, at-signs, CDO/CDC) × styles obtainable from the checked " +
		"constructors (StyleFromProperties outputs; constants passing StyleFromConstant's checks, both well-formed and not). thorough: all selectors of ≤ 3 core pieces. " +
		"Non-trivial: CSSRule accepted the selector (the property speaks about the accepted ones) or the selector contains a quote, bracket or url( piece."
	props := []safehtml.StyleProperties{
		{},
		{Color: "red"},
		{BackgroundImageURLs: []string{"http://x/a\"b)", "javascript:x"}, FontFamily: []string{"serif", "a b", "\"q\\\""}, Display: "none", Width: "1px;x:y"},
		{Color: "a,b", Padding: "1px 2px", ZIndex: "-1"},
	}
	var styles []struct{ s, class string }
	for _, p := range props {
		styles = append(styles, struct{ s, class string }{safehtml.StyleFromProperties(p).String(), "style=fromProperties"})
	}
	for _, s := range []string{"color:red;", "width: 1em;height: 1em;", "background:url('http://url');", "content:\"}\";", "a:(b;c);", "a:b !important;",
		"background:url(x y);", "a:/* c */b;"} {
		styles = append(styles, struct{ s, class string }{s, "style=constant-wellformed"})
	}
	for _, s := range []string{"x:}y{z:w;", "x:\"unterminated;", "x:(;", "x:/*;", "x:url(;", "x:\\;"} {
		styles = append(styles, struct{ s, class string }{s, "style=constant-illformed"})
	}
	do := func(sel string, si int, class string) {
		st := styles[si%len(styles)]
		r := realCSSRule(sel, st.s)
		nt := r != "err" || strings.ContainsAny(sel, "\"'[]()") || strings.Contains(strings.ToLower(sel), "url(")
		c.emit("css.rule", []string{sel, st.s}, r, nt, class+" "+st.class)
	}
	// every piece alone and wrapped, × every style
	for _, p := range selPieces {
		for si := range styles {
			do(p, si, "piece")
			do("a"+p+"b", si, "piece-wrapped")
			do("a["+p+"]", si, "piece-in-brackets")
			do("a:not("+p+")", si, "piece-in-function")
		}
	}
	// an escaped backslash at the end of a string, followed by every kind of character: whatever a validator does with
	// escapes, the string ends at the next quote
	for _, x := range []string{":", "/", ".", ",", ";", "!", "-", "_", " ", "0", "a", "n", "\\", "(", ")", "[", "]", "{", "}", "*", "#", "@", "\xc3\xa9"} {
		for _, q := range []string{"\"", "'"} {
			for si := range styles {
				do("[a="+q+"\\\\"+x+q+"]{}input[value^=a]{background:url(//evil/a)}x[b="+q+"]", si, "escaped-backslash-in-string")
				do("[a="+q+"x\\\\"+x+q+"]{}@import "+q+"//evil/x.css"+q+";y[b="+q+"]", si, "escaped-backslash-in-string")
				do(q+"\\\\"+x+q+"{"+q, si, "escaped-backslash-in-string")
				do("[a="+q+"\\"+x+q+"]", si, "escaped-char-in-string")
			}
		}
	}
	// the design-phase witness and relatives
	for _, s := range []string{
		"url(x\"){}input[value^=a]{background:url(//evil/a)}z{\"y)",
		"URL(x'){}*{color:red}z{'y)", "a url( \"){}b{\" )", "url(\"){}b{\")", "a:not(url(x\"){}b{\"))", "url(x\"){}b{\"", "-url(x\"){}b{\")", "#url(x\"){}b{\")",
		// an (empty) string between an identifier and url(: removing strings must not glue them together
		"a\"\"url(x\"){}input[value^=a]{background:url(//evil/a)}z{\"y)", "a''url(x'){}b{'y)", "-\"\"url(x\"){}b{\")", "_\"q\"URL(x\"){}b{\")",
		"0\"\"url(x\"){}b{\")", "a\"\"\"\"url(x\"){}b{\")", "\\61\"\"url(x\"){}b{\")", "é\"\"url(x\"){}b{\")",
	} {
		for si := range styles {
			do(s, si, "url-paren-witness")
		}
	}
	// exhaustive over the core alphabet
	depth := 2
	if c.thorough {
		depth = 3
	}
	var rec func(prefix string, d int)
	n := 0
	rec = func(prefix string, d int) {
		do(prefix, n, "core-exhaustive")
		n++
		if d == 0 {
			return
		}
		for _, p := range selCore {
			rec(prefix+p, d-1)
		}
	}
	rec("", depth)
	if c.thorough {
		c.stats.Exhaustive = true
		c.stats.ExhaustiveWhat = "all selectors made of ≤ 3 pieces of a 32-piece core alphabet (quotes, the empty string, brackets, url(, braces, newlines, comment start, …), styles cycling"
	}
	// every bracket word over ( ) [ ] up to length 4 (quick) / 7 (thorough): balanced by count but interleaved etc.
	var words func(prefix string, n int)
	words = func(prefix string, n int) {
		do(prefix, 0, "brackets")
		do("a"+prefix, 1, "brackets")
		if n == 0 {
			return
		}
		for _, b := range []string{"(", ")", "[", "]"} {
			words(prefix+b, n-1)
		}
	}
	words("", c.n(4, 7))
	// deep nesting: balanced and off-by-one words at every depth around the machine word sizes
	for _, d := range []int{7, 8, 9, 15, 16, 17, 31, 32, 33, 63, 64, 65, 66, 127, 128, 129, 255, 256, 257} {
		for _, outer := range []string{"[", "("} {
			for _, inner := range []string{"[", "("} {
				cl := map[string]string{"[": "]", "(": ")"}
				open := outer + strings.Repeat(inner, d-1)
				do(open+strings.Repeat(cl[inner], d-1)+cl[outer], d, "deep-balanced")
				do(open+strings.Repeat(cl[inner], d), d, "deep-wrong-last-closer")
				do(open+strings.Repeat(cl[inner], d-1)+cl[inner], d, "deep-wrong-last-closer")
				other := map[string]string{"[": ")", "(": "]"}
				do(open+strings.Repeat(cl[inner], d-1)+other[outer], d, "deep-wrong-last-closer")
				do("a"+open+"b"+strings.Repeat(cl[inner], d-1)+cl[outer], d, "deep-balanced")
			}
		}
	}
	// a quote followed by each CSS newline (LF, FF, CR, CRLF) before the closing quote: a tokenizer ends the string as
	// a bad-string at the newline, so what follows is outside any string
	for _, q := range []string{"\"", "'"} {
		for _, nl := range []string{"\n", "\f", "\r", "\r\n", "\\\n", "\\\f"} {
			for _, payload := range []string{"]{}input[value^=a]{background:url(//evil/a)}z[b=", "]{}*{x:y}z[b=", "){}a{}:not(", ","} {
				for _, open := range []string{"[a=", ":not(", ""} {
					for si := 0; si < 2; si++ {
						do(open+q+nl+payload+q+"]", si, "string-newline")
						do(open+q+"x"+nl+payload+q+")", si, "string-newline")
						do(open+q+nl+payload+q, si, "string-newline")
					}
				}
			}
		}
	}
	// seeded grammar
	for i := 0; i < c.n(6000, 120000); i++ {
		k := 1 + c.rng.Intn(7)
		var b strings.Builder
		for j := 0; j < k; j++ {
			b.WriteString(pick(c, selPieces))
		}
		do(b.String(), c.rng.Intn(len(styles)), "seeded")
	}
}
