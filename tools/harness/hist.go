package main

import (
	"fmt"
	"strings"
)

func init() {
	generators["HIST"] = func(c *Ctx) { genHist(c, "") }
	for _, id := range []string{"C05", "C06", "C07", "C08", "C09"} {
		id := id
		generators[id] = func(c *Ctx) {
			genHist(c, id)
			if id == "C08" {
				genFiles(c)
			}
		}
		replayers["tmpl.hist."+id] = func(a []string) string { return runHistoryReal(a[0]) }
	}
}

// extra bodies exercising every node kind the installed parser accepts (C08)
var nodeKindBodies = []string{
	"{{range .L}}{{break}}{{end}}", "{{range .L}}{{if .}}{{continue}}{{end}}x{{end}}", "{{/* comment */}}text",
	"{{with .M}}a{{else with .X}}b{{end}}", "{{if .C}}a{{else if .D}}b{{else}}c{{end}}", "{{$x := .X}}<p>{{$x}}</p>",
	"{{range $i, $e := .L}}{{$e}}{{end}}", "{{block \"blk\" .}}<i>{{.X}}</i>{{end}}", "{{.X | print}}", "{{print .X .Y}}",
	"{{.X | html}}", "{{html .X}}", "{{.X | urlquery}}", "<a href=\"{{.X | urlquery}}\">", "{{len .L}}", "{{index .L 0}}",
	"{{template \"h0\"}}", "{{- .X -}}", "{{nil}}", "{{1}}", "{{\"str\"}}", "{{true}}", "{{.M.X.Y}}", "{{with $y := .M}}{{$y.X}}{{end}}",
	"<script>`${`{{.X}}`}`</script>", "<script>var a = `{{.X}}`;</script>", "{{define \"inner\"}}x{{end}}",
}

// failing / fine member bodies for history tests
var memberBodies = []string{
	"<p>{{.X}}</p>", "<a href=\"{{.X}}\">l</a>", "{{template \"h0\" .}}", "<b>{{template \"h1\" .}}</b>", "<a href=\"{{template \"h0\" .}}\">",
	"<a href=\"", "<script>{{.X}}</script>", "{{if .C}}<a href=\"{{else}}x{{end}}", "{{range .L}}<a {{end}}", "<a href=\"{{range .L}}{{.}}javascript:{{end}}\">go</a>", "<a href=\"{{range .L}}{{.}}/x?y={{end}}\">go</a>", "<div {{.X}}>", "<a href=x{{.X}}>",
	"{{template \"nope\" .}}", "<object>{{.X}}</object>", "text only", "", "{{.Y}}{{template \"h2\" .}}", "<p title='{{template \"h0\" .}}'>x</p>",
	"<textarea>{{.X}}</textarea>", "<a href=\"/x?{{template \"h0\" .}}\">", "<script>{{template \"h0\" .}}</script>", "{{template \"m1\" .}}",
	"{{with .M}}{{template \"h0\" .}}{{end}}", "<style>{{.Z}}</style>",
}

// texts that matter to CSPCompatible sets: javascript: URIs (any case, after non-ASCII text, at either end of a text
// node), event handler attributes, and near misses
var cspBodies = []string{
	"<a href=\"javascript:{{.X}}\">x</a>", "<p>Caf\xe9</p><a href=\"javascript:{{.X}}\">x</a>", "<p>\xc8\xba</p><a href=\"javascript:{{.X}}\">x</a>",
	"<p>Caf\xe9</p><a href=\"javascript:alert(1)\">x</a>{{.X}}", "<a href=\"JavaScript:{{.X}}\">x</a>", "<p>\xc4\xb0</p><a href=\"JAVASCRIPT:{{.X}}\">x</a>",
	"{{.X}}javascript:", "javascript:{{.X}}", "<b onclick=\"f({{.X}})\">", "<b ONCLICK='{{.X}}'>", "<b on=\"{{.X}}\">", "<b onx={{.X}}>", "<p>java\xe9script:{{.X}}</p>",
	"<a href=\"java&#115;cript:{{.X}}\">", "<a href=\"java\tscript:{{.X}}\">", "<script>javascript:{{.X}}</script>", "<!-- javascript: -->{{.X}}",
	"<a title=\"javascript:{{.X}}\">", "\xe9\xe9\xe9\xe9javascript:", "\xc8\xba\xc8\xba\xc8\xbajavascript:x", "<a href=\"{{.X}}javascript:\">",
}

// genHIST: API histories over a set (and its clones): New, Parse*, assoc New, Lookup, Templates, Clone, Execute*.
// ---- directed histories: one helper ("cell") used by callers in different contexts, executed in every order ----

var cellBodies = []string{
	"{{.X}}", "a < b {{.X}}", "<b>{{.X}}</b>", "<!-- c -->{{.X}}", "if (a < b) { f(); }", "x<y", "<!-- note -->literal",
	"{{if .C}}<i>{{else}}<b>{{end}}", "<a title=\"{{.X}}", "<a href=\"{{.X}}", "<script>", "{{.X}}\" title=\"y", "{{template \"cell\" .}}",
	"<a title=\"", "{{.X}}{{.Y}}", "<div {{.X}}>", "</title",
	// recursion through the helper itself or through a caller, ending in another context than it starts in
	"{{if .N}}{{template \"cell\" .N}}{{end}}{{.X}}<b ", "{{if .N}}{{template \"c0\" .N}}{{.X}}>{{end}}<b ", "{{if .N}}{{template \"cell\" .N}}{{end}}<a title=\"{{.X}}",
	"{{if .N}}{{template \"cell\" .N}}{{.X}}{{end}}", "{{.X}}{{if .N}}{{template \"c1\" .N}}{{end}}",
}

var callerBodies = []string{
	"<p>{{template \"cell\" .}}</p>", "<p title=\"{{template \"cell\" .}}\">x</p>", "<a href=\"/search?q={{template \"cell\" .}}\">l</a>",
	"<a href=\"{{template \"cell\" .}}\">l</a>", "<script>{{template \"cell\" .}}</script>", "<pre>{{template \"cell\" .}}</pre>",
	"{{template \"cell\" .}}\">x</a>", "<textarea>{{template \"cell\" .}}</textarea>", "<style>{{template \"cell\" .}}</style>",
	"<img alt='{{template \"cell\" .}}'>", "<b>{{template \"cell\" .}}</b>{{template \"cell\" .}}", "{{template \"cell\" .}}</script>{{template \"cell\" .}}{{.Y}}</script>",
	"<title>{{template \"cell\" .}}</title", "<link rel=\"stylesheet\" href=\"{{template \"cell\" .}}\">", "<link rel=\"icon\" href=\"{{template \"cell\" .}}\">",
	"<svg>{{template \"cell\" .}}</svg>", "{{if .C}}{{template \"cell\" .}}{{end}}",
	"{{template \"cell\" .}}", "{{template \"cell\" .}}>done", "{{template \"cell\" .}}\">x", "<!-- off: {{template \"cell\" .}} -->",
	// predefined escapers merged into the sanitizer chain, next to plain actions in the same contexts
	"<a href=\"{{.X | urlquery}}\">l</a>{{template \"cell\" .}}", "{{.X | html}}{{template \"cell\" .}}", "<a href=\"{{.X}}\">l</a><a href=\"{{.Y | urlquery}}\">m</a>",
	"<p>{{.X}}</p>{{.Y | html}}", "<a href=\"{{template \"cell\" .}}\">l</a><a href=\"{{.Y | urlquery}}\">m</a>", "<p title=\"{{.X | html}}\">{{template \"cell\" .}}</p>",
}

// directedHistory: define cell + three callers, then execute members in a random order with repetitions,
// optionally through a clone made before any execution.
func directedHistory(c *Ctx) *histBuilder {
	hb := newHistBuilder()
	hb.add(Step{Op: "new", H: 0, Name: "root"})
	callers := []string{pick(c, callerBodies), pick(c, callerBodies), pick(c, callerBodies)}
	cell := pick(c, cellBodies)
	cloneStatic := c.rng.Intn(7) == 0
	if cloneStatic {
		// a helper of static text that the escaper rewrites in place ('<' → &lt;, comments stripped), called at top level,
		// inside a script element and inside an attribute; executed through a set and its clones in every order
		cell = pick(c, []string{"x<y", "if (a < b) { f(); }", "<!-- note -->literal", "a <!-- c --> b < c"})
		callers = []string{"{{template \"cell\" .}}", "<script>{{template \"cell\" .}}</script>", pick(c, []string{"<p title=\"{{template \"cell\" .}}\">x</p>", "<textarea>{{template \"cell\" .}}</textarea>", "<b>{{template \"cell\" .}}</b>"})}
	}
	text := "root{{define \"cell\"}}" + cell + "{{end}}"
	for i, b := range callers {
		text += fmt.Sprintf("{{define \"c%d\"}}%s{{end}}", i, b)
	}
	if hb.add(Step{Op: "parse", H: 0, Text: text}) == "" {
		return nil
	}
	names := []string{"cell", "c0", "c1", "c2"}
	if c.rng.Intn(8) == 0 {
		// template names that look like the escaper's own mangled names, and a caller that reaches them in the error context
		odd := pick(c, []string{"x$htmltemplate_StateError", "cell$htmltemplate_StateAttr_DelimDoubleQuote_attrTitle_elementP", "cell$htmltemplate_StateText_elementB"})
		hb.add(Step{Op: "parse", H: 0, Text: "{{define \"" + odd + "\"}}hello{{.X}}{{end}}{{define \"c2\"}}A{{template \"nope\" .}}B{{template \"x\"}}C{{template \"cell\" .}}{{end}}"})
		names = append(names, odd, odd)
	}
	data := c.randData()
	useClone := c.rng.Intn(3) == 0
	if cloneStatic || !strings.Contains(text[:strings.Index(text, "{{define \"c0\"}}")], "{{.") && c.rng.Intn(2) == 0 {
		// a helper of static text only: clones must still get their own copy of its tree
		useClone = true
	}
	if useClone {
		hb.add(Step{Op: "clone", H: 0, H2: 1})
	}
	n := 2 + c.rng.Intn(4)
	if cloneStatic {
		if c.rng.Intn(2) == 0 {
			hb.add(Step{Op: "clone", H: 1, H2: 2}) // clone of the clone
		}
		n = 3 + c.rng.Intn(4)
	}
	for i := 0; i < n && !hb.dead; i++ {
		h := 0
		if cloneStatic && hb.bound(2) && c.rng.Intn(3) == 0 {
			hb.add(Step{Op: "exect", H: 2, Name: pick(c, names), Data: data})
			continue
		}
		if useClone && hb.bound(1) && c.rng.Intn(2) == 0 {
			h = 1
		}
		op := "exect"
		if c.rng.Intn(5) == 0 {
			op = "execthtml"
		}
		hb.add(Step{Op: op, H: h, Name: pick(c, names), Data: data})
		if c.rng.Intn(6) == 0 {
			hb.add(Step{Op: "parse", H: h, Text: "{{define \"cell\"}}changed{{end}}"})
		}
	}
	return hb
}

func genHist(c *Ctx, which string) {
	opName := "tmpl.hist"
	if which != "" {
		opName += "." + which
	}
	for i := 0; i < c.n(500, 8000); i++ {
		hb := directedHistory(c)
		if hb == nil {
			c.stats.Classes["unparsable"]++
			continue
		}
		r := hb.result()
		c.emit(opName, []string{hb.hist()}, r, true, "directed-"+histClass(r))
	}
	// deep chains of template calls (t0 -> t1 -> … -> leaf): executing a member in the middle first must not change what
	// the head gives. The model's analysis is cubic in the chain length, so the long chain runs in the thorough tier of C06 only (the model caps the execution depth at 2000).
	if which == "C06" || which == "C05" || which == "" {
		lens := []int{40, 260}
		if c.thorough && which == "C06" {
			lens = []int{40, 260, 1050}
		}
		for _, n := range lens {
			for li, leaf := range []string{"<b title=\"{{.X}}\">{{.Y}}</b>", "<a href=\"{{.X}}", "<b>{{.X}}</b>"} {
				if n > 1000 && li > 0 {
					break
				}
				var b strings.Builder
				b.WriteString("{{define \"leaf\"}}" + leaf + "{{end}}")
				for i := 0; i < n; i++ {
					next := fmt.Sprintf("t%d", i+1)
					if i == n-1 {
						next = "leaf"
					}
					fmt.Fprintf(&b, "{{define \"t%d\"}}<i id=\"n%d\">{{.X}}</i>{{template %q .}}{{end}}", i, i, next)
				}
				hb := newHistBuilder()
				hb.add(Step{Op: "new", H: 0, Name: "root"})
				if hb.add(Step{Op: "parse", H: 0, Text: b.String()}) == "" {
					continue
				}
				data := &Val{Kind: "m", Keys: []string{"X", "Y"}, M: map[string]*Val{"X": {Kind: "s", S: "a\"b<"}, "Y": {Kind: "s", S: "<x&y>"}}}
				hb.add(Step{Op: "exect", H: 0, Name: fmt.Sprintf("t%d", n/2), Data: data})
				hb.add(Step{Op: "exect", H: 0, Name: "t0", Data: data})
				if n < 1000 {
					hb.add(Step{Op: "exect", H: 0, Name: fmt.Sprintf("t%d", n-1), Data: data})
				}
				r := hb.result()
				c.emit(opName, []string{hb.hist()}, r, true, fmt.Sprintf("chain-%d-", n)+histClass(r))
			}
		}
	}
	genHistRandom(c, which)
}

func genHistRandom(c *Ctx, which string) {
	c.stats.Rule = "random API histories (3–14 steps) over sets with helper templates shared between members, failing members, clones"
	for i := 0; i < c.n(300, 8000); i++ {
		hb := newHistBuilder()
		hb.add(Step{Op: "new", H: 0, Name: "root"})
		// definitions
		bodies := memberBodies
		if which == "C08" || (which == "" && c.rng.Intn(4) == 0) {
			bodies = append(append([]string{}, memberBodies...), nodeKindBodies...)
		}
		if c.rng.Intn(5) == 0 {
			// CSP-compatible sets: javascript: URIs and event handlers in the text become analysis errors
			hb.add(Step{Op: "csp", H: 0})
			bodies = append(append([]string{}, memberBodies[:8]...), cspBodies...)
		}
		text := pick(c, bodies)
		if c.rng.Intn(3) == 0 {
			text = c.body(0)
		}
		for j := 0; j < 3; j++ {
			if c.rng.Intn(4) != 0 {
				text += fmt.Sprintf("{{define \"h%d\"}}%s{{end}}", j, pick(c, helperBodies))
			}
		}
		for j := 1; j <= 2; j++ {
			if c.rng.Intn(3) != 0 {
				text += fmt.Sprintf("{{define \"m%d\"}}%s{{end}}", j, pick(c, bodies))
			}
		}
		if hb.add(Step{Op: "parse", H: 0, Text: text}) == "" {
			c.stats.Classes["unparsable"]++
			continue
		}
		handles := []int{0}
		next := 1
		names := []string{"root", "h0", "h1", "h2", "m1", "m2", "nope"}
		data := c.randData()
		nsteps := 2 + c.rng.Intn(11)
		executed := false
		for j := 0; j < nsteps && !hb.dead; j++ {
			h := pick(c, handles)
			r := c.rng.Intn(23)
			if r < 11 {
				executed = true
			}
			switch {
			case r < 6:
				hb.add(Step{Op: "exect", H: h, Name: pick(c, names), Data: data})
			case r < 9:
				hb.add(Step{Op: "exec", H: h, Data: data})
			case r < 10:
				hb.add(Step{Op: "exechtml", H: h, Data: data})
			case r < 11:
				hb.add(Step{Op: "execthtml", H: h, Name: pick(c, names), Data: data})
			case r < 13:
				hb.add(Step{Op: "lookup", H: h, Name: pick(c, names), H2: next})
				if hb.bound(next) {
					handles = append(handles, next)
				}
				next++
			case r < 15:
				hb.add(Step{Op: "clone", H: h, H2: next})
				if hb.bound(next) {
					handles = append(handles, next)
				}
				next++
			case r < 17:
				hb.add(Step{Op: "assocnew", H: h, Name: pick(c, names), H2: next})
				handles = append(handles, next)
				next++
			case r < 19:
				hb.add(Step{Op: "parse", H: h, Text: fmt.Sprintf("{{define \"%s\"}}%s{{end}}", pick(c, names[1:6]), pick(c, append(helperBodies, memberBodies...)))})
			case r < 20:
				hb.add(Step{Op: "parse", H: h, Text: pick(c, memberBodies)})
			case r < 21:
				hb.add(Step{Op: "templates", H: h})
			case r < 22:
				// CSPCompatible() during construction; after an execution only for C08 (totality): the histories that
				// C05/C06/C07/C09 quantify over do not contain option changes after the first execution
				if which == "C08" || !executed {
					hb.add(Step{Op: "csp", H: h})
				}
			default:
				data = c.randData()
			}
		}
		hist, r := hb.hist(), hb.result()
		opName := "tmpl.hist"
		if which != "" {
			opName += "." + which
		}
		c.emit(opName, []string{hist}, r, true, histClass(r))
	}
}

// histClass: coarse class of a history for the distribution report: does it contain an analysis error,
// an execution error, a panic, a successful execution …
func histClass(r string) string {
	cls := ""
	add := func(sub, tag string) {
		if containsStr(r, sub) {
			cls += tag
		}
	}
	add("ok ", "O")
	add("err:analysis", "A")
	add("err:exec", "X")
	add("err:parse-gate", "G")
	add("err:clone", "C")
	add("err:incomplete", "I")
	add("err:undefined", "U")
	add("panic", "P")
	if cls == "" {
		cls = "-"
	}
	return cls
}

func containsStr(s, sub string) bool {
	for i := 0; i+len(sub) <= len(s); i++ {
		if s[i:i+len(sub)] == sub {
			return true
		}
	}
	return false
}
