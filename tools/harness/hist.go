package main

import "fmt"

func init() {
	generators["HIST"] = genHIST
}

// failing / fine member bodies for history tests
var memberBodies = []string{
	"<p>{{.X}}</p>", "<a href=\"{{.X}}\">l</a>", "{{template \"h0\" .}}", "<b>{{template \"h1\" .}}</b>", "<a href=\"{{template \"h0\" .}}\">",
	"<a href=\"", "<script>{{.X}}</script>", "{{if .C}}<a href=\"{{else}}x{{end}}", "{{range .L}}<a {{end}}", "<div {{.X}}>", "<a href=x{{.X}}>",
	"{{template \"nope\" .}}", "<object>{{.X}}</object>", "text only", "", "{{.Y}}{{template \"h2\" .}}", "<p title='{{template \"h0\" .}}'>x</p>",
	"<textarea>{{.X}}</textarea>", "<a href=\"/x?{{template \"h0\" .}}\">", "<script>{{template \"h0\" .}}</script>", "{{template \"m1\" .}}",
	"{{with .M}}{{template \"h0\" .}}{{end}}", "<style>{{.Z}}</style>",
}

// genHIST: API histories over a set (and its clones): New, Parse*, assoc New, Lookup, Templates, Clone, Execute*.
func genHIST(c *Ctx) {
	c.stats.Rule = "random API histories (3–14 steps) over sets with helper templates shared between members, failing members, clones"
	for i := 0; i < c.n(600, 30000); i++ {
		hb := newHistBuilder()
		hb.add(Step{Op: "new", H: 0, Name: "root"})
		// definitions
		text := pick(c, memberBodies)
		for j := 0; j < 3; j++ {
			if c.rng.Intn(4) != 0 {
				text += fmt.Sprintf("{{define \"h%d\"}}%s{{end}}", j, pick(c, helperBodies))
			}
		}
		for j := 1; j <= 2; j++ {
			if c.rng.Intn(3) != 0 {
				text += fmt.Sprintf("{{define \"m%d\"}}%s{{end}}", j, pick(c, memberBodies))
			}
		}
		if hb.add(Step{Op: "parse", H: 0, Text: text}) == "" {
			c.stats.Classes["unparsable"]++
			continue
		}
		handles := []int{0}
		next := 1
		names := []string{"root", "h0", "h1", "h2", "m1", "m2", "nope"}
		data := c.randData()
		nsteps := 2 + c.rng.Intn(11)
		for j := 0; j < nsteps && !hb.dead; j++ {
			h := pick(c, handles)
			switch r := c.rng.Intn(22); {
			case r < 6:
				hb.add(Step{Op: "exect", H: h, Name: pick(c, names), Data: data})
			case r < 9:
				hb.add(Step{Op: "exec", H: h, Data: data})
			case r < 10:
				hb.add(Step{Op: "exechtml", H: h, Data: data})
			case r < 11:
				hb.add(Step{Op: "execthtml", H: h, Name: pick(c, names), Data: data})
			case r < 13:
				hb.add(Step{Op: "lookup", H: h, Name: pick(c, names), H2: next})
				if hb.bound(next) {
					handles = append(handles, next)
				}
				next++
			case r < 15:
				hb.add(Step{Op: "clone", H: h, H2: next})
				if hb.bound(next) {
					handles = append(handles, next)
				}
				next++
			case r < 17:
				hb.add(Step{Op: "assocnew", H: h, Name: pick(c, names), H2: next})
				handles = append(handles, next)
				next++
			case r < 19:
				hb.add(Step{Op: "parse", H: h, Text: fmt.Sprintf("{{define \"%s\"}}%s{{end}}", pick(c, names[1:6]), pick(c, append(helperBodies, memberBodies...)))})
			case r < 20:
				hb.add(Step{Op: "parse", H: h, Text: pick(c, memberBodies)})
			case r < 21:
				hb.add(Step{Op: "templates", H: h})
			default:
				data = c.randData()
			}
		}
		hist, r := hb.hist(), hb.result()
		c.emit("tmpl.hist", []string{hist}, r, true, splitLast(r))
	}
}
