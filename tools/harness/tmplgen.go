package main

// Generators of template texts, data and API histories.

import (
	"fmt"
	"strings"
)

var hostileData = []string{
	"", "x", "a b", "<", ">", "\"", "'", "&", "=", "/", " ", "\t", "\n", "\f", "\r", "\x00", "`",
	"<script>alert(1)</script>", "</script>", "</textarea>", "</title>", "</style>", "-->", "<!--", "--!>",
	"javascript:alert(1)", "JaVaScRiPt:alert(1)", "java\tscript:alert(1)", " javascript:alert(1)", "java", "script:alert(1)",
	"&amp;", "&lt", "&#", "&#x", "&#60;", "&quot;", "\xff", "\xc3", "\xe2\x82", "é", " ", "﷐", "\x7f", "\x1b",
	"\" onmouseover=\"alert(1)", "' onmouseover='alert(1)", "x onerror=alert(1)", "><img src=x onerror=alert(1)>",
	"/path?q=1&r=2#f", "http://example.com/", "https://example.com/a/../b", "//evil.com/x", "data:text/html,x", "..", "%2e%2e", "a,b 2x",
	"expression(alert(1))", "color:red;", "{}", "\\", "%", "%zz", "%41", "+", "async", "ltr", "_blank", "eager",
}

func (c *Ctx) hostile() string {
	if c.rng.Intn(4) == 0 {
		return pick(c, hostileData) + pick(c, hostileData)
	}
	return pick(c, hostileData)
}

var safeTags = []string{"H", "S", "Y", "E", "U", "R", "I"}

// randLeaf: a string, a safe-typed value, or (rarely) int/bool/nil/pointer
func (c *Ctx) randLeaf() *Val {
	switch r := c.rng.Intn(23); {
	case r >= 22:
		return &Val{Kind: "N"}
	case r >= 21:
		return &Val{Kind: "p", P: &Val{Kind: "g", S: nonEmpty(c.hostile())}}
	case r >= 20:
		return &Val{Kind: "g", S: nonEmpty(c.hostile())}
	case r < 11:
		return &Val{Kind: "s", S: c.hostile()}
	case r < 15:
		return &Val{Kind: "t", Tag: pick(c, safeTags), S: c.hostile()}
	case r < 16:
		return &Val{Kind: "i", I: c.rng.Intn(2000) - 1000}
	case r < 17:
		return &Val{Kind: "b", B: c.rng.Intn(2) == 0}
	case r < 18:
		return &Val{Kind: "n"}
	case r < 19:
		return &Val{Kind: "p", P: &Val{Kind: "t", Tag: pick(c, safeTags), S: c.hostile()}}
	default:
		return &Val{Kind: "p", P: &Val{Kind: "s", S: c.hostile()}}
	}
}

func nonEmpty(s string) string {
	if s == "" {
		return "<i>"
	}
	return s
}

// randData: the root map every generated template can be executed with
func (c *Ctx) randData() *Val {
	m := &Val{Kind: "m", M: map[string]*Val{}}
	put := func(k string, v *Val) { m.Keys = append(m.Keys, k); m.M[k] = v }
	for _, k := range []string{"X", "Y", "Z"} {
		put(k, c.randLeaf())
	}
	put("C", &Val{Kind: "b", B: c.rng.Intn(2) == 0})
	put("D", &Val{Kind: "b", B: c.rng.Intn(2) == 0})
	l := &Val{Kind: "l"}
	for i, n := 0, c.rng.Intn(4); i < n; i++ {
		l.L = append(l.L, c.randLeaf())
	}
	put("L", l)
	inner := &Val{Kind: "m", M: map[string]*Val{}}
	inner.Keys = []string{"X"}
	inner.M["X"] = c.randLeaf()
	if c.rng.Intn(4) == 0 {
		inner = &Val{Kind: "m", M: map[string]*Val{}}
	}
	put("M", inner)
	// .N: a nested record for recursive templates ({{if .N}}{{template "t" .N}}{{end}}), depth 1 or 2
	n1 := &Val{Kind: "m", Keys: []string{"N", "X"}, M: map[string]*Val{"N": {Kind: "n"}, "X": c.randLeaf()}}
	if c.rng.Intn(2) == 0 {
		n1 = &Val{Kind: "m", Keys: []string{"N", "X"}, M: map[string]*Val{"N": n1, "X": c.randLeaf()}}
	}
	put("N", n1)
	return m
}

var genElems = []string{"a", "b", "div", "p", "span", "img", "input", "link", "script", "style", "textarea", "title", "iframe", "form",
	"button", "object", "embed", "base", "svg", "math", "audio", "video", "source", "area", "q", "blockquote", "br", "hr", "meta", "h1", "td", "option", "x-custom", "frame"}
var genAttrs = []string{"href", "src", "title", "alt", "class", "id", "style", "onclick", "onerror", "srcdoc", "srcset", "action", "formaction",
	"data-x", "data-", "data-X", "aria-label", "dir", "target", "loading", "async", "rel", "type", "value", "name", "for", "cite", "poster", "data", "xlink:href", "unknown", "lang", "width"}
var wsVariants = []string{" ", "  ", "\t", "\n", "\f", "\r", " \n "}
var urlPrefixes = []string{"", "/", "/p/", "/p?q=", "/p?a=b&c=", "#", "/x#f", "https://example.com/", "https://example.com/?q=", "//example.com/", "http://x/", "javascript:", "java", "mailto:", "ftp://h/", "/a&amp;b=", "&#47;", "/%", "/ "}
var actions = []string{"{{.X}}", "{{.Y}}", "{{.Z}}", "{{.M.X}}", "{{.}}"}

func (c *Ctx) action() string { return pick(c, actions[:4]) }

func caseMix(c *Ctx, s string) string {
	if c.rng.Intn(4) != 0 {
		return s
	}
	b := []byte(s)
	for i := range b {
		if c.rng.Intn(2) == 0 && b[i] >= 'a' && b[i] <= 'z' {
			b[i] -= 32
		}
	}
	return string(b)
}

// attrPiece: ` A="…{{.X}}…"` in all lexical variants
func (c *Ctx) attrPiece() string {
	a := caseMix(c, pick(c, genAttrs))
	q := pick(c, []string{"\"", "\"", "\"", "'", "'", ""})
	val := ""
	switch c.rng.Intn(8) {
	case 0:
		val = "static"
	case 1:
		val = pick(c, urlPrefixes) + c.action()
	case 2:
		val = c.action() + c.action()
	case 3:
		val = pick(c, urlPrefixes) + c.action() + "/" + c.action()
	case 4:
		val = "{{if .C}}" + c.action() + "{{else}}x{{end}}"
	case 5:
		val = "{{range .L}}{{.}} {{end}}"
	default:
		val = c.action()
	}
	eq := pick(c, []string{"=", "=", "=", " = ", "=\n"})
	if c.rng.Intn(12) == 0 {
		return pick(c, wsVariants) + a // valueless
	}
	return pick(c, wsVariants) + a + eq + q + val + q
}

func (c *Ctx) elemPiece(depth int) string {
	e := caseMix(c, pick(c, genElems))
	var b strings.Builder
	b.WriteString("<" + e)
	for i, n := 0, c.rng.Intn(3); i < n; i++ {
		b.WriteString(c.attrPiece())
	}
	if c.rng.Intn(10) == 0 {
		b.WriteString(pick(c, []string{" /", "/", " "}))
	}
	b.WriteString(">")
	le := strings.ToLower(e)
	switch le {
	case "br", "hr", "img", "input", "link", "meta", "source", "area", "base", "embed":
		return b.String()
	}
	switch c.rng.Intn(4) {
	case 0:
		b.WriteString(c.action())
	case 1:
		b.WriteString("text " + c.action() + " more")
	case 2:
		if depth < 2 {
			b.WriteString(c.body(depth + 1))
		}
	default:
		b.WriteString("static")
	}
	closeName := e
	if c.rng.Intn(6) == 0 {
		closeName = caseMix(c, strings.ToUpper(e))
	}
	b.WriteString("</" + closeName + pick(c, []string{"", "", " ", "\n", "\f"}) + ">")
	return b.String()
}

var textPieces = []string{"hello", " a < b ", "<", "</", "<!", "<!-", "x<y", "&amp;", "&lt;", "1 &lt; 2", "<!-- c -->", "<!---->", "<!-->", "<!--->", "<!DOCTYPE html>", "<!doctype html>",
	"<b>bold</b>", "<p>", "</p>", "</script", "</title", "</style", "</textarea", "<title>Hello</title", "<style>p{}</style", "<textarea>x</textarea", "<script>a</scrip", "</titl", "<br>", "<br/>", "\n", "  ", "<a href=\"/static\">l</a>", "<img src=\"/i.png\" alt=\"x\">", "`", "${", "<script>var a = `x`;</script>", "<style>p{}</style>"}

func (c *Ctx) body(depth int) string {
	var b strings.Builder
	for i, n := 0, 1+c.rng.Intn(4); i < n; i++ {
		switch r := c.rng.Intn(16); {
		case r < 4:
			b.WriteString(pick(c, textPieces))
		case r < 9:
			b.WriteString(c.elemPiece(depth))
		case r < 10:
			b.WriteString(c.action())
		case r < 11 && depth < 2:
			b.WriteString("{{if .C}}" + c.body(depth+1) + "{{else}}" + c.body(depth+1) + "{{end}}")
		case r < 12 && depth < 2:
			b.WriteString("{{range .L}}" + pick(c, []string{"{{.}}", "<li>{{.}}</li>", "x"}) + "{{else}}none{{end}}")
		case r < 13 && depth < 2:
			b.WriteString("{{with .M}}" + pick(c, []string{"{{.X}}", "<i>{{.X}}</i>"}) + "{{end}}")
		case r < 14:
			b.WriteString(fmt.Sprintf("{{template \"h%d\" .}}", c.rng.Intn(3)))
		case r < 15:
			b.WriteString("{{if .D}}" + pick(c, textPieces) + "{{end}}")
		default:
			b.WriteString(pick(c, textPieces))
		}
	}
	return b.String()
}

var helperBodies = []string{"{{.X}}", "<b>{{.Y}}</b>", "static", "", " ", "{{.Z}}\" title=\"x", "<script>", "</script>", "x{{if .C}}y{{end}}", "<a href=\"{{.X}}\">l</a>", "{{template \"h0\" .}}", "{{template \"h1\" .}}", "<p title='{{.X}}'>", "/{{.X}}"}

// randTemplateText: a main body plus helper definitions h0..h2 (some possibly missing)
func (c *Ctx) randTemplateText() string {
	var b strings.Builder
	b.WriteString(c.body(0))
	for i := 0; i < 3; i++ {
		if c.rng.Intn(5) == 0 {
			continue
		}
		b.WriteString(fmt.Sprintf("{{define \"h%d\"}}%s{{end}}", i, pick(c, helperBodies)))
	}
	return b.String()
}
