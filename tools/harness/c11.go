package main

import (
	"fmt"
	"strings"
	"unicode"
	"unicode/utf8"

	"github.com/google/safehtml"
)

func realURLSanitized(s string) string {
	return guard(func() string { return okHex(safehtml.URLSanitized(s).String()) })
}

// realLowerProj: ASCII projection of the real strings.ToLower (ASCII bytes kept, every other rune \u21a6 0x80).
// Validates the model's only assumption about lower-casing.
func realLowerProj(s string) string {
	var b []byte
	for _, r := range strings.ToLower(s) {
		if r < 128 {
			b = append(b, byte(r))
		} else {
			b = append(b, 0x80)
		}
	}
	return okHex(string(b))
}

func init() {
	replayers["url.sanitized"] = func(a []string) string { return realURLSanitized(a[0]) }
	replayers["url.lowerproj"] = func(a []string) string { return realLowerProj(a[0]) }
	generators["C11"] = genC11
}

// pieces inserted at every position of every case folding of "javascript:"
var c11Interesting = []string{
	"\x00", "\x01", "\x08", "\t", "\n", "\x0b", "\x0c", "\r", "\x1f", " ", "\x7f", "\u0080", "\u0085", "\u00a0", "\u00ad",
	"\u2028", "\u2029", "\u200b", "\ufeff", "\u212a", "\u0130", "\u017f", "\u0131", "\uff4a", "\uff1a", "\ufffd", "\U0001F600",
	"\xff", "\xc0\xba", "\xe0\x80\xba", "\xc3", "\xed\xa0\x80",
	"&", ":", "/", "?", "#", "+", "-", ".", "%", "%0a", "%3a", "\\", "0", "a", "J",
	"&#58;", "&#58", "&#x3a;", "&#X3A;", "&#x3A", "&#0000058;", "&colon;", "&Tab;", "&NewLine;", "&#9;", "&#10;", "&#13;", "&#x9;",
	"&#xA;", "&#xd;", "&#32;", "&#0;", "&amp;", "&amp;#58;", "&nbsp;", "&lt;", "&#106;", "&#x6a;", "&#74;", "&#x4A",
}

var c11Prefixes = []string{"", " ", "\t", "\n", "\r", "\x00", "\x1f", "\x20\x0c", "\u00a0", "\ufeff", "a", "/", "?", "#", "&", ":", "x:", "//", "&#9;", "&Tab;", "&#32;", "\x7f", "\xff"}
var c11Suffixes = []string{"", "alert(1)", "void(0)", "void(0);", "void 0", ";", "//", "history.back()", "0", "//x/y?z#w", " ", "\n", "&", ":", "%0aalert(1)"}

var c11Schemes = []string{"http", "https", "HTTP", "mailto", "ftp", "data", "vbscript", "javascript", "JAVASCRIPT", "JavaScript", "about", "tel",
	"a+b.c-d", "1a", "+", "-", ".", "", "jav", "javascriptx", "xjavascript", "java script", "java\tscript", "javascr\u0130pt", "javascript\u212a", "\u212aavascript",
	"view-source", "blob", "file", "ws", "z39.50r", "livescript", "mocha", "jar", "feed", "javas\x00cript", "j\u0430vascript" /* Cyrillic a */}
var c11Rests = []string{"", "x", "void(0)", "void(0);", "void 0", ";", "history.back()", "//host/p?q#f", "alert(1)", "//a:80/", "/a:b", "?a:b&c", "#a:b&c", "a&b", "&", ":", "javascript:alert(1)", "\x00", "\u00e9", "\xff"}
var c11Rel = []string{"", "a", "a/b", "/a", "//h", "?q", "#f", "a:b", "a&b", "a/b:c", "a?b&c:d", "a#b:c&d", "\u00e9/:", "\u0130/:", "a%3ab", "./a:b", "../a&b",
	"a b", "a\tb:c", " a", "a ", "\x00", "\u00e9", "\xff/:", "\xc3", "&amp;", "&#58;", "a&#58;b", "/&#58;", "\u212a", "k:", "\u212a:", "\u0130:", "i\u0307:"}

var c11Alphabet = []string{"j", "a", "v", "s", "c", "r", "i", "p", "t", "J", "A", "V", "S", "C", "R", "I", "P", "T", ":", ":", "&", "#", "/", "?", ";", "x", "5", "8", "3",
	"\t", "\n", "\r", " ", "\x00", "\x1f", "\u212a", "\u0130", "\u017f", "\u00e9", "\xff", "\xc3", "&#58;", "&colon;", "&Tab;", "&NewLine;", "&#x3a", "+", "-", ".", "0", "9", "%", "javascript", "JAVASCRIPT:", "java", "script:"}

func c11Trigger(s string) bool { return strings.ContainsAny(s, ":&") }

// caseFolding number m of "javascript": bit i set = upper-case letter i
func jsFolding(m int) string {
	base := "javascript"
	b := []byte(base)
	for i := range b {
		if m&(1<<uint(i)) != 0 {
			b[i] = b[i] - 32
		}
	}
	return string(b) + ":"
}

func genC11(c *Ctx) {
	c.stats.Rule = "op url.sanitized: every case folding of 'javascript:' (thorough: all 1024; quick: 40 sampled + extremes) with every interesting piece " +
		"(controls, whitespace, U+212A, U+0130, U+017F, invalid UTF-8, entity text such as &#58; &colon; &Tab;) inserted at every position, 4 foldings with each of the " +
		"256 bytes at every position, prefix \u00d7 folding \u00d7 suffix, scheme \u00d7 rest and relative-URL grammars, seeded strings over a hostile alphabet, random bytes, " +
		"all byte strings of length \u2264 1 (quick) / \u2264 2 (thorough). op url.lowerproj: ASCII projection of strings.ToLower on every rune 0\u20260x10FFFF (64 per op) " +
		"and invalid encodings. Non-trivial: url.sanitized input contains ':' or '&' (the only bytes that can make the result differ from the input)."
	san := func(s, class string) {
		r := realURLSanitized(s)
		kept := "kept"
		if r != okHex(s) {
			kept = "replaced"
		}
		c.emit("url.sanitized", []string{s}, r, c11Trigger(s), class+":"+kept)
	}
	low := func(s, class string) {
		c.emit("url.lowerproj", []string{s}, realLowerProj(s), true, class)
	}


	// --- long inputs: the scheme may start (or be interrupted) far into the string ---
	for _, pad := range []int{63, 64, 65, 127, 128, 129, 200, 255, 256, 257, 1023, 1024, 4095, 4096, 4097} {
		for _, fill := range []string{" ", "\t", "\n", "\x01", "\x00", "\r\n"} {
			f := strings.Repeat(fill, pad)
			san(f+"javascript:alert(1)", "long-pad")
			san(f+"JaVaScRiPt:alert(1)", "long-pad")
			san("j"+f+"avascript:alert(1)", "long-pad")
			san("java"+f+"script:alert(1)", "long-pad")
			san("javascript"+f+":alert(1)", "long-pad")
			san(f+"https://example.com/", "long-pad")
		}
		a := strings.Repeat("a", pad)
		san(a+":javascript:x", "long-pad")
		san(a+"/javascript:x", "long-pad")
		san("javascript:"+a, "long-pad")
		san(a+"&colon;x", "long-pad")
	}

	// --- assumption about strings.ToLower: exhaustive over all runes, both tiers ---
	asciiImage := 0
	var sb strings.Builder
	n := 0
	for r := rune(0); r <= unicode.MaxRune; r++ {
		if r >= 0xD800 && r <= 0xDFFF {
			continue
		}
		if r >= 128 && unicode.ToLower(r) < 128 {
			asciiImage++
		}
		sb.WriteRune(r)
		n++
		if n == 64 {
			low(sb.String(), "lower-all-runes")
			sb.Reset()
			n = 0
		}
	}
	if n > 0 {
		low(sb.String(), "lower-all-runes")
	}
	_ = asciiImage
	for _, bad := range []string{"\xff", "\xc3", "\xe2\x82", "\xf0\x9f\x98", "\xed\xa0\x80", "\xc0\xaf", "\xf4\x90\x80\x80", "\x80", "A\xffB", "\xc3A", "\u212a\xff\u0130", "\u00c9\xe2\x82\u03a9"} {
		low(bad, "lower-invalid")
	}
	for i := 0; i < c.n(500, 5000); i++ {
		low(c.randFrom(c11Alphabet, 10), "lower-seeded")
	}

	// --- short strings ---
	san("", "len0")
	for a := 0; a < 256; a++ {
		san(string([]byte{byte(a)}), "len1")
	}
	if c.thorough {
		for a := 0; a < 256; a++ {
			for b := 0; b < 256; b++ {
				san(string([]byte{byte(a), byte(b)}), "len2")
			}
		}
		c.stats.Exhaustive = true
		c.stats.ExhaustiveWhat = "url.sanitized: all byte strings of length \u2264 2; all 1024 case foldings of 'javascript:' \u00d7 every insertion position \u00d7 every interesting piece; " +
			"url.lowerproj: every rune 0\u20260x10FFFF"
	} else {
		for i := 0; i < 3000; i++ {
			san(string([]byte{byte(c.rng.Intn(256)), byte(c.rng.Intn(256))}), "len2-sample")
		}
		c.stats.Exhaustive = true
		c.stats.ExhaustiveWhat = "url.lowerproj: every rune 0\u20260x10FFFF; url.sanitized: all byte strings of length \u2264 1"
	}

	// --- case foldings of javascript: with insertions ---
	var foldings []int
	if c.thorough {
		for m := 0; m < 1024; m++ {
			foldings = append(foldings, m)
		}
	} else {
		foldings = []int{0, 1023, 1, 512, 0x155, 0x2aa}
		for i := 0; i < 40; i++ {
			foldings = append(foldings, c.rng.Intn(1024))
		}
	}
	for _, m := range foldings {
		js := jsFolding(m)
		san(js, "folding")
		san(js+"alert(1)", "folding")
		for pos := 0; pos <= len(js); pos++ {
			for _, p := range c11Interesting {
				san(js[:pos]+p+js[pos:]+"alert(1)", "folding+piece")
			}
		}
	}
	for _, m := range []int{0, 1023, 0x155, 0x0f} {
		js := jsFolding(m)
		for pos := 0; pos <= len(js); pos++ {
			for b := 0; b < 256; b++ {
				san(js[:pos]+string([]byte{byte(b)})+js[pos:]+"x", "folding+byte")
				san(js[:pos]+string([]byte{byte(b)})+js[pos:], "folding+byte")
			}
		}
		// two insertions
		for i := 0; i < c.n(2000, 20000); i++ {
			p1, p2 := c.rng.Intn(len(js)+1), c.rng.Intn(len(js)+1)
			if p1 > p2 {
				p1, p2 = p2, p1
			}
			san(js[:p1]+pick(c, c11Interesting)+js[p1:p2]+pick(c, c11Interesting)+js[p2:]+pick(c, c11Suffixes), "folding+2pieces")
		}
		// every letter replaced by its numeric reference
		for pos := 0; pos < len(js); pos++ {
			for _, f := range []string{"&#%d;", "&#%d", "&#x%x;", "&#X%X", "&#0%d;"} {
				san(js[:pos]+fmt.Sprintf(f, js[pos])+js[pos+1:]+"alert(1)", "folding+charref-letter")
			}
		}
	}
	for _, pre := range c11Prefixes {
		for _, suf := range c11Suffixes {
			for _, m := range []int{0, 1023, 0x155} {
				san(pre+jsFolding(m)+suf, "prefix+folding+suffix")
			}
			for _, pre2 := range c11Prefixes {
				san(pre+pre2+"javascript:"+suf, "prefix2+js+suffix")
			}
		}
	}
	// --- URL grammars ---
	for _, sch := range c11Schemes {
		for _, rest := range c11Rests {
			san(sch+":"+rest, "scheme:rest")
			for _, pre := range []string{" ", "\t", "\x00", "/", "a", "&"} {
				san(pre+sch+":"+rest, "pre+scheme:rest")
			}
		}
	}
	for _, a := range c11Rel {
		san(a, "relative")
		for _, b := range c11Rel {
			san(a+b, "relative")
			san(a+"/"+b, "relative")
			san(a+"?"+b, "relative")
			san(a+"#"+b, "relative")
		}
	}
	// --- seeded ---
	for i := 0; i < c.n(20000, 300000); i++ {
		san(c.randFrom(c11Alphabet, 9), "seeded-alphabet")
	}
	for i := 0; i < c.n(5000, 100000); i++ {
		nb := c.rng.Intn(12)
		b := make([]byte, nb)
		for j := range b {
			b[j] = byte(c.rng.Intn(256))
		}
		san(string(b), "random-bytes")
	}
	for i := 0; i < c.n(3000, 50000); i++ {
		// random runes incl. astral, mixed with the js letters
		var sb strings.Builder
		for j := c.rng.Intn(8); j >= 0; j-- {
			switch c.rng.Intn(4) {
			case 0:
				r := rune(c.rng.Intn(0x110000))
				if utf8.ValidRune(r) {
					sb.WriteRune(r)
				}
			case 1:
				sb.WriteString(pick(c, c11Alphabet))
			default:
				sb.WriteByte("javascript:JAVASCRIPT&#;/?"[c.rng.Intn(26)])
			}
		}
		san(sb.String(), "random-runes")
	}
}
