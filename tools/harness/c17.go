package main

// C17 — ScriptFromDataAndConstant. Op:  script.data <name> <json-term> <script>
// The json-term grammar is documented in lean/SafeHtml/Ops/C17.lean; this file builds the real Go
// value from a term (map[string]interface{}, []interface{}, string, int64/uint64/float64, bool, nil,
// json.RawMessage, custom Marshaler / TextMarshaler types, reflect.StructOf structs, pointers, and the
// unencodable ones: chan, func, NaN, +Inf, cyclic pointer, marshalers returning an error).

import (
	"encoding/json"
	"errors"
	"fmt"
	"math"
	"reflect"
	"strconv"
	"strings"

	"github.com/google/safehtml"
)

type c17Marshaler struct{ b []byte }

func (m c17Marshaler) MarshalJSON() ([]byte, error) { return m.b, nil }

type c17Text struct{ b []byte }

func (m c17Text) MarshalText() ([]byte, error) { return m.b, nil }

type c17ErrM struct{}

func (c17ErrM) MarshalJSON() ([]byte, error) { return nil, errors.New("no") }

type c17ErrT struct{}

func (c17ErrT) MarshalText() ([]byte, error) { return nil, errors.New("no") }

type c17Cyc struct{ P *c17Cyc }

var c17IfaceType = reflect.TypeOf((*interface{})(nil)).Elem()

func c17Len(s string) (int, string, bool) {
	i := 0
	for i < len(s) && s[i] >= '0' && s[i] <= '9' {
		i++
	}
	if i == 0 || i > 9 || i >= len(s) || s[i] != ':' {
		return 0, "", false
	}
	n, _ := strconv.Atoi(s[:i])
	return n, s[i+1:], true
}

func c17Blob(s string) (string, string, bool) {
	n, r, ok := c17Len(s)
	if !ok || len(r) < n {
		return "", "", false
	}
	return r[:n], r[n:], true
}

func c17TagByte(c byte) bool {
	if c >= '0' && c <= '9' || c|32 >= 'a' && c|32 <= 'z' {
		return true
	}
	return strings.IndexByte("!#$%&()*+-./:;<=>?@[]^_{|}~ ", c) >= 0
}

func c17ValidStructKey(k string) bool {
	if k == "" || k == "-" {
		return false
	}
	for i := 0; i < len(k); i++ {
		if !c17TagByte(k[i]) {
			return false
		}
	}
	return true
}

// the RFC 8259 number grammar (the Lean side admits exactly these literals)
func c17IsJSONNumber(s string) bool {
	i := 0
	if i < len(s) && s[i] == '-' {
		i++
	}
	if i >= len(s) {
		return false
	}
	if s[i] == '0' {
		i++
	} else if s[i] >= '1' && s[i] <= '9' {
		for i < len(s) && s[i] >= '0' && s[i] <= '9' {
			i++
		}
	} else {
		return false
	}
	if i < len(s) && s[i] == '.' {
		i++
		j := i
		for i < len(s) && s[i] >= '0' && s[i] <= '9' {
			i++
		}
		if i == j {
			return false
		}
	}
	if i < len(s) && (s[i] == 'e' || s[i] == 'E') {
		i++
		if i < len(s) && (s[i] == '+' || s[i] == '-') {
			i++
		}
		j := i
		for i < len(s) && s[i] >= '0' && s[i] <= '9' {
			i++
		}
		if i == j {
			return false
		}
	}
	return i == len(s)
}

// a Go number whose encoding/json rendering is exactly lit
func c17Number(lit string) (interface{}, bool) {
	if !c17IsJSONNumber(lit) {
		return nil, false
	}
	if i, err := strconv.ParseInt(lit, 10, 64); err == nil && strconv.FormatInt(i, 10) == lit {
		if i%2 == 0 && i >= math.MinInt32 && i <= math.MaxInt32 {
			return int(i), true
		}
		return i, true
	}
	if u, err := strconv.ParseUint(lit, 10, 64); err == nil && strconv.FormatUint(u, 10) == lit {
		return u, true
	}
	if f, err := strconv.ParseFloat(lit, 64); err == nil {
		if b, e := json.Marshal(f); e == nil && string(b) == lit {
			return f, true
		}
	}
	return nil, false
}

type c17KV struct {
	k string
	v interface{}
}

func c17KVs(n int, s string, depth int) ([]c17KV, string, bool) {
	var kvs []c17KV
	seen := map[string]bool{}
	for i := 0; i < n; i++ {
		k, r, ok := c17Blob(s)
		if !ok {
			return nil, "", false
		}
		v, r2, ok := c17Build(r, depth+1)
		if !ok {
			return nil, "", false
		}
		if seen[k] {
			return nil, "", false
		}
		seen[k] = true
		kvs = append(kvs, c17KV{k, v})
		s = r2
	}
	return kvs, s, true
}

// c17Build parses one term and builds the Go value.
func c17Build(s string, depth int) (interface{}, string, bool) {
	if s == "" || depth > 2000 {
		return nil, "", false
	}
	c, t := s[0], s[1:]
	switch c {
	case 'z':
		return nil, t, true
	case 'T':
		return true, t, true
	case 'F':
		return false, t, true
	case 'n':
		lit, r, ok := c17Blob(t)
		if !ok {
			return nil, "", false
		}
		v, ok := c17Number(lit)
		return v, r, ok
	case 's':
		b, r, ok := c17Blob(t)
		return b, r, ok
	case 'r':
		b, r, ok := c17Blob(t)
		return json.RawMessage(append(make([]byte, 0, len(b)+1), b...)), r, ok
	case 'j':
		b, r, ok := c17Blob(t)
		return c17Marshaler{[]byte(b)}, r, ok
	case 'x':
		b, r, ok := c17Blob(t)
		return c17Text{[]byte(b)}, r, ok
	case 'a':
		n, r, ok := c17Len(t)
		if !ok {
			return nil, "", false
		}
		xs := make([]interface{}, 0, 4)
		for i := 0; i < n; i++ {
			v, r2, ok := c17Build(r, depth+1)
			if !ok {
				return nil, "", false
			}
			xs = append(xs, v)
			r = r2
		}
		return xs, r, true
	case 'm', 'o':
		n, r, ok := c17Len(t)
		if !ok {
			return nil, "", false
		}
		kvs, r2, ok := c17KVs(n, r, depth)
		if !ok {
			return nil, "", false
		}
		if c == 'm' {
			m := make(map[string]interface{}, len(kvs))
			for _, kv := range kvs {
				m[kv.k] = kv.v
			}
			return m, r2, true
		}
		fields := make([]reflect.StructField, len(kvs))
		for i, kv := range kvs {
			if !c17ValidStructKey(kv.k) {
				return nil, "", false
			}
			fields[i] = reflect.StructField{Name: fmt.Sprintf("F%d", i), Type: c17IfaceType,
				Tag: reflect.StructTag(`json:` + strconv.Quote(kv.k))}
		}
		sv := reflect.New(reflect.StructOf(fields)).Elem()
		for i, kv := range kvs {
			if kv.v != nil {
				sv.Field(i).Set(reflect.ValueOf(kv.v))
			}
		}
		return sv.Interface(), r2, true
	case 'p':
		v, r, ok := c17Build(t, depth+1)
		if !ok {
			return nil, "", false
		}
		p := new(interface{})
		*p = v
		return p, r, true
	case 'c':
		return make(chan int), t, true
	case 'u':
		return func() {}, t, true
	case 'N':
		return math.NaN(), t, true
	case 'I':
		return math.Inf(1), t, true
	case 'y':
		cy := &c17Cyc{}
		cy.P = cy
		return cy, t, true
	case 'e':
		return c17ErrM{}, t, true
	case 'E':
		return c17ErrT{}, t, true
	}
	return nil, "", false
}

// a marshaler that panics: encoding/json re-panics, the caller recovers (as net/http does per request). Such a
// call must leave no trace in later, ordinary calls.
type c17PanicM struct{}

func (c17PanicM) MarshalJSON() ([]byte, error) { panic("marshaler panic") }

var c17Calls int

func c17Poison() {
	defer func() { _ = recover() }()
	_, _ = safehtml.VerifScriptFromDataAndConstant("cfg", map[string]interface{}{"a": []interface{}{1, "x", c17PanicM{}}}, "init(cfg);")
}

func realScriptData(name, term, script string) string {
	v, rest, ok := c17Build(term, 0)
	if !ok || rest != "" {
		return "bad-term"
	}
	c17Calls++
	if c17Calls%5 == 0 {
		c17Poison()
	}
	return guard(func() string {
		s, err := safehtml.VerifScriptFromDataAndConstant(name, v, script)
		if err != nil {
			var e1 *json.UnsupportedTypeError
			var e2 *json.UnsupportedValueError
			var e3 *json.MarshalerError
			var e4 *json.SyntaxError
			if errors.As(err, &e1) || errors.As(err, &e2) || errors.As(err, &e3) || errors.As(err, &e4) {
				return "err:json " + hxs(s.String())
			}
			return "err:name " + hxs(s.String())
		}
		return okHex(s.String())
	})
}

func init() {
	replayers["script.data"] = func(a []string) string { return realScriptData(a[0], a[1], a[2]) }
	generators["C17"] = genC17
}

// ---- term construction -------------------------------------------------------------------

func tBlob(tag byte, s string) string { return string(tag) + strconv.Itoa(len(s)) + ":" + s }
func tStr(s string) string            { return tBlob('s', s) }
func tArr(xs ...string) string        { return "a" + strconv.Itoa(len(xs)) + ":" + strings.Join(xs, "") }
func tObj(tag byte, kvs [][2]string) string {
	var b strings.Builder
	b.WriteByte(tag)
	b.WriteString(strconv.Itoa(len(kvs)))
	b.WriteByte(':')
	for _, kv := range kvs {
		b.WriteString(strconv.Itoa(len(kv[0])))
		b.WriteByte(':')
		b.WriteString(kv[0])
		b.WriteString(kv[1])
	}
	return b.String()
}

// pieces for hostile Go strings (arbitrary bytes)
var c17Pieces = []string{
	"a", "Z", "0", " ", "x", "</script>", "</SCRIPT", "<!--", "-->", "]]>", "<", ">", "&", "&amp;", "&#60;",
	"\u2028", "\u2029", "\xe2\x80", "\xe2", "\x80\xa8", "\xe2\x80\xaa", "\xe2\x80\xa7", "\xa8", "\xa9", "\x80",
	"\"", "'", "\\", "\\u003c", "\\\"", "/", "\n", "\r", "\t", "\b", "\f", "\x00", "\x01", "\x1f", "\x7f", "\x0b",
	"é", "ß", "Ω", "日本", "😀", "\ufffd", "\ufeff", "\xff", "\xc3", "\xc0\xaf", "\xed\xa0\x80", "\xf4\x90\x80\x80", "\xf0\x9f\x98",
	";", "\n}", "*/", "//", "`", "${", "=", "var ", "{", "}", "[", "]", ",", ":",
}

var c17StructKeyPieces = []string{"a", "B", "7", "<", ">", "&", "!", "#", "$", "%", "(", ")", "*", "+", "-", ".", "/", ":", ";", "=", "?", "@", "[", "]", "^", "_", "{", "|", "}", "~", " ", "</script>", "<!--"}

var c17Numbers = []string{
	"0", "1", "-1", "7", "42", "-300", "2147483647", "-2147483648", "9223372036854775807", "-9223372036854775808",
	"18446744073709551615", "1.5", "-0.25", "0.1", "3.141592653589793", "1e+21", "1e-7", "-1.5e+300", "5e-324", "-0",
	"1.7976931348623157e+308", "123456789.125", "100000000000000000000",
}

func (c *Ctx) c17String() string {
	switch c.rng.Intn(6) {
	case 0:
		n := c.rng.Intn(6)
		b := make([]byte, n)
		for i := range b {
			b[i] = byte(c.rng.Intn(256))
		}
		return string(b)
	default:
		return c.randFrom(c17Pieces, 6)
	}
}

// a JSON text, possibly with insignificant white space, hostile string contents, escapes
func (c *Ctx) c17RawValid(depth int) string {
	ws := func() string {
		switch c.rng.Intn(6) {
		case 0:
			return " "
		case 1:
			return "\n\t"
		case 2:
			return "\r "
		}
		return ""
	}
	str := func() string {
		var b strings.Builder
		b.WriteByte('"')
		for i, n := 0, c.rng.Intn(5); i < n; i++ {
			switch c.rng.Intn(14) {
			case 0:
				b.WriteString(pick(c, []string{"\\n", "\\\"", "\\\\", "\\/", "\\b", "\\f", "\\r", "\\t"}))
			case 1:
				b.WriteString(pick(c, []string{"\\u003c", "\\u003C", "\\u2028", "\\ud83d\\ude00", "\\ud800", "\\udc00\\ud800", "\\u0000", "\\uFFFF", "\\u00e9"}))
			case 2:
				b.WriteString(pick(c, []string{"<", ">", "&", "</script>", "<!--", "]]>"}))
			case 3:
				b.WriteString(pick(c, []string{"\u2028", "\u2029", "\xe2\x80\xaa", "é", "😀", "\ufffd"}))
			case 4:
				b.WriteString(pick(c, []string{"\xff", "\xe2\x80", "\xe2", "\x80\xa8", "\xc0\xaf", "\xed\xa0\x80"})) // ill-formed UTF-8: the Go scanner lets it through
			case 5:
				b.WriteString(pick(c, []string{" ", "  ", "\x7f", "'", "/", ",", ":", "[", "}", "null"}))
			default:
				b.WriteString(pick(c, []string{"a", "k", "0", "x y", "Z"}))
			}
		}
		b.WriteByte('"')
		return b.String()
	}
	var val func(d int) string
	val = func(d int) string {
		k := c.rng.Intn(10)
		if d <= 0 && k >= 6 {
			k = c.rng.Intn(6)
		}
		switch k {
		case 0:
			return pick(c, []string{"null", "true", "false"})
		case 1, 2:
			return pick(c, []string{"0", "-0", "1", "12", "-7", "1.5", "0.25", "1e5", "1E+2", "0.5e-3", "-1.0E-10", "123456789012345678901234567890"})
		case 3, 4, 5:
			return str()
		case 6, 7:
			n := c.rng.Intn(4)
			var b strings.Builder
			b.WriteString("[" + ws())
			for i := 0; i < n; i++ {
				if i > 0 {
					b.WriteString(ws() + "," + ws())
				}
				b.WriteString(val(d - 1))
			}
			b.WriteString(ws() + "]")
			return b.String()
		default:
			n := c.rng.Intn(4)
			var b strings.Builder
			b.WriteString("{" + ws())
			for i := 0; i < n; i++ {
				if i > 0 {
					b.WriteString(ws() + "," + ws())
				}
				b.WriteString(str() + ws() + ":" + ws() + val(d-1))
			}
			b.WriteString(ws() + "}")
			return b.String()
		}
	}
	return ws() + val(depth) + ws()
}

var c17RawBad = []string{
	"", " ", "[1,]", "{,}", "{\"a\":}", "{\"a\"}", "{a:1}", "[", "]", "{", "}", "\"", "\"a", "\"\\x\"", "\"\\u12\"", "\"\\u12g4\"", "\"\n\"", "\"\x00\"",
	"01", "-", "1.", ".5", "1e", "1e+", "+1", "--1", "1 2", "1,2", "nul", "nulll", "tru", "True", "NaN", "[1 2]", "{\"a\":1,}", "{\"a\":1 \"b\":2}",
	"<", "\"a\"<", "</script>", "<!--", "[<]", "\u2028", "[\u2028]", "1\u2028", "\xe2\x80\xa8\"a\"", "\"a\"\xe2\x80\xa8", "'a'", "\"a\" x", "\"a\"\x00", "[]]", "{}}", "[}", "{]",
	"\xef\xbb\xbf1", "1\x0b", "\x0c1", "// c\n1", "/* */1", "\"\\'\"", "\"\t\"", "[\"a\",\n", "{\"a\":1}{",
}

func (c *Ctx) c17RawInvalid() string {
	if c.rng.Intn(3) == 0 {
		return pick(c, c17RawBad)
	}
	s := []byte(c.c17RawValid(2))
	for k, n := 0, 1+c.rng.Intn(2); k < n; k++ {
		switch c.rng.Intn(4) {
		case 0:
			if len(s) > 0 {
				i := c.rng.Intn(len(s))
				s = append(s[:i:i], s[i+1:]...)
			}
		case 1:
			i := c.rng.Intn(len(s) + 1)
			ins := pick(c, []string{"<", ">", "&", "\u2028", "\xe2\x80\xa9", "\"", "\\", ",", "]", "}", "[", "{", "\x00", "\n", "0", "x", ":", "\xe2"})
			s = append(s[:i:i], append([]byte(ins), s[i:]...)...)
		case 2:
			if len(s) > 0 {
				s = s[:c.rng.Intn(len(s))]
			}
		default:
			if len(s) > 0 {
				s[c.rng.Intn(len(s))] = byte(c.rng.Intn(256))
			}
		}
	}
	return string(s)
}

// random term; returns the term and a coarse class
func (c *Ctx) c17Term(depth int, allowBad bool) string {
	k := c.rng.Intn(20)
	if depth <= 0 && k >= 12 && k <= 16 {
		k = c.rng.Intn(12)
	}
	switch k {
	case 0:
		return pick(c, []string{"z", "T", "F"})
	case 1:
		return tBlob('n', pick(c, c17Numbers))
	case 2:
		if c.rng.Intn(2) == 0 {
			return tBlob('n', strconv.FormatInt(c.rng.Int63()-c.rng.Int63(), 10))
		}
		b, _ := json.Marshal(c.rng.NormFloat64() * math.Pow(10, float64(c.rng.Intn(40)-20)))
		return tBlob('n', string(b))
	case 3, 4, 5, 6:
		return tStr(c.c17String())
	case 7:
		return tBlob('x', c.c17String())
	case 8, 9:
		return tBlob(pick(c, []byte{'r', 'j'}), c.c17RawValid(2))
	case 10:
		return tBlob(pick(c, []byte{'r', 'j'}), c.c17RawInvalid())
	case 11:
		return "p" + c.c17Term(depth-1, allowBad)
	case 12, 13:
		n := c.rng.Intn(4)
		xs := make([]string, n)
		for i := range xs {
			xs[i] = c.c17Term(depth-1, allowBad)
		}
		return tArr(xs...)
	case 14, 15:
		n := c.rng.Intn(4)
		seen := map[string]bool{}
		var kvs [][2]string
		for i := 0; i < n; i++ {
			key := c.c17String()
			if seen[key] {
				continue
			}
			seen[key] = true
			kvs = append(kvs, [2]string{key, c.c17Term(depth-1, allowBad)})
		}
		return tObj('m', kvs)
	case 16:
		n := c.rng.Intn(4)
		seen := map[string]bool{}
		var kvs [][2]string
		for i := 0; i < n; i++ {
			key := c.randFrom(c17StructKeyPieces, 3)
			if seen[key] || !c17ValidStructKey(key) {
				continue
			}
			seen[key] = true
			kvs = append(kvs, [2]string{key, c.c17Term(depth-1, allowBad)})
		}
		return tObj('o', kvs)
	default:
		if allowBad && c.rng.Intn(3) == 0 {
			return string(pick(c, []byte("cuNIyeE")))
		}
		return tStr(c.c17String())
	}
}

var c17Names = []string{
	"x1", "ab", "$a", "_a", "$$", "__", "a1", "A_", "data", "__proto__", "jQuery$", "aZ09$_", "a", "$", "_", "Z", "", "1a", "9", "a-", "a.b", "a b", " ab", "ab ",
	"ab\n", "ab\r\n", "\nab", "ab\x00", "a\x00b", "ab<", "a<b", "ab;", "ab=1;x", "ab/*", "é1", "aé", "éé", "ſs", "sſ", "Kk", "kK", "Ａb", "a１", "a\u200cb", "a\u200d",
	"ab\xff", "\xffab", "a\xc3", "ab\u2028", "ab\\u0041", "var", "ab</script>", "a\tb", "a,b",
}

var c17Scripts = []string{"", "f(x1);", "alert(1)", "\n", "</script>", "// c", "x;\ny;", "\xff\x00", "<!--", "a && b < c"}

func c17Hostile(term string) bool {
	return strings.ContainsAny(term, "<>&\"\\\x00\x01\x02\x03\x04\x05\x06\x07\x08\t\n\x0b\x0c\r\x0e\x0f\x10\x11\x12\x13\x14\x15\x16\x17\x18\x19\x1a\x1b\x1c\x1d\x1e\x1f") ||
		strings.Contains(term, "\xe2\x80") || strings.ContainsAny(term[:1], "rjx") || !validUTF8(term)
}

func validUTF8(s string) bool {
	for _, r := range s {
		if r == 0xFFFD {
			return false
		}
	}
	return true
}

func identLikeFirst(name string) bool {
	if name == "" {
		return false
	}
	b := name[0]
	return b == '$' || b == '_' || (b|32 >= 'a' && b|32 <= 'z')
}

func genC17(c *Ctx) {
	c.stats.Rule = "op script.data name term script. Non-trivial: the call succeeded and the data holds at least one byte the encoder must escape, " +
		"replace or drop (< > & U+2028/9 quote backslash control byte, ill-formed UTF-8, white space of a Marshaler/RawMessage text) or a " +
		"Marshaler/TextMarshaler/RawMessage node; or the call failed although the name starts like an identifier (so the failure is decided by " +
		"the rest of the name or by the data)."
	do := func(name, term, script, class string) {
		r := realScriptData(name, term, script)
		nt := false
		if strings.HasPrefix(r, "ok ") {
			nt = c17Hostile(term)
		} else if strings.HasPrefix(r, "err") {
			nt = identLikeFirst(name)
		}
		c.emit("script.data", []string{name, term, script}, r, nt, class)
	}
	// 1. names: fixed hostile list × a few data values
	for _, n := range c17Names {
		do(n, "z", "", "name-list")
		do(n, tStr("</script>"), "f();", "name-list")
		do(n, "c", "f();", "name-list")
	}
	// all names of length ≤ 1 (quick) / ≤ 2 (thorough)
	for a := 0; a < 256; a++ {
		do(string([]byte{byte(a)}), "n1:7", "", "name-len1")
	}
	if c.thorough {
		for a := 0; a < 256; a++ {
			for b := 0; b < 256; b++ {
				do(string([]byte{byte(a), byte(b)}), "n1:7", "", "name-len2")
			}
		}
	} else {
		for i := 0; i < 3000; i++ {
			do(string([]byte{byte(c.rng.Intn(256)), byte(c.rng.Intn(256))}), "n1:7", "", "name-len2-sample")
		}
	}
	for i := 0; i < c.n(1500, 20000); i++ {
		n := c.randFrom([]string{"a", "Z", "$", "_", "0", "9", "-", "\n", " ", "é", "\xff", "<", "ſ", ".", "\x00", "K"}, 5)
		do(n, pick(c, []string{"z", "T", tStr("x<y"), "N", tBlob('r', "[1, 2]")}), pick(c, c17Scripts), "name-seeded")
	}
	// 2. strings: every 1-byte string (and every 2-byte string in the thorough tier) as string, TextMarshaler text, map key, raw text
	for a := 0; a < 256; a++ {
		s := string([]byte{byte(a)})
		do("x1", tStr(s), "", "str-len1")
		do("x1", tBlob('x', s), "", "text-len1")
		do("x1", tObj('m', [][2]string{{s, "z"}}), "", "key-len1")
		do("x1", tBlob('r', s), "", "raw-len1")
		do("x1", tBlob('j', "\""+s+"\""), "", "rawstr-len1")
		do("x1", tStr("\xe2"+s+"\xa8"), "", "str-e2-x-a8")
		do("x1", tStr("\xe2\x80"+s), "", "str-e2-80-x")
		do("x1", tBlob('r', "\"\xe2\x80"+s+"\""), "", "rawstr-e2-80-x")
		do("x1", tBlob('r', "\"\\"+s+"\""), "", "rawstr-esc-x")
	}
	if c.thorough {
		for a := 0; a < 256; a++ {
			for b := 0; b < 256; b++ {
				s := string([]byte{byte(a), byte(b)})
				do("x1", tStr(s), "", "str-len2")
				do("x1", tBlob('r', s), "", "raw-len2")
				do("x1", tBlob('j', "\""+s+"\""), "", "rawstr-len2")
				do("x1", tStr("\xe2"+s), "", "str-e2-len2")
			}
		}
		c.stats.Exhaustive = true
		c.stats.ExhaustiveWhat = "all names of length ≤ 2; all byte strings of length ≤ 2 as string data, as RawMessage text and as the content of a Marshaler-provided string literal; all 3-byte strings E2 x y"
	} else {
		for i := 0; i < 3000; i++ {
			s := string([]byte{byte(c.rng.Intn(256)), byte(c.rng.Intn(256))})
			do("x1", tStr(s), "", "str-len2-sample")
			do("x1", tBlob('r', s), "", "raw-len2-sample")
			do("x1", tBlob('j', "\""+s+"\""), "", "rawstr-len2-sample")
		}
	}
	for _, n := range c17Numbers {
		do("n_", tBlob('n', n), "", "number")
	}
	for _, b := range c17RawBad {
		do("r_", tBlob('r', b), "", "raw-bad-list")
		do("r_", tArr(tStr("a"), tBlob('j', b)), "", "raw-bad-list")
	}
	// 3. seeded values
	for i := 0; i < c.n(2500, 40000); i++ {
		do(pick(c, []string{"x1", "d$", "_v"}), tStr(c.c17String()), pick(c, c17Scripts), "string")
	}
	for i := 0; i < c.n(2500, 40000); i++ {
		do("x1", tBlob(pick(c, []byte{'r', 'j'}), c.c17RawValid(3)), "", "raw-valid")
	}
	for i := 0; i < c.n(2500, 40000); i++ {
		do("x1", tBlob(pick(c, []byte{'r', 'j'}), c.c17RawInvalid()), "", "raw-mutated")
	}
	for i := 0; i < c.n(4000, 80000); i++ {
		name := "x1"
		if c.rng.Intn(8) == 0 {
			name = pick(c, c17Names)
		}
		t := c.c17Term(3, c.rng.Intn(4) == 0)
		class := "tree"
		if strings.ContainsAny(t, "cuNIyeE") { // coarse; the real result decides
			class = "tree-maybe-unencodable"
		}
		do(name, t, pick(c, c17Scripts), class)
	}
	// deep nesting
	for _, d := range []int{10, 100, 1000} {
		do("x1", strings.Repeat("a1:", d)+"z", "", "deep")
		do("x1", tBlob('r', strings.Repeat("[", d)+strings.Repeat("]", d)), "", "deep")
	}
}
