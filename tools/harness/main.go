// harness: generates operations for one property, runs the REAL google/safehtml code on them
// in-process (recover + watchdog), and writes
//
//	<out>/ops.txt    one operation per line (op name + hex-encoded arguments)
//	<out>/real.txt   the canonical real result of each operation, same order
//	<out>/stats.json input distribution measured on this run
//
// All random choices derive from the seed. See DESIGN.md §4.2.
package main

import (
	"bufio"
	"encoding/hex"
	"encoding/json"
	"fmt"
	"hash/fnv"
	"math/rand"
	"os"
	"path/filepath"
	"sort"
	"strconv"
	"strings"
	"time"
)

type Stats struct {
	Evaluations        int            `json:"evaluations"`
	DistinctNontrivial int            `json:"distinct_nontrivial"`
	Rule               string         `json:"rule"`
	Classes            map[string]int `json:"classes"`
	Samples            []string       `json:"samples"`
	Exhaustive         bool           `json:"exhaustive"`
	ExhaustiveWhat     string         `json:"exhaustive_what,omitempty"`
}

type Ctx struct {
	rng     *rand.Rand
	tier    string
	thorough bool
	ops     *bufio.Writer
	real    *bufio.Writer
	stats   Stats
	seenNT  map[uint64]bool
	seenOp  map[uint64]bool
	nsample int
}

func hx(b []byte) string {
	if len(b) == 0 {
		return "-"
	}
	return hex.EncodeToString(b)
}

func hxs(s string) string { return hx([]byte(s)) }

// emit records one operation with its real result. `nontrivial` is the property's own rule;
// `class` feeds the distribution histogram.
func (c *Ctx) emit(op string, args []string, result string, nontrivial bool, class string) {
	var b strings.Builder
	b.WriteString(op)
	for _, a := range args {
		b.WriteByte(' ')
		b.WriteString(hxs(a))
	}
	line := b.String()
	h := fnv.New64a()
	h.Write([]byte(line))
	k := h.Sum64()
	if c.seenOp[k] {
		return // duplicates add nothing
	}
	c.seenOp[k] = true
	c.ops.WriteString(line)
	c.ops.WriteByte('\n')
	c.real.WriteString(result)
	c.real.WriteByte('\n')
	c.stats.Evaluations++
	c.stats.Classes[class]++
	if nontrivial && !c.seenNT[k] {
		c.seenNT[k] = true
		c.stats.DistinctNontrivial++
		if len(c.stats.Samples) < c.nsample && (c.stats.DistinctNontrivial%97 == 1 || len(c.stats.Samples) < 3) {
			c.stats.Samples = append(c.stats.Samples, line+" => "+result)
		}
	}
}

func (c *Ctx) n(quick, thorough int) int {
	if c.thorough {
		return thorough
	}
	return quick
}

// pick returns a random element.
func pick[T any](c *Ctx, xs []T) T { return xs[c.rng.Intn(len(xs))] }

// randBytes builds a string of length ≤ maxLen from weighted alphabets.
func (c *Ctx) randFrom(alphabet []string, maxLen int) string {
	n := c.rng.Intn(maxLen + 1)
	var b strings.Builder
	for i := 0; i < n; i++ {
		b.WriteString(alphabet[c.rng.Intn(len(alphabet))])
	}
	return b.String()
}

func okHex(s string) string { return "ok " + hxs(s) }

// guard runs f and maps a Go panic to the canonical "panic" result.
func guard(f func() string) (res string) {
	defer func() {
		if r := recover(); r != nil {
			res = "panic"
		}
	}()
	return f()
}

// withWatchdog runs f with a 10 s limit (a hang is reported as "timeout"; the goroutine is abandoned).
func withWatchdog(f func() string) string {
	ch := make(chan string, 1)
	go func() { ch <- f() }()
	select {
	case r := <-ch:
		return r
	case <-time.After(60 * time.Second): // 100000-deep recursion of text/template takes seconds on a loaded machine
		return "timeout"
	}
}

var generators = map[string]func(*Ctx){}

func main() {
	if len(os.Args) == 4 && os.Args[1] == "mkhist" {
		mkhist(os.Args[2], os.Args[3])
		return
	}
	if len(os.Args) == 4 && os.Args[1] == "replay" {
		replayFile(os.Args[2], os.Args[3])
		return
	}
	if len(os.Args) < 5 {
		fmt.Fprintln(os.Stderr, "usage: harness <property> <quick|thorough> <seed> <outdir> [corpusfile]")
		os.Exit(2)
	}
	id, tier, seedS, out := os.Args[1], os.Args[2], os.Args[3], os.Args[4]
	seed, err := strconv.ParseInt(seedS, 10, 64)
	if err != nil {
		fmt.Fprintln(os.Stderr, "bad seed")
		os.Exit(2)
	}
	gen, ok := generators[id]
	if !ok {
		fmt.Fprintln(os.Stderr, "no generator for", id)
		os.Exit(2)
	}
	if err := os.MkdirAll(out, 0o755); err != nil {
		panic(err)
	}
	of, _ := os.Create(filepath.Join(out, "ops.txt"))
	rf, _ := os.Create(filepath.Join(out, "real.txt"))
	c := &Ctx{
		rng: rand.New(rand.NewSource(seed)), tier: tier, thorough: tier == "thorough",
		ops: bufio.NewWriterSize(of, 1<<20), real: bufio.NewWriterSize(rf, 1<<20),
		seenNT: map[uint64]bool{}, seenOp: map[uint64]bool{}, nsample: 12,
	}
	c.stats.Classes = map[string]int{}
	// corpus (minimised past disagreements / finding witnesses) runs first
	if len(os.Args) > 5 {
		if data, err := os.ReadFile(os.Args[5]); err == nil {
			runCorpus(c, id, string(data))
		}
	}
	gen(c)
	c.ops.Flush()
	c.real.Flush()
	of.Close()
	rf.Close()
	keys := make([]string, 0, len(c.stats.Classes))
	for k := range c.stats.Classes {
		keys = append(keys, k)
	}
	sort.Strings(keys)
	js, _ := json.MarshalIndent(c.stats, "", " ")
	os.WriteFile(filepath.Join(out, "stats.json"), js, 0o644)
}

// replayers re-run one op line against the real code (used for the corpus, for known findings
// and for --replay).
var replayers = map[string]func(args []string) string{}

func runCorpus(c *Ctx, id, data string) {
	for _, line := range strings.Split(data, "\n") {
		line = strings.TrimSpace(line)
		if line == "" || strings.HasPrefix(line, "#") {
			continue
		}
		op, args, ok := parseOpLine(line)
		if !ok {
			continue
		}
		if r, ok := replayers[op]; ok {
			c.emit(op, args, r(args), true, "corpus")
		}
	}
}

func parseOpLine(line string) (string, []string, bool) {
	f := strings.Fields(line)
	if len(f) == 0 {
		return "", nil, false
	}
	var args []string
	for _, a := range f[1:] {
		if a == "-" {
			args = append(args, "")
			continue
		}
		b, err := hex.DecodeString(a)
		if err != nil {
			return "", nil, false
		}
		args = append(args, string(b))
	}
	return f[0], args, true
}

// replayFile runs every op line of a file against the real code and writes <out>/ops.txt, real.txt.
func replayFile(opsFile, out string) {
	data, err := os.ReadFile(opsFile)
	if err != nil {
		fmt.Fprintln(os.Stderr, err)
		os.Exit(2)
	}
	os.MkdirAll(out, 0o755)
	var ops, real strings.Builder
	for _, line := range strings.Split(string(data), "\n") {
		line = strings.TrimSpace(line)
		if line == "" || strings.HasPrefix(line, "#") {
			continue
		}
		op, args, ok := parseOpLine(line)
		if !ok {
			fmt.Fprintln(os.Stderr, "bad op line:", line)
			os.Exit(2)
		}
		r, ok := replayers[op]
		if !ok {
			fmt.Fprintln(os.Stderr, "no replayer for", op)
			os.Exit(2)
		}
		ops.WriteString(line + "\n")
		real.WriteString(r(args) + "\n")
	}
	os.WriteFile(filepath.Join(out, "ops.txt"), []byte(ops.String()), 0o644)
	os.WriteFile(filepath.Join(out, "real.txt"), []byte(real.String()), 0o644)
}
