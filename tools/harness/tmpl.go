package main

// Template-engine side of the harness: wire formats (parse trees, data values), the interpreter that
// runs an API history against the REAL safehtml/template package, and error classification.

import (
	"bytes"
	"errors"
	"fmt"
	"reflect"
	"sort"
	"strings"
	texttemplate "text/template"
	"text/template/parse"

	"github.com/google/safehtml"
	"github.com/google/safehtml/template"
	tconv "github.com/google/safehtml/template/uncheckedconversions"
	sconv "github.com/google/safehtml/uncheckedconversions"
)

// ---------------------------------------------------------------- values

type Val struct {
	Kind string // s t i b n p l m
	Tag  string // safe type tag for t
	S    string
	I    int
	B    bool
	P    *Val
	L    []*Val
	Keys []string
	M    map[string]*Val
}

func (v *Val) wire(b *strings.Builder) {
	switch v.Kind {
	case "s":
		b.WriteString("s " + hxs(v.S) + " ")
	case "t":
		b.WriteString("t " + v.Tag + " " + hxs(v.S) + " ")
	case "i":
		fmt.Fprintf(b, "i %d ", v.I)
	case "b":
		if v.B {
			b.WriteString("b 1 ")
		} else {
			b.WriteString("b 0 ")
		}
	case "n":
		b.WriteString("n ")
	case "g":
		b.WriteString("g " + hxs(v.S) + " ")
	case "N":
		b.WriteString("N ")
	case "p":
		b.WriteString("p ")
		v.P.wire(b)
	case "l":
		b.WriteString("l [ ")
		for _, x := range v.L {
			x.wire(b)
		}
		b.WriteString("] ")
	case "m":
		b.WriteString("m { ")
		keys := append([]string(nil), v.Keys...)
		sort.Strings(keys)
		for _, k := range keys {
			b.WriteString(hxs(k) + " ")
			v.M[k].wire(b)
		}
		b.WriteString("} ")
	}
}

func (v *Val) Wire() string {
	var b strings.Builder
	v.wire(&b)
	return strings.TrimSpace(b.String())
}

// values whose reflect.Kind is numeric or bool but which print arbitrary text: a named int with String(), a named uint64
// with Error(), a named float64 with String(). The text is kept in a registry keyed by the value.
type hInt int
type hUint uint64
type hFloat float64

var hIntText = map[hInt]string{}
var hFloatText = map[hFloat]string{}
var hUintText = map[hUint]string{}

func (h hInt) String() string   { return hIntText[h] }
func (h hFloat) String() string { return hFloatText[h] }
func (h hUint) Error() string   { return hUintText[h] }

func stringerValue(s string) interface{} {
	n := 1
	for _, c := range []byte(s) {
		n = (n*131 + int(c)) % 1000003
	}
	if n == 0 {
		n = 7
	}
	switch n % 3 {
	case 0:
		hIntText[hInt(n)] = s
		return hInt(n)
	case 1:
		hFloatText[hFloat(n)] = s
		return hFloat(n)
	}
	hUintText[hUint(n)] = s
	return hUint(n)
}

func safeValue(tag, s string) interface{} {
	switch tag {
	case "H":
		return sconv.HTMLFromStringKnownToSatisfyTypeContract(s)
	case "S":
		return sconv.ScriptFromStringKnownToSatisfyTypeContract(s)
	case "Y":
		return sconv.StyleFromStringKnownToSatisfyTypeContract(s)
	case "E":
		return sconv.StyleSheetFromStringKnownToSatisfyTypeContract(s)
	case "U":
		return sconv.URLFromStringKnownToSatisfyTypeContract(s)
	case "R":
		return sconv.TrustedResourceURLFromStringKnownToSatisfyTypeContract(s)
	case "I":
		return sconv.IdentifierFromStringKnownToSatisfyTypeContract(s)
	case "X":
		return safehtml.URLSetSanitized(s) // only obtainable sanitized; used with sanitized contents
	}
	panic("bad safe tag " + tag)
}

func (v *Val) Go() interface{} {
	switch v.Kind {
	case "s":
		return v.S
	case "t":
		return safeValue(v.Tag, v.S)
	case "i":
		return v.I
	case "b":
		return v.B
	case "n":
		return nil
	case "g":
		return stringerValue(v.S)
	case "N":
		return (*string)(nil)
	case "p":
		inner := v.P.Go()
		p := reflect.New(reflect.TypeOf(inner))
		p.Elem().Set(reflect.ValueOf(inner))
		return p.Interface()
	case "l":
		out := make([]interface{}, 0, len(v.L))
		for _, x := range v.L {
			out = append(out, x.Go())
		}
		return out
	case "m":
		out := map[string]interface{}{}
		for k, x := range v.M {
			out[k] = x.Go()
		}
		return out
	}
	panic("bad value kind")
}

func parseValWire(toks []string) (*Val, []string, error) {
	if len(toks) == 0 {
		return nil, nil, fmt.Errorf("empty")
	}
	unhex := func(h string) (string, error) {
		_, a, ok := parseOpLine("x " + h)
		if !ok {
			return "", fmt.Errorf("bad hex")
		}
		return a[0], nil
	}
	switch toks[0] {
	case "s":
		s, err := unhex(toks[1])
		return &Val{Kind: "s", S: s}, toks[2:], err
	case "t":
		s, err := unhex(toks[2])
		return &Val{Kind: "t", Tag: toks[1], S: s}, toks[3:], err
	case "i":
		var i int
		_, err := fmt.Sscan(toks[1], &i)
		return &Val{Kind: "i", I: i}, toks[2:], err
	case "b":
		return &Val{Kind: "b", B: toks[1] == "1"}, toks[2:], nil
	case "n":
		return &Val{Kind: "n"}, toks[1:], nil
	case "g":
		s, err := unhex(toks[1])
		return &Val{Kind: "g", S: s}, toks[2:], err
	case "N":
		return &Val{Kind: "N"}, toks[1:], nil
	case "p":
		in, rest, err := parseValWire(toks[1:])
		return &Val{Kind: "p", P: in}, rest, err
	case "l":
		rest := toks[2:]
		v := &Val{Kind: "l"}
		for len(rest) > 0 && rest[0] != "]" {
			x, r, err := parseValWire(rest)
			if err != nil {
				return nil, nil, err
			}
			v.L = append(v.L, x)
			rest = r
		}
		return v, rest[1:], nil
	case "m":
		rest := toks[2:]
		v := &Val{Kind: "m", M: map[string]*Val{}}
		for len(rest) > 0 && rest[0] != "}" {
			k, err := unhex(rest[0])
			if err != nil {
				return nil, nil, err
			}
			x, r, err := parseValWire(rest[1:])
			if err != nil {
				return nil, nil, err
			}
			v.Keys = append(v.Keys, k)
			v.M[k] = x
			rest = r
		}
		return v, rest[1:], nil
	}
	return nil, nil, fmt.Errorf("bad token %q", toks[0])
}

// ---------------------------------------------------------------- parse trees

var builtinNames = []string{"and", "call", "html", "index", "slice", "js", "len", "not", "or", "print", "printf", "println", "urlquery", "eq", "ge", "gt", "le", "lt", "ne"}

func builtinFuncs() map[string]interface{} {
	m := map[string]interface{}{}
	for _, n := range builtinNames {
		m[n] = func() {}
	}
	return m
}

func wirePipe(b *strings.Builder, p *parse.PipeNode) {
	if p == nil {
		b.WriteString("- ")
		return
	}
	fmt.Fprintf(b, "P %d ", len(p.Decl))
	for _, d := range p.Decl {
		b.WriteString(hxs(strings.Join(d.Ident, ".")) + " ")
	}
	fmt.Fprintf(b, "%d ", len(p.Cmds))
	for _, c := range p.Cmds {
		fmt.Fprintf(b, "c %d ", len(c.Args))
		for _, a := range c.Args {
			switch a := a.(type) {
			case *parse.FieldNode:
				fmt.Fprintf(b, "f %d ", len(a.Ident))
				for _, id := range a.Ident {
					b.WriteString(hxs(id) + " ")
				}
			case *parse.VariableNode:
				fmt.Fprintf(b, "v %d ", len(a.Ident))
				for _, id := range a.Ident {
					b.WriteString(hxs(id) + " ")
				}
			case *parse.IdentifierNode:
				b.WriteString("i " + hxs(a.Ident) + " ")
			case *parse.DotNode:
				b.WriteString("d ")
			case *parse.StringNode:
				b.WriteString("s " + hxs(a.Text) + " ")
			case *parse.NumberNode:
				b.WriteString("n " + hxs(a.Text) + " ")
			case *parse.BoolNode:
				if a.True {
					b.WriteString("b 1 ")
				} else {
					b.WriteString("b 0 ")
				}
			case *parse.NilNode:
				b.WriteString("z ")
			case *parse.PipeNode:
				b.WriteString("o pipe ")
			case *parse.ChainNode:
				b.WriteString("o chain ")
			default:
				b.WriteString("o other ")
			}
		}
	}
}

func wireList(b *strings.Builder, l *parse.ListNode) {
	b.WriteString("[ ")
	if l != nil {
		for _, n := range l.Nodes {
			wireNode(b, n)
		}
	}
	b.WriteString("] ")
}

func wireNode(b *strings.Builder, n parse.Node) {
	switch n := n.(type) {
	case *parse.TextNode:
		b.WriteString("T " + hx(n.Text) + " ")
	case *parse.ActionNode:
		b.WriteString("A ")
		wirePipe(b, n.Pipe)
	case *parse.IfNode:
		b.WriteString("I ")
		wirePipe(b, n.Pipe)
		wireList(b, n.List)
		wireList(b, n.ElseList)
	case *parse.RangeNode:
		b.WriteString("R ")
		wirePipe(b, n.Pipe)
		wireList(b, n.List)
		wireList(b, n.ElseList)
	case *parse.WithNode:
		b.WriteString("W ")
		wirePipe(b, n.Pipe)
		wireList(b, n.List)
		wireList(b, n.ElseList)
	case *parse.TemplateNode:
		b.WriteString("C " + hxs(n.Name) + " ")
		wirePipe(b, n.Pipe)
	case *parse.BreakNode:
		b.WriteString("B ")
	case *parse.ContinueNode:
		b.WriteString("K ")
	case *parse.CommentNode:
		b.WriteString("M ")
	default:
		b.WriteString("M ")
	}
}

// wireDefs parses template text with the real text/template parser and serialises every tree it defines.
func wireDefs(name, text string) (string, error) {
	trees, err := parse.Parse(name, text, "", "", builtinFuncs())
	if err != nil {
		return "", err
	}
	names := make([]string, 0, len(trees))
	for n := range trees {
		names = append(names, n)
	}
	sort.Strings(names)
	var b strings.Builder
	for _, n := range names {
		b.WriteString("D " + hxs(n) + " ")
		wireList(&b, trees[n].Root)
	}
	return strings.TrimSpace(b.String()), nil
}

// ---------------------------------------------------------------- error classes

var errCodeNames = map[template.ErrorCode]string{
	template.ErrAmbigContext: "ErrAmbigContext", template.ErrBadHTML: "ErrBadHTML", template.ErrBranchEnd: "ErrBranchEnd",
	template.ErrEndContext: "ErrEndContext", template.ErrNoSuchTemplate: "ErrNoSuchTemplate", template.ErrOutputContext: "ErrOutputContext",
	template.ErrPartialCharset: "ErrPartialCharset", template.ErrPartialEscape: "ErrPartialEscape",
	template.ErrRangeLoopReentry: "ErrRangeLoopReentry", template.ErrSlashAmbig: "ErrSlashAmbig",
	template.ErrPredefinedEscaper: "ErrPredefinedEscaper", template.ErrEscapeAction: "ErrEscapeAction",
	template.ErrCSPCompatibility: "ErrCSPCompatibility", template.ErrUnbalancedJsTemplate: "ErrUnbalancedJsTemplate",
}

// error values returned by earlier calls are retained and re-read: a returned error must never change afterwards
var retainedErrs []struct {
	err error
	msg string
}

func classify(err error) string {
	msg0 := err.Error() // formatting the error is part of the API surface: it must not panic either
	for _, r := range retainedErrs {
		if r.err != err && r.err.Error() != r.msg {
			retainedErrs = nil
			return "EARLIER-ERROR-VALUE-CHANGED"
		}
	}
	retainedErrs = append(retainedErrs, struct {
		err error
		msg string
	}{err, msg0})
	if len(retainedErrs) > 16 {
		retainedErrs = retainedErrs[1:]
	}
	var te *template.Error
	if errors.As(err, &te) {
		if n, ok := errCodeNames[te.ErrorCode]; ok {
			return "analysis:" + n
		}
		return fmt.Sprintf("analysis:code%d", te.ErrorCode)
	}
	var ee texttemplate.ExecError
	if errors.As(err, &ee) {
		return "exec"
	}
	msg := err.Error()
	switch {
	case strings.Contains(msg, "cannot Parse after Execute"):
		return "parse-gate"
	case strings.Contains(msg, "cannot Clone"):
		return "clone"
	case strings.Contains(msg, "is undefined"):
		return "undefined"
	case strings.Contains(msg, "incomplete"):
		return "incomplete"
	}
	return "other"
}

// ---------------------------------------------------------------- history interpreter (REAL code)

type Step struct {
	Op   string
	H    int
	H2   int
	Name string
	Text string // template text for parse
	Data *Val
}

func (s Step) line() (string, error) {
	switch s.Op {
	case "new":
		return fmt.Sprintf("new %d %s", s.H, hxs(s.Name)), nil
	case "assocnew":
		return fmt.Sprintf("assocnew %d %s %d", s.H, hxs(s.Name), s.H2), nil
	case "parse":
		defs, err := wireDefs(s.Name, s.Text)
		if err != nil {
			return "", err
		}
		return fmt.Sprintf("parse %d %s %s", s.H, hxs(s.Text), hxs(defs)), nil
	case "clone":
		return fmt.Sprintf("clone %d %d", s.H, s.H2), nil
	case "lookup":
		return fmt.Sprintf("lookup %d %s %d", s.H, hxs(s.Name), s.H2), nil
	case "templates", "csp":
		return fmt.Sprintf("%s %d", s.Op, s.H), nil
	case "exec", "exechtml":
		return fmt.Sprintf("%s %d %s", s.Op, s.H, hxs(s.Data.Wire())), nil
	case "exect", "execthtml":
		return fmt.Sprintf("%s %d %s %s", s.Op, s.H, hxs(s.Name), hxs(s.Data.Wire())), nil
	}
	return "", fmt.Errorf("bad op %q", s.Op)
}

// historyLine builds the single op argument of `tmpl.hist`. handleNames maps handles to template names so
// that `parse` can name the top-level tree like the real parser does.
func historyText(steps []Step) (string, error) {
	names := map[int]string{}
	var lines []string
	for i := range steps {
		s := &steps[i]
		switch s.Op {
		case "new":
			names[s.H] = s.Name
		case "assocnew":
			names[s.H2] = s.Name
		case "lookup":
			names[s.H2] = s.Name
		case "clone":
			names[s.H2] = names[s.H]
		case "parse":
			s.Name = names[s.H]
		}
		l, err := s.line()
		if err != nil {
			return "", err
		}
		lines = append(lines, l)
	}
	return strings.Join(lines, "\n"), nil
}

type realWorld struct {
	h map[int]*template.Template
}

func execResult(err error, out []byte) string {
	if err != nil && strings.Contains(err.Error(), "exceeded maximum template depth") {
		return "err:exec-depth -"
	}
	if err != nil {
		return "err:" + classify(err) + " " + hx(out)
	}
	return "ok " + hx(out)
}

func execHTMLResult(h safehtml.HTML, err error) string {
	if err != nil && strings.Contains(err.Error(), "exceeded maximum template depth") {
		return "err:exec-depth -"
	}
	if err != nil {
		if h.String() != "" {
			return "err:" + classify(err) + " NONZERO:" + hxs(h.String())
		}
		return "err:" + classify(err) + " -"
	}
	return "ok " + hxs(h.String())
}

func (w *realWorld) step(line string) (res string) {
	defer func() {
		if r := recover(); r != nil {
			res = "panic"
		}
	}()
	f := strings.Fields(line)
	num := func(s string) int { var n int; fmt.Sscan(s, &n); return n }
	str := func(s string) string {
		_, a, _ := parseOpLine("x " + s)
		return a[0]
	}
	val := func(s string) interface{} {
		v, _, err := parseValWire(strings.Fields(str(s)))
		if err != nil {
			panic("bad data wire: " + err.Error())
		}
		return v.Go()
	}
	switch f[0] {
	case "new":
		w.h[num(f[1])] = template.New(str(f[2]))
		return "ok"
	case "assocnew":
		w.h[num(f[3])] = w.h[num(f[1])].New(str(f[2]))
		return "ok"
	case "parse":
		_, err := w.h[num(f[1])].ParseFromTrustedTemplate(tconv.TrustedTemplateFromStringKnownToSatisfyTypeContract(str(f[2])))
		if err != nil {
			c := classify(err)
			if c == "other" {
				c = "parse"
			}
			return "err:" + c
		}
		return "ok"
	case "clone":
		c, err := w.h[num(f[1])].Clone()
		if err != nil {
			return "err:" + classify(err)
		}
		w.h[num(f[2])] = c
		return "ok"
	case "lookup":
		t := w.h[num(f[1])].Lookup(str(f[2]))
		if t == nil {
			return "nil"
		}
		best := -1
		for k, v := range w.h {
			if v == t && (best == -1 || k < best) {
				best = k
			}
		}
		w.h[num(f[3])] = t
		if best >= 0 {
			return fmt.Sprintf("same:%d", best)
		}
		return "new"
	case "templates":
		var names []string
		for _, t := range w.h[num(f[1])].Templates() {
			names = append(names, t.Name())
		}
		sort.Strings(names)
		return "ok " + hxs(strings.Join(names, ","))
	case "csp":
		w.h[num(f[1])].CSPCompatible()
		return "ok"
	case "exec":
		var buf bytes.Buffer
		err := w.h[num(f[1])].Execute(&buf, val(f[2]))
		return execResult(err, buf.Bytes())
	case "exect":
		var buf bytes.Buffer
		err := w.h[num(f[1])].ExecuteTemplate(&buf, str(f[2]), val(f[3]))
		return execResult(err, buf.Bytes())
	case "exechtml":
		return execHTMLResult(w.h[num(f[1])].ExecuteToHTML(val(f[2])))
	case "execthtml":
		return execHTMLResult(w.h[num(f[1])].ExecuteTemplateToHTML(str(f[2]), val(f[3])))
	}
	return "bad-step"
}

func isExecOp(op string) bool {
	return op == "exec" || op == "exect" || op == "exechtml" || op == "execthtml"
}

func isDefOp(op string) bool {
	return op == "new" || op == "assocnew" || op == "parse" || op == "clone" || op == "lookup" || op == "csp"
}

// runLines runs the given step lines on a fresh real world; returns all results.
func runLines(lines []string) []string {
	w := &realWorld{h: map[int]*template.Template{}}
	var out []string
	dead := false
	for _, line := range lines {
		if dead {
			out = append(out, "skipped")
			continue
		}
		r := withWatchdog(func() string { return w.step(line) })
		out = append(out, r)
		if r == "panic" || r == "timeout" {
			dead = true
		}
	}
	return out
}

// setIDs assigns a set id to every handle, syntactically: new → fresh id; assocnew/lookup → the source's id;
// clone (when it succeeded) → fresh id. Returns for every step the set id of the handle it operates on.
func stepSets(lines, res []string) []int {
	set := map[int]int{}
	name := map[int]string{}
	next := 0
	out := make([]int, len(lines))
	for i, l := range lines {
		f := strings.Fields(l)
		num := func(s string) int { var n int; fmt.Sscan(s, &n); return n }
		str := func(s string) string { _, a, _ := parseOpLine("x " + s); return a[0] }
		h := num(f[1])
		out[i] = set[h]
		switch f[0] {
		case "new":
			set[h] = next
			name[h] = str(f[2])
			out[i] = next
			next++
		case "assocnew":
			// `*existing = *emptyTmpl`: every handle that denotes the old template of that name now denotes an
			// empty template of a brand-new set
			s0, n := set[h], str(f[2])
			var hs []int
			for x := range set {
				hs = append(hs, x)
			}
			sort.Ints(hs)
			for _, x := range hs {
				if set[x] == s0 && name[x] == n {
					set[x] = next
					next++
				}
			}
			set[num(f[3])] = s0
			name[num(f[3])] = n
		case "lookup":
			if res[i] != "nil" {
				set[num(f[3])] = set[h]
				name[num(f[3])] = str(f[2])
			}
		case "clone":
			if res[i] == "ok" {
				set[num(f[2])] = next
				name[num(f[2])] = name[h]
				next++
			}
		}
	}
	return out
}

func handleOf(line string) int {
	var n int
	fmt.Sscan(strings.Fields(line)[1], &n)
	return n
}

// bindStepOf: index of the last step before i that binds handle h (0 if none)
func bindStepOf(lines []string, i, h int) int {
	for j := i - 1; j >= 0; j-- {
		f := strings.Fields(lines[j])
		var x int
		switch f[0] {
		case "new":
			fmt.Sscan(f[1], &x)
		case "assocnew", "lookup":
			fmt.Sscan(f[3], &x)
		case "clone":
			fmt.Sscan(f[2], &x)
		default:
			continue
		}
		if x == h {
			return j
		}
	}
	return 0
}

// annotate adds to every exec step `~<fresh>~<frozen>`: the result of the same call on a freshly built
// set with (a) all definition steps that succeeded so far (C06) and (b) only those before the first
// execution of the step's set (C07).
func annotate(lines, res []string) []string {
	sets := stepSets(lines, res)
	firstExec := map[int]int{}
	for i, l := range lines {
		if isExecOp(strings.Fields(l)[0]) {
			if _, ok := firstExec[sets[i]]; !ok {
				firstExec[sets[i]] = i
			}
		}
	}
	out := make([]string, len(res))
	copy(out, res)
	for i, l := range lines {
		op := strings.Fields(l)[0]
		if !isExecOp(op) || res[i] == "skipped" {
			continue
		}
		var all, frozen []string
		fe := firstExec[sets[i]]
		for j := 0; j < i; j++ {
			opj := strings.Fields(lines[j])[0]
			if !isDefOp(opj) || strings.HasPrefix(res[j], "err") || res[j] == "panic" || res[j] == "skipped" || res[j] == "timeout" {
				continue
			}
			all = append(all, lines[j])
			if j < fe {
				frozen = append(frozen, lines[j])
			}
		}
		ra := runLines(append(all, l))
		frozenRes := res[i]
		// the frozen reference is only defined for handles that existed when the set froze
		if !(bindStepOf(lines, i, handleOf(l)) >= fe && fe < i) {
			rf := runLines(append(frozen, l))
			frozenRes = rf[len(rf)-1]
		}
		out[i] = res[i] + "~" + ra[len(ra)-1] + "~" + frozenRes
	}
	return out
}

// runHistoryReal interprets a history against the real package. After a panic the remaining steps are skipped.
func runHistoryReal(hist string) string {
	var lines []string
	for _, line := range strings.Split(hist, "\n") {
		if strings.TrimSpace(line) != "" {
			lines = append(lines, line)
		}
	}
	res := runLines(lines)
	return strings.Join(annotate(lines, res), ";")
}

func init() {
	replayers["tmpl.hist"] = func(a []string) string { return runHistoryReal(a[0]) }
}

// histBuilder builds a history step by step while running it against the real package, so that the
// generator can react to results (e.g. only use handles that were really bound).
type histBuilder struct {
	names map[int]string
	lines []string
	res   []string
	w     *realWorld
	dead  bool
	lastData string
}

func newHistBuilder() *histBuilder {
	return &histBuilder{names: map[int]string{}, w: &realWorld{h: map[int]*template.Template{}}}
}

// add appends a step; returns its real result ("" if the step could not be serialised).
func (hb *histBuilder) add(s Step) string {
	switch s.Op {
	case "new":
		hb.names[s.H] = s.Name
	case "assocnew", "lookup":
		hb.names[s.H2] = s.Name
	case "clone":
		hb.names[s.H2] = hb.names[s.H]
	case "parse":
		s.Name = hb.names[s.H]
	}
	l, err := s.line()
	if err != nil {
		return ""
	}
	hb.lines = append(hb.lines, l)
	r := "skipped"
	if !hb.dead {
		r = withWatchdog(func() string { return hb.w.step(l) })
		if r == "panic" || r == "timeout" {
			hb.dead = true
		}
	}
	hb.res = append(hb.res, r)
	return r
}

func (hb *histBuilder) bound(h int) bool { return hb.w.h[h] != nil }
func (hb *histBuilder) hist() string     { return strings.Join(hb.lines, "\n") }
func (hb *histBuilder) result() string   { return strings.Join(annotate(hb.lines, hb.res), ";") }
