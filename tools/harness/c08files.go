package main

import (
	"bytes"
	"embed"
	"fmt"
	"os"
	"path/filepath"
	"sort"
	"strings"

	"github.com/google/safehtml/template"
)

// tmpl.files: the file-reading entry points (ParseFiles / ParseGlob / ParseFS, as functions and as methods) on files
// written for the occasion. The model has no file system: the op carries the history
//   new <first name>; parse <first content>; assocnew <next name>; parse <next content>; …; exec
// that the documentation of these functions equates them with, and the model runs that. So the real side of the
// comparison goes through the files, the model side through Parse — a difference is a difference in the glue
// (reading, naming, association), a panic is a C08 violation.

func init() {
	replayers["tmpl.files"] = func(a []string) string {
		var names, contents []string
		f := strings.Split(a[1], "\x00")
		for i := 0; i+1 < len(f); i += 2 {
			names = append(names, f[i])
			contents = append(contents, f[i+1])
		}
		v, _, err := parseValWire(strings.Fields(a[3]))
		if err != nil {
			return "bad-data"
		}
		return runFiles(a[0], names, contents, a[2], v)
	}
}

// files compiled into the harness: embed.FS hands out byte slices without spare capacity, unlike os.ReadFile
//
//go:embed fixtures/*.tmpl
var fixturesFS embed.FS

var fixtureNames = []string{"empty.tmpl", "bom.tmpl", "bomonly.tmpl", "one.tmpl", "two.tmpl", "page.tmpl", "helper.tmpl", "bad.tmpl", "open.tmpl"}

var fileNames = []string{"a.tmpl", "b.tmpl", "c.tmpl", "page.html", "x y.tmpl", "h\xc3\xa9.tmpl", "Z.tmpl", "0.tmpl", "noext", "q.tmpl.txt"}

var fileContents = []string{
	"", "\xef\xbb\xbf", "\xef\xbb\xbfhello {{.X}}", "\xef\xbb", "x", "\n", "<p>{{.X}}</p>", "<a href=\"{{.X}}\">l</a>", "{{define \"b.tmpl\"}}redefined {{.X}}{{end}}",
	"{{define \"h0\"}}<b>{{.X}}</b>{{end}}", "{{template \"b.tmpl\" .}}", "<p title='{{template \"a.tmpl\" .}}'>", "{{template \"h0\" .}}", "<script>{{.X}}</script>",
	"<a href=\"", "{{if .C}}<a href=\"{{else}}x{{end}}", "{{range .L}}{{break}}{{end}}", "{{/* only a comment */}}", "{{define \"c.tmpl\"}}{{end}}", "\xff\xfe{{.X}}",
	"<textarea>{{.X}}", "{{define \"a.tmpl\"}}self{{end}}", "{{template \"nope\" .}}", "{{.X}}\r\n", "  {{- .X -}}  ",
}

// texts the parser rejects: the call must return an error and no template
var fileBadContents = []string{"{{", "{{.X", "{{end}}", "{{define \"x\"}}", "{{template}}", "{{if}}x{{end}}", "\xef\xbb\xbf{{", "{{range .L}}{{break}}", "{{break}}"}

// runFiles writes the files into a fresh directory and goes through the real entry point `via`.
func runFiles(via string, names, contents []string, execName string, data *Val) (res string) {
	return withWatchdog(func() (res string) {
		defer func() {
			if r := recover(); r != nil {
				res = "panic"
			}
		}()
		dir, err := os.MkdirTemp("", "verif-files")
		if err != nil {
			return "no-tempdir"
		}
		defer os.RemoveAll(dir)
		for i, n := range names {
			if err := os.WriteFile(filepath.Join(dir, n), []byte(contents[i]), 0o644); err != nil {
				return "no-tempfile"
			}
		}
		os.Setenv("VERIF_FILES_DIR", dir)
		root := template.TrustedSourceFromEnvVar("VERIF_FILES_DIR")
		var srcs []template.TrustedSource
		for _, n := range names {
			s, err := template.TrustedSourceFromConstantDir("", root, n)
			if err != nil {
				return "bad-name"
			}
			srcs = append(srcs, s)
		}
		pattern, _ := template.TrustedSourceFromConstantDir("", root, "*")
		var t *template.Template
		switch via {
		case "files":
			t, err = template.ParseFilesFromTrustedSources(srcs...)
		case "tfiles":
			t, err = template.New(names[0]).ParseFilesFromTrustedSources(srcs...)
		case "glob":
			t, err = template.ParseGlobFromTrustedSource(pattern)
		case "tglob":
			t, err = template.New(names[0]).ParseGlobFromTrustedSource(pattern)
		case "fs":
			t, err = template.ParseFS(template.TrustedFSFromTrustedSource(root), names...)
		case "tfs":
			t, err = template.New(names[0]).ParseFS(template.TrustedFSFromTrustedSource(root), "*")
		case "embed", "tembed":
			var pats []string
			for _, n := range names {
				pats = append(pats, "fixtures/"+n)
			}
			if via == "embed" {
				t, err = template.ParseFS(template.TrustedFSFromEmbed(fixturesFS), pats...)
			} else {
				t, err = template.New(names[0]).ParseFS(template.TrustedFSFromEmbed(fixturesFS), pats...)
			}
		case "zerofs":
			// the zero TrustedFS wraps no file system: an error, whatever the working directory holds
			cwd, _ := os.Getwd()
			os.Chdir(dir)
			t, err = template.ParseFS(template.TrustedFS{}, names...)
			os.Chdir(cwd)
		case "tzerofs":
			cwd, _ := os.Getwd()
			os.Chdir(dir)
			t, err = template.New(names[0]).ParseFS(template.TrustedFS{}, "*")
			os.Chdir(cwd)
		case "zerosrc":
			t, err = template.ParseFilesFromTrustedSources(template.TrustedSource{})
		case "zeroglob":
			t, err = template.ParseGlobFromTrustedSource(template.TrustedSource{})
		case "nofiles":
			t, err = template.ParseFilesFromTrustedSources()
		default:
			return "bad-via"
		}
		if err != nil {
			if t != nil {
				return "err-with-template"
			}
			c := classify(err)
			if c == "other" {
				c = "parse"
			}
			return "err:" + c
		}
		if t == nil {
			return "nil-without-error"
		}
		var buf bytes.Buffer
		if execName == "" {
			return execResult(t.Execute(&buf, data.Go()), buf.Bytes())
		}
		err = t.ExecuteTemplate(&buf, execName, data.Go())
		return execResult(err, buf.Bytes())
	})
}

func genFiles(c *Ctx) {
	for _, via := range []string{"zerofs", "tzerofs", "zerosrc", "zeroglob", "nofiles"} {
		d := &Val{Kind: "s", S: "x"}
		names, contents := []string{"a.tmpl", "b.tmpl"}, []string{"<p>{{.}}</p>", "x"}
		real := runFiles(via, names, contents, "", d)
		c.emit("tmpl.files", []string{via, strings.Join([]string{names[0], contents[0], names[1], contents[1]}, "\x00"), "", d.Wire(), "", "err:parse"}, real, true, "files-"+via)
	}
	data := &Val{Kind: "m", Keys: []string{"C", "L", "X"}, M: map[string]*Val{"X": {Kind: "s", S: "a\"b<&"}, "C": {Kind: "b", B: true},
		"L": {Kind: "l", L: []*Val{{Kind: "i", I: 1}, {Kind: "i", I: 2}}}}}
	for i := 0; i < c.n(400, 6000); i++ {
		via := pick(c, []string{"files", "tfiles", "glob", "tglob", "fs", "tfs", "embed", "tembed"})
		n := 1 + c.rng.Intn(3)
		pool := fileNames
		if via == "embed" || via == "tembed" {
			pool = fixtureNames
		}
		perm := c.rng.Perm(len(pool))[:n]
		var names []string
		for _, p := range perm {
			names = append(names, pool[p])
		}
		if via == "glob" || via == "tglob" || via == "tfs" {
			sort.Strings(names) // the order in which a pattern lists the files
		}
		bad := c.rng.Intn(8) == 0
		var contents []string
		for range names {
			contents = append(contents, pick(c, fileContents))
		}
		if bad {
			contents[c.rng.Intn(n)] = pick(c, fileBadContents)
		}
		if via == "embed" || via == "tembed" {
			for k, nm := range names {
				b, _ := fixturesFS.ReadFile("fixtures/" + nm)
				contents[k] = string(b)
			}
		}
		execName := ""
		if c.rng.Intn(2) == 0 {
			execName = pick(c, append(append([]string{}, names...), "h0", "nope"))
		}
		// the equivalent Parse history
		hb := newHistBuilder()
		hb.add(Step{Op: "new", H: 0, Name: names[0]})
		expect := ""
		for k, nm := range names {
			h := 0
			if nm != names[0] {
				h = k
				hb.add(Step{Op: "assocnew", H: 0, Name: nm, H2: h})
			}
			r := hb.add(Step{Op: "parse", H: h, Text: contents[k]})
			if r == "" {
				expect = "err:parse" // the text/template parser rejects this file
				break
			}
			if strings.HasPrefix(r, "err") {
				expect = r
				break
			}
		}
		if expect == "" {
			if execName == "" {
				hb.add(Step{Op: "exec", H: 0, Data: data})
			} else {
				hb.add(Step{Op: "exect", H: 0, Name: execName, Data: data})
			}
		}
		var nc []string
		for k := range names {
			nc = append(nc, names[k], contents[k])
		}
		real := runFiles(via, names, contents, execName, data)
		class := via + "-"
		switch {
		case expect != "":
			class += "rejected"
		case strings.HasPrefix(real, "ok"):
			class += "ok"
		default:
			class += strings.SplitN(real, " ", 2)[0]
		}
		c.emit("tmpl.files", []string{via, strings.Join(nc, "\x00"), execName, data.Wire(), hb.hist(), expect}, real, expect == "", fmt.Sprintf("files-%s", class))
	}
}
