package main

import (
	"html"
	"strings"
	"unicode/utf8"

	"github.com/google/safehtml"
	"github.com/google/safehtml/uncheckedconversions"
)

// real result of html.escaped: the escaped text and stdlib html.UnescapeString of it
// results of earlier calls are retained and re-read: a returned value must never change afterwards
var c10Retained []struct{ got, copy string }

func realHTMLEscaped(s string) string {
	return guard(func() string {
		o := safehtml.HTMLEscaped(s).String()
		res := "ok " + hxs(o) + " " + hxs(html.UnescapeString(o))
		for _, r := range c10Retained {
			if r.got != r.copy {
				c10Retained = nil
				return "err an-earlier-result-changed-after-this-call"
			}
		}
		c10Retained = append(c10Retained, struct{ got, copy string }{o, strings.Clone(o)})
		if len(c10Retained) > 8 {
			c10Retained = c10Retained[1:]
		}
		return res
	})
}

func realHTMLConcat(args []string) string {
	return guard(func() string {
		hs := make([]safehtml.HTML, len(args))
		for i, a := range args {
			hs[i] = uncheckedconversions.HTMLFromStringKnownToSatisfyTypeContract(a)
		}
		return okHex(safehtml.HTMLConcat(hs...).String())
	})
}

func init() {
	replayers["html.escaped"] = func(a []string) string { return realHTMLEscaped(a[0]) }
	replayers["html.concat"] = func(a []string) string { return realHTMLConcat(a) }
	generators["C10"] = genC10
}

// independent reference (Go side, only for the non-trivial flag and the class label)
func c10Class(s string) (string, bool) {
	special, bad, invalid := false, false, false
	for i := 0; i < len(s); {
		r, w := utf8.DecodeRuneInString(s[i:])
		if r == utf8.RuneError && w == 1 {
			invalid = true
		} else {
			switch {
			case r == '<' || r == '>' || r == '&' || r == '"' || r == '\'':
				special = true
			case r <= 8 || r == 0xB || (r >= 0xE && r <= 0x1F) || (r >= 0x7F && r <= 0x9F):
				bad = true
			case (r >= 0xFDD0 && r <= 0xFDEF) || r&0xFFFE == 0xFFFE:
				bad = true
			}
		}
		i += w
	}
	cl := ""
	if special {
		cl += "special"
	}
	if bad {
		cl += "+bad"
	}
	if invalid {
		cl += "+invalid"
	}
	if cl == "" {
		cl = "plain"
	}
	return strings.TrimPrefix(cl, "+"), special || bad || invalid
}

// every kind of invalid encoding
func c10Invalid() []string {
	var out []string
	for b := 0x80; b <= 0xBF; b += 7 { // stray continuation bytes
		out = append(out, string([]byte{byte(b)}))
	}
	out = append(out, "\x80", "\xbf", "\x80\x80", "\xbf\xbf\xbf")
	for _, b := range []byte{0xC0, 0xC1, 0xF5, 0xF6, 0xF7, 0xF8, 0xFB, 0xFC, 0xFD, 0xFE, 0xFF} { // never-valid lead bytes
		out = append(out, string([]byte{b}), string([]byte{b, 0x80}), string([]byte{b, 0xBF, 0xBF}))
	}
	// overlong
	out = append(out, "\xc0\x80", "\xc0\xaf", "\xc0\xbc", "\xc1\xbf", "\xe0\x80\x80", "\xe0\x80\xbc", "\xe0\x9f\xbf", "\xf0\x80\x80\x80", "\xf0\x80\x80\xbc", "\xf0\x8f\xbf\xbf")
	// beyond U+10FFFF
	out = append(out, "\xf4\x90\x80\x80", "\xf4\xbf\xbf\xbf", "\xf5\x80\x80\x80", "\xf7\xbf\xbf\xbf")
	// surrogates (sample; the thorough tier enumerates all)
	out = append(out, "\xed\xa0\x80", "\xed\xaf\xbf", "\xed\xb0\x80", "\xed\xbf\xbf", "\xed\xa0\x80\xed\xb0\x80")
	// truncated sequences: every proper prefix of valid 2-, 3-, 4-byte encodings (incl. a noncharacter and a special after it)
	for _, v := range []string{"\u00e9", "\u0080", "\u07ff", "\u0800", "\u20ac", "\ufffd", "\uffff", "\ufdd0", "\U00010000", "\U0001F600", "\U0010FFFF", "\U0001FFFE"} {
		for i := 1; i < len(v); i++ {
			out = append(out, v[:i])
		}
	}
	// wrong continuation
	out = append(out, "\xc3\x28", "\xc3\xc3", "\xe2\x28\xa1", "\xe2\x82\x28", "\xf0\x28\x8c\xbc", "\xf0\x90\x28\xbc", "\xf0\x90\x8c\x28", "\xe0\xa0", "\xed\x9f", "\xf4\x8f\xbf")
	return out
}

var c10Alphabet = []string{"a", "Z", "0", " ", "<", ">", "&", "\"", "'", "&amp;", "&lt;", "&#39;", "&#34", "&", ";", "#", "\x00", "\x01", "\x08", "\t", "\n", "\x0b", "\x0c", "\r",
	"\x0e", "\x1e", "\x1f", "\x7f", "\u0080", "\u0085", "\u009f", "\u00a0", "\u00e9", "\u07ff", "\u0800", "\u2028", "\ud7ff", "\ue000", "\ufdcf", "\ufdd0", "\ufdef", "\ufdf0",
	"\ufffd", "\ufffe", "\uffff", "\U00010000", "\U0001F600", "\U0001FFFE", "\U0001FFFF", "\U000EFFFF", "\U0010FFFD", "\U0010FFFE", "\U0010FFFF",
	"\xff", "\xc0\xaf", "\xc3", "\xe2\x82", "\xf0\x9f\x98", "\xed\xa0\x80", "\x80", "\xf4\x90\x80\x80", "</script>", "<!--", "]]>", "javascript:", "\\", "`", "=", "/"}

func genC10(c *Ctx) {
	c.stats.Rule = "op html.escaped (result = escaped text + Go html.UnescapeString of it): every code point 0\u20260x10FFFF as its own valid UTF-8 string and 64 at a time between specials " +
		"(thorough: all; quick: all below U+0800, everything within 3 of a forbidden-range or plane boundary, every 61st otherwise), every surrogate encoding (thorough) / a sample, " +
		"every class of invalid encoding (stray continuation, never-valid lead byte, overlong, beyond U+10FFFF, truncated, wrong continuation) at start / middle / end, " +
		"all 2-byte strings (thorough) / a sample, seeded long strings over a hostile alphabet; op html.concat on 0\u20134 arbitrary strings. " +
		"Non-trivial: the input contains a special character, a forbidden code point or an invalid byte (output differs from input); every html.concat."
	esc := func(s, class string) {
		cl, nt := c10Class(s)
		c.emit("html.escaped", []string{s}, realHTMLEscaped(s), nt, class+":"+cl)
	}
	interesting := func(r rune) bool {
		if r < 0x800 {
			return true
		}
		lo := r & 0xFFFF
		if lo <= 3 || lo >= 0xFFF8 {
			return true
		}
		for _, b := range []rune{0xD7FF, 0xE000, 0xFDD0, 0xFDEF, 0xFFFD, 0x10000} {
			if r >= b-3 && r <= b+3 {
				return true
			}
		}
		return false
	}
	// --- every rune ---
	var sb strings.Builder
	n := 0
	for r := rune(0); r <= 0x10FFFF; r++ {
		if r >= 0xD800 && r <= 0xDFFF {
			continue
		}
		if c.thorough || interesting(r) || r%61 == 0 {
			esc(string(r), "rune")
		}
		if c.thorough || interesting(r) || r%7 == 0 {
			sb.WriteRune(r)
			n++
			if n == 64 {
				esc("<"+sb.String()+"&", "runes64")
				sb.Reset()
				n = 0
			}
		}
	}
	if n > 0 {
		esc("<"+sb.String()+"&", "runes64")
	}
	// --- surrogate encodings ED A0..BF 80..BF ---
	for b1 := 0xA0; b1 <= 0xBF; b1++ {
		for b2 := 0x80; b2 <= 0xBF; b2++ {
			if c.thorough || b2 == 0x80 || b2 == 0xBF || c.rng.Intn(16) == 0 {
				s := string([]byte{0xED, byte(b1), byte(b2)})
				esc(s, "surrogate")
				esc("a"+s+"<", "surrogate")
			}
		}
	}
	// --- invalid encodings at start / middle / end ---
	for _, x := range c10Invalid() {
		esc(x, "invalid")
		esc(x+"a<", "invalid-start")
		esc("a&"+x+"'b", "invalid-middle")
		esc("\"\u00e9"+x, "invalid-end")
		esc(x+"\u00e9"+x+"\U0001F600"+x, "invalid-multi")
		esc("\x1f"+x+"\ufffe", "invalid+bad")
	}
	// --- short strings ---
	esc("", "len0")
	for a := 0; a < 256; a++ {
		esc(string([]byte{byte(a)}), "len1")
	}
	if c.thorough {
		for a := 0; a < 256; a++ {
			for b := 0; b < 256; b++ {
				esc(string([]byte{byte(a), byte(b)}), "len2")
			}
		}
		c.stats.Exhaustive = true
		c.stats.ExhaustiveWhat = "html.escaped: every code point 0\u20260x10FFFF (singly and in runs of 64), every surrogate encoding, all byte strings of length \u2264 2"
	} else {
		for i := 0; i < 4000; i++ {
			esc(string([]byte{byte(c.rng.Intn(256)), byte(c.rng.Intn(256))}), "len2-sample")
		}
		c.stats.Exhaustive = true
		c.stats.ExhaustiveWhat = "html.escaped: every code point below U+0800 and within 3 of every forbidden-range / plane boundary; all byte strings of length \u2264 1"
	}
	// all 3-byte strings with a fixed lead byte class sample: lead \u00d7 cont \u00d7 cont around range borders
	for _, b0 := range []int{0xE0, 0xED, 0xEF, 0xF0, 0xF4, 0xC2, 0xDF} {
		for _, b1 := range []int{0x7F, 0x80, 0x8F, 0x90, 0x9F, 0xA0, 0xB7, 0xBF, 0xC0} {
			for _, b2 := range []int{0x7F, 0x80, 0x8F, 0x90, 0xAF, 0xB0, 0xBD, 0xBE, 0xBF, 0xC0} {
				esc(string([]byte{byte(b0), byte(b1), byte(b2)}), "lead-cont-cont")
				esc(string([]byte{byte(b0), byte(b1), byte(b2), 0xBF}), "lead-cont-cont-cont")
				esc(string([]byte{byte(b0), byte(b1), byte(b2), 0xBE}), "lead-cont-cont-cont")
			}
		}
	}
	// --- seeded long strings ---
	for i := 0; i < c.n(6000, 120000); i++ {
		esc(c.randFrom(c10Alphabet, 24), "seeded")
	}
	for i := 0; i < c.n(2000, 40000); i++ {
		nb := c.rng.Intn(40)
		b := make([]byte, nb)
		for j := range b {
			b[j] = byte(c.rng.Intn(256))
		}
		esc(string(b), "random-bytes")
	}
	for i := 0; i < c.n(20, 200); i++ {
		var lb strings.Builder
		for j := 0; j < 2000; j++ {
			lb.WriteString(pick(c, c10Alphabet))
		}
		esc(lb.String(), "long")
	}
	// --- HTMLConcat ---
	c.emit("html.concat", nil, realHTMLConcat(nil), true, "concat0")
	for i := 0; i < c.n(3000, 40000); i++ {
		k := c.rng.Intn(5)
		args := make([]string, k)
		for j := range args {
			switch c.rng.Intn(3) {
			case 0:
				args[j] = safehtml.HTMLEscaped(c.randFrom(c10Alphabet, 6)).String()
			default:
				args[j] = c.randFrom(c10Alphabet, 6)
			}
		}
		c.emit("html.concat", args, realHTMLConcat(args), true, "concat")
	}
}
