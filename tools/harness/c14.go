package main

import (
	"bytes"
	"errors"
	"html"
	"strings"
	texttemplate "text/template"

	"github.com/google/safehtml"
	"github.com/google/safehtml/template"
	"github.com/google/safehtml/template/uncheckedconversions"
)

func c14OkErr(err error) string {
	if err != nil {
		return "err"
	}
	return "ok"
}

func c14Query(s string) string { return guard(func() string { return okHex(safehtml.VerifQueryEscapeURL(s)) }) }
func c14Norm(s string) string  { return guard(func() string { return okHex(safehtml.VerifNormalizeURL(s)) }) }
func c14Norm2(s string) string {
	return guard(func() string {
		r := safehtml.VerifNormalizeURL(s)
		return "ok " + hxs(r) + " " + hxs(safehtml.VerifNormalizeURL(r))
	})
}
func c14DotDot(s string) string {
	return guard(func() string {
		if safehtml.VerifURLContainsDoubleDotSegment(s) {
			return "true"
		}
		return "false"
	})
}
func c14Unescape(s string) string { return guard(func() string { return okHex(html.UnescapeString(s)) }) }
func c14PrefixURL(p string) string {
	return guard(func() string { return c14OkErr(template.VerifValidateURLPrefix(p)) })
}
func c14PrefixTRU(p string) string {
	return guard(func() string { return c14OkErr(template.VerifValidateTrustedResourceURLPrefix(p)) })
}
func c14PrefixDecode(p string) string {
	return guard(func() string {
		d, err := template.VerifDecodeURLPrefix(p)
		if err != nil {
			return "err"
		}
		return okHex(d)
	})
}

// c14URLAttr executes the real template `<elem attr="P{{.}}">` with the string data.
// ok <output> | perr (the template is rejected: analysis error) | xerr (execution error in a sanitizer)
func c14URLAttr(elem, attr, p, data string) string {
	return guard(func() string {
		text := "<" + elem + " " + attr + `="` + p + `{{.}}">`
		if elem == "script" {
			text += "</script>"
		}
		t, err := template.New("t").ParseFromTrustedTemplate(
			uncheckedconversions.TrustedTemplateFromStringKnownToSatisfyTypeContract(text))
		if err != nil {
			return "perr"
		}
		var b bytes.Buffer
		if err := t.Execute(&b, data); err != nil {
			var xe texttemplate.ExecError
			if errors.As(err, &xe) {
				return "xerr"
			}
			return "perr"
		}
		return okHex(b.String())
	})
}

// c14URLAttr2 executes `<elem attr="P{{.A}}M{{.B}}">`: two actions in one attribute value, static text M between.
func c14URLAttr2(elem, attr, p, a, mid, b string) string {
	return guard(func() string {
		text := "<" + elem + " " + attr + `="` + p + `{{.A}}` + mid + `{{.B}}">`
		if elem == "script" {
			text += "</script>"
		}
		t, err := template.New("t").ParseFromTrustedTemplate(
			uncheckedconversions.TrustedTemplateFromStringKnownToSatisfyTypeContract(text))
		if err != nil {
			return "perr"
		}
		var buf bytes.Buffer
		if err := t.Execute(&buf, map[string]string{"A": a, "B": b}); err != nil {
			var xe texttemplate.ExecError
			if errors.As(err, &xe) {
				return "xerr"
			}
			return "perr"
		}
		return okHex(buf.String())
	})
}

// c14URLRange: `<elem attr="P{{range .L}}{{.}}M{{end}}">` with L = [x, y], through the history machinery so that the
// model runs the same template; M always contains "~~", which no item contains, so the oracle can cut the value.
func c14URLRangeHist(elem, attr, p, mid, x, y string) (string, string) {
	text := "<" + elem + " " + attr + `="` + p + `{{range .L}}{{.}}` + mid + `{{end}}">`
	if elem == "script" {
		text += "</script>"
	}
	hb := newHistBuilder()
	hb.add(Step{Op: "new", H: 0, Name: "root"})
	if hb.add(Step{Op: "parse", H: 0, Text: text}) == "" {
		return "", ""
	}
	d := &Val{Kind: "m", Keys: []string{"L"}, M: map[string]*Val{"L": {Kind: "l", L: []*Val{{Kind: "s", S: x}, {Kind: "s", S: y}}}}}
	r := hb.add(Step{Op: "exec", H: 0, Data: d})
	return hb.hist(), r
}

func init() {
	replayers["tmpl.urlrange"] = func(a []string) string { return lastOf(runLinesStr(a[6])) }
	replayers["tmpl.urlattr2"] = func(a []string) string { return c14URLAttr2(a[0], a[1], a[2], a[3], a[4], a[5]) }
	replayers["util.query"] = func(a []string) string { return c14Query(a[0]) }
	replayers["util.norm"] = func(a []string) string { return c14Norm(a[0]) }
	replayers["util.norm2"] = func(a []string) string { return c14Norm2(a[0]) }
	replayers["util.dotdot"] = func(a []string) string { return c14DotDot(a[0]) }
	replayers["go.unescape"] = func(a []string) string { return c14Unescape(a[0]) }
	replayers["tmpl.prefix.url"] = func(a []string) string { return c14PrefixURL(a[0]) }
	replayers["tmpl.prefix.tru"] = func(a []string) string { return c14PrefixTRU(a[0]) }
	replayers["tmpl.prefix.decode"] = func(a []string) string { return c14PrefixDecode(a[0]) }
	replayers["tmpl.link"] = func(a []string) string { return lastOf(runLinesStr(a[3])) }
	replayers["tmpl.urlattr"] = func(a []string) string { return c14URLAttr(a[0], a[1], a[2], a[3]) }
	generators["C14"] = genC14
}

// pieces of static URL prefixes: schemes, hosts, paths, queries, fragments, character references of all three
// syntaxes (complete, partial, without semicolon, overflowing, legacy names), percent escapes (complete and
// partial), whitespace and controls raw and as references.
var c14PrefixPieces = []string{
	"http:", "https:", "HTTPS:", "javascript:", "JaVaScRiPt:", "mailto:", "data:", "about:blank#", "j", "java", "script", "x-y.z+w:", ":",
	"//example.com/", "//[::1]:80/", "//", "/", "/a/", "/a", "a/", ".", "..", "/.", "/%2e", "%2E", "/../",
	"?", "?a=", "&b=", "#", "#frag", "=",
	"&amp;", "&amp", "&", "&#", "&#x", "&#X", "&#1", "&#9", "&#9;", "&#x9;", "&#x9", "&#10;", "&#10", "&#x0a;", "&#32;", "&#x20", "&#127;",
	"&Tab;", "&NewLine;", "&quest;", "&num;", "&sol;", "&colon;", "&period;", "&percnt;", "&lt", "&ltx", "&lt;", "&gt", "&quot;", "&apos;", "&notit;", "&not", "&nbsp", "&nbsp;",
	"&#x;", "&#;", "&#4294967343;", "&#4294967306;", "&#x100000002f;", "&#x10000003a;", "&#2147483648;", "&#xD800;", "&#0;", "&#128;", "&#x9f;", "&#x81;", "&#1114112;", "&#x10FFFF;",
	"&bne;", "&fjlig;", "&a", "&am", "&amp;x", "&#9x", "&#1x", "&#0x41", "&#47;", "&#x2f;", "&#58;", "&#x3a", "&#63;", "&#35;", "&#37;", "&#x25;2",
	"&AMP", "&AMP;", "&Amp;", "&COPY", "&copy", "&copysr;", "&unknown;", "&x;", "&1;",
	"%", "%2", "%2e", "%41", "%zz", "%25", "%a", "%G",
	" ", "\t", "\n", "\r", "\f", "\x0b", "\x01", "\x1f", "\x7f", "\x00",
	"a", "Z", "0", "-", "+", "'", "é", "\xff", "\xc2\x85", "\\", "~", "_", "@", "!", "(", ")", "*", ",", ";", "[", "]", "`", "|", "^",
}

// pieces of interpolated data
var c14DataPieces = []string{
	".", "..", "%2e", "%2E", "%2", "/", "\\", "?", "#", "&", "=", ":", "javascript:", "'", "\"", "<", ">", " ", "\t", "\n", "\r", "\x00", "\x7f", "\x1f",
	"é", "\xff", "\xe2\x80\xa8", "%", "%4", "%41", "%zz", "%25", "%%", "a", "Z", "0", "~", "_", "-", "+", "(", ")", "`", "{", "}", "|", "^", "[", "]", "@", "!", "$", "*", ",", ";",
	"&amp;", "&#9;", "<script>", "//evil.example/", "x y",
}

var c14Templates = [][2]string{{"a", "href"}, {"script", "src"}, {"form", "action"}, {"q", "cite"}}

func c14TemplateSafe(p string) bool {
	return !strings.ContainsAny(p, "\"<>{}\x00")
}

func genC14(c *Ctx) {
	c.stats.Rule = "ops util.query/util.norm/util.norm2/util.dotdot (urlProcessor, double-dot), go.unescape (html.UnescapeString), " +
		"tmpl.prefix.url/tru/decode (prefix validators through verif-tag wrappers), tmpl.urlattr (real templates <a href>, <script src>, " +
		"<form action>, <q cite> with prefix P and string data), tmpl.urlattr2 (two actions in one attribute value, static text between). Exhaustive: all byte strings of length ≤1 (quick) / ≤2 (thorough) and all " +
		"%xy triples through the leaf ops (thorough). Seeded: prefix grammar (schemes, hosts, paths, queries, fragments, character references " +
		"complete/partial/legacy/overflowing, percent escapes, whitespace and controls raw and as references) × data pieces. " +
		"Non-trivial: leaf op whose input has a byte the escaper must change or a '%'; prefix op whose prefix survives the raw whitespace test; " +
		"template op that is accepted and whose data contains a byte outside [A-Za-z0-9]."
	needsEsc := func(s string) bool {
		for i := 0; i < len(s); i++ {
			b := s[i]
			if !((b|32 >= 'a' && b|32 <= 'z') || (b >= '0' && b <= '9')) {
				return true
			}
		}
		return false
	}
	rawClean := func(p string) bool {
		for i := 0; i < len(p); i++ {
			if p[i] <= 32 || p[i] == 127 {
				return false
			}
		}
		return p != ""
	}
	leaf := func(s, class string) {
		nt := needsEsc(s)
		c.emit("util.query", []string{s}, c14Query(s), nt, class)
		c.emit("util.norm", []string{s}, c14Norm(s), nt, class)
		c.emit("util.norm2", []string{s}, c14Norm2(s), nt, class)
		c.emit("util.dotdot", []string{s}, c14DotDot(s), strings.ContainsAny(s, ".%"), class)
	}
	prefix := func(p, class string) {
		nt := rawClean(p)
		c.emit("go.unescape", []string{p}, c14Unescape(p), strings.Contains(p, "&"), class)
		c.emit("tmpl.prefix.decode", []string{p}, c14PrefixDecode(p), nt, class)
		c.emit("tmpl.prefix.url", []string{p}, c14PrefixURL(p), nt, class)
		c.emit("tmpl.prefix.tru", []string{p}, c14PrefixTRU(p), nt, class)
	}
	tmpl := func(p, data, class string) {
		if p == "" || !c14TemplateSafe(p) {
			return
		}
		for _, t := range c14Templates {
			r := c14URLAttr(t[0], t[1], p, data)
			c.emit("tmpl.urlattr", []string{t[0], t[1], p, data}, r, strings.HasPrefix(r, "ok") && needsEsc(data), class+"-"+t[0])
		}
	}

	tmpl2 := func(p, a, mid, b, class string) {
		if p == "" || !c14TemplateSafe(p) || !c14TemplateSafe(mid) {
			return
		}
		for _, t := range c14Templates {
			r := c14URLAttr2(t[0], t[1], p, a, mid, b)
			c.emit("tmpl.urlattr2", []string{t[0], t[1], p, a, mid, b}, r, strings.HasPrefix(r, "ok") && (needsEsc(a) || needsEsc(b)), class+"-"+t[0])
			if c.rng.Intn(3) == 0 {
				m2 := pick(c, []string{"?~~", "~~?a=", "#~~", "/~~?q=", "~~/", "~~"})
				x, y := strings.ReplaceAll(a, "~~", "~"), strings.ReplaceAll(b, "~~", "~")
				if h, rr := c14URLRangeHist(t[0], t[1], p, m2, x, y); h != "" {
					c.emit("tmpl.urlrange", []string{t[0], t[1], p, m2, x, y, h}, rr, strings.HasPrefix(rr, "ok") && needsEsc(y), "range-"+t[0])
				}
			}
		}
	}
	// ---- several actions in one attribute value (each is validated with the static text before it only)
	dots := []string{"", ".", "..", "%2e", "a", "/", "x.", "?", "a&b=c#d", "javascript:"}
	mids := []string{"", "/", ".", "./bar", "%2e", "%2E/", "x", "x.", "?q=", "&amp;", "#", "/."}
	for _, p := range []string{"/foo/", "/foo/x", "https://example.com/a/", "//h/", "/foo?q=", "/foo#", "/foo/."} {
		for _, a := range dots {
			for _, m := range mids {
				for _, b := range dots {
					tmpl2(p, a, m, b, "two-actions")
				}
			}
		}
	}
	for i := 0; i < c.n(500, 8000); i++ {
		p := pick(c, []string{"/", "https://example.com/", "//h/", "/a?", "/a#", "/a/b"}) + c.randFrom(c14PrefixPieces, 2)
		tmpl2(p, c.randFrom(c14DataPieces, 3), c.randFrom(c14PrefixPieces, 2), c.randFrom(c14DataPieces, 3), "seeded-two-actions")
	}
	// ---- prefixes whose delimiters are written as character references ('#' inside a numeric reference is not a fragment)
	for _, p := range []string{"/static&#47;v1&#47;", "https://cdn.example.com/v1&#x2f;", "/a&#45;b/", "/a&sol;", "/a&#x2F;b&#x2f;", "/a/&#46;", "/a&#47;&#x2e;",
		"/a&#63;q=", "/a&quest;q=", "/a&num;", "/a&#35;", "/a/&amp;", "/s&#47;"} {
		for _, d := range dots {
			tmpl(p, d, "charref-delimiter-prefix")
			tmpl2(p, d, "&#47;", ".", "charref-delimiter-prefix")
			tmpl2(p, "x", "&#47;.", d, "charref-delimiter-prefix")
		}
	}
	// ---- exhaustive small domains
	leaf("", "len0")
	prefix("", "len0")
	for a := 0; a < 256; a++ {
		s := string([]byte{byte(a)})
		leaf(s, "len1")
		prefix(s, "len1")
		prefix("/"+s, "slash-len1")
		prefix("/x?"+s, "query-len1")
		tmpl("/p/", s, "data-len1")
		tmpl("/p?q=", s, "data-len1q")
		tmpl("/"+s, "d.", "prefix-len1")
	}
	hexish := "0123456789abcdefABCDEFgG%./ "
	if c.thorough {
		for a := 0; a < 256; a++ {
			for b := 0; b < 256; b++ {
				s := string([]byte{byte(a), byte(b)})
				leaf(s, "len2")
				leaf("%"+s, "pct-triple")
				prefix(s, "len2")
				prefix("/"+s, "slash-len2")
			}
		}
		c.stats.Exhaustive = true
		c.stats.ExhaustiveWhat = "all byte strings of length ≤ 2 and all %xy triples through util.query/util.norm/util.norm2/util.dotdot; all byte strings of length ≤ 2 (bare and after '/') through go.unescape and the three prefix ops"
	} else {
		for i := 0; i < len(hexish); i++ {
			for j := 0; j < len(hexish); j++ {
				s := string([]byte{hexish[i], hexish[j]})
				leaf("%"+s, "pct-triple-sample")
				leaf(s, "len2-sample")
				prefix("/"+s, "slash-len2-sample")
			}
		}
		for i := 0; i < 1500; i++ {
			s := string([]byte{byte(c.rng.Intn(256)), byte(c.rng.Intn(256))})
			leaf(s, "len2-sample")
			leaf("%"+s, "pct-triple-sample")
			prefix(s, "len2-sample")
		}
	}
	// every single prefix piece alone, after "/", and before every data piece head
	for _, pc := range c14PrefixPieces {
		prefix(pc, "piece")
		prefix("/"+pc, "piece")
		prefix("https://h/"+pc, "piece")
		prefix(pc+"/", "piece")
		prefix("/x"+pc+"y/", "piece")
		for _, d := range []string{".", "..", "a&b=c#d", "javascript:alert(1)", "%2e", "x y\"'<>\\é%41%zz"} {
			tmpl("/"+pc, d, "piece")
			tmpl("/x"+pc+"y", d, "piece")
			tmpl(pc, d, "piece")
		}
	}
	for _, d := range c14DataPieces {
		leaf(d, "data-piece")
		for _, p := range []string{"/a/", "/a/.", "/a/%2e", "/a?b=", "/a#", "https://example.com/x/", "//example.com/", "/x&quest;a=", "/x&num;", "mailto:", "/a&amp;"} {
			tmpl(p, d, "data-piece")
		}
	}
	// ---- seeded
	for i := 0; i < c.n(4000, 60000); i++ {
		leaf(c.randFrom(c14DataPieces, 6), "seeded-leaf")
	}
	for i := 0; i < c.n(4000, 60000); i++ {
		p := c.randFrom(c14PrefixPieces, 5)
		prefix(p, "seeded-prefix")
	}
	for i := 0; i < c.n(1500, 20000); i++ {
		p := c.randFrom(c14PrefixPieces, 4)
		if c.rng.Intn(3) > 0 {
			p = pick(c, []string{"/", "https://example.com/", "//h/", "/a?", "/a#", "mailto:", "/a/b"}) + p
		}
		d := c.randFrom(c14DataPieces, 4)
		tmpl(p, d, "seeded-tmpl")
	}
	// <link rel=R href="P{{.}}">: the sanitization context of href depends on rel (TrustedResourceURL unless rel names a
	// plain-URL relation). Many templates in ONE process, same prefix under different rels in both orders, so that
	// anything remembered per (element, attribute, prefix) across analyses shows up. Compared with the template
	// model (op tmpl.hist.C14: fresh set, Parse, Execute).
	linkRels := []string{"stylesheet", "icon", "alternate", "", "author", "alternate stylesheet", "preload", "STYLESHEET"}
	linkPrefixes := []string{"/assets/v1/", "/assets/v1/.", "https://cdn.example/x/", "/p?q=", "//cdn.example/a/", "/a/%2e", "x", "/assets/"}
	linkData := []string{".", "..", "a/b", "x.css", "%2e", "a&b=c#d"}
	{
		for _, p := range linkPrefixes {
			rels := append([]string{}, linkRels...)
			c.rng.Shuffle(len(rels), func(i, j int) { rels[i], rels[j] = rels[j], rels[i] })
			for _, rel := range rels {
				text := "<link rel=\"" + rel + "\" href=\"" + p + "{{.}}\">"
				if rel == "" {
					text = "<link href=\"" + p + "{{.}}\">"
				}
				hb := newHistBuilder()
				hb.add(Step{Op: "new", H: 0, Name: "root"})
				if hb.add(Step{Op: "parse", H: 0, Text: text}) == "" {
					continue
				}
				d := pick(c, linkData)
				hb.lastData = d
				r := hb.add(Step{Op: "exec", H: 0, Data: &Val{Kind: "s", S: d}})
				c.emit("tmpl.link", []string{rel, p, hb.lastData, hb.hist()}, r, strings.HasPrefix(r, "ok"), "link-rel")
			}
		}
	}

}
