package main

// C20: template.TrustedSourceFromConstantDir keeps dynamic filenames inside the constant dir.
// Ops:
//   tsrc.dir <dir> <src> <file>  → ok <hex> | err      (+ " relcheck=<what>" when the harness' own
//                                   filepath.Rel/Dir/Base/SplitList cross-check of the result fails)
//   path.clean <p>               → ok <hex>            (real filepath.Clean, validates Spec.Path.clean)
//   path.join3 <a> <b> <c>       → ok <hex>            (real filepath.Join,  validates Spec.Path.join)

import (
	"path/filepath"
	"strings"

	"github.com/google/safehtml/template"
)

// relCheck is an independent check (no Lean, no Spec.Path) of one successful result with the standard
// library's own lexical functions: r must be the cleaned constant directory or a direct entry of it
// whose name is the filename. "" = fine.
func relCheck(dir, src, file, r string) string {
	base := filepath.Join(dir, src)
	cb := filepath.Clean(base) // "." for ""
	if r == base || r == cb {
		return ""
	}
	rel, err := filepath.Rel(cb, r)
	if err != nil {
		return "rel-error"
	}
	if rel != file {
		return "rel-not-filename"
	}
	if strings.ContainsRune(rel, filepath.Separator) || strings.ContainsRune(rel, filepath.ListSeparator) ||
		rel == ".." || rel == "." || rel == "" {
		return "rel-not-single-element"
	}
	if filepath.Dir(r) != cb {
		return "dir-not-base"
	}
	if filepath.Base(r) != file {
		return "base-not-filename"
	}
	if len(filepath.SplitList(r)) != len(filepath.SplitList(cb)) {
		return "extra-list-entry"
	}
	return ""
}

func realTsrcDir(dir, src, file string) string {
	return guard(func() string {
		ts, err := template.VerifTrustedSourceFromConstantDir(dir, template.VerifTrustedSourceFromConstant(src), file)
		if err != nil {
			return "err"
		}
		r := ts.String()
		res := okHex(r)
		if d := relCheck(dir, src, file, r); d != "" {
			res += " relcheck=" + d
		}
		return res
	})
}

func realPathClean(p string) string { return okHex(filepath.Clean(p)) }

func realPathJoin3(a, b, c string) string { return okHex(filepath.Join(a, b, c)) }

func init() {
	replayers["tsrc.dir"] = func(a []string) string { return realTsrcDir(a[0], a[1], a[2]) }
	replayers["path.clean"] = func(a []string) string { return realPathClean(a[0]) }
	replayers["path.join3"] = func(a []string) string { return realPathJoin3(a[0], a[1], a[2]) }
	generators["C20"] = genC20
}

// hostile filenames named by the property text: dots, separators, list separators, NUL, whitespace,
// backslash, Unicode look-alikes of '/' and '.', overlong encodings, percent-encodings
var c20Files = []string{
	"", ".", "..", "...", "....", ". .", ".. ", " ..", " . ", "..\x00", "\x00..", "\x00", "a\x00b", "..\n", "\n..",
	"x", "x.txt", ".hidden", "a..b", "..a", "a..", "a.", ".a.", "index.html",
	"/", "//", "a/b", "/a", "a/", "../x", "x/..", "./x", "x/.", "../", "/..", "../../etc/passwd", "/etc/passwd", "a/../../b", "./..",
	":", "a:b", ":a", "a:", "..:", ":..", "..:..", "x:/etc", "::",
	"\\", "..\\", "..\\x", "a\\b", "\\..\\", "\\\\host\\share", "C:\\x", "C:", "c:x",
	" ", "\t", "\n", "a b", "\r\n", " x", "x ", "\u00a0", "\u3000", "\u200b", "\u202e",
	"\u2215", "\uff0f", "\u2044", "\u29f8", "\u2024", "\u2024\u2024", "\u2024\u2024\u2215x", "\u2025", "\uff0e\uff0e", "\ufe52\ufe52", "..\u2215x", "..\uff0fx",
	"\uff1a", "\ua789", "\u2236",
	"\xc0\xaf", "\xc0\xae\xc0\xae", "\xe0\x80\xaf", "\xf0\x80\x80\xaf", "\xff", "\xc0", "..\xc0\xaf", "\xef\xbc", "\xed\xa0\x80",
	"%2e%2e", "%2f", "..%2f", "%2e%2e%2fx", "..%00", "%3a",
	"~", "~root", "-", "*", "?", "$HOME", "`x`", "|", "CON", "nul", "a;b", "a,b",
}

var c20LongFiles = []string{
	strings.Repeat("a", 5000), strings.Repeat(".", 3000), strings.Repeat("../", 700), strings.Repeat("a", 4096) + "/x",
	strings.Repeat("a", 4096) + ":x", strings.Repeat("a/", 800), strings.Repeat(" ", 2000) + "..", strings.Repeat("\u2215", 700),
	".." + strings.Repeat("\x00", 2000), strings.Repeat("a", 70000),
}

var c20Dirs = []string{
	"", ".", "/", "//", "a", "a/", "a//", "a/b", "/a", "/a/", "/a/b/", "..", "../", "../..", "a/..", "a/../", "a/../..",
	"a/../../b", "/..", "/../a", "./a", "a/.", "a/./b", "...", ".../", "a:b", "/a:b/", " ", "a b/", "tmpl\\x", "\x00", "./", "./.", "a/b/../..",
	"templates", "/srv/app/templates/", "../templates", "é/", "..a", "a..", ".a/.b",
}

var c20Srcs = []string{"", ".", "/", "b", "b/", "/b", "..", "../c", "b/../..", "b/c", "./", "b//c/", "../..", "b:c", "...", "\x00"}

// small set used with the big filename domains
var c20FewBases = [][2]string{{"a", ""}, {"", ""}, {"/", ""}, {".", ""}, {"a/", "b"}, {"..", ""}, {"/a/b/", "../c"}, {"", "b"}, {"a/..", ""}, {"/..", ".."}}

var c20FilePieces = []string{
	".", ".", "..", "/", ":", "a", "b", "x", ".txt", "\\", "\x00", " ", "\t", "\n", "\u2215", "\uff0f", "\u2024", "\xc0\xaf", "\xff", "%2f", "~", "-", "_", "é",
}

var c20PathPieces = []string{"a", "b", "..", ".", "", "...", "a.b", ".a", "c:", ":", " ", "\x00", "é", "\\", "..a", "a..", "\u2215"}

func c20Special(f string) bool {
	if f == "" {
		return true
	}
	for i := 0; i < len(f); i++ {
		b := f[i]
		if !(b == '-' || b == '_' || (b|32 >= 'a' && b|32 <= 'z') || (b >= '0' && b <= '9')) {
			return true
		}
	}
	return false
}

func (c *Ctx) c20RandPath() string {
	var b strings.Builder
	if c.rng.Intn(3) == 0 {
		b.WriteString("/")
	}
	n := c.rng.Intn(6)
	for i := 0; i < n; i++ {
		if i > 0 {
			b.WriteString("/")
			if c.rng.Intn(6) == 0 {
				b.WriteString("/")
			}
		}
		b.WriteString(pick(c, c20PathPieces))
	}
	if n > 0 && c.rng.Intn(4) == 0 {
		b.WriteString("/")
	}
	return b.String()
}

func genC20(c *Ctx) {
	c.stats.Rule = "op tsrc.dir: filenames (dots, '..', '...', '.', empty, '/', ':', NUL, whitespace, backslash, Unicode look-alikes of '/' ':' '.', " +
		"overlong UTF-8, percent-encodings, very long) × constant dir/src combinations (empty, '.', '/', trailing/double slashes, '..' inside, absolute/relative, ':' inside); " +
		"all filenames of length ≤1 (quick) or ≤2 (thorough) over all bytes; seeded filenames from hostile pieces × random dir/src paths. " +
		"ops path.clean / path.join3: real filepath.Clean/Join vs Spec.Path on all strings over {'/','.','a'} up to length 8 (quick) / 10 (thorough), " +
		"all triples of such strings of length ≤2, and seeded paths from a path grammar. " +
		"Non-trivial (tsrc.dir): the filename is empty or has a byte outside [-_A-Za-z0-9], so the guard or Clean has something to decide; " +
		"(path.*): the result differs from the plain concatenation."
	doDir := func(dir, src, file string) {
		r := realTsrcDir(dir, src, file)
		class := "child"
		switch {
		case r == "err" && strings.Contains(file, "/"):
			class = "err-separator"
		case r == "err" && strings.Contains(file, ":"):
			class = "err-listseparator"
		case r == "err" && file == "..":
			class = "err-dotdot"
		case r == "err":
			class = "err-other"
		case strings.Contains(r, " relcheck="):
			class = "relcheck-disagrees"
		case file == "" || file == ".":
			class = "self"
		case r == okHex(filepath.Join(dir, src)):
			class = "self-unexpected"
		}
		c.emit("tsrc.dir", []string{dir, src, file}, r, c20Special(file), class)
	}
	doClean := func(p string) {
		r := realPathClean(p)
		c.emit("path.clean", []string{p}, r, r != okHex(p), "path.clean")
	}
	doJoin := func(a, b, d string) {
		r := realPathJoin3(a, b, d)
		c.emit("path.join3", []string{a, b, d}, r, r != okHex(a+"/"+b+"/"+d), "path.join3")
	}

	// 1. hostile filenames × all dir/src combinations
	for _, f := range c20Files {
		for _, d := range c20Dirs {
			for _, s := range c20Srcs {
				doDir(d, s, f)
			}
		}
	}
	for i, f := range c20LongFiles {
		if !c.thorough && i >= 8 {
			break
		}
		for _, b := range c20FewBases {
			doDir(b[0], b[1], f)
		}
	}
	// long constant dirs
	for _, f := range []string{"x", "..", "a/b", ".", ""} {
		doDir(strings.Repeat("d/", 2000), strings.Repeat("../", 1000), f)
		doDir(strings.Repeat("../", 500), "", f)
	}

	// 2. exhaustive short filenames
	for _, b := range c20FewBases {
		doDir(b[0], b[1], "")
		for x := 0; x < 256; x++ {
			doDir(b[0], b[1], string([]byte{byte(x)}))
		}
	}
	if c.thorough {
		for _, b := range c20FewBases {
			for x := 0; x < 256; x++ {
				for y := 0; y < 256; y++ {
					doDir(b[0], b[1], string([]byte{byte(x), byte(y)}))
				}
			}
		}
		c.stats.Exhaustive = true
		c.stats.ExhaustiveWhat = "all filenames of length ≤ 2 over all 256 bytes × 10 dir/src bases (a, empty, /, ., a/+b, .., /a/b/+../c, +b, a/.., /..+..); " +
			"filepath.Clean vs Spec.Path.clean on all strings over {'/','.','a'} of length ≤ 10"
	} else {
		// length 2 over the interesting bytes
		al := []byte{'.', '/', ':', '\\', 0, ' ', 'a', 0xff, '\n', '~'}
		for _, b := range c20FewBases {
			for _, x := range al {
				for _, y := range al {
					doDir(b[0], b[1], string([]byte{x, y}))
				}
			}
		}
	}

	// length 3 over the interesting bytes
	{
		al := []byte{'.', '/', ':', '\\', 0, ' ', 'a', 0xff, '\n', '~'}
		bases := c20FewBases
		if !c.thorough {
			bases = bases[:3]
		}
		for _, b := range bases {
			for _, x := range al {
				for _, y := range al {
					for _, z := range al {
						doDir(b[0], b[1], string([]byte{x, y, z}))
					}
				}
			}
		}
	}

	// 3. seeded filenames × random dir/src
	for i := 0; i < c.n(6000, 200000); i++ {
		f := c.randFrom(c20FilePieces, 5)
		var d, s string
		switch c.rng.Intn(3) {
		case 0:
			d, s = pick(c, c20Dirs), pick(c, c20Srcs)
		case 1:
			d, s = c.c20RandPath(), pick(c, c20Srcs)
		default:
			d, s = c.c20RandPath(), c.c20RandPath()
		}
		doDir(d, s, f)
	}

	// 4. Spec.Path vs the real filepath.Clean / Join
	maxLen := c.n(8, 10)
	al := []byte{'/', '.', 'a'}
	var rec func(cur []byte)
	rec = func(cur []byte) {
		doClean(string(cur))
		if len(cur) == maxLen {
			return
		}
		for _, x := range al {
			rec(append(cur, x))
		}
	}
	rec(nil)
	var short []string
	short = append(short, "")
	for _, x := range al {
		short = append(short, string([]byte{x}))
		for _, y := range al {
			short = append(short, string([]byte{x, y}))
		}
	}
	for _, a := range short {
		for _, b := range short {
			for _, d := range short {
				doJoin(a, b, d)
			}
		}
	}
	for _, d := range c20Dirs {
		doClean(d)
		for _, s := range c20Srcs {
			doClean(d + "/" + s)
			for _, f := range []string{"", ".", "..", "x", "a/b", "../x"} {
				doJoin(d, s, f)
			}
		}
	}
	for _, f := range c20Files {
		doClean(f)
		doClean("a/" + f)
		doClean("/" + f + "/..")
	}
	for i := 0; i < c.n(4000, 60000); i++ {
		doClean(c.c20RandPath())
		doJoin(c.c20RandPath(), c.c20RandPath(), c.c20RandPath())
	}
}
