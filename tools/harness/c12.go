package main

import (
	"math/big"
	"strconv"
	"strings"

	"github.com/google/safehtml"
)

// C12 — URLSetSanitized.
//
//	urlset.sanitized <s>  → "ok <hex URLSetSanitized(s)> <hex URLSetSanitized(URLSetSanitized(s))>"
//	urlset.pf <s>         → "true" / "false": strconv.ParseFloat(s, 64) returned a nil error
//	                        (the external call of isOptionalSrcMetadataWellFormed, modelled by parseFloatOk)

func realURLSet(s string) string {
	return guard(func() string {
		once := safehtml.URLSetSanitized(s).String()
		twice := safehtml.URLSetSanitized(once).String()
		return "ok " + hxs(once) + " " + hxs(twice)
	})
}

func realParseFloatOk(s string) string {
	return guard(func() string {
		_, err := strconv.ParseFloat(s, 64)
		if err == nil {
			return "true"
		}
		return "false"
	})
}

func init() {
	replayers["urlset.sanitized"] = func(a []string) string { return realURLSet(a[0]) }
	replayers["urlset.pf"] = func(a []string) string { return realParseFloatOk(a[0]) }
	generators["C12"] = genC12
}

var c12WS = []string{"\t", "\n", "\f", "\r", " "}

var c12URLs = []string{
	"a.png", "/", "/x", "x", "http://e.com/a,b", "https://e.com/a.png?x=1&y=2", "data:image/png;base64,AAA", "data:,",
	"javascript:alert(1)", "JaVaScRiPt:alert(1)", "javascript:alert(1),", ",javascript:alert(1)", "javascript:", "JAVASCRIPT:x",
	"javascript&colon;x", "java\x00script:x", "\x01javascript:x", "jav&#x61;script:x", "vbscript:x", "javascripts:x", "javascrip:x",
	",a", "a,", ",", ",,", ",,,", "a,,", ",,a", ",a,", ",,a,,", "%2c", "%2ca", "a%2c", "%2C", "a,b", "a,,b",
	"x(y", "(", ")", "(a", "a)", "(,)", "a&b", "a:b", "?x", "#", "#:", "/:", "?javascript:x", "é", "\xff", "\xc3", "K:", "K:x", "İ:x",
	"1x", "2", "inf", "0x1p1", "://", ":", "&", "a/b:c", "about:invalid#zGoSafez", "mailto:a@b", "+.-:x", "1:2",
}

var c12Descs = []string{
	"1x", "2x", "100w", "1.5x", "0x1p-2", "0x1p-2w", "0x1.8p1h", "0X1P+1X", "inf", "infx", "Infinityw", "infinity", "infinit", "infinitx",
	"nan", "nanq", "NaNx", "+inf", "+infx", "-Infx", "+nanx", "-nanx", "1_0", "1_000x", "_1", "_1x", "1_", "1_x", "1__0x", "0x_1p1", "0x_1p1w", "0_x1p1x",
	"1e309", "1e309x", "1e308x", "-1e309x", "1e-400x", "1e", "1e5", "1e+5w", "1e+w", ".5x", "5.x", ".", ".x", "+", "+x", "-x", "x", "xx", "1xx", "1x1",
	"(1x)", "1x(", "(", ")", "(x", "1(", "1,5x", "0x1p", "0x1", "0x1x", "0X1P1", "1p1", "1e1e1", "٣", "1é", "1\xe9", "1\xff",
	"1.7976931348623157e308x", "1.7976931348623159e308x", "0x1.fffffffffffff8p1023x", "0x1.fffffffffffff7p1023x", "1z", "1Z", "1@", "1[", "1`", "1{",
	"00", "-0", "+.5e-3w", "1..2", "1.2.3x", "0x.p1", "0x.8p1x", "0xp1", "1e_1x", "1e1_x", "1e1_0x", "0b1", "0o7", "0x", "0xx", "0xg", "1f", "0x1fp1f",
}

var c12Seps = []string{",", " ,", ", ", " , ", ",,", " ,, ", " ", "\f,\f", "", "\t,\n", ",\r", "\f", " ,", ", ,", ",\t,"}

func (c *Ctx) c12ws(max int) string {
	n := c.rng.Intn(max + 1)
	var b strings.Builder
	for i := 0; i < n; i++ {
		b.WriteString(pick(c, c12WS))
	}
	return b.String()
}

// one srcset-like string from the grammar: [ws] cand (sep cand)* [ws]
func (c *Ctx) c12Grammar() (string, string) {
	class := "grammar"
	n := 1 + c.rng.Intn(4)
	var b strings.Builder
	b.WriteString(c.c12ws(2))
	if c.rng.Intn(8) == 0 {
		b.WriteString(pick(c, []string{",", ",,", ", ", " ,"}))
	}
	for i := 0; i < n; i++ {
		if i > 0 {
			b.WriteString(pick(c, c12Seps))
		}
		u := pick(c, c12URLs)
		if c.rng.Intn(5) == 0 {
			u = c.randFrom(c12URLs, 3)
		}
		if strings.Contains(strings.ToLower(u), "javascript") {
			class = "grammar-js"
		}
		b.WriteString(u)
		switch c.rng.Intn(4) {
		case 0:
		case 1, 2:
			b.WriteString(pick(c, c12WS) + c.c12ws(1))
			b.WriteString(pick(c, c12Descs))
		case 3:
			b.WriteString(pick(c, c12WS))
			b.WriteString(pick(c, c12Descs))
			b.WriteString(pick(c, c12WS))
			b.WriteString(pick(c, c12Descs))
		}
		b.WriteString(c.c12ws(1))
	}
	if c.rng.Intn(6) == 0 {
		b.WriteString(pick(c, []string{",", ",,", " ,", ", "}))
	}
	return b.String(), class
}

func c12Pow(base, e int64) *big.Int {
	return new(big.Int).Exp(big.NewInt(base), big.NewInt(e), nil)
}

// numeric spellings around every decision of readFloat / special / underscoreOK / the range error
func (c *Ctx) c12Numbers() []string {
	out := append([]string{}, c12Descs...)
	// 2^1024 − 2^970 is the least magnitude that overflows
	t := new(big.Int).Sub(c12Pow(2, 1024), c12Pow(2, 970))
	for d := int64(-3); d <= 3; d++ {
		v := new(big.Int).Add(t, big.NewInt(d))
		s := v.String()
		out = append(out, s, "-"+s, s+".0", s+"e0", s[:len(s)-3]+"."+s[len(s)-3:]+"e3", s+"0e-1", s+"00000000000000000000e-20", "0."+s+"e309", "0.000"+s+"e312",
			s[:1]+"."+s[1:]+"e308", s[:1]+"_"+s[1:], s+"e-0", s+".5", s+".49999999999999999999")
		// one digit fewer / more
		out = append(out, s+"0", s[:len(s)-1])
	}
	// the same threshold in hex: 0x1.fffffffffffff8p1023
	for _, m := range []string{"1.fffffffffffff", "1.fffffffffffff7", "1.fffffffffffff7ffffffffffff", "1.fffffffffffff8", "1.fffffffffffff80000000000000001", "1.fffffffffffff8000", "1.ffffffffffffe", "1.ffffffffffffffff", "1", "0.8", "0.0000000000000000000000001", "f.ffffffffffffc", "ffffffffffffffff", "fffffffffffff800", "fffffffffffffbff", "fffffffffffffc00", "0", "0.0", "00000000000000000000000000000001"} {
		for _, e := range []string{"1023", "1024", "1022", "+1023", "-1023", "-1074", "-1075", "-1080", "99999", "100000", "-99999", "0", "1020", "960", "964", "1_0", "1000000000000"} {
			out = append(out, "0x"+m+"p"+e, "-0X"+strings.ToUpper(m)+"P"+e)
		}
	}
	for _, m := range []string{"1", "9", "0", "0.0", "1.0", "17976931348623157", "17976931348623158", "17976931348623159", "0.00000000000000000000000000001", "000000000000000000000000000001", "1" + strings.Repeat("0", 300), "1" + strings.Repeat("0", 308), "1" + strings.Repeat("0", 309), "0." + strings.Repeat("0", 400) + "1", "123456789012345678901234567890"} {
		for _, e := range []string{"308", "309", "292", "293", "291", "-308", "-400", "9999", "10000", "99999", "100000", "999999", "1000000", "-99999", "-100000", "0", "1", "8", "9", "10", "400", "401", "402", "700", "708", "709", "710", "00309", "3_0_8", "0000000000000308"} {
			out = append(out, m+"e"+e, m+"E+"+e)
		}
	}
	return out
}

var c12NumAlpha = []string{"0", "1", "9", ".", "e", "E", "x", "X", "p", "P", "_", "+", "-", "i", "n", "f", "a", "I", "N", "F", "t", "y", "b", "o", "0x", "inf", "nan", "infinity", "e+", "p-", "1e", "0x1p", "A", "d", "é", " "}

func genC12(c *Ctx) {
	c.stats.Rule = "op urlset.sanitized on srcset-grammar strings (all five ASCII whitespace bytes, commas glued left/right/both, parentheses, " +
		"numeric descriptor spellings incl. hex floats, inf/nan, underscores, signs, 1e309, javascript: in every candidate position), random bytes, and " +
		"all strings of length ≤4 (quick) / ≤6 (thorough) over {a / : , SP FF 1 x ( &}; op urlset.pf compares parseFloatOk with strconv.ParseFloat on numeric " +
		"spellings (range boundary 2^1024−2^970 ±3 in decimal and hex, exponent cap, underscores) and all strings of length ≤3 (quick) / ≤5 (thorough) over {0 1 . e x p _ + - i n f a}. " +
		"Non-trivial (urlset.sanitized): a candidate survives and the input has a separator, descriptor or edge comma; or the result is innocuous although the input " +
		"contains a javascript: URL, a parenthesis or a descriptor-like token. Non-trivial (urlset.pf): the string contains a digit or is accepted."
	innoc := safehtml.InnocuousURL
	nontrivial := func(s, res string) bool {
		f := strings.Fields(res)
		if len(f) < 2 {
			return true // panic: always interesting
		}
		survived := f[1] != hxs(innoc)
		if survived {
			return strings.ContainsAny(s, ", \t\n\f\r")
		}
		return strings.Contains(strings.ToLower(s), "javascript:") || strings.ContainsAny(s, "()") || strings.ContainsAny(s, " \t\n\f\r")
	}
	do := func(s, class string) {
		r := realURLSet(s)
		c.emit("urlset.sanitized", []string{s}, r, nontrivial(s, r), class)
	}
	// long candidates: any window or cap on the vetted URL must not let an unsafe tail through
	// (the Lean model and oracle are quadratic in the candidate length: the quick tier stops at 9000 bytes and uses two
	// tails per size, the thorough tier goes to 70000 with every tail)
	sizes, tails := []int{4096, 4097, 8192, 8193, 9000}, []string{":javascript:alert(1)", "&#58;z"}
	if c.thorough {
		sizes = []int{4095, 4096, 4097, 8191, 8192, 8193, 9000, 16384, 70000}
		tails = []string{"&x=1", "_:y", ":javascript:alert(1)", "&colon;z", "&#58;z", ""}
	}
	for _, n := range sizes {
		head := strings.Repeat("QUJD", n/4+1)[:n]
		for ti, tail := range tails {
			do("a.png 1x, "+head+tail+" 2x", "long-candidate")
			if c.thorough || ti == 0 {
				do(head+tail+" 2x", "long-candidate")
				do(head+tail, "long-candidate")
			}
		}
	}
	pf := func(s, class string) {
		r := realParseFloatOk(s)
		c.emit("urlset.pf", []string{s}, r, r == "true" || strings.ContainsAny(s, "0123456789"), class)
	}

	// fixed hostile corpus
	for _, s := range []string{"", ",", " ", "a", "a 1x", "a 1x,b 2x", "a,b", "a, b", "a ,b", "a , b", ",a", "a,", ",a,", ",", ",,", "a,,", ",,a",
		"a.png 1x, javascript:alert(1) 2x", "javascript:alert(1) 1x, a.png 2x", "a 1x, b 2x, javascript:x 3x", "/\fjavascript:alert(1)", "/\fb", "a\f1x", "a (b , javascript:alert(1)",
		"a (, b", "a 1x(, b", "a 1x 2x", "a 1x , b", "a inf", "a infx", "a nanx", "a 1e309x", "a 1e308x", "a 0x1p-2w", "a 1_0x", "a _1x", "data:,", "data:, 1x",
		"a,b 1x", "a 1x,b", "a 1x,,b", "a 1x, ,b", "a\t1x\n,\rb\f2x", innoc, innoc + " 1x", innoc + " , " + innoc, "%2c", "%2c 2", "%2ca%2c 1x , %2cc,%2c 0x1p-2w"} {
		do(s, "fixed")
	}
	// every URL alone, with every descriptor, and in 2nd / 3rd position behind a good candidate
	for _, u := range c12URLs {
		do(u, "url-alone")
		do("a.png 1x, "+u+" 2x", "url-second")
		do("a.png 1x, b.png 2x,"+u, "url-third")
		do(u+" 1x, a.png", "url-first")
		do(u+",a.png", "url-glued")
	}
	for _, d := range c12Descs {
		for _, w := range c12WS {
			do("a.png"+w+d, "desc")
		}
		do("a.png "+d+", b.png 2x", "desc-first")
		do("a.png 1x, b.png "+d, "desc-second")
		do("a.png "+d+" , javascript:alert(1)", "desc-then-js")
	}
	// exhaustive short strings over a small alphabet
	alpha := []byte{'a', '/', ':', ',', ' ', '\f', '1', 'x', '(', '&'}
	maxLen, pfLen := 4, 3
	if c.thorough {
		maxLen, pfLen = 6, 5
	}
	var rec func(prefix []byte)
	rec = func(prefix []byte) {
		do(string(prefix), "exhaustive-small")
		if len(prefix) == maxLen {
			return
		}
		for _, b := range alpha {
			rec(append(prefix, b))
		}
	}
	rec(nil)
	c.stats.Exhaustive = true
	c.stats.ExhaustiveWhat = "urlset.sanitized: all strings of length ≤ " + strconv.Itoa(maxLen) + " over {a / : , SP FF 1 x ( &}; urlset.pf: all strings of length ≤ " +
		strconv.Itoa(pfLen) + " over {0 1 . e x p _ + - i n f a}"
	// grammar
	for i := 0; i < c.n(12000, 120000); i++ {
		s, class := c.c12Grammar()
		do(s, class)
	}
	// random bytes: hostile alphabet and uniform
	hostile := []string{" ", "\t", "\n", "\f", "\r", ",", ",", "(", ")", "a", "/", ":", "&", "1", "x", "e", "javascript:", "%2c", "inf", "_", ".", "0x", "p", "é", "\xff", "\x00", "#", "?"}
	for i := 0; i < c.n(4000, 40000); i++ {
		do(c.randFrom(hostile, 12), "random-hostile")
	}
	for i := 0; i < c.n(2000, 20000); i++ {
		n := c.rng.Intn(10)
		b := make([]byte, n)
		for j := range b {
			b[j] = byte(c.rng.Intn(256))
		}
		do(string(b), "random-bytes")
	}

	// ParseFloat acceptor
	for _, s := range c.c12Numbers() {
		pf(s, "pf-numbers")
		if n := len(s); n > 0 {
			pf(s[:n-1], "pf-numbers")
		}
		pf("+"+s, "pf-numbers")
		pf("-"+s, "pf-numbers")
	}
	palpha := []byte{'0', '1', '.', 'e', 'x', 'p', '_', '+', '-', 'i', 'n', 'f', 'a'}
	var prec func(prefix []byte)
	prec = func(prefix []byte) {
		pf(string(prefix), "pf-exhaustive-small")
		if len(prefix) == pfLen {
			return
		}
		for _, b := range palpha {
			prec(append(prefix, b))
		}
	}
	prec(nil)
	for a := 0; a < 256; a++ {
		pf(string([]byte{byte(a)}), "pf-len1")
		pf("1"+string([]byte{byte(a)}), "pf-len2")
		pf(string([]byte{byte(a)})+"1", "pf-len2")
		pf("0x1"+string([]byte{byte(a)})+"1", "pf-len2")
		pf("1e"+string([]byte{byte(a)})+"1", "pf-len2")
		pf("in"+string([]byte{byte(a)}), "pf-len2")
	}
	for i := 0; i < c.n(20000, 200000); i++ {
		pf(c.randFrom(c12NumAlpha, 9), "pf-random")
	}
}
