package main

import (
	"sort"
	"strings"

	"github.com/google/safehtml"
)

// ---- real-code runners -------------------------------------------------------------------

func kvMap(kv []string) map[string]string {
	m := map[string]string{}
	for i := 0; i+1 < len(kv); i += 2 {
		m[kv[i]] = kv[i+1]
	}
	return m
}

func realTruFormat(format string, kv []string) string {
	return guard(func() string {
		r, err := safehtml.VerifTrustedResourceURLFormatFromConstant(format, kvMap(kv))
		if err != nil {
			return "err"
		}
		return okHex(r.String())
	})
}

// c13FlipFlag: a flag.Value whose text changes between reads (a dynamic flag, a concurrent flag.Set): the first
// read returns first, every later read returns later
type c13FlipFlag struct {
	first, later string
	reads        int
}

func (f *c13FlipFlag) String() string {
	f.reads++
	if f.reads == 1 {
		return f.first
	}
	return f.later
}
func (f *c13FlipFlag) Set(string) error { return nil }

// one flag object reused for every call (as a program's flag variable is): its value is set anew before each use
var c13Shared = &c13FlipFlag{}

func realTruFormatFlag(f1, f2 string, kv []string) string {
	return guard(func() string {
		fl := &c13FlipFlag{first: f1, later: f2}
		if f1 == f2 {
			c13Shared.first, c13Shared.later, c13Shared.reads = f1, f2, 0
			fl = c13Shared
		}
		r, err := safehtml.TrustedResourceURLFormatFromFlag(fl, kvMap(kv))
		if err != nil {
			return "err"
		}
		return okHex(r.String())
	})
}

func realTruAppend(t, s string) string {
	return guard(func() string {
		r, err := safehtml.TrustedResourceURLAppend(safehtml.VerifTrustedResourceURLFromConstant(t), s)
		if err != nil {
			return "err"
		}
		return okHex(r.String())
	})
}

// realTruParams builds the parameter map in several insertion orders and calls the real function
// several times for each (Go map iteration order is random per iteration); any difference between
// the results is reported as "nondet".
func realTruParams(base string, kv []string) string {
	return guard(func() string {
		n := len(kv) / 2
		t := safehtml.VerifTrustedResourceURLFromConstant(base)
		first, have := "", false
		for round := 0; round < 4; round++ {
			m := map[string]string{}
			for j := 0; j < n; j++ {
				i := j
				switch round {
				case 1:
					i = n - 1 - j
				case 2:
					i = (j*7 + 3) % n
					if n%7 == 0 {
						i = j
					}
				case 3:
					i = (j + n/2) % n
				}
				m[kv[2*i]] = kv[2*i+1]
			}
			for rep := 0; rep < 3; rep++ {
				r := safehtml.TrustedResourceURLWithParams(t, m).String()
				if !have {
					first, have = r, true
				} else if r != first {
					return "nondet"
				}
			}
		}
		return okHex(first)
	})
}

func realUtilQuery(s string) string {
	return guard(func() string { return okHex(safehtml.VerifQueryEscapeURL(s)) })
}
func realUtilNorm(s string) string {
	return guard(func() string { return okHex(safehtml.VerifNormalizeURL(s)) })
}
func boolStr(b bool) string {
	if b {
		return "true"
	}
	return "false"
}
func realUtilTruPrefix(s string) string {
	return guard(func() string { return boolStr(safehtml.VerifIsSafeTrustedResourceURLPrefix(s)) })
}
func realUtilDotDot(s string) string {
	return guard(func() string { return boolStr(safehtml.VerifURLContainsDoubleDotSegment(s)) })
}

func init() {
	replayers["tru.format"] = func(a []string) string { return realTruFormat(a[0], a[1:]) }
	replayers["tru.formatflag"] = func(a []string) string { return realTruFormatFlag(a[0], a[1], a[2:]) }
	replayers["tru.append"] = func(a []string) string { return realTruAppend(a[0], a[1]) }
	replayers["tru.params"] = func(a []string) string { return realTruParams(a[0], a[1:]) }
	replayers["util.query"] = func(a []string) string { return realUtilQuery(a[0]) }
	replayers["util.norm"] = func(a []string) string { return realUtilNorm(a[0]) }
	replayers["util.truprefix"] = func(a []string) string { return realUtilTruPrefix(a[0]) }
	replayers["util.dotdot"] = func(a []string) string { return realUtilDotDot(a[0]) }
	generators["C13"] = genC13
}

// ---- vocabulary ---------------------------------------------------------------------------

var truSafePrefixes = []string{
	"https://x.y/", "HTTPS://X/", "hTtPs://a-b.c:8443/p/", "//x/", "//x:80/a/", "https://[::1]/", "//[a:b]/",
	"/a", "/a/b/", "/.", "/%", "/?", "/#", "/é", "/ ", "about:blank#", "ABOUT:BLANK#", "About:Blank#x",
}

var truUnsafePrefixes = []string{
	"", "/", "//", "///x/", "/\\x/", "\\\\x/", "http://x/", "https:/x/", "https://x", "https:///", "https://x_y/", "https://é/",
	"https://x y/", "https://x?/", "x/", "a", "javascript:alert(1)//", "about:blank", "about:blank?#", "data:,", "ftp://x/",
	"httpſ://x/", "https://K/", "//K/", "//ſ/", "HTTPſ://x/", "about:blanK#", "ABOUT:BLANK#",
	" https://x/", "\thttps://x/", "https\n://x/", "%{a}", "%{a}https://x/", "https://x/\x00", "\xff", "https://\xff/",
}

// pieces a format body is built from: markers (valid, adjacent, unknown labels), things that look
// like markers but are not, dots in all encodings, separators
var truBodyPieces = []string{
	"%{a}", "%{b}", "%{c_1}", "%{A}", "%{0}", "%{a}", "%{b}", "%{", "%{}", "%{a", "%{a-b}", "%{a.b}", "%{a:b}", "%{a/b}", "%{a b}", "%{é}", "%{.}", "}", "{a}", "%%{a}", "%{a}}", "%{%{a}}",
	".", "..", "/", "//", "\\", "a", "x.js", "?", "#", "%2e", "%2E", "%2", "%", "=", "&", ":", "@", "é", "\xff", " ", "%{a}%{b}", ".%{a}", "%{a}.", "/%{a}/",
}

var truArgValues = []string{
	"", ".", "..", "/", "\\", "?", "#", "%", "%2e", "%2E", "%2e.", ".%2E", "%2e%2e", "a", "a/b", "../x", "x..y", "...", " ", "é", "\xff", ":", "@",
	"//evil.example/", "\\\\evil", "~", "-_.", "+", "&=", "%{a}", "%{b}", "a.b", "\x00", "\n", "'\"<>", "[]", "%25", "2e", "e", "%2", "$",
}

var truArgKeys = []string{"a", "b", "c_1", "A", "0", "é", "a-b", "a.b", "a:b", "a/b", ".", "", "x"}

var truSmallValues = []string{"", ".", "..", "/", "%2e", "%2E", "a", "\\", "?", "#", "%"}

var truBases = []string{
	"https://x/a", "https://x/a/", "https://x/a?", "https://x/a?q=1", "https://x/a?q=1&", "https://x/a#f", "https://x/a?#f", "https://x/a?q#f?g",
	"/a??", "/a#?", "//x/?a=b#", "/p?x#y#z", "/a?&", "about:blank#", "about:blank#?x", "https://x/a/.", "https://x/a/%2e", "https://x/a/%2E", "/a/b/..", "/.", "//x/",
	"http://x/", "x", "", "httpſ://x/", "https://K/", "/\\x", "#", "?", "?#", "/a?b?c", "/a#", "/é?é#é", "/\xff?\xff#\xff",
}

var truAppendValues = []string{
	"", ".", "..", "../", "/", "\\", "?", "#", "%", "%2e", "%2E", "%2e.", "a", "a/b", "../x", "x..y", "...", " ", "é", "\xff", ":", "@", "//evil/", "~", "-_.", "&=", "a.b", ".a", "a.",
}

func truHasMarker(format string) bool {
	i := strings.Index(format, "%{")
	return i >= 0 && strings.Contains(format[i:], "}")
}

// canonical op arguments for a map: pairs sorted by key (Go map keys are unique)
func sortedKV(m map[string]string) []string {
	keys := make([]string, 0, len(m))
	for k := range m {
		keys = append(keys, k)
	}
	sort.Strings(keys)
	kv := make([]string, 0, 2*len(m))
	for _, k := range keys {
		kv = append(kv, k, m[k])
	}
	return kv
}

func genC13(c *Ctx) {
	c.stats.Rule = "ops tru.format / tru.append / tru.params / util.query / util.norm / util.truprefix / util.dotdot against the REAL functions. " +
		"Formats = (safe | unsafe prefix incl. non-ASCII case folds) × body pieces (markers in any number and adjacency, unknown/empty/unterminated/non-word labels, literal %{, dots as . %2e %2E, / \\ ? #) × argument maps over '' . .. / \\ ? # % %2e %2E, non-ASCII, invalid UTF-8, missing keys. " +
		"util.query/util.norm: all single bytes, all %xy triples (exhaustive), all 2-byte strings (thorough). tru.params: bases with/without query and fragment × maps built in 4 insertion orders × 3 calls each (any difference = nondet). " +
		"Non-trivial: Format/Append with a safe prefix and at least one marker/appended byte (the outcome depends on the arguments); WithParams with at least one non-empty pair; util ops where the input contains a byte that is not unreserved."
	formatClass := func(format, res string) string {
		safe := safehtml.VerifIsSafeTrustedResourceURLPrefix(format)
		switch {
		case !safe:
			return "format:unsafe-prefix"
		case res == "err":
			return "format:arg-error"
		case !truHasMarker(format):
			return "format:no-marker"
		default:
			return "format:ok"
		}
	}
	doFormat := func(format string, m map[string]string) {
		kv := sortedKV(m)
		r := realTruFormat(format, kv)
		nt := truHasMarker(format) && safehtml.VerifIsSafeTrustedResourceURLPrefix(format)
		c.emit("tru.format", append([]string{format}, kv...), r, nt, formatClass(format, r))
		// the same through FromFlag with a flag whose value changes between reads: the result must be the one of a
		// single read (the first)
		if c.rng.Intn(3) == 0 {
			// the same flag object, holding this format now (it held other formats in earlier calls)
			rs := realTruFormatFlag(format, format, kv)
			c.emit("tru.formatflag", append([]string{format, format}, kv...), rs, nt, "sameflag-"+formatClass(format, rs))
		}
		if c.rng.Intn(4) == 0 {
			other := pick(c, []string{"javascript:alert(1)//%{a}", "http://evil.example/%{a}", "//evil.example/%{a}", "%{a}", format + "/../%{a}", "https://static.example.com/js/%{a}"})
			if c.rng.Intn(2) == 0 {
				rf := realTruFormatFlag(format, other, kv)
				c.emit("tru.formatflag", append([]string{format, other}, kv...), rf, nt, "flag-"+formatClass(format, rf))
			} else {
				rf := realTruFormatFlag(other, format, kv)
				c.emit("tru.formatflag", append([]string{other, format}, kv...), rf, true, "flag-"+formatClass(other, rf))
			}
		}
	}
	doAppend := func(t, s string) {
		r := realTruAppend(t, s)
		cl := "append:ok"
		if r == "err" {
			cl = "append:err"
		}
		c.emit("tru.append", []string{t, s}, r, s != "" && r != "err" || strings.Contains(s, "."), cl)
	}
	doParams := func(base string, kv []string) {
		r := realTruParams(base, kv)
		nonEmpty := 0
		for i := 0; i+1 < len(kv); i += 2 {
			if kv[i] != "" && kv[i+1] != "" {
				nonEmpty++
			}
		}
		cl := "params:none"
		if nonEmpty == 1 {
			cl = "params:one"
		} else if nonEmpty > 1 {
			cl = "params:many"
		}
		if r == "nondet" {
			cl = "params:nondet"
		}
		c.emit("tru.params", append([]string{base}, kv...), r, nonEmpty > 0, cl)
	}
	isUnres := func(b byte) bool {
		return b|32 >= 'a' && b|32 <= 'z' || b >= '0' && b <= '9' || b == '-' || b == '.' || b == '_' || b == '~'
	}
	doUtil := func(s, class string) {
		nt := false
		for i := 0; i < len(s); i++ {
			if !isUnres(s[i]) {
				nt = true
			}
		}
		c.emit("util.query", []string{s}, realUtilQuery(s), nt, "query:"+class)
		c.emit("util.norm", []string{s}, realUtilNorm(s), nt, "norm:"+class)
	}
	doPrefix := func(s string) {
		r := realUtilTruPrefix(s)
		c.emit("util.truprefix", []string{s}, r, true, "truprefix:"+r)
	}
	doDotDot := func(s string) {
		r := realUtilDotDot(s)
		c.emit("util.dotdot", []string{s}, r, strings.ContainsAny(s, ".%"), "dotdot:"+r)
	}

	// ---- 1. byte transducers: exhaustive small domains -------------------------------------
	doUtil("", "len0")
	for a := 0; a < 256; a++ {
		doUtil(string([]byte{byte(a)}), "len1")
		doDotDot(string([]byte{byte(a)}))
		doPrefix("/" + string([]byte{byte(a)}))
		doPrefix("//" + string([]byte{byte(a)}) + "/")
		doPrefix("https://a" + string([]byte{byte(a)}) + "/")
		doPrefix(string([]byte{byte(a)}) + "ttps://a/")
		doPrefix("about:" + string([]byte{byte(a)}) + "lank#")
	}
	hexd := "0123456789abcdefABCDEFgG:/@` "
	for i := 0; i < len(hexd); i++ {
		for j := 0; j < len(hexd); j++ {
			doUtil("%"+string(hexd[i])+string(hexd[j]), "pct")
			doUtil("%"+string(hexd[i])+string(hexd[j])+"x", "pct")
			doDotDot("%" + string(hexd[i]) + string(hexd[j]) + ".")
			doDotDot(".%" + string(hexd[i]) + string(hexd[j]))
		}
		doUtil("%"+string(hexd[i]), "pct-short")
	}
	for a := 0; a < 256; a++ {
		for b := 0; b < 256; b++ {
			if c.thorough || (a*31+b*7)%61 == 0 {
				doUtil("%"+string([]byte{byte(a), byte(b)}), "pct-all")
			}
		}
	}
	if c.thorough {
		for a := 0; a < 256; a++ {
			for b := 0; b < 256; b++ {
				doUtil(string([]byte{byte(a), byte(b)}), "len2")
			}
		}
		c.stats.Exhaustive = true
		c.stats.ExhaustiveWhat = "util.query/util.norm: all byte strings of length ≤ 2 and all %xy triples; util.dotdot: all single bytes; " +
			"tru.format: all formats (6 prefixes × ≤3 pieces of 9) × all assignments of a,b over 7 values (see genC13)"
	}
	dots := []string{".", "%2e", "%2E", "%2", "%", "2e", "a", "/", "%2f", "%2É"}
	for _, a := range dots {
		for _, b := range dots {
			doDotDot(a + b)
			doDotDot("x" + a + b + "y")
			for _, d := range dots {
				doDotDot(a + b + d)
			}
		}
	}
	for _, p := range truSafePrefixes {
		doPrefix(p)
		doPrefix(p[:len(p)-1])
		doPrefix(p + "x")
		doPrefix(strings.ToUpper(p))
	}
	for _, p := range truUnsafePrefixes {
		doPrefix(p)
		doPrefix(p + "x/")
	}
	for i := 0; i < c.n(1500, 60000); i++ {
		doUtil(c.randFrom(truArgValues, 4), "seeded")
		doPrefix(c.randFrom([]string{"https:", "HTTPS:", "httpſ:", "/", "/", "\\", "a", "x.y", ":", "[", "]", "-", "_", "K", "ſ", "é", "about:", "blank", "blanK", "#", "%", "?"}, 7))
		doDotDot(c.randFrom(dots, 5))
	}

	// ---- 2. Format: structured exhaustive core ---------------------------------------------
	corePrefixes := []string{"https://x/", "//x/", "/", "/d/", "about:blank#", "http://x/"}
	corePieces := []string{"%{a}", "%{b}", ".", "/", "\\", "%2e", "?", "x", "%{"}
	coreVals := []string{"", ".", "..", "/", "%2e", "a", "\\"}
	var bodies []string
	bodies = append(bodies, "")
	for _, p := range corePieces {
		bodies = append(bodies, p)
		for _, q := range corePieces {
			bodies = append(bodies, p+q)
			if c.thorough {
				for _, r := range corePieces {
					bodies = append(bodies, p+q+r)
				}
			}
		}
	}
	// a literal '%' or '%2' directly before a marker: the argument supplies the rest of an escape
	for _, pre := range []string{"/scripts/v1/", "https://static.example.com/js/", "//h/"} {
		for _, mid := range []string{".%%{a}/x.js", "%%{a}.%{b}/x.js", "%%{a}%%{b}/x.js", ".%2%{a}/x.js", "%2%{a}%2%{b}/", "%%{a}/%{b}"} {
			for _, va := range []string{"2e", "2E", "e", "E", "2f", "2F", "5c", "2e%2e", ""} {
				for _, vb := range []string{"2e", ".", "e", "x"} {
					doFormat(pre+mid, map[string]string{"a": va, "b": vb})
				}
			}
		}
	}
	for _, pre := range corePrefixes {
		for _, body := range bodies {
			f := pre + body
			usesA, usesB := strings.Contains(f, "%{a}"), strings.Contains(f, "%{b}")
			switch {
			case usesA && usesB:
				for _, va := range coreVals {
					for _, vb := range coreVals {
						doFormat(f, map[string]string{"a": va, "b": vb})
					}
				}
				doFormat(f, map[string]string{"a": "x"})
			case usesA:
				for _, va := range coreVals {
					doFormat(f, map[string]string{"a": va})
				}
				doFormat(f, map[string]string{})
			case usesB:
				for _, vb := range coreVals {
					doFormat(f, map[string]string{"b": vb})
				}
			default:
				doFormat(f, map[string]string{})
			}
		}
	}

	// ---- 3. Format: seeded hostile grammar ---------------------------------------------------
	for i := 0; i < c.n(6000, 400000); i++ {
		var pre string
		if c.rng.Intn(4) == 0 {
			pre = pick(c, truUnsafePrefixes)
		} else {
			pre = pick(c, truSafePrefixes)
		}
		f := pre + c.randFrom(truBodyPieces, 6)
		m := map[string]string{}
		for _, k := range truArgKeys {
			switch c.rng.Intn(6) {
			case 0: // missing
			case 1:
				m[k] = pick(c, truSmallValues)
			case 2:
				m[k] = c.randFrom(truArgValues, 3)
			case 3:
				b := make([]byte, c.rng.Intn(4))
				for j := range b {
					b[j] = byte(c.rng.Intn(256))
				}
				m[k] = string(b)
			default:
				m[k] = pick(c, truArgValues)
			}
		}
		if c.rng.Intn(3) == 0 { // make sure the common labels are present most of the time
			for _, k := range []string{"a", "b"} {
				if _, ok := m[k]; !ok {
					m[k] = pick(c, truSmallValues)
				}
			}
		}
		doFormat(f, m)
	}

	// ---- 4. Append ---------------------------------------------------------------------------
	for _, t := range truBases {
		for _, s := range truAppendValues {
			doAppend(t, s)
		}
	}
	for _, p := range truSafePrefixes {
		for _, s := range truAppendValues {
			doAppend(p, s)
			doAppend(p+".", s)
			doAppend(p+"%2e", s)
			doAppend(p+"a/", s)
		}
	}
	for i := 0; i < c.n(2000, 120000); i++ {
		var t string
		if c.rng.Intn(5) == 0 {
			t = pick(c, truUnsafePrefixes)
		} else {
			t = pick(c, truSafePrefixes) + c.randFrom([]string{"a", "/", ".", "%2e", "%2E", "?", "#", "=", "&", "é", "..", "%"}, 4)
		}
		var s string
		if c.rng.Intn(3) == 0 {
			b := make([]byte, c.rng.Intn(5))
			for j := range b {
				b[j] = byte(c.rng.Intn(256))
			}
			s = string(b)
		} else {
			s = c.randFrom(truAppendValues, 3)
		}
		doAppend(t, s)
	}

	// ---- 5. WithParams -----------------------------------------------------------------------
	paramVals := []string{"", "a", "b", "1", "a=b", "&", "?", "#", "/", " ", "é", "\xff", "%", "%41", "A", "a&b=c", "+", "~", ".", "..", "zz", "a ", "a!"}
	for _, base := range truBases {
		doParams(base, nil)
		doParams(base, []string{"k", "v"})
		doParams(base, []string{"", "v", "k", ""})
		doParams(base, []string{"b", "2", "a", "1"})
		doParams(base, []string{"a", "1", "b", "2"})
		doParams(base, []string{"a", "#", "?", "b", "&", "=", "=", "&"})
		doParams(base, []string{"a", "1", "a=", "0", "a!", "2", "a ", "3", "A", "4", "é", "5", "~", "6"})
	}
	for i := 0; i < c.n(3000, 150000); i++ {
		var base string
		if c.rng.Intn(2) == 0 {
			base = pick(c, truBases)
		} else {
			base = c.randFrom([]string{"https://x/", "/", "a", "?", "#", "&", "=", "q=1", "%", "é", "//x/", "."}, 6)
		}
		n := c.rng.Intn(7)
		m := map[string]string{}
		var order []string
		for j := 0; j < n; j++ {
			k := pick(c, paramVals)
			if c.rng.Intn(4) == 0 {
				k = c.randFrom(paramVals, 2)
			}
			if _, dup := m[k]; dup {
				continue
			}
			m[k] = pick(c, paramVals)
			order = append(order, k)
		}
		// the op line lists the pairs in generation order (not sorted): the model must be order-independent too
		kv := make([]string, 0, 2*len(order))
		for _, k := range order {
			kv = append(kv, k, m[k])
		}
		doParams(base, kv)
		if len(order) > 1 {
			doParams(base, sortedKV(m))
		}
	}
}
