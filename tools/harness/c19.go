package main

// C19 — trusted-text parameters accept only compile-time constants; no raw back doors.
//
// The "inputs" of this property are client PROGRAMS. The generator reads the exported API of
// github.com/google/safehtml and .../template with go/types (packages loaded from VERIF_REPO,
// build tag `verif` OFF), writes one small client program per
//   (function, parameter, argument expression)            op api.assign
//   (struct type, struct type)                            op api.convert
//   (struct type, way of making/filling a value)          op api.make
//   (exported var/const)                                  op api.var
//   (exported identifier whose type mentions an unexported string type)   op api.leak
//   hand-written witnesses / must-not-compile programs    op api.probe
// and type-checks it in-process with go/types against the repo copy. The real result is
// `compiles` or `rejected`. The last op argument is always the program text, so a replay file is
// self-contained; replaying an op type-checks exactly that text.

import (
	"fmt"
	"go/ast"
	"go/parser"
	"go/token"
	"go/types"
	"os"
	"sort"
	"strings"
	"sync"

	"golang.org/x/tools/go/packages"
)

const (
	c19Root = "github.com/google/safehtml"
	c19Tmpl = "github.com/google/safehtml/template"
)

type c19World struct {
	pkgs       map[string]*types.Package
	root, tmpl *types.Package
}

var (
	c19Once sync.Once
	c19W    *c19World
)

func c19Load() *c19World {
	c19Once.Do(func() {
		repo := os.Getenv("VERIF_REPO")
		if repo == "" {
			repo = "/repo"
		}
		cfg := &packages.Config{
			Mode: packages.NeedName | packages.NeedFiles | packages.NeedSyntax | packages.NeedTypes |
				packages.NeedTypesInfo | packages.NeedImports | packages.NeedDeps | packages.NeedCompiledGoFiles,
			Dir: repo,
			Env: append(os.Environ(), "GOFLAGS=-mod=mod", "GOPROXY=off", "GOSUMDB=off", "GOTOOLCHAIN=local", "CGO_ENABLED=0"),
		}
		ps, err := packages.Load(cfg, c19Root, c19Tmpl, "flag", "embed", "io", "io/fs", "fmt", "os", "text/template/parse")
		if err != nil {
			fmt.Fprintln(os.Stderr, "C19: cannot load packages:", err)
			os.Exit(2)
		}
		w := &c19World{pkgs: map[string]*types.Package{}}
		packages.Visit(ps, nil, func(p *packages.Package) {
			if len(p.Errors) > 0 && (p.PkgPath == c19Root || p.PkgPath == c19Tmpl) {
				fmt.Fprintln(os.Stderr, "C19: package errors in", p.PkgPath, p.Errors)
				os.Exit(2)
			}
			if p.Types != nil {
				w.pkgs[p.PkgPath] = p.Types
			}
		})
		w.root, w.tmpl = w.pkgs[c19Root], w.pkgs[c19Tmpl]
		if w.root == nil || w.tmpl == nil {
			fmt.Fprintln(os.Stderr, "C19: safehtml packages not found under", repo)
			os.Exit(2)
		}
		c19W = w
	})
	return c19W
}

type c19Importer struct{ w *c19World }

func (i c19Importer) Import(path string) (*types.Package, error) {
	// the go command's rule (not go/types'): an internal package is importable only from inside its tree
	if strings.Contains(path, "/internal/") || strings.HasSuffix(path, "/internal") {
		return nil, fmt.Errorf("use of internal package %s not allowed", path)
	}
	if p, ok := i.w.pkgs[path]; ok {
		return p, nil
	}
	return nil, fmt.Errorf("package %q not loaded", path)
}

// c19Check type-checks one client program against the repo copy.
func c19Check(src string) string {
	w := c19Load()
	fset := token.NewFileSet()
	f, err := parser.ParseFile(fset, "client.go", src, 0)
	if err != nil {
		return "rejected"
	}
	conf := types.Config{Importer: c19Importer{w}, Error: func(error) {}}
	if _, err := conf.Check("client", fset, []*ast.File{f}, nil); err != nil {
		return "rejected"
	}
	return "compiles"
}

// ---- program text ---------------------------------------------------------------------------

type c19Prog struct {
	imports map[string]string // path → local name
	decls   []string
	body    []string
}

func newC19Prog() *c19Prog { return &c19Prog{imports: map[string]string{}} }

func (p *c19Prog) qual(pkg *types.Package) string {
	if pkg == nil {
		return ""
	}
	if n, ok := p.imports[pkg.Path()]; ok {
		return n
	}
	n := pkg.Name()
	switch pkg.Path() {
	case c19Root, c19Tmpl:
	default:
		if n == "template" || n == "safehtml" || n == "client" {
			n = "x" + n
		}
	}
	p.imports[pkg.Path()] = n
	return n
}

func (p *c19Prog) use(path, name string) string { p.imports[path] = name; return name }

func (p *c19Prog) ty(t types.Type) string { return types.TypeString(t, p.qual) }

func (p *c19Prog) render() string {
	var b strings.Builder
	b.WriteString("package client\n\n")
	text := strings.Join(p.decls, "\n") + "\n" + strings.Join(p.body, "\n")
	paths := make([]string, 0, len(p.imports))
	for k, n := range p.imports {
		if strings.Contains(text, n+".") { // an import that is not used would itself be a compile error
			paths = append(paths, k)
		}
	}
	sort.Strings(paths)
	if len(paths) > 0 {
		b.WriteString("import (\n")
		for _, k := range paths {
			fmt.Fprintf(&b, "\t%s %q\n", p.imports[k], k)
		}
		b.WriteString(")\n\n")
	}
	for _, d := range p.decls {
		b.WriteString(d + "\n")
	}
	b.WriteString("\nfunc probe() {\n")
	for _, s := range p.body {
		b.WriteString("\t" + s + "\n")
	}
	b.WriteString("}\n")
	return b.String()
}

// c19Nameable: can a client package write this type?
func c19Nameable(t types.Type) bool {
	switch u := types.Unalias(t).(type) {
	case *types.Basic:
		return true
	case *types.Named:
		if u.Obj().Pkg() != nil && !u.Obj().Exported() {
			return false
		}
		for i := 0; i < u.TypeArgs().Len(); i++ {
			if !c19Nameable(u.TypeArgs().At(i)) {
				return false
			}
		}
		return true
	case *types.Pointer:
		return c19Nameable(u.Elem())
	case *types.Slice:
		return c19Nameable(u.Elem())
	case *types.Array:
		return c19Nameable(u.Elem())
	case *types.Chan:
		return c19Nameable(u.Elem())
	case *types.Map:
		return c19Nameable(u.Key()) && c19Nameable(u.Elem())
	case *types.Signature:
		for i := 0; i < u.Params().Len(); i++ {
			if !c19Nameable(u.Params().At(i).Type()) {
				return false
			}
		}
		for i := 0; i < u.Results().Len(); i++ {
			if !c19Nameable(u.Results().At(i).Type()) {
				return false
			}
		}
		return true
	case *types.Struct:
		for i := 0; i < u.NumFields(); i++ {
			if !u.Field(i).Exported() || !c19Nameable(u.Field(i).Type()) {
				return false
			}
		}
		return true
	case *types.Interface:
		for i := 0; i < u.NumMethods(); i++ {
			if !u.Method(i).Exported() {
				return false
			}
		}
		return true
	}
	return false
}

func c19IsString(t types.Type) bool {
	b, ok := types.Unalias(t).(*types.Basic)
	return ok && b.Kind() == types.String
}

// string-kind: string itself or a named type with underlying string
func c19StringKind(t types.Type) bool {
	t = types.Unalias(t)
	if c19IsString(t) {
		return true
	}
	n, ok := t.(*types.Named)
	return ok && c19IsString(n.Underlying())
}

func c19IsLib(p *types.Package) bool {
	return p != nil && (p.Path() == c19Root || p.Path() == c19Tmpl)
}

func c19Short(p *types.Package) string {
	if p.Path() == c19Root {
		return "safehtml"
	}
	if p.Path() == c19Tmpl {
		return "template"
	}
	return p.Path()
}

// c19SafeStruct: exported defined struct of the two packages, ≥1 field, all unexported
func c19SafeStruct(t types.Type) bool {
	n, ok := types.Unalias(t).(*types.Named)
	if !ok || !n.Obj().Exported() || !c19IsLib(n.Obj().Pkg()) {
		return false
	}
	st, ok := n.Underlying().(*types.Struct)
	if !ok || st.NumFields() == 0 {
		return false
	}
	for i := 0; i < st.NumFields(); i++ {
		if st.Field(i).Exported() {
			return false
		}
	}
	return true
}

func c19IsTemplatePtr(t types.Type) bool {
	p, ok := types.Unalias(t).(*types.Pointer)
	if !ok {
		return false
	}
	n, ok := types.Unalias(p.Elem()).(*types.Named)
	return ok && n.Obj().Pkg() != nil && n.Obj().Pkg().Path() == c19Tmpl && n.Obj().Name() == "Template"
}

// c19MentionsSafe: the type mentions, at any depth, a safe struct type or template.Template
func c19MentionsSafe(t types.Type, depth int) bool {
	if t == nil || depth > 8 {
		return false
	}
	t = types.Unalias(t)
	if c19SafeStruct(t) {
		return true
	}
	switch u := t.(type) {
	case *types.Named:
		if u.Obj().Pkg() != nil && u.Obj().Pkg().Path() == c19Tmpl && u.Obj().Name() == "Template" {
			return true
		}
		if !c19IsLib(u.Obj().Pkg()) {
			return false
		}
		switch v := u.Underlying().(type) {
		case *types.Struct:
			for i := 0; i < v.NumFields(); i++ {
				if v.Field(i).Exported() && c19MentionsSafe(v.Field(i).Type(), depth+1) {
					return true
				}
			}
			return false
		case *types.Interface:
			return false
		default:
			return c19MentionsSafe(v, depth+1)
		}
	case *types.Pointer:
		return c19MentionsSafe(u.Elem(), depth+1)
	case *types.Slice:
		return c19MentionsSafe(u.Elem(), depth+1)
	case *types.Array:
		return c19MentionsSafe(u.Elem(), depth+1)
	case *types.Chan:
		return c19MentionsSafe(u.Elem(), depth+1)
	case *types.Map:
		return c19MentionsSafe(u.Key(), depth+1) || c19MentionsSafe(u.Elem(), depth+1)
	case *types.Signature:
		for i := 0; i < u.Params().Len(); i++ {
			if c19MentionsSafe(u.Params().At(i).Type(), depth+1) {
				return true
			}
		}
		for i := 0; i < u.Results().Len(); i++ {
			if c19MentionsSafe(u.Results().At(i).Type(), depth+1) {
				return true
			}
		}
	case *types.Struct:
		for i := 0; i < u.NumFields(); i++ {
			if c19MentionsSafe(u.Field(i).Type(), depth+1) {
				return true
			}
		}
	}
	return false
}

// result description for the oracle: tag|type, tag S = mentions a safe struct type (at any depth),
// P = *Template (or a slice of it)
func c19ResultDesc(t types.Type) string {
	s := types.TypeString(t, func(p *types.Package) string { return c19Short(p) })
	tag := "-"
	el := types.Unalias(t)
	if sl, ok := el.(*types.Slice); ok {
		el = types.Unalias(sl.Elem())
	}
	switch {
	case c19IsTemplatePtr(el):
		tag = "P"
	case c19MentionsSafe(t, 0):
		tag = "S"
	}
	return tag + "|" + s
}

// ---- argument expressions ---------------------------------------------------------------------
//
// Encoding (prefix, no spaces), mirrored by SafeHtml.Ops.C19.parseArg:
//   L  "lit"         U  untyped const    C<t> typed const     V<t> variable     F<t> call result
//   +ab  a + b       T<t>e  T(e)         (e  parenthesised
//   <t> ∈ s (string) | m (client-defined myStr) | p (the parameter's own type)
// argument:  E<expr> | S<t> (xs... with xs []T) | D (class-specific dynamic value) | G<expr> (via a generic helper)

type c19Expr struct {
	op   byte
	ty   byte
	a, b *c19Expr
}

func (e *c19Expr) enc() string {
	switch e.op {
	case 'L', 'U':
		return string(e.op)
	case 'C', 'V', 'F':
		return string([]byte{e.op, e.ty})
	case '+':
		return "+" + e.a.enc() + e.b.enc()
	case 'T':
		return string([]byte{'T', e.ty}) + e.a.enc()
	case '(':
		return "(" + e.a.enc()
	}
	return "?"
}

func c19ParseExpr(s string, i *int) *c19Expr {
	if *i >= len(s) {
		return nil
	}
	c := s[*i]
	*i++
	switch c {
	case 'L', 'U':
		return &c19Expr{op: c}
	case 'C', 'V', 'F':
		if *i >= len(s) {
			return nil
		}
		t := s[*i]
		*i++
		return &c19Expr{op: c, ty: t}
	case '+':
		a := c19ParseExpr(s, i)
		b := c19ParseExpr(s, i)
		if a == nil || b == nil {
			return nil
		}
		return &c19Expr{op: '+', a: a, b: b}
	case 'T':
		if *i >= len(s) {
			return nil
		}
		t := s[*i]
		*i++
		a := c19ParseExpr(s, i)
		if a == nil {
			return nil
		}
		return &c19Expr{op: 'T', ty: t, a: a}
	case '(':
		a := c19ParseExpr(s, i)
		if a == nil {
			return nil
		}
		return &c19Expr{op: '(', a: a}
	}
	return nil
}

func (e *c19Expr) isUntypedConst() bool {
	switch e.op {
	case 'L', 'U':
		return true
	case '+':
		return e.a.isUntypedConst() && e.b.isUntypedConst()
	case '(':
		return e.a.isUntypedConst()
	}
	return false
}

func c19TyName(t byte, pTy string) string {
	switch t {
	case 's':
		return "string"
	case 'm':
		return "myStr"
	}
	return pTy
}

func c19Suffix(t byte) string { return strings.ToUpper(string(t)) }

// goExpr renders the expression and records which helper declarations it needs.
func (e *c19Expr) goExpr(pTy string, need map[string]bool) string {
	switch e.op {
	case 'L':
		return `"lit"`
	case 'U':
		need["uc"] = true
		return "uc"
	case 'C':
		need["tc"+string(e.ty)] = true
		return "tc" + c19Suffix(e.ty)
	case 'V':
		need["v"+string(e.ty)] = true
		return "v" + c19Suffix(e.ty)
	case 'F':
		need["f"+string(e.ty)] = true
		need["v"+string(e.ty)] = true
		return "f" + c19Suffix(e.ty) + "()"
	case '+':
		l, r := e.a.goExpr(pTy, need), e.b.goExpr(pTy, need)
		if e.a.op == '+' {
			l = "(" + l + ")"
		}
		if e.b.op == '+' {
			r = "(" + r + ")"
		}
		return l + " + " + r
	case 'T':
		if e.ty == 'm' {
			need["m"] = true
		}
		return c19TyName(e.ty, pTy) + "(" + e.a.goExpr(pTy, need) + ")"
	case '(':
		return "(" + e.a.goExpr(pTy, need) + ")"
	}
	return "?"
}

func c19HelperDecls(need map[string]bool, pTy string) []string {
	var d []string
	if need["tcm"] || need["vm"] || need["fm"] || need["xsm"] {
		need["m"] = true
	}
	if need["m"] {
		d = append(d, "type myStr string")
	}
	if need["uc"] {
		d = append(d, `const uc = "u"`)
	}
	for _, t := range []byte{'s', 'm', 'p'} {
		k, S, T := string(t), c19Suffix(t), c19TyName(t, pTy)
		if need["tc"+k] {
			d = append(d, fmt.Sprintf(`const tc%s %s = "t"`, S, T))
		}
		if need["v"+k] {
			d = append(d, fmt.Sprintf(`var v%s %s`, S, T))
		}
		if need["f"+k] {
			d = append(d, fmt.Sprintf(`func f%s() %s { return v%s }`, S, T, S))
		}
		if need["xs"+k] {
			d = append(d, fmt.Sprintf(`var xs%s []%s`, S, T))
		}
	}
	return d
}

// ---- enumerating the API ----------------------------------------------------------------------

type c19Func struct {
	qname string // "safehtml.HTMLEscaped", "template.Template.Parse"
	pkg   *types.Package
	recv  *types.Named // nil for functions
	ptr   bool
	fn    *types.Func
	sig   *types.Signature
}

func c19Funcs(w *c19World) []c19Func {
	var out []c19Func
	for _, p := range []*types.Package{w.root, w.tmpl} {
		sc := p.Scope()
		for _, nm := range sc.Names() {
			switch o := sc.Lookup(nm).(type) {
			case *types.Func:
				if o.Exported() {
					out = append(out, c19Func{qname: c19Short(p) + "." + nm, pkg: p, fn: o, sig: o.Type().(*types.Signature)})
				}
			case *types.TypeName:
				if !o.Exported() || o.IsAlias() {
					continue
				}
				named, ok := o.Type().(*types.Named)
				if !ok {
					continue
				}
				if _, isIface := named.Underlying().(*types.Interface); isIface {
					continue
				}
				ms := types.NewMethodSet(types.NewPointer(named))
				var fns []*types.Func
				for i := 0; i < ms.Len(); i++ {
					if fn := ms.At(i).Obj().(*types.Func); fn.Exported() {
						fns = append(fns, fn)
					}
				}
				sort.Slice(fns, func(i, j int) bool { return fns[i].Name() < fns[j].Name() })
				for _, fn := range fns {
					sig := fn.Type().(*types.Signature)
					_, ptr := sig.Recv().Type().(*types.Pointer)
					out = append(out, c19Func{qname: c19Short(p) + "." + nm + "." + fn.Name(), pkg: p, recv: named, ptr: ptr, fn: fn, sig: sig})
				}
			}
		}
	}
	return out
}

func c19FindFunc(w *c19World, qname string) *c19Func {
	for _, f := range c19Funcs(w) {
		if f.qname == qname {
			f := f
			return &f
		}
	}
	return nil
}

func (f *c19Func) results() string {
	var rs []string
	for i := 0; i < f.sig.Results().Len(); i++ {
		rs = append(rs, c19ResultDesc(f.sig.Results().At(i).Type()))
	}
	if f.recv != nil && f.ptr && c19SafeStruct(f.recv) {
		rs = append(rs, "S|*"+c19Short(f.pkg)+"."+f.recv.Obj().Name()) // a pointer receiver can be overwritten
	}
	if len(rs) == 0 {
		return "-"
	}
	return strings.Join(rs, ",")
}

func (f *c19Func) yieldsSafeLike() bool {
	for i := 0; i < f.sig.Results().Len(); i++ {
		if d := c19ResultDesc(f.sig.Results().At(i).Type()); d[0] != '-' {
			return true
		}
	}
	if f.recv != nil && f.ptr && c19SafeStruct(f.recv) {
		return true
	}
	return false
}

// callee renders the function value (pkg.F or recv.M) and declares the receiver if needed.
func (f *c19Func) callee(p *c19Prog) string {
	if f.recv == nil {
		return p.qual(f.pkg) + "." + f.fn.Name()
	}
	rt := p.ty(f.recv)
	if f.ptr {
		rt = "*" + rt
	}
	p.decls = append(p.decls, "var recv "+rt)
	return "recv." + f.fn.Name()
}

// filler renders an argument for a parameter that is not under test.
func (f *c19Func) filler(p *c19Prog, i int) (string, bool) {
	pt := f.sig.Params().At(i).Type()
	if f.sig.Variadic() && i == f.sig.Params().Len()-1 {
		return "", true // pass no variadic arguments
	}
	if c19Nameable(pt) {
		p.decls = append(p.decls, fmt.Sprintf("var a%d %s", i, p.ty(pt)))
		return fmt.Sprintf("a%d", i), true
	}
	if c19StringKind(pt) {
		return `"x"`, true
	}
	return "", false
}

// dynValue renders, for a non-string parameter type, a value carrying the run-time string vS.
func c19DynValue(p *c19Prog, t types.Type) (string, bool) {
	t = types.Unalias(t)
	switch u := t.(type) {
	case *types.Map:
		if c19IsString(u.Key()) && c19IsString(u.Elem()) {
			return "map[string]string{vS: vS}", true
		}
	case *types.Interface:
		if u.NumMethods() == 0 {
			return "interface{}(vS)", true
		}
	case *types.Slice:
		if c19StringKind(u.Elem()) {
			return "[]" + p.ty(u.Elem()) + "{vS}", true
		}
		if b, ok := types.Unalias(u.Elem()).(*types.Basic); ok && b.Kind() == types.Byte {
			return "[]byte(vS)", true
		}
	case *types.Named:
		if u.Obj().Pkg() != nil && u.Obj().Pkg().Path() == "flag" && u.Obj().Name() == "Value" {
			p.decls = append(p.decls,
				"type myFlag struct{ v string }",
				"func (f myFlag) String() string   { return f.v }",
				"func (f myFlag) Set(string) error { return nil }")
			return "myFlag{vS}", true
		}
		if m, ok := u.Underlying().(*types.Map); ok && c19IsString(m.Key()) {
			if it, ok := types.Unalias(m.Elem()).Underlying().(*types.Interface); ok && it.NumMethods() == 0 {
				return p.ty(u) + "{vS: func() string { return vS }}", true
			}
		}
		if st, ok := u.Underlying().(*types.Struct); ok && c19IsLib(u.Obj().Pkg()) && u.Obj().Exported() {
			for i := 0; i < st.NumFields(); i++ {
				fl := st.Field(i)
				if !fl.Exported() {
					continue
				}
				if c19IsString(fl.Type()) {
					return fmt.Sprintf("%s{%s: vS}", p.ty(u), fl.Name()), true
				}
				if sl, ok := types.Unalias(fl.Type()).(*types.Slice); ok && c19IsString(sl.Elem()) {
					return fmt.Sprintf("%s{%s: []string{vS}}", p.ty(u), fl.Name()), true
				}
			}
		}
	}
	return "", false
}

// c19AssignProgram builds the client program for (function, parameter index, argument).
func c19AssignProgram(f *c19Func, idx int, arg string) (string, bool) {
	if idx >= f.sig.Params().Len() || arg == "" {
		return "", false
	}
	p := newC19Prog()
	pt := f.sig.Params().At(idx).Type()
	variadic := f.sig.Variadic() && idx == f.sig.Params().Len()-1
	elem := pt
	if variadic {
		elem = pt.(*types.Slice).Elem()
	}
	pTy := p.ty(elem)
	need := map[string]bool{}
	var argText string
	generic := false
	switch arg[0] {
	case 'E', 'G':
		i := 1
		e := c19ParseExpr(arg, &i)
		if e == nil || i != len(arg) {
			return "", false
		}
		argText = e.goExpr(pTy, need)
		generic = arg[0] == 'G'
	case 'S':
		if len(arg) != 2 {
			return "", false
		}
		need["xs"+string(arg[1])] = true
		argText = "xs" + c19Suffix(arg[1]) + "..."
	case 'D':
		need["vs"] = true
		v, ok := c19DynValue(p, pt)
		if !ok || variadic {
			return "", false
		}
		argText = v
	default:
		return "", false
	}
	callee := f.callee(p)
	var args []string
	for i := 0; i < f.sig.Params().Len(); i++ {
		if i == idx {
			args = append(args, argText)
			continue
		}
		a, ok := f.filler(p, i)
		if !ok {
			return "", false
		}
		if a != "" {
			args = append(args, a)
		}
	}
	nres := f.sig.Results().Len()
	if generic {
		// func g[T ~string](f func(A0, T, A2) (R…), s string) { f(a0, T(s), a2) }   called as g(pkg.F, <expr>)
		var ptys []string
		for i := 0; i < f.sig.Params().Len(); i++ {
			t := f.sig.Params().At(i).Type()
			last := f.sig.Variadic() && i == f.sig.Params().Len()-1
			el := t
			pre := ""
			if last {
				el = t.(*types.Slice).Elem()
				pre = "..."
			}
			switch {
			case i == idx:
				ptys = append(ptys, pre+"T")
			case c19Nameable(el):
				ptys = append(ptys, pre+p.ty(el))
			case types.Identical(el, elem):
				ptys = append(ptys, pre+"T") // the same unnameable type again (filler becomes T("x"))
			default:
				return "", false
			}
		}
		var rtys []string
		for i := 0; i < nres; i++ {
			if !c19Nameable(f.sig.Results().At(i).Type()) {
				return "", false
			}
			rtys = append(rtys, p.ty(f.sig.Results().At(i).Type()))
		}
		inner := make([]string, len(args))
		copy(inner, args)
		// position of the tested argument within args
		pos := 0
		for i := 0; i < idx; i++ {
			if !(f.sig.Variadic() && i == f.sig.Params().Len()-1) {
				pos++
			}
		}
		inner[pos] = "T(s)"
		for i := range inner {
			if inner[i] == `"x"` {
				inner[i] = `T("x")`
			}
		}
		p.decls = append(p.decls, fmt.Sprintf("func g[T ~string](f func(%s) (%s), s string) { f(%s) }",
			strings.Join(ptys, ", "), strings.Join(rtys, ", "), strings.Join(inner, ", ")))
		p.body = append(p.body, fmt.Sprintf("g(%s, %s)", callee, argText))
	} else {
		call := callee + "(" + strings.Join(args, ", ") + ")"
		if nres == 0 {
			p.body = append(p.body, call)
		} else {
			p.body = append(p.body, strings.Repeat("_, ", nres-1)+"_ = "+call)
		}
	}
	p.decls = append(c19HelperDecls(need, pTy), p.decls...)
	return p.render(), true
}

// ---- struct types -----------------------------------------------------------------------------

type c19Type struct {
	qname string
	obj   *types.TypeName
	named *types.Named
	st    *types.Struct
}

func c19StructTypes(w *c19World) []c19Type {
	var out []c19Type
	for _, p := range []*types.Package{w.root, w.tmpl} {
		sc := p.Scope()
		for _, nm := range sc.Names() {
			o, ok := sc.Lookup(nm).(*types.TypeName)
			if !ok || !o.Exported() {
				continue
			}
			named, ok := types.Unalias(o.Type()).(*types.Named)
			if !ok {
				continue
			}
			st, ok := named.Underlying().(*types.Struct)
			if !ok {
				continue
			}
			out = append(out, c19Type{qname: c19Short(p) + "." + nm, obj: o, named: named, st: st})
		}
	}
	return out
}

func (t *c19Type) goName(p *c19Prog) string { return p.qual(t.obj.Pkg()) + "." + t.obj.Name() }

func c19ConvertProgram(from, to *c19Type) string {
	p := newC19Prog()
	p.decls = append(p.decls, "var x "+from.goName(p))
	p.body = append(p.body, "_ = "+to.goName(p)+"(x)")
	return p.render()
}

func c19MakeProgram(t *c19Type, kind string) (string, bool) {
	p := newC19Prog()
	T := t.goName(p)
	p.decls = append(p.decls, "var x "+T, "var vS string")
	fieldOf := func() string { return kind[strings.IndexByte(kind, ':')+1:] }
	// the value stored into field f: the run-time string when f is a string, else a value of f's own type
	valOf := func(f string) string {
		for i := 0; i < t.st.NumFields(); i++ {
			if t.st.Field(i).Name() == f && c19IsString(t.st.Field(i).Type()) {
				return "vS"
			}
		}
		return "x." + f
	}
	switch {
	case kind == "zero":
		p.body = append(p.body, "_ = "+T+"{}")
	case kind == "convString":
		p.body = append(p.body, "_ = "+T+"(vS)")
	case kind == "convConst":
		p.body = append(p.body, `_ = `+T+`("x")`)
	case kind == "litUnkeyed":
		var vs []string
		for i := 0; i < t.st.NumFields(); i++ {
			vs = append(vs, valOf(t.st.Field(i).Name()))
		}
		p.body = append(p.body, "_ = "+T+"{"+strings.Join(vs, ", ")+"}")
	case strings.HasPrefix(kind, "litKeyed:"):
		p.body = append(p.body, fmt.Sprintf("_ = %s{%s: %s}", T, fieldOf(), valOf(fieldOf())))
	case strings.HasPrefix(kind, "fieldWrite:"):
		p.body = append(p.body, fmt.Sprintf("tmp := %s", valOf(fieldOf())), fmt.Sprintf("x.%s = tmp", fieldOf()))
	case strings.HasPrefix(kind, "fieldRead:"):
		p.body = append(p.body, fmt.Sprintf("_ = x.%s", fieldOf()))
	case kind == "anonConv":
		var fs []string
		for i := 0; i < t.st.NumFields(); i++ {
			f := t.st.Field(i)
			if !c19Nameable(f.Type()) || f.Embedded() {
				return "", false
			}
			fs = append(fs, f.Name()+" "+p.ty(f.Type()))
		}
		p.body = append(p.body, fmt.Sprintf("_ = %s(struct{ %s }{})", T, strings.Join(fs, "; ")))
	default:
		return "", false
	}
	return p.render(), true
}

// ---- hand-written probes ------------------------------------------------------------------------
//
// label "backdoor:<signature>"  : a program that obtains a safe-type value (or template output) whose
//                                 content is an unsanitized run-time string; property wants it rejected.
// label "must-reject:<what>"    : reviewed tricks that must stay rejected.
// label "must-compile:<what>"   : sanity (the intended use compiles).

type c19Probe struct{ label, src string }

const c19Hdr = "package client\n\nimport (\n\t\"github.com/google/safehtml\"\n\t\"github.com/google/safehtml/template\"\n)\n\nvar dyn string\nvar _ = safehtml.HTMLEscaped\nvar _ = template.New\n\n"

var c19Probes = []c19Probe{
	{"backdoor:struct-conversion", c19Hdr + "func probe() safehtml.HTML { return safehtml.HTML(safehtml.URLSanitized(dyn)) }\n"},
	{"backdoor:struct-conversion", c19Hdr + "func probe() safehtml.TrustedResourceURL {\n\treturn safehtml.TrustedResourceURL(safehtml.URLSanitized(dyn))\n}\n"},
	{"backdoor:struct-conversion", c19Hdr + "func probe() safehtml.Script { return safehtml.Script(safehtml.HTMLEscaped(dyn)) }\n"},
	{"backdoor:flag-value", c19Hdr + "type v struct{ s string }\n\nfunc (x v) String() string   { return x.s }\nfunc (x v) Set(string) error { return nil }\n\nfunc probe() safehtml.TrustedResourceURL { return safehtml.TrustedResourceURLFromFlag(v{dyn}) }\n"},
	{"backdoor:flag-value", c19Hdr + "type v struct{ s string }\n\nfunc (x v) String() string   { return x.s }\nfunc (x v) Set(string) error { return nil }\n\nfunc probe() template.TrustedSource { return template.TrustedSourceFromFlag(v{dyn}) }\n"},
	{"backdoor:flag-value", c19Hdr + "type v struct{ s string }\n\nfunc (x v) String() string   { return x.s }\nfunc (x v) Set(string) error { return nil }\n\nfunc probe() (safehtml.TrustedResourceURL, error) {\n\treturn safehtml.TrustedResourceURLFormatFromFlag(v{dyn}, nil)\n}\n"},
	{"backdoor:exported-tree", "package client\n\nimport (\n\t\"text/template/parse\"\n\n\t\"github.com/google/safehtml\"\n\t\"github.com/google/safehtml/template\"\n)\n\nvar dyn string\n\nfunc probe() (safehtml.HTML, error) {\n\tt := template.Must(template.New(\"t\").Parse(\"<p>hello</p>\"))\n\tt.Tree.Root.Nodes = append(t.Tree.Root.Nodes, &parse.TextNode{NodeType: parse.NodeText, Text: []byte(dyn)})\n\treturn t.ExecuteToHTML(nil)\n}\n"},
	{"backdoor:funcs-override", c19Hdr + "func probe() (safehtml.HTML, error) {\n\tt := template.Must(template.New(\"t\").Parse(\"<p>{{.}}</p>\"))\n\tt.ExecuteToHTML(\"warm-up\")\n\tt.Funcs(template.FuncMap{\"_sanitizeHTML\": func(args ...interface{}) string { return dyn }})\n\treturn t.ExecuteToHTML(\"x\")\n}\n"},
	{"backdoor:generic-inference", c19Hdr + "func conv[T ~string, R any](f func(T) R, s string) R { return f(T(s)) }\n\nfunc probe() safehtml.Script { return conv(safehtml.ScriptFromConstant, dyn) }\n"},
	{"backdoor:generic-inference", c19Hdr + "func conv[T ~string, R any](f func(T) R, s string) R { return f(T(s)) }\n\nfunc probe() template.TrustedTemplate { return conv(template.MakeTrustedTemplate, dyn) }\n"},
	{"backdoor:generic-inference", c19Hdr + "func conv[T ~string](f func(T) (*template.Template, error), s string) (*template.Template, error) {\n\treturn f(T(s))\n}\n\nfunc probe() (*template.Template, error) { return conv(template.New(\"t\").Parse, dyn) }\n"},
	{"backdoor:generic-inference", c19Hdr + "func conv[T ~string](f func(...T) (*template.Template, error), s string) (*template.Template, error) {\n\treturn f(T(s))\n}\n\nfunc probe() (*template.Template, error) { return conv(template.ParseFiles, dyn) }\n"},

	{"must-reject:composite-literal", c19Hdr + "func probe() safehtml.HTML { return safehtml.HTML{dyn} }\n"},
	{"must-reject:keyed-literal", c19Hdr + "func probe() safehtml.HTML { return safehtml.HTML{str: dyn} }\n"},
	{"must-reject:anon-struct-conversion", c19Hdr + "func probe() safehtml.HTML { return safehtml.HTML(struct{ str string }{dyn}) }\n"},
	{"must-reject:cross-package-conversion", c19Hdr + "func probe() template.TrustedTemplate { return template.TrustedTemplate(safehtml.HTMLEscaped(dyn)) }\n"},
	{"must-reject:source-to-template", c19Hdr + "func probe() template.TrustedTemplate {\n\treturn template.TrustedTemplate(template.TrustedSourceFromEnvVar(\"X\"))\n}\n"},
	{"must-reject:method-expression", c19Hdr + "func probe() (*template.Template, error) {\n\tf := (*template.Template).Parse\n\treturn f(template.New(\"t\"), dyn)\n}\n"},
	{"must-reject:func-type-assignment", c19Hdr + "func probe() safehtml.Script {\n\tvar f func(string) safehtml.Script = safehtml.ScriptFromConstant\n\treturn f(dyn)\n}\n"},
	{"must-reject:interface-satisfaction", c19Hdr + "type parser interface {\n\tParse(string) (*template.Template, error)\n}\n\nfunc probe() (*template.Template, error) {\n\tvar p parser = template.New(\"t\")\n\treturn p.Parse(dyn)\n}\n"},
	{"must-reject:generic-result-inference", c19Hdr + "func conv[T ~string](s string) T { return T(s) }\n\nfunc probe() safehtml.Script { return safehtml.ScriptFromConstant(conv(dyn)) }\n"},
	{"must-reject:sprintf", "package client\n\nimport (\n\t\"fmt\"\n\n\t\"github.com/google/safehtml/template\"\n)\n\nvar dyn string\n\nfunc probe() (*template.Template, error) { return template.New(\"t\").Parse(fmt.Sprintf(\"%s\", dyn)) }\n"},
	{"must-reject:name-the-type", c19Hdr + "func probe() safehtml.Script { return safehtml.ScriptFromConstant(safehtml.stringConstant(dyn)) }\n"},
	{"must-reject:raw-package", "package client\n\nimport \"github.com/google/safehtml/internal/raw\"\n\nvar _ = raw.HTML\n"},
	{"must-reject:embed-and-set", c19Hdr + "type wrap struct{ safehtml.HTML }\n\nfunc probe() safehtml.HTML {\n\tvar w wrap\n\tw.str = dyn\n\treturn w.HTML\n}\n"},

	{"must-compile:literal", c19Hdr + "func probe() safehtml.Script { return safehtml.ScriptFromConstant(\"f()\") }\n"},
	{"must-compile:named-untyped-constant", c19Hdr + "const c = \"<p>{{.}}</p>\"\n\nfunc probe() (*template.Template, error) { return template.New(\"t\").Parse(c + \"<br>\") }\n"},
	{"must-compile:zero-value", c19Hdr + "func probe() safehtml.HTML { return safehtml.HTML{} }\n"},
}

// ---- generator ----------------------------------------------------------------------------------

var c19FixedArgs = []struct{ enc, class string }{
	{"EL", "untypedConst"}, {"EU", "namedUntypedConst"}, {"E+LU", "constConcat"}, {"E(L", "parenConst"},
	{"EVs", "stringVar"}, {"ECs", "typedStringConst"}, {"ETpVs", "conversionOfVar"}, {"ETpL", "conversionOfConst"},
	{"EFs", "callResult"}, {"E+LVs", "concatWithVar"}, {"E+VsL", "concatWithVar"}, {"E+LFs", "concatWithCall"},
	{"EVm", "ownDefinedVar"}, {"ECm", "ownDefinedConst"}, {"ETsVs", "conversionToString"}, {"ETmVs", "conversionToOwn"},
	{"EVp", "varOfParamType"}, {"ECp", "constOfParamType"}, {"EFp", "callOfParamType"}, {"E+TpLL", "concatTypedConst"},
	{"E+LCs", "concatTypedConst"}, {"E(Vs", "parenVar"}, {"ETsTmVs", "nestedConversion"},
	{"Ss", "spreadStrings"}, {"Sm", "spreadOwn"}, {"Sp", "spreadParamType"},
	{"GVs", "genericVar"}, {"GL", "genericConst"}, {"GFs", "genericCall"}, {"GVm", "genericOwnVar"},
	{"D", "dynValue"},
}

func c19RandExpr(c *Ctx, depth int) *c19Expr {
	tys := []byte{'s', 's', 'm', 'p'}
	if depth <= 0 || c.rng.Intn(3) == 0 {
		switch c.rng.Intn(6) {
		case 0, 1:
			return &c19Expr{op: 'L'}
		case 2:
			return &c19Expr{op: 'U'}
		case 3:
			return &c19Expr{op: 'C', ty: pick(c, tys)}
		case 4:
			return &c19Expr{op: 'V', ty: pick(c, tys)}
		default:
			return &c19Expr{op: 'F', ty: pick(c, tys)}
		}
	}
	switch c.rng.Intn(4) {
	case 0, 1:
		return &c19Expr{op: '+', a: c19RandExpr(c, depth-1), b: c19RandExpr(c, depth-1)}
	case 2:
		return &c19Expr{op: 'T', ty: pick(c, tys), a: c19RandExpr(c, depth-1)}
	default:
		return &c19Expr{op: '(', a: c19RandExpr(c, depth-1)}
	}
}

func c19ArgIsConst(arg string) bool {
	if arg == "" || arg[0] != 'E' {
		return false
	}
	i := 1
	e := c19ParseExpr(arg, &i)
	return e != nil && e.isUntypedConst()
}

// does any exported part of t mention an unexported string-kind type of the two packages?
func c19MentionsUnexportedString(t types.Type, depth int) bool {
	if depth > 6 || t == nil {
		return false
	}
	switch u := types.Unalias(t).(type) {
	case *types.Named:
		if c19IsLib(u.Obj().Pkg()) && !u.Obj().Exported() && c19IsString(u.Underlying()) {
			return true
		}
		return false
	case *types.Pointer:
		return c19MentionsUnexportedString(u.Elem(), depth+1)
	case *types.Slice:
		return c19MentionsUnexportedString(u.Elem(), depth+1)
	case *types.Array:
		return c19MentionsUnexportedString(u.Elem(), depth+1)
	case *types.Chan:
		return c19MentionsUnexportedString(u.Elem(), depth+1)
	case *types.Map:
		return c19MentionsUnexportedString(u.Key(), depth+1) || c19MentionsUnexportedString(u.Elem(), depth+1)
	case *types.Signature:
		for i := 0; i < u.Params().Len(); i++ {
			if c19MentionsUnexportedString(u.Params().At(i).Type(), depth+1) {
				return true
			}
		}
		for i := 0; i < u.Results().Len(); i++ {
			if c19MentionsUnexportedString(u.Results().At(i).Type(), depth+1) {
				return true
			}
		}
	}
	return false
}

func genC19(c *Ctx) {
	w := c19Load()
	c.stats.Rule = "ops api.assign/api.convert/api.make/api.var/api.leak/api.probe: one client program per (exported function or method, " +
		"parameter, argument expression), per ordered pair of exported struct types (conversion T2(x:T1)), per (struct type, way of " +
		"making/filling a value from outside), per exported var/const, plus hand-written witnesses; each type-checked in-process with " +
		"go/types against the repo copy (build tag verif off). Non-trivial: the argument is NOT an untyped constant expression and the " +
		"parameter has an unexported string type or the function yields a safe type / *Template; a conversion between two different types; " +
		"a non-zero construction; every hand-written probe."
	funcs := c19Funcs(w)
	nrand := c.n(6, 250)
	for i := range funcs {
		f := &funcs[i]
		res := f.results()
		for idx := 0; idx < f.sig.Params().Len(); idx++ {
			pt := f.sig.Params().At(idx).Type()
			variadic := f.sig.Variadic() && idx == f.sig.Params().Len()-1
			el := pt
			if variadic {
				el = pt.(*types.Slice).Elem()
			}
			stringLike := c19StringKind(el)
			unexportedStr := stringLike && !c19Nameable(el)
			var args []struct{ enc, class string }
			if stringLike {
				args = append(args, c19FixedArgs...)
				for k := 0; k < nrand; k++ {
					e := c19RandExpr(c, c.n(3, 4))
					pre := "E"
					cl := "randomExpr"
					if c.rng.Intn(8) == 0 {
						pre, cl = "G", "randomGeneric"
					}
					args = append(args, struct{ enc, class string }{pre + e.enc(), cl})
				}
			} else {
				args = append(args, struct{ enc, class string }{"D", "dynValue"},
					struct{ enc, class string }{"EVs", "stringVar"}, struct{ enc, class string }{"EL", "untypedConst"})
			}
			for _, a := range args {
				src, ok := c19AssignProgram(f, idx, a.enc)
				if !ok {
					continue
				}
				r := c19Check(src)
				nt := !c19ArgIsConst(a.enc) && (unexportedStr || f.yieldsSafeLike())
				c.emit("api.assign", []string{f.qname, fmt.Sprint(idx), a.enc, res, src}, r, nt, "assign/"+a.class+"/"+r)
			}
		}
	}
	sts := c19StructTypes(w)
	for i := range sts {
		for j := range sts {
			src := c19ConvertProgram(&sts[i], &sts[j])
			r := c19Check(src)
			c.emit("api.convert", []string{sts[i].qname, sts[j].qname, src}, r, i != j, "convert/"+r)
		}
		t := &sts[i]
		kinds := []string{"zero", "convString", "convConst", "litUnkeyed", "anonConv"}
		for k := 0; k < t.st.NumFields(); k++ {
			n := t.st.Field(k).Name()
			kinds = append(kinds, "litKeyed:"+n, "fieldWrite:"+n, "fieldRead:"+n)
		}
		for _, k := range kinds {
			src, ok := c19MakeProgram(t, k)
			if !ok {
				continue
			}
			r := c19Check(src)
			cl := k
			if i := strings.IndexByte(k, ':'); i >= 0 {
				cl = k[:i]
			}
			c.emit("api.make", []string{t.qname, k, src}, r, k != "zero", "make/"+cl+"/"+r)
		}
	}
	// exported vars and consts; identifiers whose type mentions an unexported string type
	for _, p := range []*types.Package{w.root, w.tmpl} {
		sc := p.Scope()
		for _, nm := range sc.Names() {
			o := sc.Lookup(nm)
			if !o.Exported() {
				continue
			}
			q := c19Short(p) + "." + nm
			switch o.(type) {
			case *types.Var, *types.Const:
				pr := newC19Prog()
				pr.body = append(pr.body, "_ = "+pr.qual(p)+"."+nm)
				src := pr.render()
				desc := c19ResultDesc(o.Type())
				c.emit("api.var", []string{q, desc, src}, c19Check(src), desc[0] != '-', "var")
				if c19MentionsUnexportedString(o.Type(), 0) {
					c.emit("api.leak", []string{q, src}, c19Check(src), true, "leak")
				}
			}
		}
	}
	for i := range funcs {
		f := &funcs[i]
		for k := 0; k < f.sig.Results().Len(); k++ {
			if !c19MentionsUnexportedString(f.sig.Results().At(k).Type(), 0) {
				continue
			}
			pr := newC19Prog()
			callee := f.callee(pr)
			pr.body = append(pr.body, "_ = "+callee)
			src := pr.render()
			c.emit("api.leak", []string{f.qname, src}, c19Check(src), true, "leak")
			break
		}
	}
	for i := range sts {
		for k := 0; k < sts[i].st.NumFields(); k++ {
			fl := sts[i].st.Field(k)
			if fl.Exported() && c19MentionsUnexportedString(fl.Type(), 0) {
				pr := newC19Prog()
				pr.decls = append(pr.decls, "var x "+sts[i].goName(pr))
				pr.body = append(pr.body, "_ = x."+fl.Name())
				src := pr.render()
				c.emit("api.leak", []string{sts[i].qname + "." + fl.Name(), src}, c19Check(src), true, "leak")
			}
		}
	}
	for _, pb := range c19Probes {
		c.emit("api.probe", []string{pb.label, pb.src}, c19Check(pb.src), true, "probe/"+strings.SplitN(pb.label, ":", 2)[0])
	}
	c.stats.Exhaustive = true
	c.stats.ExhaustiveWhat = fmt.Sprintf("every exported function and method (%d) × every parameter × %d fixed argument shapes (+%d seeded random expression trees per string parameter); "+
		"all %d×%d ordered pairs of exported struct types; every field of every exported struct type × {literal, write, read}; every exported var/const",
		len(funcs), len(c19FixedArgs), nrand, len(sts), len(sts))
}

func init() {
	last := func(a []string) string {
		if len(a) == 0 {
			return "rejected"
		}
		return c19Check(a[len(a)-1])
	}
	for _, op := range []string{"api.assign", "api.convert", "api.make", "api.var", "api.leak", "api.probe"} {
		replayers[op] = last
	}
	generators["C19"] = genC19
}
