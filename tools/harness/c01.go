package main

func init() {
	generators["TM"] = genTM
}

// genTM: smoke generator — fresh set, one Parse, one Execute.
func genTM(c *Ctx) {
	c.stats.Rule = "fresh set: New, Parse(random template text), Execute(random data)"
	for i := 0; i < c.n(500, 20000); i++ {
		text := c.randTemplateText()
		steps := []Step{{Op: "new", H: 0, Name: "root"}, {Op: "parse", H: 0, Text: text}, {Op: "exec", H: 0, Data: c.randData()}}
		hist, err := historyText(steps)
		if err != nil {
			c.stats.Classes["unparsable"]++
			continue
		}
		r := runHistoryReal(hist)
		cls := "ok"
		if len(r) > 0 {
			parts := splitLast(r)
			cls = parts
		}
		c.emit("tmpl.hist", []string{hist}, r, true, cls)
	}
}

// splitLast: class of the last step's result (ok / err:<class> / panic)
func splitLast(r string) string {
	last := r
	for i := len(r) - 1; i >= 0; i-- {
		if r[i] == ';' {
			last = r[i+1:]
			break
		}
	}
	for i := 0; i < len(last); i++ {
		if last[i] == ' ' {
			return last[:i]
		}
	}
	return last
}
