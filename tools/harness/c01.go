package main

import (
	"bytes"
	"fmt"
	"strings"
	texttemplate "text/template"
)

func init() {
	generators["TM"] = genTM
	generators["C01"] = genC01
	generators["C02"] = genC02
	generators["C03"] = genC03
	replayers["tmpl.c01"] = func(a []string) string { return realC01(a[0]) }
	replayers["tmpl.c02"] = func(a []string) string { return lastOf(runLinesStr(a[0])) }
	replayers["tmpl.c03"] = func(a []string) string { return lastOf(runLinesStr(a[6])) + "~" + lastOf(runLinesStr(a[7])) }
}

// genTM: smoke generator — fresh set, one Parse, one Execute.
func genTM(c *Ctx) {
	c.stats.Rule = "fresh set: New, Parse(random template text), Execute(random data)"
	for i := 0; i < c.n(500, 20000); i++ {
		text := c.randTemplateText()
		steps := []Step{{Op: "new", H: 0, Name: "root"}, {Op: "parse", H: 0, Text: text}, {Op: "exec", H: 0, Data: c.randData()}}
		hist, err := historyText(steps)
		if err != nil {
			c.stats.Classes["unparsable"]++
			continue
		}
		r := runHistoryReal(hist)
		c.emit("tmpl.hist", []string{hist}, r, true, splitLast(r))
	}
}

// splitLast: class of the last step's result (ok / err:<class> / panic)
func splitLast(r string) string {
	last := r
	for i := len(r) - 1; i >= 0; i-- {
		if r[i] == ';' {
			last = r[i+1:]
			break
		}
	}
	for i := 0; i < len(last); i++ {
		if last[i] == ' ' || last[i] == '~' {
			return last[:i]
		}
	}
	return last
}

// inert: every string / safe-typed leaf becomes "x" ("" if it was empty): same control path, inert content
func (v *Val) inert() *Val {
	switch v.Kind {
	case "s", "t", "g":
		s := "x"
		if v.S == "" {
			s = ""
		}
		return &Val{Kind: "s", S: s}
	case "p":
		return &Val{Kind: "p", P: v.P.inert()}
	case "l":
		o := &Val{Kind: "l"}
		for _, x := range v.L {
			o.L = append(o.L, x.inert())
		}
		return o
	case "m":
		o := &Val{Kind: "m", M: map[string]*Val{}, Keys: append([]string{}, v.Keys...)}
		for k, x := range v.M {
			o.M[k] = x.inert()
		}
		return o
	}
	return v
}

// inertTyped: like inert, but safe-typed leaves keep their type with benign contents (so that typed-only
// contexts still accept them): the engine itself is run on this value to obtain the structure reference
var benignOf = map[string]string{"H": "x", "S": "x", "Y": "x:y;", "E": "x{}", "U": "x", "R": "https://x.example/x", "I": "x", "X": "x"}

func (v *Val) inertTyped() *Val {
	switch v.Kind {
	case "s", "g":
		s := "x"
		if v.S == "" {
			s = ""
		}
		return &Val{Kind: "s", S: s}
	case "t":
		return &Val{Kind: "t", Tag: v.Tag, S: benignOf[v.Tag]}
	case "p":
		return &Val{Kind: "p", P: v.P.inertTyped()}
	case "l":
		o := &Val{Kind: "l"}
		for _, x := range v.L {
			o.L = append(o.L, x.inertTyped())
		}
		return o
	case "m":
		o := &Val{Kind: "m", M: map[string]*Val{}, Keys: append([]string{}, v.Keys...)}
		for k, x := range v.M {
			o.M[k] = x.inertTyped()
		}
		return o
	}
	return v
}

// plainRender: the author's template through plain text/template (no contextual escaping) with inert values
func plainRender(text string, data *Val) (string, bool) {
	ok := true
	var out string
	func() {
		defer func() {
			if r := recover(); r != nil {
				ok = false
			}
		}()
		t, err := texttemplate.New("root").Parse(text)
		if err != nil {
			ok = false
			return
		}
		var buf bytes.Buffer
		if err := t.Execute(&buf, data.Go()); err != nil {
			ok = false
			return
		}
		out = buf.String()
	}()
	return out, ok
}

// realC01 re-runs a tmpl.c01 history and appends the plain render
func realC01(hist string) string {
	r := lastOf(runLinesStr(hist))
	if !strings.HasPrefix(r, "ok ") {
		return r
	}
	var text string
	var data *Val
	for _, l := range strings.Split(hist, "\n") {
		f := strings.Fields(l)
		if len(f) >= 3 && f[0] == "parse" {
			_, a, _ := parseOpLine("x " + f[2])
			text = a[0]
		}
		if len(f) >= 3 && f[0] == "exec" {
			_, a, _ := parseOpLine("x " + f[2])
			data, _, _ = parseValWire(strings.Fields(a[0]))
		}
	}
	// the engine itself on inert values of the same shape and types
	hb := newHistBuilder()
	hb.add(Step{Op: "new", H: 0, Name: "root"})
	hb.add(Step{Op: "parse", H: 0, Text: text})
	ri := hb.add(Step{Op: "exec", H: 0, Data: data.inertTyped()})
	outI := "ierr"
	if strings.HasPrefix(ri, "ok ") {
		outI = strings.TrimPrefix(ri, "ok ")
	}
	p, ok := plainRender(text, data.inert())
	if !ok {
		return r + " " + outI + " perr"
	}
	return r + " " + outI + " " + hxs(p)
}

// untrusted-only data with benign typed values: typed contexts get exercised, typed values add no markup
var benignTyped = []*Val{
	{Kind: "t", Tag: "S", S: "var a=1;"}, {Kind: "t", Tag: "Y", S: "color:red;"}, {Kind: "t", Tag: "E", S: "p{}"},
	{Kind: "t", Tag: "U", S: "/x"}, {Kind: "t", Tag: "R", S: "https://x.example/y.js"}, {Kind: "t", Tag: "I", S: "id1"},
}

func (c *Ctx) untrustedLeaf() *Val {
	switch r := c.rng.Intn(14); {
	case r >= 13:
		return &Val{Kind: "p", P: &Val{Kind: "g", S: nonEmpty(c.hostile())}}
	case r >= 12:
		return &Val{Kind: "g", S: nonEmpty(c.hostile())}
	case r < 8:
		return &Val{Kind: "s", S: c.hostile()}
	case r < 10:
		return pick(c, benignTyped)
	case r < 11:
		return &Val{Kind: "i", I: c.rng.Intn(100)}
	default:
		return &Val{Kind: "p", P: &Val{Kind: "s", S: c.hostile()}}
	}
}

func (c *Ctx) untrustedData() *Val {
	m := &Val{Kind: "m", M: map[string]*Val{}}
	put := func(k string, v *Val) { m.Keys = append(m.Keys, k); m.M[k] = v }
	for _, k := range []string{"X", "Y", "Z"} {
		put(k, c.untrustedLeaf())
	}
	put("C", &Val{Kind: "b", B: c.rng.Intn(2) == 0})
	put("D", &Val{Kind: "b", B: c.rng.Intn(2) == 0})
	l := &Val{Kind: "l"}
	for i, n := 0, c.rng.Intn(4); i < n; i++ {
		l.L = append(l.L, c.untrustedLeaf())
	}
	put("L", l)
	inner := &Val{Kind: "m", M: map[string]*Val{"X": c.untrustedLeaf()}, Keys: []string{"X"}}
	put("M", inner)
	n1 := &Val{Kind: "m", Keys: []string{"N", "X"}, M: map[string]*Val{"N": {Kind: "n"}, "X": c.untrustedLeaf()}}
	if c.rng.Intn(2) == 0 {
		n1 = &Val{Kind: "m", Keys: []string{"N", "X"}, M: map[string]*Val{"N": n1, "X": c.untrustedLeaf()}}
	}
	put("N", n1)
	return m
}

// lexical variants the property names explicitly
var c01Special = []string{
	"<script>var a = 1;</script>", "<SCRIPT>x</SCRIPT >", "<style>p{}</STYLE\f>", "<textarea>a</textarea\t>", "<title>t</title\n>",
	"<script>if (a</script b) {}</script>", "<textarea></textareax></textarea>", "<script>\"<!--\"</script>", "<script>\"<!--<script>\"</script>",
	"<title>{{.X}}</title>", "<textarea>{{.X}}</textarea>", "<p title=a\fid=b>", "<p\ftitle='x'>", "<p/title=\"x\">", "<br/>", "<p title = 'x' >",
	"<!-- c -->", "<!---->", "<!-->", "<!--->", "<!-- a -- b -->", "<!--x--!>", "<!DOCTYPE html>", "<!doctype HTML>", "x<", "x</", "x<!", "x<!-",
	"<p {{if .C}}title{{else}}lang{{end}}=\"{{.X}}\">", "<{{if .C}}b{{else}}i{{end}}>{{.X}}</b>", "<a href=\"/p{{if .C}}?a={{.X}}{{end}}\">",
	"<s{{if .C}}{{end}}pan>{{.X}}</span>", "<iframe><b title=\"</iframe>\"></iframe>", "<xmp>{{.X}}</xmp>", "<?php x ?>", "<!x>", "</ x>", "<![CDATA[x]]>",
	"<p title=\"a &lt; b\">", "&amp;{{.X}}", "<p\ttitle\n=\r\"{{.X}}\"\f>", "<img src=\"/a.png\" alt=\"{{.X}}\"/>", "<p title='{{.X}}' lang=\"{{.Y}}\">",
	"{{range .L}}<li>{{.}}</li>{{end}}", "{{with .M}}<i title=\"{{.X}}\">{{.X}}</i>{{end}}", "{{template \"h0\" .}}", "<b>{{template \"h1\" .}}</b>",
	"<!-- off: {{template \"h0\" .}} -->", "<p><!--{{template \"h1\" .}}--></p>", "<!-- {{.X}} {{template \"h2\" .}}-->",
	// {{break}} / {{continue}} leave a loop in the context of the break point, not of the end of the body
	"{{range .L}}<li title=\"{{.}}{{if .}}{{break}}{{end}}\">x</li>{{end}}{{.X}}", "{{range .L}}<li {{if .}}{{break}}{{end}}class=\"c\">{{end}}{{.X}}",
	"<ul>{{range .L}}<li {{if .}}{{break}}{{end}}>a</li>{{range .L}}b{{end}}{{end}}{{.X}}</ul>", "{{range .L}}<b>{{if .}}{{continue}}{{end}}</b><i {{end}}{{.X}}>",
	"{{range .L}}<script>{{if .}}{{break}}{{end}}</script>{{end}}<p>{{.X}}</p>", "{{range .L}}<!--{{if .}}{{break}}{{end}}-->{{end}}{{.X}}",
	// a loop body that ends in the context it started in but chooses different elements / prefixes per iteration
	"<img {{range .L}}title=\"{{.}}\"{{if $.C}}><textarea {{else}}><img {{end}}{{end}}>", "{{range .L}}{{.}}<textarea>{{else}}<textarea>{{end}}</textarea>",
	// characters that Unicode calls white space but an HTML tokenizer does not
	"<a title=\u3000\"{{.X}}\">", "<a\u3000title=\"{{.X}}\">", "<a title=\x0b\"{{.X}}\">", "<p title=\u00a0'{{.X}}'>", "<p title\u2028=\"{{.X}}\">", "<p\x0btitle=\"{{.X}}\">x</p>",
	"<p title=\x85\"{{.X}}\">", "<a title=\u3000{{.X}}>",
}

// recursive and mutually recursive templates that leave a tag or an attribute open
var c01Recursive = []string{
	"{{define \"A\"}}{{if .N}}{{template \"B\" .N}}{{.X}}>{{end}}<b {{end}}{{define \"B\"}}{{template \"A\" .}}{{end}}{{template \"A\" .}}>done",
	"{{define \"A\"}}{{if .N}}{{template \"A\" .N}}{{end}}{{.X}}<b {{end}}{{template \"A\" .}}>",
	"{{define \"A\"}}{{if .N}}{{template \"A\" .N}}{{.X}}>{{end}}<b {{end}}{{template \"A\" .}}>done",
	"{{define \"A\"}}{{if .N}}{{template \"B\" .N}}{{.X}}\">{{end}}<b title=\"{{end}}{{define \"B\"}}{{template \"A\" .}}{{end}}{{template \"A\" .}}\">done",
	"{{define \"A\"}}{{if .N}}<i>{{template \"A\" .N}}</i>{{end}}{{.X}}{{end}}<p>{{template \"A\" .}}</p>",
	"{{define \"A\"}}{{.X}}{{if .N}}{{template \"B\" .N}}{{end}}{{end}}{{define \"B\"}}<b title=\"{{template \"A\" .}}\">{{end}}<p title='{{template \"A\" .}}'>",
}

func (c *Ctx) c01Text() string {
	var b strings.Builder
	if c.rng.Intn(10) == 0 {
		return pick(c, c01Recursive)
	}
	if c.rng.Intn(8) == 0 {
		// special-element bodies whose static text changes its byte length under case mapping (U+023A, U+023E grow, U+0130, U+212A,
		// U+1E9E shrink, invalid UTF-8 becomes U+FFFD), followed by markup in which an action is only acceptable at some offsets
		el := pick(c, []string{"script", "style", "title", "textarea", "SCRIPT", "Title"})
		ch := pick(c, []string{"\u023a", "\u023e", "\xff", "\u0130", "\u212a", "\u1e9e", "\u017f", "\xc3", "\u00e9", "\xe2\x80"})
		body := pick(c, []string{"", "var a = 1;", "x</", "<"}) + strings.Repeat(ch, 1+c.rng.Intn(16)) + pick(c, []string{"", "y", "</b>", "<!--"})
		tail := pick(c, []string{"<a {{.X}}>x</a>", "<{{.X}}>", "<a title={{.X}}>x</a>", "<p>{{.X}}</p>", "<a href=\"{{.X}}\">l</a>", "<b title=\"{{.X}}\">", "{{.X}}", "<a {{.X}}=\"1\">"})
		return "<" + el + ">" + body + "</" + el + pick(c, []string{"", " ", "\n"}) + ">" + tail
	}
	for i, n := 0, 1+c.rng.Intn(4); i < n; i++ {
		if c.rng.Intn(2) == 0 {
			b.WriteString(pick(c, c01Special))
		} else {
			b.WriteString(c.body(1))
		}
	}
	for i := 0; i < 3; i++ {
		if c.rng.Intn(3) != 0 {
			b.WriteString(fmt.Sprintf("{{define \"h%d\"}}%s{{end}}", i, pick(c, helperBodies)))
		}
	}
	return b.String()
}

func containsSpecial(s string) bool { return strings.ContainsAny(s, "<>\"'&= \t\n\f\r\x00") }

func valHasSpecial(v *Val) bool {
	switch v.Kind {
	case "s":
		return containsSpecial(v.S)
	case "p":
		return valHasSpecial(v.P)
	case "l":
		for _, x := range v.L {
			if valHasSpecial(x) {
				return true
			}
		}
	case "m":
		for _, x := range v.M {
			if valHasSpecial(x) {
				return true
			}
		}
	}
	return false
}

func genC01(c *Ctx) {
	c.stats.Rule = "fresh set, Parse(template text from an HTML/template grammar: tag/attr case, all five whitespace bytes, '/' in tags, quoted/unquoted/valueless attributes, upper-case special end tags with each separator, text ending in '<' '</' '<!' '<!-', comments of all abrupt forms, RCDATA/script/style bodies with near-miss end tags, actions under if/else/range/with/template/define), Execute(untrusted data: hostile byte strings incl. invalid UTF-8, NUL, quotes, angle brackets, whitespace, partial entities, '-->', '</script'; typed values only with benign contents). Real output re-tokenized by the spec tokenizer and compared with the same template rendered by plain text/template with inert values. Non-trivial: the template was accepted and the data contains at least one HTML special."
	for i := 0; i < c.n(1200, 40000); i++ {
		text := c.c01Text()
		data := c.untrustedData()
		hb := newHistBuilder()
		hb.add(Step{Op: "new", H: 0, Name: "root"})
		if hb.add(Step{Op: "parse", H: 0, Text: text}) == "" {
			c.stats.Classes["unparsable"]++
			continue
		}
		cls := ""
		if c.rng.Intn(6) == 0 {
			// an earlier, refused execution of a partial that shares helpers with the template must leave no trace
			hb2 := newHistBuilder()
			hb2.add(Step{Op: "new", H: 0, Name: "root"})
			pp := pick(c, [][2]string{
				{"{{template \"h0\" .}}<div class=\"", "{{template \"h0\" .}}"},
				{"{{template \"h1\" .}}{{template \"h0\" .}}<a href=\"/x", "{{template \"h0\" .}}{{template \"h1\" .}}"},
				{"<p>{{template \"h0\" .}}</p><!-- ", "<p>{{template \"h0\" .}}</p>"},
				{"{{template \"h2\" .}}<textarea>", "{{template \"h2\" .}}"},
				{"<b>{{template \"h0\" .}}</b><script>", "<b>{{template \"h0\" .}}</b>"},
				{"<p title=\"{{template \"h0\" .}}\"><style>", "<p title=\"{{template \"h0\" .}}\">x</p>"},
			})
			partial := pp[0]
			// the template itself calls the same helper in the same context as the refused partial, and the helper prints data
			text2 := pp[1] + text
			for _, hn := range []string{"h0", "h1", "h2"} {
				if !strings.Contains(text2, "{{define \""+hn+"\"}}") {
					text2 += "{{define \"" + hn + "\"}}" + pick(c, []string{"{{.X}}", "<i>{{.Y}}</i>", "{{.X}}{{.Z}}"}) + "{{end}}"
				}
			}
			if hb2.add(Step{Op: "parse", H: 0, Text: text2 + "{{define \"zpartial\"}}" + partial + "{{end}}"}) != "" {
				hb2.add(Step{Op: "exect", H: 0, Name: "zpartial", Data: data})
				hb = hb2
				cls = "after-refused-partial-"
			}
		}
		hb.add(Step{Op: "exec", H: 0, Data: data})
		r := realC01(hb.hist())
		c.emit("tmpl.c01", []string{hb.hist()}, r, strings.HasPrefix(r, "ok") && valHasSpecial(data), cls+splitLast(r))
	}
}

// ---------------------------------------------------------------- C02

const mk = "zQ7"

var dangerous = []string{
	"javascript:alert(1)//" + mk, "JaVaScRiPt:alert(1)//" + mk, "java\tscript:alert(1)//" + mk, " javascript:alert(1)//" + mk, "\x01javascript:alert(1)//" + mk,
	"javascript&colon;alert(1)//" + mk, "javascript&#58;alert(1)//" + mk, "jav&#x09;ascript:alert(1)//" + mk, "vbscript:x//" + mk, "data:text/html,<script>alert(1)</script>" + mk,
	"alert(1)//" + mk, "</script><script>alert(1)//" + mk, "x\" onmouseover=\"alert(1)//" + mk, "color:red;" + mk, "expression(alert(1))" + mk, "-->" + mk, mk,
	"https://evil.example/x.js?" + mk, "//evil.example/x.js?" + mk, "/ok/" + mk, "a.png 1x, javascript:alert(1)//" + mk + " 2x", "x," + mk,
	"/a.png\f,javascript:alert(1)//" + mk, "/a.png\f1x,javascript:alert(1)//" + mk, "/a.png\t,javascript:alert(1)//" + mk, "/a.png\r2x,\njavascript:alert(1)//" + mk,
}

// strings for code-loading URL attributes: marker FIRST, so that its position is where the data starts
var originData = []string{mk + "https://evil.example/x.js", mk + "//evil.example/x.js", mk + "/x.js", mk, mk + ".evil.example/x.js", mk + "@evil.example/x.js"}

var splitPairs = [][2]string{{"java", "script:alert(1)//" + mk}, {"javascript", ":alert(1)//" + mk}, {"j", "avascript:alert(1)//" + mk}, {"javascript:", "alert(1)//" + mk}, {"JAVA", "SCRIPT:alert(1)//" + mk}}

var urlTargets = [][2]string{{"a", "href"}, {"area", "href"}, {"img", "src"}, {"form", "action"}, {"button", "formaction"}, {"input", "formaction"}, {"video", "src"}, {"audio", "src"},
	{"source", "src"}, {"input", "src"}, {"img", "srcset"}, {"source", "srcset"}, {"q", "cite"}, {"video", "poster"}, {"link", "href"}, {"a", "HREF"}, {"IMG", "SRC"}}
var codeTargets = [][2]string{{"script", "src"}, {"iframe", "src"}, {"frame", "src"}, {"embed", "src"}, {"object", "data"}, {"base", "href"}, {"link", "href"}, {"SCRIPT", "SRC"}}
var relForLink = []string{"stylesheet", "STYLESHEET", "alternate stylesheet", "stylesheet alternate", "icon", "icon stylesheet", "alternate\tstylesheet", "style&#115;heet", "stylesheet\fx", "", "preload", "next"}
var c02Prefixes = []string{"", "", "", "/", "/p/", "/p?q=", "#", "https://ok.example/", "//ok.example/", "https://", "https://ok.example", "http:", "java", "javascript:", "&#106;ava", "j&#x41;va", "data:", "/a&amp;b=", "x:"}

func (c *Ctx) c02Text() (string, string) {
	q := pick(c, []string{"\"", "\"", "'"})
	switch c.rng.Intn(19) {
	case 17, 18: // the same static prefix text first in a plain-URL attribute and then at the start of a code-loading URL (or the reverse), in one
		// template, through a called template, or in a range / if body: what a prefix admits depends on the attribute, not on its text
		u := pick(c, urlTargets[:10])
		t := pick(c, codeTargets)
		rel := ""
		if strings.ToLower(t[0]) == "link" {
			rel = " rel=\"" + pick(c, relForLink) + "\""
		}
		closing := ""
		if strings.ToLower(t[0]) == "script" {
			closing = "</script>"
		}
		pre := pick(c, []string{"https://", "//", "http://h/", "?q=", "dir/", "https://ok.example", "HTTPS://", "https:", "/", "x", "mailto:", "https://ok.example/", "/static/", "#", "data:"})
		first := "<" + u[0] + " " + u[1] + "=" + q + pre + "{{.O}}" + q + ">"
		second := "<" + t[0] + rel + " " + t[1] + "=" + q + pre + "{{.O}}" + q + ">" + closing
		if c.rng.Intn(4) == 0 {
			first, second = second, first
		}
		switch c.rng.Intn(4) {
		case 0:
			return "{{template \"first\" .}}" + second + "{{define \"first\"}}" + first + "{{end}}", "cross-context-prefix"
		case 1:
			return "{{range .P}}" + strings.Replace(first, "{{.O}}", "{{$.O}}", 1) + "{{end}}" + second, "cross-context-prefix"
		case 2:
			return "{{if .C}}" + first + "{{end}}" + second, "cross-context-prefix"
		}
		return first + second, "cross-context-prefix"
	case 14: // ambiguous static prefixes: nested branches, and the same prefix seen unambiguously earlier in the set
		t := pick(c, urlTargets[:10])
		st := pick(c, []string{"java", "JAVA", "j", "javascript", "javascript:"})
		form := pick(c, []string{
			"{{if .C}}/x{{else}}{{if .D}}/x{{else}}" + st + "{{end}}{{end}}{{.B}}",
			"{{if .C}}/x{{else}}" + st + "{{end}}{{.B}}",
			"{{if .C}}{{if .D}}" + st + "{{else}}/x{{end}}{{else}}/x{{end}}{{.B}}",
			"{{if .C}}" + st + "{{end}}{{.B}}",
			"{{if .C}}{{else}}" + st + "{{end}}{{.B}}",
			"{{if .C}}{{else}}{{if .D}}{{else}}" + st + "{{end}}{{end}}{{.B}}",
			"{{with .Z}}{{else}}" + st + "{{end}}{{.B}}",
		})
		return "<" + t[0] + " " + t[1] + "=" + q + form + q + ">", "ambig-prefix"
	case 16: // break / continue; loop re-entry with different element names, prefixes or contexts
		return pick(c, []string{
			"{{range .P}}<script>{{if .}}{{break}}{{end}}</script>{{end}}<p>{{.X}}</p>",
			"{{range .P}}<p title=\"a{{if .}}{{break}}{{end}}\">{{end}}{{.X}}\"",
			"{{range .P}}<a href=\"/x{{if .}}{{continue}}{{end}}\">l</a><script>{{end}}{{.X}}</script>",
			"<img {{range .P}}src=\"{{$.O}}\"{{if $.C}}><script {{else}}><img {{end}}{{end}}>",
			"<a href=\"{{range .P}}{{.}}javascript:{{end}}\">go</a>",
			"{{range .P}}{{$.X}}<script>{{else}}<script>{{end}}</script>",
			"{{range .P}}{{$.X}}<style>{{else}}<style>{{end}}</style>",
			"<img {{range .P}}><script {{if $.C}}{{break}}{{end}}async=\"async\"></script><img {{end}}src=\"{{.O}}\">",
		}), "loops"
	case 15:
		t := pick(c, urlTargets[:10])
		pre := pick(c, []string{"https://ok.example/", "/p/", "/p?q=", "//ok.example/"})
		return "<" + t[0] + " " + t[1] + "=" + q + pre + "{{.O}}" + q + "><" + t[0] + " " + t[1] + "=" + q + "{{if .C}}" + pre + "{{end}}{{.X}}" + q + ">", "ambig-after-same-prefix"
	case 0, 1, 2: // URL attribute, one action
		t := pick(c, urlTargets)
		rel := ""
		if strings.ToLower(t[0]) == "link" {
			rel = " rel=\"" + pick(c, relForLink) + "\""
		}
		return "<" + t[0] + rel + " " + t[1] + "=" + q + pick(c, c02Prefixes) + "{{.X}}" + q + ">", "url1"
	case 3, 4: // split over adjacent actions / branches / range
		t := pick(c, urlTargets)
		form := pick(c, []string{"{{.B | html .A}}", "{{.A | html .B}}", "{{.B | urlquery .A}}", "{{html .A .B}}", "{{.A}}{{.B}}", "{{.A}}{{if .C}}{{.B}}{{end}}", "{{range .P}}{{.}}{{end}}", "{{.A}}{{template \"hb\" .}}", "{{template \"ha\" .}}{{.B}}", "{{with .M}}{{.V}}{{end}}{{.B}}"})
		return "<" + t[0] + " " + t[1] + "=" + q + pick(c, []string{"", "", "/x?"}) + form + q + ">{{define \"ha\"}}{{.A}}{{end}}{{define \"hb\"}}{{.B}}{{end}}", "split"
	case 5, 6: // code-loading URL: data at the origin-determining start
		t := pick(c, codeTargets)
		rel := ""
		if strings.ToLower(t[0]) == "link" {
			rel = " rel=\"" + pick(c, relForLink) + "\""
		}
		closing := ""
		if strings.ToLower(t[0]) == "script" {
			closing = "</script>"
		}
		return "<" + t[0] + rel + " " + t[1] + "=" + q + pick(c, []string{"", "", "https://", "//", "https://ok.example", "https://ok.example/", "/static/", "{{.O}}"}) + "{{.O}}" + q + ">" + closing, "code-url"
	case 7: // element bodies
		return pick(c, []string{"<script>{{.X}}</script>", "<script>var a = \"{{.X}}\";</script>", "<style>{{.X}}</style>", "<style>p { color: {{.X}} }</style>", "<SCRIPT>{{.X}}</SCRIPT>",
			"<script type=\"text/plain\">{{.X}}</script>", "<svg><script>{{.X}}</script></svg>"}), "body"
	case 8: // handlers, style, srcdoc
		return "<p " + pick(c, []string{"onclick", "ONCLICK", "onmouseover", "style", "STYLE", "srcdoc", "onfoo", "on"}) + "=" + q + pick(c, []string{"", "f(", "color:"}) + "{{.X}}" + q + ">", "attr-code"
	case 9: // comments
		return pick(c, []string{"<!-- {{.X}} -->", "<!--{{.X}}-->", "<!-- a -->{{.X}}", "<p><!-- {{.X}}", "<!--[if IE]>{{.X}}<![endif]-->",
			"<?xml version=\"1.0\" encoding=\"{{.X}}\"?>", "<?php {{.X}} ?>", "<!x {{.X}}>", "</ {{.X}}>", "<![CDATA[{{.X}}]]>", "<!DOCTYPE html {{.X}}>", "{{range .P}}<?xml {{.}}?>{{end}}"}), "comment"
	case 10: // helper shared between two sites
		return "<a href=\"{{template \"u\" .}}\">a</a><a href=\"/x?q={{template \"u\" .}}\">b</a><p title=\"{{template \"u\" .}}\">{{define \"u\"}}{{.X}}{{end}}", "shared-helper"
	case 11: // context-changing helper
		return "{{define \"open\"}}" + pick(c, []string{"<script>", "<a href=\"", "<p title=\"", "<style>", "<!--"}) + "{{end}}{{template \"open\" .}}" + pick(c, []string{"</script>", "\">", "-->", "</style>"}) + "{{template \"open\" .}}{{.X}}" + pick(c, []string{"</script>", "\">", "-->", "</style>"}), "ctx-helper"
	case 12: // conditional element / attribute names
		return pick(c, []string{"{{if .C}}<script{{else}}<br{{end}}>{{.X}}</script>", "{{if .C}}<script{{else}}<b{{end}}>{{.X}}</script>", "<p {{if .C}}onclick{{else}}title{{end}}=\"{{.X}}\">",
			"{{if .C}}{{if .D}}<script{{else}}<img{{end}}{{else}}<video{{end}} src=\"{{.O}}\">", "<{{if .C}}iframe{{else}}img{{end}} src=\"{{.O}}\">", "<link rel=\"stylesheet\" rel=\"icon\" href=\"{{.O}}\">",
			"<link rel=\"{{if .C}}stylesheet{{else}}icon{{end}}\" href=\"{{.O}}\">", "<link rel=\"{{.R}}icon\" href=\"{{.O}}\">", "<link href=\"{{.O}}\" rel=\"stylesheet\">"}), "conditional-names"
	default: // recursion building a URL
		return "{{define \"t\"}}{{if .Tail}}{{template \"t\" .Tail}}{{end}}{{.Head}}\" title=\"{{end}}<a href=\"{{template \"t\" .}}\">", "recursion"
	}
}

func (c *Ctx) c02Data() *Val {
	m := &Val{Kind: "m", M: map[string]*Val{}}
	put := func(k string, v *Val) { m.Keys = append(m.Keys, k); m.M[k] = v }
	s := func(x string) *Val {
		// sometimes a value of numeric / bool kind whose String() or Error() gives the text, or a pointer to one
		if x != "" {
			switch c.rng.Intn(12) {
			case 0:
				return &Val{Kind: "g", S: x}
			case 1:
				return &Val{Kind: "p", P: &Val{Kind: "g", S: x}}
			}
		}
		return &Val{Kind: "s", S: x}
	}
	put("X", s(pick(c, dangerous)))
	sp := pick(c, splitPairs)
	put("A", s(sp[0]))
	put("B", s(sp[1]))
	put("O", s(pick(c, originData)))
	put("R", s(pick(c, []string{"stylesheet ", "x ", "", "stylesheet", "alternate "})))
	put("C", &Val{Kind: "b", B: c.rng.Intn(2) == 0})
	put("D", &Val{Kind: "b", B: c.rng.Intn(2) == 0})
	put("P", &Val{Kind: "l", L: []*Val{s(sp[0]), s(sp[1])}})
	put("M", &Val{Kind: "m", Keys: []string{"V"}, M: map[string]*Val{"V": s(sp[0])}})
	put("Head", s("javascript:alert(1)//"+mk))
	put("Tail", &Val{Kind: "m", Keys: []string{"Head", "Tail"}, M: map[string]*Val{"Head": s("x"), "Tail": {Kind: "n"}}})
	return m
}

func genC02(c *Ctx) {
	c.stats.Rule = "fresh set, Parse, Execute with data in which EVERY untrusted string carries the marker zQ7: URL-class (element, attribute) pairs × quoting × static prefix class × one action; dangerous strings split over adjacent actions, branches, range iterations and called templates; code-loading URL attributes (script/iframe/frame/embed src, object data, base href, link href × rel spellings) with the marker first; script/style bodies, event-handler/style/srcdoc attributes, comments; a helper shared between two call sites; context-changing helpers; conditional element/attribute names; recursive URL building. Oracle: where the marker lands according to the spec tokenizer; WHATWG scheme of every decoded URL attribute / srcset candidate containing it. Non-trivial: accepted template."
	for i := 0; i < c.n(2500, 60000); i++ {
		text, class := c.c02Text()
		hb := newHistBuilder()
		hb.add(Step{Op: "new", H: 0, Name: "root"})
		if hb.add(Step{Op: "parse", H: 0, Text: text}) == "" {
			c.stats.Classes["unparsable"]++
			continue
		}
		r := hb.add(Step{Op: "exec", H: 0, Data: c.c02Data()})
		c.emit("tmpl.c02", []string{hb.hist()}, r, strings.HasPrefix(r, "ok"), class+"-"+splitLast(r))
	}
}

// ---------------------------------------------------------------- C03

var c03Contents = []string{"", "x", "a&b", "a&amp;b", "\xff\" onmouseover=\"alert(1)\" x=\"yy", "a\xc3'><script>alert(1)</script>zzzz", "<b>x</b>", "\"><script>alert(1)</script>", "' onmouseover='alert(1)", "\" onmouseover=\"alert(1)", "</textarea><script>alert(1)</script>",
	"</script>", "javascript:alert(1)", "https://x.example/a?b=c&d=e", "color:red;", "p{color:red}", "id1", "a b", "\x00", "\xff", "é", "&#34;", "&quot;x", "x\ny", "ltr", "async", "{{.}}", "`", "="}

var c03Contexts = [][2]string{{"div", ""}, {"p", ""}, {"textarea", ""}, {"title", ""}, {"script", ""}, {"style", ""}, {"b", ""},
	{"div", "title"}, {"a", "href"}, {"img", "src"}, {"form", "action"}, {"script", "src"}, {"iframe", "src"}, {"img", "srcset"}, {"p", "style"}, {"iframe", "srcdoc"}, {"p", "id"},
	{"p", "dir"}, {"a", "target"}, {"img", "loading"}, {"script", "async"}, {"p", "data-x"}, {"label", "for"}, {"input", "value"}, {"p", "class"}, {"link", "href"}, {"input", "formaction"}}

var c03Warm = []string{
	`<i title="{{.}}">x</i>`, `<img alt="{{.}}" title="{{.}}">`, `<a href="{{.}}">l</a>`, `<p>{{.}}</p>`,
	`<b data-x="{{.}}" title='{{.}}' lang="{{.}}">y</b>`, `<textarea>{{.}}</textarea>`, `<img srcset="{{.}}">`,
}

func genC03(c *Ctx) {
	c.stats.Rule = "matrix: 7 safe types (+ pointer, pointer to pointer) × contexts (element contents incl. RCDATA/script/style; one (element, attribute) per sanitization context, with and without static prefix, single and double quotes) × hostile contents; every cell executed twice: with the typed value and with the plain string of the same contents. Exhaustive over the matrix in both tiers (contents list longer in thorough). Non-trivial: the typed execution was accepted."
	wrap := func(v *Val, depth int) *Val {
		for i := 0; i < depth; i++ {
			v = &Val{Kind: "p", P: v}
		}
		return v
	}
	contents := c03Contents
	if !c.thorough {
		contents = contents[:16]
	}
	for _, ctx := range c03Contexts {
		forms := []string{"content"}
		prefixes := []string{""}
		if ctx[1] == "" && (ctx[0] == "script" || ctx[0] == "style" || ctx[0] == "textarea" || ctx[0] == "title") {
			// the action AFTER the end tag of a special element, the end tag written with every separator before '>'
			forms = []string{"content", "after"}
		}
		if ctx[1] == "" && ctx[0] == "script" {
			// script elements with a type attribute (data blocks, modules): still script content
			forms = append(forms, "script-type")
		}
		if ctx[1] == "" && ctx[0] == "p" {
			// an action after a loop that was left by {{break}} inside a quoted attribute value
			forms = append(forms, "after-break")
		}
		if ctx[1] != "" {
			forms = []string{"dq", "sq"}
			prefixes = []string{"", "/p/", "/p?q=", "https://x.example/"}
		}
		for _, form := range forms {
			if form == "script-type" {
				prefixes = []string{"text/plain", "application/json", "text/template", "module", "importmap", "TEXT/HTML", ""}
			} else if form == "after-break" {
				prefixes = []string{"{{break}}", "{{continue}}"}
			} else if form == "after" {
				prefixes = []string{"", " ", "\t", "\n", "\f", "\r", "/", " \r ", "\r/"}
			} else if ctx[1] == "" {
				prefixes = []string{""}
			}
			for _, pre := range prefixes {
				if form == "after" || form == "script-type" || form == "after-break" {
				} else if pre != "" && !(ctx[1] == "href" || ctx[1] == "src" || ctx[1] == "action" || ctx[1] == "formaction") {
					continue
				}
				for _, tag := range safeTags {
					for _, cont := range contents {
						for depth := 0; depth < 3; depth++ {
							if depth > 0 && (c.rng.Intn(3) != 0 && !c.thorough) {
								continue
							}
							var text string
							switch form {
							case "script-type":
								text = "<script type=\"" + pre + "\">{{.}}</script>"
							case "after-break":
								// the value is printed after the loop; inside the loop it is only tested
								text = "<ul>{{range .L}}<li title=\"x{{if .}}" + pre + "{{end}}\">y</li>{{end}}</ul>{{.V}}"
							case "after":
								text = "<" + ctx[0] + ">x</" + ctx[0] + pre + ">{{.}}</" + ctx[0] + ">"
							case "content":
								text = "<" + ctx[0] + ">{{.}}</" + ctx[0] + ">"
							case "dq":
								text = "<" + ctx[0] + " " + ctx[1] + "=\"" + pre + "{{.}}\">"
							case "sq":
								text = "<" + ctx[0] + " " + ctx[1] + "='" + pre + "{{.}}'>"
							}
							typed := wrap(&Val{Kind: "t", Tag: tag, S: cont}, depth)
							plain := wrap(&Val{Kind: "s", S: cont}, depth)
							if form == "after-break" {
								loop := &Val{Kind: "l", L: []*Val{{Kind: "i", I: 1}, {Kind: "i", I: 0}}}
								typed = &Val{Kind: "m", Keys: []string{"L", "V"}, M: map[string]*Val{"L": loop, "V": typed}}
								plain = &Val{Kind: "m", Keys: []string{"L", "V"}, M: map[string]*Val{"L": loop, "V": plain}}
							}
							// process-wide state must not matter: analyse an unrelated template in an unrelated set
							// before some cells, and run the typed / plain executions in either order
							if c.rng.Intn(3) == 0 {
								hw := newHistBuilder()
								hw.add(Step{Op: "new", H: 0, Name: "warm"})
								hw.add(Step{Op: "parse", H: 0, Text: c03Warm[c.rng.Intn(len(c03Warm))]})
								hw.add(Step{Op: "exec", H: 0, Data: &Val{Kind: "s", S: "w"}})
							}
							// helper variant: the action lives in a helper that is executed on its own first and then called from
							// the context under test (the derived copy must not inherit the rewriting done for element content)
							helper := (form == "dq" || form == "sq" || form == "content") && c.rng.Intn(4) == 0
							runOne := func(hb *histBuilder, v *Val) string {
								hb.add(Step{Op: "new", H: 0, Name: "root"})
								if !helper {
									if hb.add(Step{Op: "parse", H: 0, Text: text}) == "" {
										return ""
									}
									return hb.add(Step{Op: "exec", H: 0, Data: v})
								}
								t2 := "{{define \"label\"}}{{.}}{{end}}{{define \"c\"}}" + strings.Replace(text, "{{.}}", "{{template \"label\" .}}", 1) + "{{end}}"
								if hb.add(Step{Op: "parse", H: 0, Text: t2}) == "" {
									return ""
								}
								hb.add(Step{Op: "exect", H: 0, Name: "label", Data: v})
								return hb.add(Step{Op: "exect", H: 0, Name: "c", Data: v})
							}
							plainFirst := c.rng.Intn(2) == 0
							var r2 string
							h2 := newHistBuilder()
							if plainFirst {
								r2 = runOne(h2, plain)
							}
							h1 := newHistBuilder()
							r1 := runOne(h1, typed)
							if r1 == "" {
								continue
							}
							if !plainFirst {
								r2 = runOne(h2, plain)
							}
							c.emit("tmpl.c03", []string{form, ctx[0], ctx[1], pre, tag, cont, h1.hist(), h2.hist()}, r1+"~"+r2, strings.HasPrefix(r1, "ok"), map[bool]string{true: "helper-", false: ""}[helper]+form+"-"+tag)
						}
					}
				}
			}
		}
	}
	c.stats.Exhaustive = true
	c.stats.ExhaustiveWhat = "7 safe types × pointer depth 0–2 × 27 contexts × quoting × URL prefix class × contents list"
}
