// racer: C09 driver. Built with -race. Runs scenarios in which several goroutines call Execute, ExecuteTemplate,
// ExecuteToHTML, Lookup, Templates, Name and DefinedTemplates on the templates of ONE set at the same time —
// first executions (contextual analysis and tree rewriting) included — and compares every call's result with
// sequential runs of the same call on freshly built identical sets.
//
//	racer ref <quick|thorough> <seed> <outdir>   (built WITHOUT -race) sequential references -> <outdir>/racer-ref.json
//	racer run <quick|thorough> <seed> <outdir>   (built WITH -race) concurrent runs, compared with the references
//
// stdout: one JSON line per finding  {"kind":"mismatch"|"panic", "scenario":n, ...}  and a final {"kind":"summary",…}
// stderr: "SCENARIO n <hex of the scenario description>" before each scenario, so that reports of the race detector
//
//	("WARNING: DATA RACE", printed by the runtime to stderr) can be attributed by the caller.
//
// Exit code: 0 (the caller decides); the race detector is configured by the caller with GORACE=halt_on_error=0.
package main

import (
	"encoding/hex"
	"encoding/json"
	"errors"
	"fmt"
	"math/rand"
	"os"
	"runtime"
	"sort"
	"strconv"
	"strings"
	"sync"
	texttemplate "text/template"
	"time"

	"github.com/google/safehtml/template"
	tconv "github.com/google/safehtml/template/uncheckedconversions"
)

// ---- scenario vocabulary -------------------------------------------------------------------------------

// helper bodies; hN may be called from text, attribute, URL, script and RCDATA positions
var helperBodies = []string{
	"{{.X}}", "<b>{{.Y}}</b>", "static", "a < b {{.X}}", "<!-- c -->{{.X}}", "{{.X}}{{.Y}}", "x{{if .C}}y{{end}}", "{{range .L}}{{.}},{{end}}",
	"{{with .M}}{{.X}}{{end}}", "{{template \"hNEXT\" .}}", "{{if .N}}{{template \"h0\" .N}}{{end}}{{.X}}", "if (a < b) { f(); }",
	// helpers whose analysis fails: every member that calls them fails with the memoized error
	"<i {{.X}}>", "{{template \"nope\" .}}", "<a href=x{{.X}}>",
}

// member bodies: fine ones in many contexts, and failing ones (analysis errors, missing templates, exec errors)
var memberBodies = []string{
	"<p>{{template \"h0\" .}}</p>", "<p title=\"{{template \"h0\" .}}\">x</p>", "<a href=\"{{template \"h1\" .}}\">l</a>",
	"<textarea>{{template \"h0\" .}}</textarea>", "<img alt='{{template \"h1\" .}}'>", "<b>{{template \"h0\" .}}</b>{{template \"h1\" .}}",
	"<ul>{{range .L}}<li>{{template \"h0\" $}}</li>{{end}}</ul>", "{{template \"h0\" .}}{{template \"h2\" .}}", "<p>{{.X}}</p>{{template \"mPREV\" .}}",
	"<script>{{template \"h0\" .}}</script>", "<a href=\"", "<div {{.X}}>", "{{template \"nope\" .}}", "<p>{{.X.Y.Z}}</p>", "<style>{{template \"h1\" .}}</style>",
	"<p title='{{template \"h2\" .}}'>{{template \"h2\" .}}</p>", "text only", "{{if .C}}<i>{{template \"h0\" .}}</i>{{else}}{{template \"h1\" .}}{{end}}",
}

type scenario struct {
	ID      int      `json:"id"`
	Text    string   `json:"text"`
	Members []string `json:"members"`
	Threads [][]call `json:"threads"`
	Procs   int      `json:"procs"`
	Data    int      `json:"data"`
}

type call struct {
	Op   string `json:"op"` // exec | exect | exechtml | execthtml | lookup | templates | name | defined
	Name string `json:"name"`
}

func pick(r *rand.Rand, l []string) string { return l[r.Intn(len(l))] }

func genScenario(r *rand.Rand, id int) scenario {
	var b strings.Builder
	b.WriteString("root {{template \"h0\" .}}")
	for i := 0; i < 3; i++ {
		body := pick(r, helperBodies)
		// a helper may call the next one only: unbounded recursion makes text/template descend 100000 frames
		if i < 2 {
			body = strings.ReplaceAll(body, "hNEXT", fmt.Sprintf("h%d", i+1))
		} else {
			body = strings.ReplaceAll(body, "{{template \"hNEXT\" .}}", "leaf")
		}
		fmt.Fprintf(&b, "{{define \"h%d\"}}%s{{end}}", i, body)
	}
	members := []string{"root", "h0", "h1", "h2"}
	nm := 2 + r.Intn(3)
	for i := 0; i < nm; i++ {
		mb := pick(r, memberBodies)
		if i > 0 {
			mb = strings.ReplaceAll(mb, "mPREV", fmt.Sprintf("m%d", i-1))
		} else {
			mb = strings.ReplaceAll(mb, "{{template \"mPREV\" .}}", "first")
		}
		fmt.Fprintf(&b, "{{define \"m%d\"}}%s{{end}}", i, mb)
		members = append(members, fmt.Sprintf("m%d", i))
	}
	sc := scenario{ID: id, Text: b.String(), Members: members, Procs: []int{1, 2, 4, 8, 16}[r.Intn(5)], Data: r.Intn(3)}
	if r.Intn(3) == 0 {
		sc.Data = 3 + r.Intn(8) // pointer-valued data, one of eight named element types
	}
	nt := 2 + r.Intn(7)
	for t := 0; t < nt; t++ {
		var calls []call
		for i, n := 0, 1+r.Intn(4); i < n; i++ {
			switch k := r.Intn(12); {
			case k < 5:
				calls = append(calls, call{pick(r, []string{"exect", "exect", "execthtml"}), pick(r, members)})
			case k < 7:
				calls = append(calls, call{pick(r, []string{"exec", "exechtml"}), pick(r, members)}) // via Lookup(name).Execute
			case k < 8:
				calls = append(calls, call{"lookup", pick(r, append(members, "nope"))})
			case k < 9:
				calls = append(calls, call{"templates", ""})
			case k < 10:
				calls = append(calls, call{"name", pick(r, members)})
			default:
				calls = append(calls, call{"defined", ""})
			}
		}
		sc.Threads = append(sc.Threads, calls)
	}
	return sc
}

// named string types reached through pointers: printing them dereferences (safehtmlutil.Stringify), which must
// not touch shared state either
type (
	rs0 string
	rs1 string
	rs2 string
	rs3 string
	rs4 string
	rs5 string
	rs6 string
	rs7 string
)

func ptr[T any](v T) *T { return &v }

func namedPtr(k int, s string) interface{} {
	switch k % 8 {
	case 0:
		return ptr(rs0(s))
	case 1:
		return ptr(ptr(rs1(s)))
	case 2:
		return ptr(rs2(s))
	case 3:
		return ptr(ptr(ptr(rs3(s))))
	case 4:
		return ptr(rs4(s))
	case 5:
		return ptr(ptr(rs5(s)))
	case 6:
		return ptr(rs6(s))
	}
	return ptr(rs7(s))
}

func dataFor(k int) interface{} {
	if k >= 3 {
		inner := map[string]interface{}{"X": namedPtr(k+1, "<i>&"), "N": nil}
		return map[string]interface{}{"X": namedPtr(k, "a<b\"'&"), "Y": ptr("y>"), "C": ptr(true), "L": []interface{}{ptr(1), namedPtr(k+2, "<2>")},
			"M": map[string]interface{}{"X": namedPtr(k+3, "m&")}, "N": inner}
	}
	inner := map[string]interface{}{"X": "<i>&", "N": nil}
	m := map[string]interface{}{"X": "a<b\"'&", "Y": "y>", "C": k != 1, "L": []interface{}{"1", "<2>"}, "M": map[string]interface{}{"X": "m&"}, "N": inner}
	if k == 2 {
		m["L"] = []interface{}{}
		m["N"] = nil
	}
	return m
}

// ---- running calls on the real package -------------------------------------------------------------------

func classify(err error) string {
	_ = err.Error() // callers log errors: formatting reads every field of the error value
	var te *template.Error
	if errors.As(err, &te) {
		return fmt.Sprintf("analysis:%d", te.ErrorCode)
	}
	var ee texttemplate.ExecError
	if errors.As(err, &ee) {
		return "exec"
	}
	msg := err.Error()
	switch {
	case strings.Contains(msg, "is undefined"):
		return "undefined"
	case strings.Contains(msg, "incomplete"):
		return "incomplete"
	}
	return "other"
}

func build(sc *scenario) (*template.Template, error) {
	return template.New("root").ParseFromTrustedTemplate(tconv.TrustedTemplateFromStringKnownToSatisfyTypeContract(sc.Text))
}

// preResolved, when set, maps member names to handles obtained by Lookup BEFORE the concurrent phase (the set is fully
// constructed then): Execute on such a handle involves no Lookup, hence none of the mutex synchronisation that a Lookup
// made inside the goroutine would add by accident.
func doCall(root *template.Template, c call, data interface{}) (res string) {
	return doCallPre(root, nil, c, data)
}

func doCallPre(root *template.Template, pre map[string]*template.Template, c call, data interface{}) (res string) {
	defer func() {
		if p := recover(); p != nil {
			res = "panic:" + fmt.Sprint(p)
		}
	}()
	fin := func(out string, err error) string {
		if err != nil {
			// partial output of a failed execution is not part of the contract
			return "err:" + classify(err)
		}
		return "ok:" + out
	}
	switch c.Op {
	case "exect":
		var b strings.Builder
		err := root.ExecuteTemplate(&b, c.Name, data)
		return fin(b.String(), err)
	case "execthtml":
		h, err := root.ExecuteTemplateToHTML(c.Name, data)
		return fin(h.String(), err)
	case "exec", "exechtml":
		t, ok := pre[c.Name]
		if !ok {
			t = root.Lookup(c.Name)
		}
		if t == nil {
			return "nil"
		}
		if c.Op == "exec" {
			var b strings.Builder
			err := t.Execute(&b, data)
			return fin(b.String(), err)
		}
		h, err := t.ExecuteToHTML(data)
		return fin(h.String(), err)
	case "lookup":
		t := root.Lookup(c.Name)
		if t == nil {
			return "nil"
		}
		return "tmpl:" + t.Name()
	case "templates":
		var names []string
		for _, t := range root.Templates() {
			names = append(names, t.Name())
		}
		sort.Strings(names)
		return "set:" + strings.Join(names, ",")
	case "name":
		t := root.Lookup(c.Name)
		if t == nil {
			return "nil"
		}
		return "name:" + t.Name()
	case "defined":
		s := root.DefinedTemplates()
		s = strings.TrimPrefix(s, "; defined templates are: ")
		names := strings.Split(s, ", ")
		sort.Strings(names)
		return "defined:" + strings.Join(names, ",")
	}
	return "bad-op"
}

type finding struct {
	Kind     string   `json:"kind"`
	Scenario int      `json:"scenario"`
	Desc     string   `json:"desc,omitempty"`
	Thread   int      `json:"thread,omitempty"`
	Index    int      `json:"index,omitempty"`
	Call     *call    `json:"call,omitempty"`
	Got      string   `json:"got,omitempty"`
	Allowed  []string `json:"allowed,omitempty"`
}

type refs struct {
	Allowed []map[string][]string `json:"allowed"` // per scenario: "thread/index" -> allowed results
	Derived [][]string            `json:"derived"` // per scenario: every name DefinedTemplates ever listed
}

func key(t, i int) string { return fmt.Sprintf("%d/%d", t, i) }

func definedNames(res string) []string {
	s := strings.TrimPrefix(res, "defined:")
	if s == "" {
		return nil
	}
	return strings.Split(s, ",")
}

// computeRefs: sequential references (run WITHOUT the race detector: it is 10x faster).
// Every call alone on a fresh set, and all calls in several random sequential orders that respect thread order.
func computeRefs(scs []scenario, seed int64) refs {
	r := rand.New(rand.NewSource(seed + 7919))
	var out refs
	for i := range scs {
		sc := &scs[i]
		allowed := map[string]map[string]bool{}
		derived := map[string]bool{}
		add := func(k, v string) {
			if allowed[k] == nil {
				allowed[k] = map[string]bool{}
			}
			allowed[k][v] = true
			if strings.HasPrefix(v, "defined:") {
				for _, n := range definedNames(v) {
					derived[n] = true
				}
			}
		}
		if _, err := build(sc); err == nil {
			data := dataFor(sc.Data)
			for t, calls := range sc.Threads {
				for i, c := range calls {
					root, _ := build(sc)
					add(key(t, i), doCall(root, c, data))
				}
			}
			for o := 0; o < 16; o++ {
				root, _ := build(sc)
				pos := make([]int, len(sc.Threads))
				for {
					var live []int
					for t := range sc.Threads {
						if pos[t] < len(sc.Threads[t]) {
							live = append(live, t)
						}
					}
					if len(live) == 0 {
						break
					}
					t := live[r.Intn(len(live))]
					add(key(t, pos[t]), doCall(root, sc.Threads[t][pos[t]], data))
					pos[t]++
				}
				// every derived template this order produced
				add("final", doCall(root, call{"defined", ""}, data))
			}
			// all members executed: the largest set of derived templates
			root, _ := build(sc)
			for _, m := range sc.Members {
				doCall(root, call{"exect", m}, data)
			}
			add("final", doCall(root, call{"defined", ""}, data))
		}
		am := map[string][]string{}
		for k, vs := range allowed {
			for v := range vs {
				am[k] = append(am[k], v)
			}
			sort.Strings(am[k])
		}
		var dn []string
		for n := range derived {
			dn = append(dn, n)
		}
		sort.Strings(dn)
		out.Allowed = append(out.Allowed, am)
		out.Derived = append(out.Derived, dn)
	}
	return out
}

func contains(l []string, x string) bool {
	for _, y := range l {
		if y == x {
			return true
		}
	}
	return false
}

func main() {
	if len(os.Args) >= 4 && os.Args[1] == "one" {
		replayOne(os.Args[2], os.Args[3])
		return
	}
	if len(os.Args) < 5 {
		fmt.Fprintln(os.Stderr, "usage: racer <ref|run> <quick|thorough> <seed> <outdir> | racer one <hex scenario> <repetitions>")
		os.Exit(2)
	}
	mode, tier := os.Args[1], os.Args[2]
	seed, _ := strconv.ParseInt(os.Args[3], 10, 64)
	outdir := os.Args[4]
	r := rand.New(rand.NewSource(seed))
	n := 1200
	reps := 4
	if tier == "thorough" {
		n, reps = 12000, 8
	}
	var scs []scenario
	for id := 0; id < n; id++ {
		scs = append(scs, genScenario(r, id))
	}
	refPath := outdir + "/racer-ref.json"
	if mode == "ref" {
		rf := computeRefs(scs, seed)
		b, _ := json.Marshal(rf)
		if err := os.WriteFile(refPath, b, 0o644); err != nil {
			fmt.Fprintln(os.Stderr, err)
			os.Exit(2)
		}
		return
	}
	var rf refs
	if b, err := os.ReadFile(refPath); err != nil || json.Unmarshal(b, &rf) != nil || len(rf.Allowed) != n {
		fmt.Fprintln(os.Stderr, "racer: cannot read references", refPath)
		os.Exit(2)
	}
	enc := json.NewEncoder(os.Stdout)
	classes := map[string]int{}
	totalCalls, execCalls := 0, 0
	start := time.Now()
	for id := range scs {
		sc := scs[id]
		desc, _ := json.Marshal(sc)
		fmt.Fprintf(os.Stderr, "SCENARIO %d %s\n", id, hex.EncodeToString(desc))
		data := dataFor(sc.Data)
		if _, err := build(&sc); err != nil {
			classes["unparsable"]++
			continue
		}
		allowed := rf.Allowed[id]
		base := sc.Members
		// concurrent runs
		runtime.GOMAXPROCS(sc.Procs)
		for rep := 0; rep < reps; rep++ {
			root, _ := build(&sc)
			var pre map[string]*template.Template
			if rep%2 == 1 {
				pre = map[string]*template.Template{}
				for _, m := range sc.Members {
					pre[m] = root.Lookup(m)
				}
			}
			results := make([][]string, len(sc.Threads))
			var wg sync.WaitGroup
			gate := make(chan struct{})
			for t := range sc.Threads {
				wg.Add(1)
				go func(t int) {
					defer wg.Done()
					<-gate
					for _, c := range sc.Threads[t] {
						results[t] = append(results[t], doCallPre(root, pre, c, data))
					}
				}(t)
			}
			close(gate)
			done := make(chan struct{})
			go func() { wg.Wait(); close(done) }()
			select {
			case <-done:
			case <-time.After(30 * time.Second):
				enc.Encode(finding{Kind: "hang", Scenario: id, Desc: string(desc)})
				classes["hang"]++
				continue
			}
			for t := range sc.Threads {
				var prevDefined []string
				for i, got := range results[t] {
					totalCalls++
					c := sc.Threads[t][i]
					if strings.HasPrefix(c.Op, "exec") {
						execCalls++
					}
					cls := got
					if j := strings.Index(got, ":"); j > 0 {
						cls = got[:j]
					}
					classes[c.Op+"-"+cls]++
					cc := c
					if strings.HasPrefix(got, "panic:") {
						enc.Encode(finding{Kind: "panic", Scenario: id, Desc: string(desc), Thread: t, Index: i, Call: &cc, Got: got})
						continue
					}
					if c.Op == "defined" {
						// the set of derived templates depends on which analyses have completed: it must contain the
						// defined names, only names some sequential run lists, and grow along a thread
						names := definedNames(got)
						bad := ""
						for _, b := range base {
							if !contains(names, strconv.Quote(b)) {
								bad = "defined template missing: " + b
							}
						}
						for _, nme := range names {
							if !contains(rf.Derived[id], nme) {
								bad = "name no sequential run lists: " + nme
							}
						}
						for _, p := range prevDefined {
							if !contains(names, p) {
								bad = "listed earlier by the same goroutine, now missing: " + p
							}
						}
						prevDefined = names
						if bad != "" {
							enc.Encode(finding{Kind: "mismatch", Scenario: id, Desc: string(desc), Thread: t, Index: i, Call: &cc, Got: got, Allowed: []string{bad}})
						}
						continue
					}
					if !contains(allowed[key(t, i)], got) {
						enc.Encode(finding{Kind: "mismatch", Scenario: id, Desc: string(desc), Thread: t, Index: i, Call: &cc, Got: got, Allowed: allowed[key(t, i)]})
					}
				}
			}
		}
	}
	enc.Encode(map[string]interface{}{"kind": "summary", "scenarios": n, "repetitions": reps, "calls": totalCalls, "exec_calls": execCalls,
		"classes": classes, "seconds": time.Since(start).Seconds()})
}

// replayOne: re-run ONE scenario (hex of its JSON description, as printed after "SCENARIO n") many times under the
// race detector, comparing with its sequential references computed in this process.
func replayOne(hexDesc, repsS string) {
	b, err := hex.DecodeString(hexDesc)
	var sc scenario
	if err != nil || json.Unmarshal(b, &sc) != nil {
		fmt.Fprintln(os.Stderr, "racer one: bad scenario")
		os.Exit(2)
	}
	reps, _ := strconv.Atoi(repsS)
	rf := computeRefs([]scenario{sc}, 1)
	data := dataFor(sc.Data)
	bad := 0
	for rep := 0; rep < reps; rep++ {
		runtime.GOMAXPROCS([]int{1, 2, 4, 8, 16}[rep%5])
		root, err := build(&sc)
		if err != nil {
			fmt.Println("unparsable")
			return
		}
		var pre map[string]*template.Template
		if rep%2 == 1 {
			pre = map[string]*template.Template{}
			for _, m := range sc.Members {
				pre[m] = root.Lookup(m)
			}
		}
		results := make([][]string, len(sc.Threads))
		var wg sync.WaitGroup
		gate := make(chan struct{})
		for t := range sc.Threads {
			wg.Add(1)
			go func(t int) {
				defer wg.Done()
				<-gate
				for _, c := range sc.Threads[t] {
					results[t] = append(results[t], doCallPre(root, pre, c, data))
				}
			}(t)
		}
		close(gate)
		wg.Wait()
		for t := range sc.Threads {
			for i, got := range results[t] {
				if sc.Threads[t][i].Op == "defined" {
					continue
				}
				if !contains(rf.Allowed[0][key(t, i)], got) {
					bad++
					if bad <= 3 {
						fmt.Printf("mismatch thread %d call %d %+v: got %q, sequential runs give %q\n", t, i, sc.Threads[t][i], got, rf.Allowed[0][key(t, i)])
					}
				}
			}
		}
	}
	fmt.Printf("replayed %d times: %d results not explained by a sequential run (data races, if any, are reported by the race detector on stderr)\n", reps, bad)
}
