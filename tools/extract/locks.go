package main

// genLocks: lock-discipline facts of package template for C09 (Generated/LockFacts.lean).
//
// For every function / method of the package (files of the default build, no test files):
//   * the statements at which nameSpace.mu is held, by a linear scan of the function body:
//       X.mu.Lock()  … X.mu.Unlock()      (X of type nameSpace / *nameSpace, also through embedding)
//       X.mu.Lock(); defer X.mu.Unlock()  (held to the end of the function)
//     a Lock/Unlock anywhere else than as a top-level statement of the body cannot be translated (failure);
//   * every access to a field of nameSpace, Template or escaper, and every write through a node type of
//     text/template/parse (tree rewriting), with  R/W  and  "mu held at this statement";
//   * every call of a function or method of the package (static callee), and every function value of the package
//     that is mentioned without being called (treated as a call), with "mu held at this statement";
//   * calls into text/template that execute or inspect trees (Execute, ExecuteTemplate, DefinedTemplates, Lookup,
//     Templates, AddParseTree …) are recorded as accesses of the pseudo field  text.<Method>.
//
// The Lean side (Props/C09.lean) computes from these facts which functions can be reached from the concurrent API
// without the lock and proves by kernel evaluation that none of them touches a protected location.

import (
	"fmt"
	"go/ast"
	"go/token"
	"go/types"
	"sort"
	"strings"
)

type lockAccess struct {
	fn, loc string
	write   bool
	held    bool
}
type lockCall struct {
	caller, callee string
	held           bool
}

func funcKey(fd *ast.FuncDecl) string {
	if fd.Recv != nil && len(fd.Recv.List) == 1 {
		t := fd.Recv.List[0].Type
		if s, ok := t.(*ast.StarExpr); ok {
			t = s.X
		}
		if id, ok := t.(*ast.Ident); ok {
			return id.Name + "." + fd.Name.Name
		}
	}
	return fd.Name.Name
}

func objKey(f *types.Func) string {
	sig, _ := f.Type().(*types.Signature)
	if sig != nil && sig.Recv() != nil {
		t := sig.Recv().Type()
		if p, ok := t.(*types.Pointer); ok {
			t = p.Elem()
		}
		if n, ok := t.(*types.Named); ok {
			return n.Obj().Name() + "." + f.Name()
		}
	}
	return f.Name()
}

func namedOf(t types.Type) *types.Named {
	for {
		switch x := t.(type) {
		case *types.Pointer:
			t = x.Elem()
			continue
		case *types.Named:
			return x
		}
		return nil
	}
}

func genLocks(ps *pkgs, out string) {
	p := ps.tmpl
	info := p.TypesInfo
	pkgPath := p.PkgPath
	var accesses []lockAccess
	var calls []lockCall
	var funcs []string
	locksMu := map[string]bool{}

	// isMuCall: X.mu.Lock() / X.mu.Unlock() on a nameSpace
	isMuCall := func(e ast.Expr) string {
		call, ok := e.(*ast.CallExpr)
		if !ok {
			return ""
		}
		sel, ok := call.Fun.(*ast.SelectorExpr)
		if !ok || (sel.Sel.Name != "Lock" && sel.Sel.Name != "Unlock") {
			return ""
		}
		inner, ok := sel.X.(*ast.SelectorExpr)
		if !ok || inner.Sel.Name != "mu" {
			return ""
		}
		if s := info.Selections[inner]; s != nil {
			if v, ok := s.Obj().(*types.Var); ok && v.IsField() {
				if n := namedOf(s.Recv()); n != nil && (n.Obj().Name() == "nameSpace" || n.Obj().Name() == "Template") {
					return sel.Sel.Name
				}
			}
		}
		return ""
	}

	for _, f := range p.Syntax {
		fname := p.Fset.Position(f.Pos()).Filename
		if strings.HasSuffix(fname, "_test.go") {
			continue
		}
		for _, d := range f.Decls {
			fd, ok := d.(*ast.FuncDecl)
			if !ok || fd.Body == nil {
				continue
			}
			key := funcKey(fd)
			funcs = append(funcs, key)
			held := false
			deferred := false
			// writes: positions of expressions that are assigned to
			writePos := map[token.Pos]bool{}
			ast.Inspect(fd.Body, func(n ast.Node) bool {
				mark := func(e ast.Expr) {
					for {
						switch x := e.(type) {
						case *ast.IndexExpr: // m[k] = v writes m
							e = x.X
							continue
						case *ast.ParenExpr:
							e = x.X
							continue
						case *ast.StarExpr:
							e = x.X
							continue
						}
						break
					}
					writePos[e.Pos()] = true
					if s, ok := e.(*ast.SelectorExpr); ok {
						writePos[s.Sel.Pos()] = true
					}
				}
				switch x := n.(type) {
				case *ast.AssignStmt:
					for _, l := range x.Lhs {
						mark(l)
					}
				case *ast.IncDecStmt:
					mark(x.X)
				case *ast.CallExpr:
					if id, ok := x.Fun.(*ast.Ident); ok && id.Name == "delete" && len(x.Args) > 0 {
						mark(x.Args[0])
					}
				case *ast.UnaryExpr:
					if x.Op == token.AND { // address taken: may be written through the pointer
						mark(x.X)
					}
				}
				return true
			})
			scan := func(n ast.Node, heldNow bool) {
				ast.Inspect(n, func(m ast.Node) bool {
					switch x := m.(type) {
					case *ast.CallExpr:
						if k := isMuCall(x); k != "" {
							fail("LockFacts: %s: mu.%s() is not a top-level statement of the function body", key, k)
							return false
						}
						// static callee in this package
						var fn *types.Func
						switch fun := x.Fun.(type) {
						case *ast.Ident:
							fn, _ = info.Uses[fun].(*types.Func)
						case *ast.SelectorExpr:
							if s := info.Selections[fun]; s != nil {
								fn, _ = s.Obj().(*types.Func)
							} else {
								fn, _ = info.Uses[fun.Sel].(*types.Func)
							}
						}
						if fn != nil && fn.Pkg() != nil {
							if fn.Pkg().Path() == pkgPath {
								calls = append(calls, lockCall{key, objKey(fn), heldNow})
							} else if fn.Pkg().Path() == "text/template" {
								accesses = append(accesses, lockAccess{key, "text." + fn.Name(), false, heldNow})
							}
						}
					case *ast.SelectorExpr:
						s := info.Selections[x]
						if s == nil {
							return true
						}
						v, ok := s.Obj().(*types.Var)
						if !ok || !v.IsField() {
							// method value of this package mentioned (e.g. passed as a function)
							return true
						}
						// the struct the field belongs to (through embedding: the last hop)
						owner := ""
						if v.Pkg() != nil {
							// find the named struct declaring the field
							recv := namedOf(s.Recv())
							if recv != nil {
								owner = declaringStruct(recv, s.Index())
							}
						}
						if owner == "" {
							return true
						}
						w := writePos[x.Pos()] || writePos[x.Sel.Pos()]
						accesses = append(accesses, lockAccess{key, owner + "." + v.Name(), w, heldNow})
					case *ast.Ident:
						// a package-level function mentioned as a value (not in call position) counts as a call
						if fn, ok := info.Uses[x].(*types.Func); ok && fn.Pkg() != nil && fn.Pkg().Path() == pkgPath {
							calls = append(calls, lockCall{key, objKey(fn), heldNow})
						}
					}
					return true
				})
			}
			for _, st := range fd.Body.List {
				if es, ok := st.(*ast.ExprStmt); ok {
					if k := isMuCall(es.X); k != "" {
						if k == "Lock" {
							if held {
								fail("LockFacts: %s locks mu twice", key)
							}
							held = true
							locksMu[key] = true
						} else {
							if deferred {
								fail("LockFacts: %s unlocks mu explicitly after deferring the unlock", key)
							}
							held = false
						}
						continue
					}
				}
				if ds, ok := st.(*ast.DeferStmt); ok {
					if k := isMuCall(ds.Call); k == "Unlock" {
						if !held {
							fail("LockFacts: %s defers mu.Unlock() without holding mu", key)
						}
						deferred = true
						continue
					} else if k == "Lock" {
						fail("LockFacts: %s defers mu.Lock()", key)
						continue
					}
				}
				scan(st, held)
			}
			if held && !deferred {
				fail("LockFacts: %s returns with mu held", key)
			}
		}
	}
	// canonical order, duplicates removed
	sort.Strings(funcs)
	accSet := map[string]lockAccess{}
	for _, a := range accesses {
		accSet[fmt.Sprintf("%s|%s|%v|%v", a.fn, a.loc, a.write, a.held)] = a
	}
	callSet := map[string]lockCall{}
	for _, c := range calls {
		callSet[fmt.Sprintf("%s|%s|%v", c.caller, c.callee, c.held)] = c
	}
	var accKeys, callKeys []string
	for k := range accSet {
		accKeys = append(accKeys, k)
	}
	for k := range callSet {
		callKeys = append(callKeys, k)
	}
	sort.Strings(accKeys)
	sort.Strings(callKeys)
	if !locksMu["Template.escape"] && !locksMu["Template.lookupAndEscapeTemplate"] {
		// sanity: the translator understands the locking idiom of this file at all
		fail("LockFacts: neither Template.escape nor Template.lookupAndEscapeTemplate takes nameSpace.mu")
	}
	fid := map[string]int{}
	for i, f := range funcs {
		fid[f] = i
	}
	var locs []string
	lid := map[string]int{}
	for _, k := range accKeys {
		l := accSet[k].loc
		if _, ok := lid[l]; !ok {
			lid[l] = -1
			locs = append(locs, l)
		}
	}
	sort.Strings(locs)
	for i, l := range locs {
		lid[l] = i
	}
	var b strings.Builder
	b.WriteString("-- GENERATED by tools/extract from /repo on every run. Do not edit.\n")
	b.WriteString("namespace SafeHtml.Generated.LockFacts\n\n")
	b.WriteString("/-- functions and methods of package template (default build); the id of a function is its index -/\n")
	fmt.Fprintf(&b, "def funcs : List String := [%s]\n\n", quoteJoin(funcs))
	b.WriteString("/-- locations (owner struct, field); owner `parse` = a node type of text/template/parse, owner `text` = a call into text/template; id = index -/\n")
	var lp []string
	for _, l := range locs {
		i := strings.Index(l, ".")
		lp = append(lp, fmt.Sprintf("(%q, %q)", l[:i], l[i+1:]))
	}
	fmt.Fprintf(&b, "def locs : List (String × String) := [%s]\n\n", strings.Join(lp, ", "))
	var lk []string
	for _, f := range funcs {
		if locksMu[f] {
			lk = append(lk, fmt.Sprint(fid[f]))
		}
	}
	b.WriteString("/-- functions that acquire nameSpace.mu themselves -/\n")
	fmt.Fprintf(&b, "def locks : List Nat := [%s]\n\n", strings.Join(lk, ", "))
	b.WriteString("/-- (function, location, isWrite, mu held at the statement) -/\n")
	b.WriteString("def accesses : List (Nat × Nat × Bool × Bool) := [\n")
	for i, k := range accKeys {
		a := accSet[k]
		sep := ","
		if i == len(accKeys)-1 {
			sep = ""
		}
		fmt.Fprintf(&b, "  (%d, %d, %v, %v)%s  -- %s %s\n", fid[a.fn], lid[a.loc], a.write, a.held, sep, a.fn, a.loc)
	}
	b.WriteString("]\n\n/-- (caller, callee, mu held at the call) -/\n")
	b.WriteString("def calls : List (Nat × Nat × Bool) := [\n")
	for i, k := range callKeys {
		c := callSet[k]
		callee, ok := fid[c.callee]
		if !ok {
			fail("LockFacts: callee %s of %s has no body in the package", c.callee, c.caller)
			continue
		}
		sep := ","
		if i == len(callKeys)-1 {
			sep = ""
		}
		fmt.Fprintf(&b, "  (%d, %d, %v)%s  -- %s -> %s\n", fid[c.caller], callee, c.held, sep, c.caller, c.callee)
	}
	b.WriteString("]\n\nend SafeHtml.Generated.LockFacts\n")
	writeFile(out, "LockFacts.lean", b.String())
}

// declaringStruct: name of the named struct that declares the field selected by the index path idx from recv
func declaringStruct(recv *types.Named, idx []int) string {
	cur := recv
	for i, k := range idx {
		st, ok := cur.Underlying().(*types.Struct)
		if !ok || k >= st.NumFields() {
			return ""
		}
		if i == len(idx)-1 {
			name := cur.Obj().Name()
			if cur.Obj().Pkg() != nil && cur.Obj().Pkg().Path() == "text/template/parse" {
				return "parse"
			}
			switch name {
			case "nameSpace", "Template", "escaper":
				return name
			}
			return ""
		}
		n := namedOf(st.Field(k).Type())
		if n == nil {
			return ""
		}
		cur = n
	}
	return ""
}

func quoteJoin(xs []string) string {
	q := make([]string, len(xs))
	for i, x := range xs {
		q[i] = fmt.Sprintf("%q", x)
	}
	return strings.Join(q, ", ")
}
