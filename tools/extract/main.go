// extract: translator from /repo's current Go source to Lean facts (SafeHtml/Generated/*.lean).
//
// It is a *fact* extractor with hand-written expectations: it looks for named variables and
// functions with a given syntactic shape. When a shape is not found it does not guess; it
// prints "translator: cannot extract <X>" and exits 2 (a broken tie, see DESIGN.md §5).
package main

import (
	"fmt"
	"go/ast"
	"go/constant"
	"go/token"
	"go/types"
	"os"
	"path/filepath"
	"sort"
	"strings"

	"golang.org/x/tools/go/packages"
)

type pkgs struct {
	root, tmpl, util *packages.Package
	all              []*packages.Package
}

var failures []string

func fail(format string, a ...interface{}) {
	failures = append(failures, fmt.Sprintf(format, a...))
}

func load(repo string, tags string) *pkgs {
	cfg := &packages.Config{
		Mode: packages.NeedName | packages.NeedFiles | packages.NeedSyntax | packages.NeedTypes |
			packages.NeedTypesInfo | packages.NeedImports | packages.NeedDeps | packages.NeedCompiledGoFiles,
		Dir: repo,
	}
	if tags != "" {
		cfg.BuildFlags = []string{"-tags=" + tags}
	}
	ps, err := packages.Load(cfg, "./...")
	if err != nil {
		fmt.Fprintln(os.Stderr, "translator: cannot load packages:", err)
		os.Exit(2)
	}
	r := &pkgs{all: ps}
	for _, p := range ps {
		if len(p.Errors) > 0 {
			fmt.Fprintln(os.Stderr, "translator: package errors in", p.PkgPath, p.Errors)
			os.Exit(2)
		}
		switch p.PkgPath {
		case "github.com/google/safehtml":
			r.root = p
		case "github.com/google/safehtml/template":
			r.tmpl = p
		case "github.com/google/safehtml/internal/safehtmlutil":
			r.util = p
		}
	}
	if r.root == nil || r.tmpl == nil || r.util == nil {
		fmt.Fprintln(os.Stderr, "translator: cannot find the three core packages")
		os.Exit(2)
	}
	return r
}

// findVarInit returns the initializer expression of package-level var `name`.
func findVarInit(p *packages.Package, name string) ast.Expr {
	for _, f := range p.Syntax {
		for _, d := range f.Decls {
			gd, ok := d.(*ast.GenDecl)
			if !ok || gd.Tok != token.VAR {
				continue
			}
			for _, s := range gd.Specs {
				vs := s.(*ast.ValueSpec)
				for i, n := range vs.Names {
					if n.Name == name && i < len(vs.Values) {
						return vs.Values[i]
					}
				}
			}
		}
	}
	return nil
}

func findFunc(p *packages.Package, name string) *ast.FuncDecl {
	for _, f := range p.Syntax {
		for _, d := range f.Decls {
			if fd, ok := d.(*ast.FuncDecl); ok && fd.Name.Name == name && fd.Recv == nil {
				return fd
			}
		}
	}
	return nil
}

func findMethod(p *packages.Package, recv, name string) *ast.FuncDecl {
	for _, f := range p.Syntax {
		for _, d := range f.Decls {
			fd, ok := d.(*ast.FuncDecl)
			if !ok || fd.Name.Name != name || fd.Recv == nil || len(fd.Recv.List) != 1 {
				continue
			}
			t := fd.Recv.List[0].Type
			if st, ok := t.(*ast.StarExpr); ok {
				t = st.X
			}
			if id, ok := t.(*ast.Ident); ok && id.Name == recv {
				return fd
			}
		}
	}
	return nil
}

func constString(p *packages.Package, e ast.Expr) (string, bool) {
	tv, ok := p.TypesInfo.Types[e]
	if !ok || tv.Value == nil || tv.Value.Kind() != constant.String {
		return "", false
	}
	return constant.StringVal(tv.Value), true
}

func constInt(p *packages.Package, e ast.Expr) (int64, bool) {
	tv, ok := p.TypesInfo.Types[e]
	if !ok || tv.Value == nil {
		return 0, false
	}
	v, exact := constant.Int64Val(constant.ToInt(tv.Value))
	return v, exact
}

// ---- Lean printing helpers ----

func leanBytes(s string) string {
	var b strings.Builder
	b.WriteString("[")
	for i := 0; i < len(s); i++ {
		if i > 0 {
			b.WriteString(", ")
		}
		fmt.Fprintf(&b, "%d", s[i])
	}
	b.WriteString("]")
	return b.String()
}

// nameKey mirrors SafeHtml.nameKey (base-256 with a leading 1).
func nameKey(s string) string {
	// big numbers: print as decimal using math/big-free approach
	digits := []int{1}
	mul := func(m, add int) {
		carry := add
		for i := 0; i < len(digits); i++ {
			v := digits[i]*m + carry
			digits[i] = v % 10
			carry = v / 10
		}
		for carry > 0 {
			digits = append(digits, carry%10)
			carry /= 10
		}
	}
	for i := 0; i < len(s); i++ {
		mul(256, int(s[i]))
	}
	var b strings.Builder
	for i := len(digits) - 1; i >= 0; i-- {
		b.WriteByte(byte('0' + digits[i]))
	}
	return b.String()
}

func leanStr(s string) string {
	var b strings.Builder
	b.WriteByte('"')
	for _, r := range s {
		switch {
		case r == '"':
			b.WriteString("\\\"")
		case r == '\\':
			b.WriteString("\\\\")
		case r == '\n':
			b.WriteString("\\n")
		case r == '\t':
			b.WriteString("\\t")
		case r == '\r':
			b.WriteString("\\r")
		case r < 32 || r == 127 || r == 0xFFFD:
			fmt.Fprintf(&b, "\\u{%x}", r)
		default:
			b.WriteRune(r)
		}
	}
	b.WriteByte('"')
	return b.String()
}

func writeFile(dir, name, content string) {
	path := filepath.Join(dir, name)
	old, err := os.ReadFile(path)
	if err == nil && string(old) == content {
		return // identical: keep mtime so lake does nothing
	}
	if err := os.WriteFile(path, []byte(content), 0o644); err != nil {
		fmt.Fprintln(os.Stderr, "translator: cannot write", path, err)
		os.Exit(2)
	}
}

func sortedKeys(m map[string]string) []string {
	ks := make([]string, 0, len(m))
	for k := range m {
		ks = append(ks, k)
	}
	sort.Strings(ks)
	return ks
}

func main() {
	repo := "/repo"
	out := "/verif/lean/SafeHtml/Generated"
	if len(os.Args) > 1 {
		repo = os.Args[1]
	}
	if len(os.Args) > 2 {
		out = os.Args[2]
	}
	if err := os.MkdirAll(out, 0o755); err != nil {
		fmt.Fprintln(os.Stderr, err)
		os.Exit(2)
	}
	ps := load(repo, "")
	genRegexes(ps, out)
	genTables(ps, out)
	genPolicy(ps, out)
	genStyle(ps, out)
	genApi(ps, out)
	genLocks(ps, out)
	genTrustedSource(ps, out)
	genEntities(ps, out)
	genTmplUrlFacts(ps, out)
	if len(failures) > 0 {
		for _, f := range failures {
			fmt.Println("translator: cannot extract", f)
		}
		os.Exit(2)
	}
	fmt.Println("translator: ok")
}

var _ = types.Universe
