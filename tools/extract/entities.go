package main

// genEntities: reads the installed Go's `html` package source (the stdlib the harness and /repo are
// compiled against) and writes SafeHtml/Generated/Entities.lean:
//   * `entity` and `entity2` (html/entity.go, assignments inside populateMaps) as one table sorted by
//     nameKey(name bytes) — rows (key, rune1, rune2) with rune2 = 0 for one-rune entities;
//   * `longestEntityWithoutSemicolon` (html/entity.go constant);
//   * `replacementTable` (html/escape.go, the Windows-1252 table for numeric references 0x80–0x9F).
// Shapes are checked; anything unexpected is a `fail(...)`, never a guess.

import (
	"fmt"
	"go/ast"
	"go/parser"
	"go/token"
	"math/big"
	"os/exec"
	"path/filepath"
	"runtime"
	"sort"
	"strconv"
	"strings"
)

func goroot() string {
	if out, err := exec.Command("go", "env", "GOROOT").Output(); err == nil {
		if s := strings.TrimSpace(string(out)); s != "" {
			return s
		}
	}
	return runtime.GOROOT()
}

func runeLit(e ast.Expr) (int64, bool) {
	bl, ok := e.(*ast.BasicLit)
	if !ok {
		return 0, false
	}
	switch bl.Kind {
	case token.CHAR:
		s := bl.Value
		if len(s) < 3 || s[0] != '\'' || s[len(s)-1] != '\'' {
			return 0, false
		}
		r, _, tail, err := strconv.UnquoteChar(s[1:len(s)-1], '\'')
		if err != nil || tail != "" {
			return 0, false
		}
		return int64(r), true
	case token.INT:
		v, err := strconv.ParseInt(bl.Value, 0, 64)
		return v, err == nil
	}
	return 0, false
}

type entRow struct {
	name   string
	key    *big.Int
	r1, r2 int64
}

func bigKey(s string) *big.Int {
	k := big.NewInt(1)
	for i := 0; i < len(s); i++ {
		k.Mul(k, big.NewInt(256))
		k.Add(k, big.NewInt(int64(s[i])))
	}
	return k
}

func genEntities(ps *pkgs, out string) {
	root := goroot()
	fset := token.NewFileSet()
	entFile := filepath.Join(root, "src", "html", "entity.go")
	escFile := filepath.Join(root, "src", "html", "escape.go")
	ef, err := parser.ParseFile(fset, entFile, nil, 0)
	if err != nil {
		fail("Entities: cannot parse %s: %v", entFile, err)
		return
	}
	xf, err := parser.ParseFile(fset, escFile, nil, 0)
	if err != nil {
		fail("Entities: cannot parse %s: %v", escFile, err)
		return
	}
	// constant longestEntityWithoutSemicolon
	longest := int64(-1)
	for _, d := range ef.Decls {
		gd, ok := d.(*ast.GenDecl)
		if !ok || gd.Tok != token.CONST {
			continue
		}
		for _, s := range gd.Specs {
			vs := s.(*ast.ValueSpec)
			for i, n := range vs.Names {
				if n.Name == "longestEntityWithoutSemicolon" && i < len(vs.Values) {
					if v, ok := runeLit(vs.Values[i]); ok {
						longest = v
					}
				}
			}
		}
	}
	if longest < 0 {
		fail("Entities: constant longestEntityWithoutSemicolon not found in %s", entFile)
		return
	}
	// entity / entity2 assignments inside populateMaps
	var pm *ast.FuncDecl
	for _, d := range ef.Decls {
		if fd, ok := d.(*ast.FuncDecl); ok && fd.Name.Name == "populateMaps" && fd.Recv == nil {
			pm = fd
		}
	}
	if pm == nil || pm.Body == nil {
		fail("Entities: func populateMaps not found in %s", entFile)
		return
	}
	var rows []entRow
	seen := map[string]bool{}
	found := map[string]bool{}
	for _, st := range pm.Body.List {
		as, ok := st.(*ast.AssignStmt)
		if !ok || len(as.Lhs) != 1 || len(as.Rhs) != 1 || as.Tok != token.ASSIGN {
			fail("Entities: unexpected statement in populateMaps")
			return
		}
		id, ok := as.Lhs[0].(*ast.Ident)
		if !ok || (id.Name != "entity" && id.Name != "entity2") {
			fail("Entities: unexpected assignment target in populateMaps")
			return
		}
		cl, ok := as.Rhs[0].(*ast.CompositeLit)
		if !ok {
			fail("Entities: %s is not assigned a composite literal", id.Name)
			return
		}
		found[id.Name] = true
		for _, el := range cl.Elts {
			kv, ok := el.(*ast.KeyValueExpr)
			if !ok {
				fail("Entities: unkeyed element in %s", id.Name)
				return
			}
			kl, ok := kv.Key.(*ast.BasicLit)
			if !ok || kl.Kind != token.STRING {
				fail("Entities: non-literal key in %s", id.Name)
				return
			}
			name, err := strconv.Unquote(kl.Value)
			if err != nil || name == "" {
				fail("Entities: bad key %s in %s", kl.Value, id.Name)
				return
			}
			if seen[name] {
				fail("Entities: duplicate name %q", name)
				return
			}
			seen[name] = true
			row := entRow{name: name, key: bigKey(name)}
			if id.Name == "entity" {
				v, ok := runeLit(kv.Value)
				if !ok || v == 0 {
					fail("Entities: bad value for %q", name)
					return
				}
				row.r1 = v
			} else {
				vl, ok := kv.Value.(*ast.CompositeLit)
				if !ok || len(vl.Elts) != 2 {
					fail("Entities: bad value for %q in entity2", name)
					return
				}
				a, ok1 := runeLit(vl.Elts[0])
				b, ok2 := runeLit(vl.Elts[1])
				if !ok1 || !ok2 || a == 0 || b == 0 {
					fail("Entities: bad runes for %q in entity2", name)
					return
				}
				row.r1, row.r2 = a, b
			}
			rows = append(rows, row)
		}
	}
	if !found["entity"] || !found["entity2"] {
		fail("Entities: populateMaps does not assign both entity and entity2")
		return
	}
	sort.Slice(rows, func(i, j int) bool { return rows[i].key.Cmp(rows[j].key) < 0 })
	// replacementTable in escape.go
	var repl []int64
	for _, d := range xf.Decls {
		gd, ok := d.(*ast.GenDecl)
		if !ok || gd.Tok != token.VAR {
			continue
		}
		for _, s := range gd.Specs {
			vs := s.(*ast.ValueSpec)
			for i, n := range vs.Names {
				if n.Name != "replacementTable" || i >= len(vs.Values) {
					continue
				}
				cl, ok := vs.Values[i].(*ast.CompositeLit)
				if !ok {
					fail("Entities: replacementTable is not a composite literal")
					return
				}
				for _, el := range cl.Elts {
					v, ok := runeLit(el)
					if !ok {
						fail("Entities: replacementTable has a non-literal element")
						return
					}
					repl = append(repl, v)
				}
			}
		}
	}
	if len(repl) == 0 {
		fail("Entities: replacementTable not found in %s", escFile)
		return
	}

	var b strings.Builder
	b.WriteString("-- GENERATED by tools/extract from $(go env GOROOT)/src/html/{entity,escape}.go on every run. Do not edit.\n")
	b.WriteString("namespace SafeHtml.Generated.Entities\n\n")
	fmt.Fprintf(&b, "/-- html.longestEntityWithoutSemicolon -/\ndef longestEntityWithoutSemicolon : Nat := %d\n\n", longest)
	b.WriteString("/-- html.replacementTable (numeric references 0x80–0x9F) -/\n")
	fmt.Fprintf(&b, "def replacementTable : List Nat := %s\n\n", leanNatList(repl))
	const chunk = 128
	nch := 0
	for i := 0; i < len(rows); i += chunk {
		j := i + chunk
		if j > len(rows) {
			j = len(rows)
		}
		fmt.Fprintf(&b, "def chunk%d : Array (Nat × Nat × Nat) := #[\n", nch)
		for k := i; k < j; k++ {
			sep := ","
			if k == j-1 {
				sep = ""
			}
			fmt.Fprintf(&b, "  (%s, %d, %d)%s -- %s\n", rows[k].key.String(), rows[k].r1, rows[k].r2, sep, rows[k].name)
		}
		b.WriteString("]\n")
		nch++
	}
	b.WriteString("\n/-- html.entity ∪ html.entity2: rows (nameKey name, rune1, rune2 or 0), strictly sorted by key -/\n")
	b.WriteString("def table : Array (Nat × Nat × Nat) :=\n  ")
	for i := 0; i < nch; i++ {
		if i > 0 {
			b.WriteString(" ++ ")
		}
		fmt.Fprintf(&b, "chunk%d", i)
	}
	fmt.Fprintf(&b, "\n\ndef tableSize : Nat := %d\n", len(rows))
	b.WriteString("\nend SafeHtml.Generated.Entities\n")
	writeFile(out, "Entities.lean", b.String())
}
