package main

// genApi: the exported API surface of packages safehtml and safehtml/template as Lean data
// (SafeHtml/Generated/ApiSurface.lean), for property C19.
//
// Everything is read from go/types (packages loaded WITHOUT the `verif` build tag): every
// exported function and method with a *type class* per parameter and result, every exported
// type (alias or defined, kind, struct fields with their canonical type, exported method set),
// every exported var/const, and every package-level type whose underlying type is `string`
// (that is how `stringConstant` is found: structurally, not by name).
//
// Names are keyed with nameKey (see main.go) so that kernel `decide` is fast; the readable
// name is kept beside the key.

import (
	"fmt"
	"go/types"
	"sort"
	"strings"
)

const (
	apiRootPath = "github.com/google/safehtml"
	apiTmplPath = "github.com/google/safehtml/template"
)

// package keys used in the Lean surface: 1 = safehtml, 2 = safehtml/template, 9 = any other
func apiPkgKey(p *types.Package) int {
	if p == nil {
		return 0
	}
	switch p.Path() {
	case apiRootPath:
		return 1
	case apiTmplPath:
		return 2
	}
	return 9
}

func apiPkgShort(p *types.Package) string {
	switch apiPkgKey(p) {
	case 1:
		return "safehtml"
	case 2:
		return "template"
	}
	return p.Path()
}

func isBasicString(t types.Type) bool {
	b, ok := t.(*types.Basic)
	return ok && b.Kind() == types.String
}

func apiBool(b bool) string {
	if b {
		return "true"
	}
	return "false"
}

// strTy prints the Spec.GoTypes.StrTy of a string-kind type, or "" if t is not string-kind.
func strTy(t types.Type) string {
	t = types.Unalias(t)
	if isBasicString(t) {
		return ".string"
	}
	if n, ok := t.(*types.Named); ok && isBasicString(n.Underlying()) && n.TypeArgs().Len() == 0 {
		k := apiPkgKey(n.Obj().Pkg())
		if k == 1 || k == 2 {
			return fmt.Sprintf("(.lib %d %s %s)", k, nameKey(n.Obj().Name()), apiBool(n.Obj().Exported()))
		}
	}
	return ""
}

// libStruct reports whether t is an exported defined struct type of one of the two packages and,
// if so, whether it is a safe type (≥1 field, all unexported) or a struct whose fields are all exported and of type string or []string.
func libStruct(t types.Type) (n *types.Named, safe, allExportedStrings bool) {
	n, ok := types.Unalias(t).(*types.Named)
	if !ok || !n.Obj().Exported() {
		return nil, false, false
	}
	if k := apiPkgKey(n.Obj().Pkg()); k != 1 && k != 2 {
		return nil, false, false
	}
	st, ok := n.Underlying().(*types.Struct)
	if !ok {
		return nil, false, false
	}
	safe = st.NumFields() > 0
	allExportedStrings = st.NumFields() > 0
	for i := 0; i < st.NumFields(); i++ {
		f := st.Field(i)
		if f.Exported() {
			safe = false
		} else {
			allExportedStrings = false
		}
		ft := types.Unalias(f.Type())
		if sl, ok := ft.(*types.Slice); ok {
			ft = types.Unalias(sl.Elem())
		}
		if !isBasicString(ft) {
			allExportedStrings = false
		}
	}
	return n, safe, allExportedStrings
}

func isNamed(t types.Type, pkgPath, name string) bool {
	n, ok := types.Unalias(t).(*types.Named)
	return ok && n.Obj().Pkg() != nil && n.Obj().Pkg().Path() == pkgPath && n.Obj().Name() == name
}

// classify prints the Spec.GoTypes.Cls of a parameter/result/field/var type.
func classify(t types.Type, variadic bool) string {
	t = types.Unalias(t)
	if variadic {
		el := t.(*types.Slice).Elem()
		if s := strTy(el); s != "" {
			return "(.variadic " + s + ")"
		}
		if n, safe, _ := libStruct(el); safe {
			return fmt.Sprintf("(.variadicSafe %d %s)", apiPkgKey(n.Obj().Pkg()), nameKey(n.Obj().Name()))
		}
		return ".other"
	}
	if s := strTy(t); s != "" {
		return "(.str " + s + ")"
	}
	if n, safe, strs := libStruct(t); n != nil {
		switch {
		case safe:
			return fmt.Sprintf("(.safe %d %s)", apiPkgKey(n.Obj().Pkg()), nameKey(n.Obj().Name()))
		case strs:
			return fmt.Sprintf("(.stringStruct %d %s)", apiPkgKey(n.Obj().Pkg()), nameKey(n.Obj().Name()))
		}
		return ".other"
	}
	switch u := t.(type) {
	case *types.Slice:
		if s := strTy(u.Elem()); s != "" {
			return "(.slice " + s + ")"
		}
		if b, ok := types.Unalias(u.Elem()).(*types.Basic); ok && b.Kind() == types.Byte {
			return ".bytes"
		}
		if p, ok := types.Unalias(u.Elem()).(*types.Pointer); ok && isNamed(p.Elem(), apiTmplPath, "Template") {
			return ".templatePtrSlice"
		}
		return ".other"
	case *types.Pointer:
		if isNamed(u.Elem(), apiTmplPath, "Template") {
			return ".templatePtr"
		}
		return ".other"
	case *types.Map:
		if isBasicString(types.Unalias(u.Key())) && isBasicString(types.Unalias(u.Elem())) {
			return ".mapStringString"
		}
		return ".other"
	case *types.Interface:
		if u.NumMethods() == 0 && !u.IsComparable() && u.NumEmbeddeds() == 0 {
			return ".emptyInterface"
		}
		return ".other"
	case *types.Basic:
		if u.Kind() == types.Bool {
			return ".bool"
		}
		return ".other"
	case *types.Named:
		switch {
		case isNamed(u, "flag", "Value"):
			return ".flagValue"
		case isNamed(u, "embed", "FS"):
			return ".embedFS"
		case isNamed(u, "io", "Writer"):
			return ".writer"
		case u.Obj().Pkg() == nil && u.Obj().Name() == "error":
			return ".error"
		}
		if m, ok := u.Underlying().(*types.Map); ok && isBasicString(types.Unalias(m.Key())) {
			if i, ok := types.Unalias(m.Elem()).Underlying().(*types.Interface); ok && i.NumMethods() == 0 {
				return ".funcMap"
			}
		}
		return ".other"
	}
	return ".other"
}

// mentionsUnexportedString: does t mention (anywhere) an unexported string-kind type of the
// two packages, i.e. a `stringConstant`?
func mentionsUnexportedString(t types.Type, seen map[types.Type]bool) bool {
	if t == nil || seen[t] {
		return false
	}
	seen[t] = true
	t = types.Unalias(t)
	switch u := t.(type) {
	case *types.Named:
		k := apiPkgKey(u.Obj().Pkg())
		if (k == 1 || k == 2) && !u.Obj().Exported() && isBasicString(u.Underlying()) {
			return true
		}
		if k == 1 || k == 2 {
			// look into exported fields / element types of our own named types only
			switch v := u.Underlying().(type) {
			case *types.Struct:
				for i := 0; i < v.NumFields(); i++ {
					if v.Field(i).Exported() && mentionsUnexportedString(v.Field(i).Type(), seen) {
						return true
					}
				}
			case *types.Interface:
				for i := 0; i < v.NumMethods(); i++ {
					if v.Method(i).Exported() && mentionsUnexportedString(v.Method(i).Type(), seen) {
						return true
					}
				}
			default:
				return mentionsUnexportedString(v, seen)
			}
		}
		return false
	case *types.Pointer:
		return mentionsUnexportedString(u.Elem(), seen)
	case *types.Slice:
		return mentionsUnexportedString(u.Elem(), seen)
	case *types.Array:
		return mentionsUnexportedString(u.Elem(), seen)
	case *types.Chan:
		return mentionsUnexportedString(u.Elem(), seen)
	case *types.Map:
		return mentionsUnexportedString(u.Key(), seen) || mentionsUnexportedString(u.Elem(), seen)
	case *types.Signature:
		for i := 0; i < u.Params().Len(); i++ {
			if mentionsUnexportedString(u.Params().At(i).Type(), seen) {
				return true
			}
		}
		for i := 0; i < u.Results().Len(); i++ {
			if mentionsUnexportedString(u.Results().At(i).Type(), seen) {
				return true
			}
		}
	case *types.Struct:
		for i := 0; i < u.NumFields(); i++ {
			if mentionsUnexportedString(u.Field(i).Type(), seen) {
				return true
			}
		}
	case *types.Interface:
		for i := 0; i < u.NumMethods(); i++ {
			if mentionsUnexportedString(u.Method(i).Type(), seen) {
				return true
			}
		}
	}
	return false
}

// mentionsSafe: does t mention (anywhere: pointer, slice, map, channel, func params/results, exported
// struct fields) a safe struct type of the two packages or *template.Template?
func mentionsSafe(t types.Type, seen map[types.Type]bool) bool {
	if t == nil || seen[t] {
		return false
	}
	seen[t] = true
	t = types.Unalias(t)
	if _, safe, _ := libStruct(t); safe {
		return true
	}
	if isNamed(t, apiTmplPath, "Template") {
		return true
	}
	switch u := t.(type) {
	case *types.Named:
		k := apiPkgKey(u.Obj().Pkg())
		if k != 1 && k != 2 {
			return false
		}
		switch v := u.Underlying().(type) {
		case *types.Struct:
			for i := 0; i < v.NumFields(); i++ {
				if v.Field(i).Exported() && mentionsSafe(v.Field(i).Type(), seen) {
					return true
				}
			}
			return false
		case *types.Interface:
			return false
		default:
			return mentionsSafe(v, seen)
		}
	case *types.Pointer:
		return mentionsSafe(u.Elem(), seen)
	case *types.Slice:
		return mentionsSafe(u.Elem(), seen)
	case *types.Array:
		return mentionsSafe(u.Elem(), seen)
	case *types.Chan:
		return mentionsSafe(u.Elem(), seen)
	case *types.Map:
		return mentionsSafe(u.Key(), seen) || mentionsSafe(u.Elem(), seen)
	case *types.Signature:
		for i := 0; i < u.Params().Len(); i++ {
			if mentionsSafe(u.Params().At(i).Type(), seen) {
				return true
			}
		}
		for i := 0; i < u.Results().Len(); i++ {
			if mentionsSafe(u.Results().At(i).Type(), seen) {
				return true
			}
		}
	case *types.Struct:
		for i := 0; i < u.NumFields(); i++ {
			if mentionsSafe(u.Field(i).Type(), seen) {
				return true
			}
		}
	}
	return false
}

func canonType(t types.Type) string {
	return types.TypeString(t, func(p *types.Package) string { return p.Path() })
}

func leanList(items []string, indent string) string {
	if len(items) == 0 {
		return "[]"
	}
	return "[\n" + indent + strings.Join(items, ",\n"+indent) + "]"
}

func leanInline(items []string) string {
	return "[" + strings.Join(items, ", ") + "]"
}

func apiFuncEntry(pkg *types.Package, recv *types.Named, ptrRecv bool, fn *types.Func) string {
	sig := fn.Type().(*types.Signature)
	name := apiPkgShort(pkg) + "."
	recvKey := "0"
	if recv != nil {
		name += recv.Obj().Name() + "."
		recvKey = nameKey(recv.Obj().Name())
	}
	name += fn.Name()
	var ps, rs []string
	for i := 0; i < sig.Params().Len(); i++ {
		ps = append(ps, classify(sig.Params().At(i).Type(), sig.Variadic() && i == sig.Params().Len()-1))
	}
	leak, yields := false, false
	for i := 0; i < sig.Results().Len(); i++ {
		if mentionsSafe(sig.Results().At(i).Type(), map[types.Type]bool{}) {
			yields = true
		}
		rs = append(rs, classify(sig.Results().At(i).Type(), false))
		if mentionsUnexportedString(sig.Results().At(i).Type(), map[types.Type]bool{}) {
			leak = true
		}
	}
	return fmt.Sprintf("{ key := %s, name := %s, pkg := %d, recv := %s, ptrRecv := %s,\n      params := %s, results := %s, resultMentionsSC := %s, resultMentionsSafe := %s }",
		nameKey(name), leanStr(name), apiPkgKey(pkg), recvKey, apiBool(ptrRecv), leanInline(ps), leanInline(rs), apiBool(leak), apiBool(yields))
}

func apiKind(t types.Type) string {
	switch u := t.Underlying().(type) {
	case *types.Struct:
		return ".struct"
	case *types.Interface:
		return ".interface"
	case *types.Map:
		return ".map"
	case *types.Signature:
		return ".func"
	case *types.Basic:
		if u.Kind() == types.String {
			return ".string"
		}
		if u.Info()&types.IsInteger != 0 {
			return ".int"
		}
	}
	return ".other"
}

func genApi(ps *pkgs, out string) {
	var funcs, typesL, vars, strTypes []string
	for _, p := range []*types.Package{ps.root.Types, ps.tmpl.Types} {
		scope := p.Scope()
		names := scope.Names() // sorted
		for _, nm := range names {
			obj := scope.Lookup(nm)
			qual := apiPkgShort(p) + "." + nm
			switch o := obj.(type) {
			case *types.Func:
				if o.Exported() {
					funcs = append(funcs, apiFuncEntry(p, nil, false, o))
				}
			case *types.Var, *types.Const:
				if !obj.Exported() {
					continue
				}
				_, isConst := obj.(*types.Const)
				vars = append(vars, fmt.Sprintf("{ key := %s, name := %s, pkg := %d, isConst := %s, cls := %s, mentionsSC := %s, mentionsSafe := %s }",
					nameKey(qual), leanStr(qual), apiPkgKey(p), apiBool(isConst), classify(obj.Type(), false),
					apiBool(mentionsUnexportedString(obj.Type(), map[types.Type]bool{})), apiBool(mentionsSafe(obj.Type(), map[types.Type]bool{}))))
			case *types.TypeName:
				// every package-level type of string kind, exported or not (finds stringConstant structurally)
				if isBasicString(o.Type().Underlying()) {
					target := canonType(types.Unalias(o.Type()))
					strTypes = append(strTypes, fmt.Sprintf("{ key := %s, name := %s, pkg := %d, exported := %s, alias := %s, target := %s }",
						nameKey(nm), leanStr(qual), apiPkgKey(p), apiBool(o.Exported()), apiBool(o.IsAlias()), leanStr(target)))
				}
				if !o.Exported() {
					continue
				}
				var fields []string
				if st, ok := o.Type().Underlying().(*types.Struct); ok {
					for i := 0; i < st.NumFields(); i++ {
						f := st.Field(i)
						fields = append(fields, fmt.Sprintf("{ key := %s, name := %s, exported := %s, embedded := %s, declPkg := %d, cls := %s, tyKey := %s, tyStr := %s, mentionsSC := %s }",
							nameKey(f.Name()), leanStr(f.Name()), apiBool(f.Exported()), apiBool(f.Embedded()), apiPkgKey(f.Pkg()),
							classify(f.Type(), false), nameKey(canonType(f.Type())), leanStr(canonType(f.Type())),
							apiBool(f.Exported() && mentionsUnexportedString(f.Type(), map[types.Type]bool{}))))
					}
				}
				var methods []string
				if named, ok := types.Unalias(o.Type()).(*types.Named); ok && !o.IsAlias() {
					if _, isIface := named.Underlying().(*types.Interface); !isIface {
						ms := types.NewMethodSet(types.NewPointer(named))
						var sel []*types.Selection
						for i := 0; i < ms.Len(); i++ {
							sel = append(sel, ms.At(i))
						}
						sort.Slice(sel, func(i, j int) bool { return sel[i].Obj().Name() < sel[j].Obj().Name() })
						for _, s := range sel {
							fn := s.Obj().(*types.Func)
							if !fn.Exported() {
								continue
							}
							_, ptr := fn.Type().(*types.Signature).Recv().Type().(*types.Pointer)
							funcs = append(funcs, apiFuncEntry(p, named, ptr, fn))
							methods = append(methods, nameKey(fn.Name()))
						}
					} else {
						it := named.Underlying().(*types.Interface)
						for i := 0; i < it.NumMethods(); i++ {
							if it.Method(i).Exported() {
								methods = append(methods, nameKey(it.Method(i).Name()))
							}
						}
					}
				}
				typesL = append(typesL, fmt.Sprintf("{ key := %s, qkey := %s, name := %s, pkg := %d, alias := %s, kind := %s,\n      fields := %s,\n      methods := %s,\n      underlying := %s }",
					nameKey(nm), nameKey(qual), leanStr(qual), apiPkgKey(p), apiBool(o.IsAlias()), apiKind(o.Type()),
					leanList(fields, "        "), leanInline(methods), leanStr(canonType(o.Type().Underlying()))))
			}
		}
	}
	if len(funcs) == 0 || len(typesL) == 0 {
		fail("ApiSurface: no exported functions or types found")
		return
	}
	var b strings.Builder
	b.WriteString("-- GENERATED by tools/extract (api.go) from /repo on every run. Do not edit.\n")
	b.WriteString("-- Exported API surface of github.com/google/safehtml (pkg 1) and .../template (pkg 2), build tag `verif` OFF.\n")
	b.WriteString("import SafeHtml.Spec.GoTypes\nnamespace SafeHtml.Generated.ApiSurface\nopen SafeHtml.Spec.GoTypes\n\n")
	b.WriteString("/-- every exported function and every exported method (method set of *T, promoted ones included) -/\n")
	b.WriteString("def funcs : List Func := " + leanList(funcs, "  ") + "\n\n")
	b.WriteString("/-- every exported type -/\n")
	b.WriteString("def types : List TypeDecl := " + leanList(typesL, "  ") + "\n\n")
	b.WriteString("/-- every exported package-level var and const -/\n")
	b.WriteString("def vars : List VarDecl := " + leanList(vars, "  ") + "\n\n")
	b.WriteString("/-- every package-level type name (exported or not) whose underlying type is string -/\n")
	b.WriteString("def stringTypes : List StringTypeDecl := " + leanList(strTypes, "  ") + "\n\n")
	b.WriteString("end SafeHtml.Generated.ApiSurface\n")
	writeFile(out, "ApiSurface.lean", b.String())
}
