package main

import (
	"fmt"
	"go/ast"
	"go/token"
	"os"
	"regexp"
	"strings"
)

// genStyle reads the ordered chain of `if properties.X != ""` / `if len(properties.X) > 0`
// statements of safehtml.StyleFromProperties and prints Generated/StyleFields.lean:
// (Go field, css property name, kind) in emission order, plus the literal pieces of the two
// list-valued fields. Every statement of the function must have one of the expected shapes.

type styleField struct {
	goName, css, kind string
}

var plainFormat = regexp.MustCompile(`^([a-z][a-z-]*):%s;$`)

func propertiesField(e ast.Expr) (string, bool) {
	sel, ok := e.(*ast.SelectorExpr)
	if !ok {
		return "", false
	}
	id, ok := sel.X.(*ast.Ident)
	if !ok || id.Name != "properties" {
		return "", false
	}
	return sel.Sel.Name, true
}

func isBufCall(ps *pkgs, s ast.Stmt, method string) (string, bool) {
	es, ok := s.(*ast.ExprStmt)
	if !ok {
		return "", false
	}
	call, ok := es.X.(*ast.CallExpr)
	if !ok || len(call.Args) != 1 {
		return "", false
	}
	if exprString(call.Fun) != "buf."+method {
		return "", false
	}
	if method == "WriteByte" {
		n, ok := constInt(ps.root, call.Args[0])
		if !ok {
			return "", false
		}
		return string([]byte{byte(n)}), true
	}
	return constString(ps.root, call.Args[0])
}

func bufWrite(ps *pkgs, s ast.Stmt) (string, bool) {
	if v, ok := isBufCall(ps, s, "WriteString"); ok {
		return v, true
	}
	return isBufCall(ps, s, "WriteByte")
}

// fprintfParts matches fmt.Fprintf(&buf, <const format>, <arg>) and returns format and arg.
func fprintfParts(ps *pkgs, s ast.Stmt) (string, ast.Expr, bool) {
	es, ok := s.(*ast.ExprStmt)
	if !ok {
		return "", nil, false
	}
	call, ok := es.X.(*ast.CallExpr)
	if !ok || len(call.Args) != 3 || exprString(call.Fun) != "fmt.Fprintf" || exprString(call.Args[0]) != "&buf" {
		return "", nil, false
	}
	f, ok := constString(ps.root, call.Args[1])
	if !ok {
		return "", nil, false
	}
	return f, call.Args[2], true
}

func genStyle(ps *pkgs, out string) {
	fd := findFunc(ps.root, "StyleFromProperties")
	if fd == nil || fd.Body == nil {
		fail("StyleFromProperties: function not found")
		return
	}
	stmts := fd.Body.List
	if len(stmts) < 3 {
		fail("StyleFromProperties: body too short")
		return
	}
	if ds, ok := stmts[0].(*ast.DeclStmt); !ok || !strings.Contains(nodeSrc(ps, ds), "buf bytes.Buffer") {
		fail("StyleFromProperties: first statement is not `var buf bytes.Buffer`")
	}
	if rs, ok := stmts[len(stmts)-1].(*ast.ReturnStmt); !ok || len(rs.Results) != 1 || nodeSrc(ps, rs) != "return Style{buf.String()}" {
		fail("StyleFromProperties: last statement is not `return Style{buf.String()}`")
	}
	var fields []styleField
	var sep, urlFmt, fontFmt string
	for _, st := range stmts[1 : len(stmts)-1] {
		is, ok := st.(*ast.IfStmt)
		if !ok || is.Init != nil || is.Else != nil {
			fail("StyleFromProperties: unexpected statement %q", nodeSrc(ps, st))
			continue
		}
		be, ok := is.Cond.(*ast.BinaryExpr)
		if !ok {
			fail("StyleFromProperties: unexpected condition %q", nodeSrc(ps, is.Cond))
			continue
		}
		// plain field: properties.X != ""
		if name, ok := propertiesField(be.X); ok && be.Op == token.NEQ {
			if s, ok := constString(ps.root, be.Y); !ok || s != "" {
				fail("StyleFromProperties: condition on %s is not `!= \"\"`", name)
				continue
			}
			if len(is.Body.List) != 1 {
				fail("StyleFromProperties: body of field %s has %d statements", name, len(is.Body.List))
				continue
			}
			f, arg, ok := fprintfParts(ps, is.Body.List[0])
			m := plainFormat.FindStringSubmatch(f)
			if !ok || m == nil {
				fail("StyleFromProperties: field %s: expected fmt.Fprintf(&buf, \"<name>:%%s;\", …), format %q", name, f)
				continue
			}
			call, ok := arg.(*ast.CallExpr)
			if !ok || exprString(call.Fun) != "filter" || len(call.Args) != 2 || exprString(call.Args[0]) != "properties."+name {
				fail("StyleFromProperties: field %s: value is not filter(properties.%s, <pattern>)", name, name)
				continue
			}
			kind := ""
			switch exprString(call.Args[1]) {
			case "safeEnumPropertyValuePattern":
				kind = "enum"
			case "safeRegularPropertyValuePattern":
				kind = "regular"
			default:
				fail("StyleFromProperties: field %s filtered by unknown pattern %s", name, exprString(call.Args[1]))
				continue
			}
			fields = append(fields, styleField{name, m[1], kind})
			continue
		}
		// list field: len(properties.X) > 0
		call, ok := be.X.(*ast.CallExpr)
		if !ok || exprString(call.Fun) != "len" || len(call.Args) != 1 || be.Op != token.GTR || exprString(be.Y) != "0" {
			fail("StyleFromProperties: unexpected condition %q", nodeSrc(ps, is.Cond))
			continue
		}
		name, ok := propertiesField(call.Args[0])
		if !ok {
			fail("StyleFromProperties: unexpected condition %q", nodeSrc(ps, is.Cond))
			continue
		}
		body := is.Body.List
		if len(body) != 3 {
			fail("StyleFromProperties: list field %s: body has %d statements, want 3", name, len(body))
			continue
		}
		head, ok1 := bufWrite(ps, body[0])
		tail, ok2 := bufWrite(ps, body[2])
		rng, ok3 := body[1].(*ast.RangeStmt)
		if !ok1 || !ok2 || !ok3 || !strings.HasSuffix(head, ":") || tail != ";" || exprString(rng.X) != "properties."+name {
			fail("StyleFromProperties: list field %s: expected WriteString(\"<name>:\"); for … range properties.%s {…}; Write(\";\")", name, name)
			continue
		}
		css := strings.TrimSuffix(head, ":")
		if !regexp.MustCompile(`^[a-z][a-z-]*$`).MatchString(css) {
			fail("StyleFromProperties: list field %s: property name %q", name, css)
			continue
		}
		// loop body: if i > 0 { buf.WriteString(sep) }  then the element emission
		lb := rng.Body.List
		if len(lb) < 2 {
			fail("StyleFromProperties: list field %s: loop body shape", name)
			continue
		}
		sepIf, ok := lb[0].(*ast.IfStmt)
		if !ok || exprString(sepIf.Cond) != "i > 0" || len(sepIf.Body.List) != 1 {
			fail("StyleFromProperties: list field %s: loop does not start with `if i > 0 {…}`", name)
			continue
		}
		s, ok := bufWrite(ps, sepIf.Body.List[0])
		if !ok || (sep != "" && sep != s) {
			fail("StyleFromProperties: list field %s: separator", name)
			continue
		}
		sep = s
		src := ""
		for _, x := range lb[1:] {
			src += nodeSrc(ps, x) + "\n"
		}
		elem := exprString(rng.Value)
		switch {
		case len(lb) == 2 && strings.Contains(src, "URLSanitized("):
			f, arg, ok := fprintfParts(ps, lb[1])
			if !ok || exprString(arg) != "cssEscapeString(URLSanitized("+elem+").String())" {
				fail("StyleFromProperties: list field %s: expected fmt.Fprintf(&buf, fmt, cssEscapeString(URLSanitized(x).String()))", name)
				continue
			}
			urlFmt = f
			fields = append(fields, styleField{name, css, "urlList"})
		case strings.Contains(src, "identifierPattern.MatchString("):
			want := "if identifierPattern.MatchString(" + elem + ") { buf.WriteString(" + elem + ") continue } " +
				"unescaped := " + elem + " " +
				"if len(" + elem + ") >= 3 && strings.HasPrefix(" + elem + ", `\"`) && strings.HasSuffix(" + elem + ", `\"`) { unescaped = " + elem + "[1 : len(" + elem + ")-1] } "
			norm := strings.Join(strings.Fields(src), " ") + " "
			if !strings.HasPrefix(norm, want) {
				fail("StyleFromProperties: list field %s: font-family element logic changed:\n%s", name, norm)
				continue
			}
			f, arg, ok := fprintfParts(ps, lb[len(lb)-1])
			if !ok || exprString(arg) != "cssEscapeString(unescaped)" || len(lb) != 5 {
				fail("StyleFromProperties: list field %s: expected final fmt.Fprintf(&buf, fmt, cssEscapeString(unescaped))", name)
				continue
			}
			fontFmt = f
			fields = append(fields, styleField{name, css, "fontList"})
		default:
			fail("StyleFromProperties: list field %s: unknown element logic", name)
		}
	}
	split := func(f, what string) (string, string) {
		i := strings.Index(f, "%s")
		if i < 0 || strings.Count(f, "%") != 1 {
			fail("StyleFromProperties: %s format %q", what, f)
			return "", ""
		}
		return f[:i], f[i+2:]
	}
	uo, uc := split(urlFmt, "url element")
	fo, fc := split(fontFmt, "font element")

	var b strings.Builder
	b.WriteString("-- GENERATED by tools/extract from /repo on every run. Do not edit.\n")
	b.WriteString("namespace SafeHtml.Generated.StyleFields\n\n")
	b.WriteString("inductive Kind where\n  | regular | enum | urlList | fontList\n  deriving Repr, DecidableEq\n\n")
	b.WriteString("structure Field where\n  goName : String\n  css : List Nat\n  cssName : String\n  kind : Kind\n  deriving Repr, DecidableEq\n\n")
	b.WriteString("/-- the `if` chain of style.go StyleFromProperties, in order -/\ndef fields : List Field := [\n")
	for i, f := range fields {
		comma := ","
		if i == len(fields)-1 {
			comma = ""
		}
		fmt.Fprintf(&b, "  ⟨%s, %s, %s, .%s⟩%s\n", leanStr(f.goName), leanBytes(f.css), leanStr(f.css), f.kind, comma)
	}
	b.WriteString("]\n\n")
	fmt.Fprintf(&b, "/-- separator between list elements -/\ndef listSep : List Nat := %s\n", leanBytes(sep))
	fmt.Fprintf(&b, "/-- `%s` -/\ndef urlOpen : List Nat := %s\ndef urlClose : List Nat := %s\n", strings.ReplaceAll(urlFmt, "\n", " "), leanBytes(uo), leanBytes(uc))
	fmt.Fprintf(&b, "/-- `%s` -/\ndef fontOpen : List Nat := %s\ndef fontClose : List Nat := %s\n", strings.ReplaceAll(fontFmt, "\n", " "), leanBytes(fo), leanBytes(fc))
	b.WriteString("\nend SafeHtml.Generated.StyleFields\n")
	writeFile(out, "StyleFields.lean", b.String())
}

// nodeSrc prints the source text of a node of the root package.
func nodeSrc(ps *pkgs, n ast.Node) string {
	fset := ps.root.Fset
	start := fset.Position(n.Pos())
	end := fset.Position(n.End())
	data, err := readFileCached(start.Filename)
	if err != nil || start.Offset < 0 || end.Offset > len(data) {
		return "<src?>"
	}
	return string(data[start.Offset:end.Offset])
}

var fileCache = map[string][]byte{}

func readFileCached(name string) ([]byte, error) {
	if d, ok := fileCache[name]; ok {
		return d, nil
	}
	d, err := os.ReadFile(name)
	if err == nil {
		fileCache[name] = d
	}
	return d, err
}
