package main
