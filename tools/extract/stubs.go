package main

func genLocks(ps *pkgs, out string)  {}
