package main

func genStyle(ps *pkgs, out string)  {}
func genApi(ps *pkgs, out string)    {}
func genLocks(ps *pkgs, out string)  {}
