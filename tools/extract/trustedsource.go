package main

// C20: facts read off the body of template.TrustedSourceFromConstantDir
// (template/trustedsource.go) → Generated/TrustedSource.lean.
//
// Expected shape (the two guards in either order, nothing else):
//
//	func TrustedSourceFromConstantDir(dir stringConstant, src TrustedSource, filename string) (TrustedSource, error) {
//		if i := strings.IndexAny(filename, string([]rune{<const>, ...})); i != -1 { return TrustedSource{}, <non-nil> }
//		if filename == <const string> { return TrustedSource{}, <non-nil> }
//		return TrustedSource{filepath.Join(string(dir), src.String(), filename)}, nil
//	}
//
// Emitted: the rune set of IndexAny (numeric values for the build platform), the special name,
// and the order in which (dir, src, filename) are passed to filepath.Join.

import (
	"fmt"
	"go/ast"
	"go/token"
	"go/types"
	"strings"
)

func genTrustedSource(ps *pkgs, out string) {
	const fn = "TrustedSourceFromConstantDir"
	p := ps.tmpl
	fd := findFunc(p, fn)
	if fd == nil || fd.Body == nil {
		fail("%s: function not found", fn)
		return
	}
	// parameters: exactly (dir, src, filename)
	var params []types.Object
	for _, f := range fd.Type.Params.List {
		for _, n := range f.Names {
			params = append(params, p.TypesInfo.Defs[n])
		}
	}
	if len(params) != 3 {
		fail("%s: expected 3 parameters, found %d", fn, len(params))
		return
	}
	if b, ok := params[2].Type().Underlying().(*types.Basic); !ok || b.Kind() != types.String {
		fail("%s: third parameter is not a string", fn)
		return
	}
	paramIndex := func(e ast.Expr) int {
		id, ok := e.(*ast.Ident)
		if !ok {
			return -1
		}
		obj := p.TypesInfo.Uses[id]
		for i, q := range params {
			if obj != nil && obj == q {
				return i
			}
		}
		return -1
	}
	// pkgFunc reports whether call is <pkgpath>.<name>(...)
	pkgFunc := func(call *ast.CallExpr, pkgpath, name string) bool {
		sel, ok := call.Fun.(*ast.SelectorExpr)
		if !ok || sel.Sel.Name != name {
			return false
		}
		id, ok := sel.X.(*ast.Ident)
		if !ok {
			return false
		}
		pn, ok := p.TypesInfo.Uses[id].(*types.PkgName)
		return ok && pn.Imported().Path() == pkgpath
	}
	isNil := func(e ast.Expr) bool {
		id, ok := e.(*ast.Ident)
		if !ok {
			return false
		}
		_, isNilObj := p.TypesInfo.Uses[id].(*types.Nil)
		return isNilObj
	}
	// an if-body that is exactly `return <zero TrustedSource>, <non-nil error>`
	returnsError := func(b *ast.BlockStmt) bool {
		if len(b.List) != 1 {
			return false
		}
		r, ok := b.List[0].(*ast.ReturnStmt)
		if !ok || len(r.Results) != 2 || isNil(r.Results[1]) {
			return false
		}
		cl, ok := r.Results[0].(*ast.CompositeLit)
		return ok && len(cl.Elts) == 0
	}

	stmts := fd.Body.List
	if len(stmts) != 3 {
		fail("%s: expected exactly two guards and a return, found %d statements", fn, len(stmts))
		return
	}
	var runes []int64
	var runeNames []string
	var special string
	haveAny, haveSpecial := false, false
	for _, st := range stmts[:2] {
		is, ok := st.(*ast.IfStmt)
		if !ok || is.Else != nil || !returnsError(is.Body) {
			fail("%s: guard is not `if … { return TrustedSource{}, err }`", fn)
			return
		}
		cond, ok := is.Cond.(*ast.BinaryExpr)
		if !ok {
			fail("%s: guard condition shape %s", fn, exprString(is.Cond))
			return
		}
		switch {
		case is.Init != nil:
			// i := strings.IndexAny(filename, string([]rune{...})); i != -1
			as, ok := is.Init.(*ast.AssignStmt)
			if !ok || as.Tok != token.DEFINE || len(as.Lhs) != 1 || len(as.Rhs) != 1 {
				fail("%s: IndexAny guard init shape", fn)
				return
			}
			iv, ok := as.Lhs[0].(*ast.Ident)
			call, ok2 := as.Rhs[0].(*ast.CallExpr)
			if !ok || !ok2 || !pkgFunc(call, "strings", "IndexAny") || len(call.Args) != 2 {
				fail("%s: guard does not call strings.IndexAny", fn)
				return
			}
			if paramIndex(call.Args[0]) != 2 {
				fail("%s: strings.IndexAny is not applied to the filename parameter itself but to %s", fn, exprString(call.Args[0]))
				return
			}
			// cond: i != -1
			cx, okx := cond.X.(*ast.Ident)
			cv, okv := constInt(p, cond.Y)
			if cond.Op != token.NEQ || !okx || !okv || cv != -1 || p.TypesInfo.Uses[cx] != p.TypesInfo.Defs[iv] {
				fail("%s: IndexAny guard condition is %s, expected i != -1", fn, exprString(cond))
				return
			}
			// string([]rune{a, b, ...})  or a constant string
			if cs, ok := constString(p, call.Args[1]); ok {
				for _, r := range cs {
					runes = append(runes, int64(r))
					runeNames = append(runeNames, fmt.Sprintf("%q", r))
				}
			} else {
				conv, ok := call.Args[1].(*ast.CallExpr)
				if !ok || len(conv.Args) != 1 {
					fail("%s: IndexAny chars shape", fn)
					return
				}
				if tv, ok := p.TypesInfo.Types[conv.Fun]; !ok || !tv.IsType() || tv.Type.String() != "string" {
					fail("%s: IndexAny chars is not a string(...) conversion", fn)
					return
				}
				cl, ok := conv.Args[0].(*ast.CompositeLit)
				if !ok {
					fail("%s: IndexAny chars is not string([]rune{…})", fn)
					return
				}
				if tv, ok := p.TypesInfo.Types[cl]; !ok || tv.Type.String() != "[]rune" && tv.Type.String() != "[]int32" {
					fail("%s: IndexAny chars literal is not a []rune", fn)
					return
				}
				for _, el := range cl.Elts {
					v, ok := constInt(p, el)
					if !ok {
						fail("%s: non-constant rune in the IndexAny set", fn)
						return
					}
					runes = append(runes, v)
					runeNames = append(runeNames, exprString(el))
				}
			}
			if haveAny {
				fail("%s: two IndexAny guards", fn)
				return
			}
			haveAny = true
		default:
			// filename == ".."
			if cond.Op != token.EQL {
				fail("%s: special-name guard condition is %s", fn, exprString(cond))
				return
			}
			x, y := cond.X, cond.Y
			if paramIndex(x) != 2 {
				x, y = y, x
			}
			s, ok := constString(p, y)
			if paramIndex(x) != 2 || !ok {
				fail("%s: special-name guard is %s, expected filename == <constant>", fn, exprString(cond))
				return
			}
			if haveSpecial {
				fail("%s: two special-name guards", fn)
				return
			}
			special, haveSpecial = s, true
		}
	}
	if !haveAny || !haveSpecial {
		fail("%s: expected one IndexAny guard and one special-name guard", fn)
		return
	}
	// return TrustedSource{filepath.Join(string(dir), src.String(), filename)}, nil
	ret, ok := stmts[2].(*ast.ReturnStmt)
	if !ok || len(ret.Results) != 2 || !isNil(ret.Results[1]) {
		fail("%s: final statement is not `return …, nil`", fn)
		return
	}
	cl, ok := ret.Results[0].(*ast.CompositeLit)
	if !ok || len(cl.Elts) != 1 {
		fail("%s: result is not TrustedSource{<one expr>}", fn)
		return
	}
	if tv, ok := p.TypesInfo.Types[cl]; !ok || !strings.HasSuffix(tv.Type.String(), "template.TrustedSource") {
		fail("%s: result literal is not a TrustedSource", fn)
		return
	}
	val := cl.Elts[0]
	if kv, ok := val.(*ast.KeyValueExpr); ok {
		val = kv.Value
	}
	jc, ok := val.(*ast.CallExpr)
	if !ok || !pkgFunc(jc, "path/filepath", "Join") || jc.Ellipsis.IsValid() {
		fail("%s: result is not filepath.Join(...)", fn)
		return
	}
	var order []int64
	for _, a := range jc.Args {
		idx := -1
		switch x := a.(type) {
		case *ast.Ident:
			idx = paramIndex(x) // filename (a string)
			if idx != 2 {
				idx = -1
			}
		case *ast.CallExpr:
			if len(x.Args) == 1 { // string(dir)
				if tv, ok := p.TypesInfo.Types[x.Fun]; ok && tv.IsType() && tv.Type.String() == "string" && paramIndex(x.Args[0]) == 0 {
					idx = 0
				}
			} else if len(x.Args) == 0 { // src.String()
				if sel, ok := x.Fun.(*ast.SelectorExpr); ok && sel.Sel.Name == "String" && paramIndex(sel.X) == 1 {
					idx = 1
				}
			}
		}
		if idx < 0 {
			fail("%s: filepath.Join argument %s is not string(dir), src.String() or filename", fn, exprString(a))
			return
		}
		order = append(order, int64(idx))
	}
	// TrustedSource.String must be the plain accessor
	if sm := findMethod(p, "TrustedSource", "String"); sm == nil || sm.Body == nil || len(sm.Body.List) != 1 {
		fail("TrustedSource.String: not a one-line accessor")
		return
	} else if r, ok := sm.Body.List[0].(*ast.ReturnStmt); !ok || len(r.Results) != 1 || exprString(r.Results[0]) != sm.Recv.List[0].Names[0].Name+".src" {
		fail("TrustedSource.String: does not return the src field")
		return
	}

	var b strings.Builder
	b.WriteString("-- GENERATED by tools/extract from /repo on every run. Do not edit.\n")
	b.WriteString("namespace SafeHtml.Generated.TrustedSource\n\n")
	fmt.Fprintf(&b, "/-- template/trustedsource.go %s: runes of `strings.IndexAny(filename, string([]rune{…}))`\n    (%s), values for the build platform -/\n", fn, strings.Join(runeNames, ", "))
	fmt.Fprintf(&b, "def indexAnyRunes : List Nat := %s\n\n", leanNatList(runes))
	fmt.Fprintf(&b, "/-- the special name compared with `filename ==` -/\ndef specialName : List Nat := %s\n\n", leanBytes(special))
	fmt.Fprintf(&b, "/-- arguments of the final `filepath.Join(…)`, in order: 0 = string(dir), 1 = src.String(), 2 = filename -/\n")
	fmt.Fprintf(&b, "def joinArgs : List Nat := %s\n\n", leanNatList(order))
	b.WriteString("end SafeHtml.Generated.TrustedSource\n")
	writeFile(out, "TrustedSource.lean", b.String())
}
