package main

import (
	"fmt"
	"go/ast"
	"go/token"
	"sort"
	"strings"
	"unicode"
)

func leanNatList(xs []int64) string {
	var q []string
	for _, x := range xs {
		q = append(q, fmt.Sprint(x))
	}
	return "[" + strings.Join(q, ", ") + "]"
}

func leanPairList(xs [][2]int64) string {
	var q []string
	for _, x := range xs {
		q = append(q, fmt.Sprintf("(%d, %d)", x[0], x[1]))
	}
	return "[" + strings.Join(q, ", ") + "]"
}

// rangeTableLiteral reads `&unicode.RangeTable{R16: []unicode.Range16{{lo,hi,stride},...}, R32: ...}`.
func rangeTableLiteral(ps *pkgs, e ast.Expr, what string) [][2]int64 {
	if u, ok := e.(*ast.UnaryExpr); ok && u.Op == token.AND {
		e = u.X
	}
	cl, ok := e.(*ast.CompositeLit)
	if !ok {
		fail("%s: not a composite literal", what)
		return nil
	}
	var out [][2]int64
	for _, el := range cl.Elts {
		kv, ok := el.(*ast.KeyValueExpr)
		if !ok {
			fail("%s: unkeyed field", what)
			return nil
		}
		key := kv.Key.(*ast.Ident).Name
		if key == "LatinOffset" {
			continue
		}
		if key != "R16" && key != "R32" {
			fail("%s: unexpected field %s", what, key)
			return nil
		}
		lst, ok := kv.Value.(*ast.CompositeLit)
		if !ok {
			fail("%s: %s is not a literal", what, key)
			return nil
		}
		for _, r := range lst.Elts {
			rl, ok := r.(*ast.CompositeLit)
			if !ok || len(rl.Elts) != 3 {
				fail("%s: range entry shape", what)
				return nil
			}
			var v [3]int64
			for i, x := range rl.Elts {
				if kv, ok := x.(*ast.KeyValueExpr); ok {
					x = kv.Value
				}
				n, ok := constInt(ps.root, x)
				if !ok {
					fail("%s: non-constant range bound", what)
					return nil
				}
				v[i] = n
			}
			if v[2] == 1 {
				out = append(out, [2]int64{v[0], v[1]})
			} else {
				for c := v[0]; c <= v[1]; c += v[2] {
					out = append(out, [2]int64{c, c})
				}
			}
		}
	}
	return out
}

func stdRangeTable(t *unicode.RangeTable) [][2]int64 {
	var out [][2]int64
	for _, r := range t.R16 {
		if r.Stride == 1 {
			out = append(out, [2]int64{int64(r.Lo), int64(r.Hi)})
		} else {
			for c := int64(r.Lo); c <= int64(r.Hi); c += int64(r.Stride) {
				out = append(out, [2]int64{c, c})
			}
		}
	}
	for _, r := range t.R32 {
		if r.Stride == 1 {
			out = append(out, [2]int64{int64(r.Lo), int64(r.Hi)})
		} else {
			for c := int64(r.Lo); c <= int64(r.Hi); c += int64(r.Stride) {
				out = append(out, [2]int64{c, c})
			}
		}
	}
	return out
}

// boolTableAssignments collects `name[<const>] = true` statements of func init.
func boolTableAssignments(ps *pkgs, name string) []int64 {
	fd := findFunc(ps.root, "init")
	var out []int64
	found := false
	for _, f := range ps.root.Syntax {
		for _, d := range f.Decls {
			fn, ok := d.(*ast.FuncDecl)
			if !ok || fn.Name.Name != "init" || fn.Body == nil {
				continue
			}
			for _, st := range fn.Body.List {
				as, ok := st.(*ast.AssignStmt)
				if !ok || len(as.Lhs) != 1 || len(as.Rhs) != 1 {
					continue
				}
				ix, ok := as.Lhs[0].(*ast.IndexExpr)
				if !ok {
					continue
				}
				id, ok := ix.X.(*ast.Ident)
				if !ok || id.Name != name {
					continue
				}
				found = true
				rhs, ok := as.Rhs[0].(*ast.Ident)
				if !ok || (rhs.Name != "true" && rhs.Name != "false") {
					fail("%s: assignment of a non-literal", name)
					continue
				}
				n, ok := constInt(ps.root, ix.Index)
				if !ok {
					fail("%s: non-constant index", name)
					continue
				}
				if rhs.Name == "true" {
					out = append(out, n)
				} else {
					// a later `= false` removes
					var o2 []int64
					for _, x := range out {
						if x != n {
							o2 = append(o2, x)
						}
					}
					out = o2
				}
			}
		}
	}
	_ = fd
	if !found {
		fail("%s: no assignments found in init()", name)
	}
	sort.Slice(out, func(i, j int) bool { return out[i] < out[j] })
	return out
}

// urlProcessorCases extracts the case lists of the switch in safehtmlutil.urlProcessor.
func urlProcessorCases(ps *pkgs) (normOnly, always, percent []int64, defRanges [][2]int64) {
	fd := findFunc(ps.util, "urlProcessor")
	if fd == nil {
		fail("urlProcessor: function not found")
		return
	}
	var sw *ast.SwitchStmt
	ast.Inspect(fd.Body, func(n ast.Node) bool {
		if s, ok := n.(*ast.SwitchStmt); ok && sw == nil {
			sw = s
		}
		return true
	})
	if sw == nil {
		fail("urlProcessor: switch not found")
		return
	}
	consts := func(cc *ast.CaseClause) []int64 {
		var xs []int64
		for _, e := range cc.List {
			n, ok := constInt(ps.util, e)
			if !ok {
				fail("urlProcessor: non-constant case")
			}
			xs = append(xs, n)
		}
		return xs
	}
	isContinue := func(s ast.Stmt) bool {
		b, ok := s.(*ast.BranchStmt)
		return ok && b.Tok == token.CONTINUE
	}
	for _, st := range sw.Body.List {
		cc := st.(*ast.CaseClause)
		if cc.List == nil { // default
			for _, s := range cc.Body {
				is, ok := s.(*ast.IfStmt)
				if !ok || len(is.Body.List) != 1 || !isContinue(is.Body.List[0]) {
					fail("urlProcessor: default branch shape")
					continue
				}
				be, ok := is.Cond.(*ast.BinaryExpr)
				if !ok || be.Op != token.LAND {
					fail("urlProcessor: default cond shape")
					continue
				}
				l, ok1 := be.X.(*ast.BinaryExpr)
				r, ok2 := be.Y.(*ast.BinaryExpr)
				if !ok1 || !ok2 || l.Op != token.LEQ || r.Op != token.LEQ {
					fail("urlProcessor: default cond shape")
					continue
				}
				lo, ok1 := constInt(ps.util, l.X)
				hi, ok2 := constInt(ps.util, r.Y)
				if !ok1 || !ok2 {
					fail("urlProcessor: default cond bounds")
					continue
				}
				defRanges = append(defRanges, [2]int64{lo, hi})
			}
			continue
		}
		if len(cc.Body) != 1 {
			fail("urlProcessor: case body shape")
			continue
		}
		if isContinue(cc.Body[0]) {
			always = append(always, consts(cc)...)
			continue
		}
		is, ok := cc.Body[0].(*ast.IfStmt)
		if !ok || len(is.Body.List) != 1 || !isContinue(is.Body.List[0]) {
			fail("urlProcessor: case body shape")
			continue
		}
		if id, ok := is.Cond.(*ast.Ident); ok && id.Name == "norm" {
			normOnly = append(normOnly, consts(cc)...)
			continue
		}
		// the '%' case: norm && i+2 < len(s) && isHex(s[i+1]) && isHex(s[i+2])
		src := exprString(is.Cond)
		if src != "norm && i+2 < len(s) && isHex(s[i+1]) && isHex(s[i+2])" {
			fail("urlProcessor: percent case condition is %q", src)
		}
		percent = append(percent, consts(cc)...)
	}
	return
}

func exprString(e ast.Expr) string {
	var b strings.Builder
	writeExpr(&b, e)
	return b.String()
}

func writeExpr(b *strings.Builder, e ast.Expr) {
	switch x := e.(type) {
	case *ast.Ident:
		b.WriteString(x.Name)
	case *ast.BasicLit:
		b.WriteString(x.Value)
	case *ast.BinaryExpr:
		writeExpr(b, x.X)
		if x.Op == token.ADD || x.Op == token.SUB || x.Op == token.MUL {
			b.WriteString(x.Op.String())
		} else {
			b.WriteString(" " + x.Op.String() + " ")
		}
		writeExpr(b, x.Y)
	case *ast.CallExpr:
		writeExpr(b, x.Fun)
		b.WriteString("(")
		for i, a := range x.Args {
			if i > 0 {
				b.WriteString(", ")
			}
			writeExpr(b, a)
		}
		b.WriteString(")")
	case *ast.IndexExpr:
		writeExpr(b, x.X)
		b.WriteString("[")
		writeExpr(b, x.Index)
		b.WriteString("]")
	case *ast.SelectorExpr:
		writeExpr(b, x.X)
		b.WriteString("." + x.Sel.Name)
	case *ast.ParenExpr:
		b.WriteString("(")
		writeExpr(b, x.X)
		b.WriteString(")")
	case *ast.UnaryExpr:
		b.WriteString(x.Op.String())
		writeExpr(b, x.X)
	case *ast.StarExpr:
		b.WriteString("*")
		writeExpr(b, x.X)
	default:
		fmt.Fprintf(b, "<%T>", e)
	}
}

func genTables(ps *pkgs, out string) {
	var b strings.Builder
	b.WriteString("-- GENERATED by tools/extract from /repo on every run. Do not edit.\n")
	b.WriteString("namespace SafeHtml.Generated.Tables\n\n")

	// html.go: controlChar, and the merged table with the installed stdlib's noncharacters
	cc := findVarInit(ps.root, "controlChar")
	if cc == nil {
		fail("controlChar: variable not found")
	} else {
		rs := rangeTableLiteral(ps, cc, "controlChar")
		fmt.Fprintf(&b, "/-- html.go controlChar -/\ndef controlChar : List (Nat × Nat) := %s\n\n", leanPairList(rs))
	}
	merged := findVarInit(ps.root, "controlAndNonCharacter")
	if merged == nil || exprString(merged) != "rangetable.Merge(unicode.Noncharacter_Code_Point, controlChar)" {
		fail("controlAndNonCharacter: expected rangetable.Merge(unicode.Noncharacter_Code_Point, controlChar)")
	}
	fmt.Fprintf(&b, "/-- unicode.Noncharacter_Code_Point of the installed Go -/\ndef nonCharacter : List (Nat × Nat) := %s\n\n",
		leanPairList(stdRangeTable(unicode.Noncharacter_Code_Point)))

	// urlset.go
	fmt.Fprintf(&b, "def asciiWhitespace : List Nat := %s\n", leanNatList(boolTableAssignments(ps, "asciiWhitespace")))
	fmt.Fprintf(&b, "def srcsetMetachars : List Nat := %s\n\n", leanNatList(boolTableAssignments(ps, "srcsetMetachars")))

	// safehtmlutil.urlProcessor
	no, al, pc, dr := urlProcessorCases(ps)
	fmt.Fprintf(&b, "/-- urlProcessor: bytes kept only when normalising -/\ndef urlProcNormOnly : List Nat := %s\n", leanNatList(no))
	fmt.Fprintf(&b, "/-- urlProcessor: bytes always kept -/\ndef urlProcAlways : List Nat := %s\n", leanNatList(al))
	fmt.Fprintf(&b, "/-- urlProcessor: the percent case -/\ndef urlProcPercent : List Nat := %s\n", leanNatList(pc))
	fmt.Fprintf(&b, "/-- urlProcessor: default-branch kept ranges -/\ndef urlProcDefaultRanges : List (Nat × Nat) := %s\n\n", leanPairList(dr))

	// constants
	if s, ok := constOf(ps, "root", "InnocuousURL"); ok {
		fmt.Fprintf(&b, "def innocuousURL : List Nat := %s\n", leanBytes(s))
	} else {
		fail("InnocuousURL constant")
	}
	if s, ok := constOf(ps, "root", "InnocuousPropertyValue"); ok {
		fmt.Fprintf(&b, "def innocuousPropertyValue : List Nat := %s\n", leanBytes(s))
	} else {
		fail("InnocuousPropertyValue constant")
	}
	b.WriteString("\nend SafeHtml.Generated.Tables\n")
	writeFile(out, "Tables.lean", b.String())
}

func constOf(ps *pkgs, which, name string) (string, bool) {
	p := ps.root
	if which == "tmpl" {
		p = ps.tmpl
	}
	obj := p.Types.Scope().Lookup(name)
	if obj == nil {
		return "", false
	}
	c, ok := obj.(interface{ Val() interface{ ExactString() string } })
	_ = c
	_ = ok
	for _, f := range p.Syntax {
		for _, d := range f.Decls {
			gd, ok := d.(*ast.GenDecl)
			if !ok || gd.Tok != token.CONST {
				continue
			}
			for _, s := range gd.Specs {
				vs := s.(*ast.ValueSpec)
				for i, n := range vs.Names {
					if n.Name == name && i < len(vs.Values) {
						return constString(p, vs.Values[i])
					}
				}
			}
		}
	}
	return "", false
}
