// apiprobe: the parts of the C19 check that need the REAL Go toolchain rather than go/types.
//
//	apiprobe gobuild <run-dir> <quick|thorough> <work-dir>
//	    takes the client programs of a harness run (<run-dir>/ops.txt, real.txt: last op argument =
//	    program text, real result = go/types verdict), writes each into its own package of a scratch
//	    module that `replace`s github.com/google/safehtml by VERIF_REPO, compiles them with
//	    `go build` (gc, build tag verif off) and compares gc's verdict with go/types' verdict.
//	    quick: every hand-written probe + every 12th generated program; thorough: all.
//
//	apiprobe run <work-dir>
//	    builds and RUNS one witness program per known finding (does the safe-type value really carry
//	    the unsanitized run-time string?) and the ParseFS confinement probe (do rooted / dot-dot
//	    patterns fail on a TrustedFS?).
//
// Both print one JSON object on stdout. Exit status 0 unless the tool itself could not run.
package main

import (
	"bytes"
	"encoding/hex"
	"encoding/json"
	"fmt"
	"os"
	"os/exec"
	"path/filepath"
	"regexp"
	"sort"
	"strings"
)

func repoDir() string {
	if r := os.Getenv("VERIF_REPO"); r != "" {
		return r
	}
	return "/repo"
}

func goEnv() []string {
	return append(os.Environ(), "GOFLAGS=-mod=mod", "GOPROXY=off", "GOSUMDB=off", "GOTOOLCHAIN=local", "CGO_ENABLED=0")
}

func writeModule(dir string) error {
	if err := os.MkdirAll(dir, 0o755); err != nil {
		return err
	}
	mod := "module client\n\ngo 1.22\n\nrequire github.com/google/safehtml v0.0.0\n\nreplace github.com/google/safehtml => " + repoDir() + "\n"
	return os.WriteFile(filepath.Join(dir, "go.mod"), []byte(mod), 0o644)
}

func die(v ...interface{}) {
	fmt.Fprintln(os.Stderr, v...)
	os.Exit(2)
}

func lastArg(opline string) (string, string, bool) {
	f := strings.Fields(opline)
	if len(f) < 2 {
		return "", "", false
	}
	a := f[len(f)-1]
	if a == "-" {
		return f[0], "", true
	}
	b, err := hex.DecodeString(a)
	if err != nil {
		return "", "", false
	}
	return f[0], string(b), true
}

var (
	pkgHdr   = regexp.MustCompile(`(?m)^# client/(p\d+)`)
	loadErr1 = regexp.MustCompile(`(?m)^package client/(p\d+)`)
	loadErr2 = regexp.MustCompile(`(?m)^(p\d+)/client\.go:\d+:\d+: `)
)

func gobuild(runDir, tier, work string) {
	opsB, err := os.ReadFile(filepath.Join(runDir, "ops.txt"))
	if err != nil {
		die(err)
	}
	realB, err := os.ReadFile(filepath.Join(runDir, "real.txt"))
	if err != nil {
		die(err)
	}
	ops := strings.Split(strings.TrimRight(string(opsB), "\n"), "\n")
	real := strings.Split(strings.TrimRight(string(realB), "\n"), "\n")
	if len(ops) != len(real) {
		die("ops/real length mismatch")
	}
	os.RemoveAll(work)
	if err := writeModule(work); err != nil {
		die(err)
	}
	type item struct {
		dir, op, want string
	}
	var items []item
	seen := map[string]bool{}
	for i, o := range ops {
		name, src, ok := lastArg(o)
		if !ok || !strings.HasPrefix(name, "api.") {
			continue
		}
		if tier != "thorough" && name != "api.probe" && i%12 != 0 {
			continue
		}
		if seen[src] {
			continue
		}
		seen[src] = true
		d := fmt.Sprintf("p%05d", i)
		if err := os.MkdirAll(filepath.Join(work, d), 0o755); err != nil {
			die(err)
		}
		if err := os.WriteFile(filepath.Join(work, d, "client.go"), []byte(src), 0o644); err != nil {
			die(err)
		}
		items = append(items, item{d, o, real[i]})
	}
	rejected := map[string]bool{}
	var lastOut string
	for round := 0; round < 4; round++ {
		cmd := exec.Command("go", "build", "-gcflags=-e", "./...")
		cmd.Dir = work
		cmd.Env = goEnv()
		out, _ := cmd.CombinedOutput()
		lastOut = string(out)
		for _, m := range pkgHdr.FindAllStringSubmatch(lastOut, -1) {
			rejected[m[1]] = true
		}
		// load errors (e.g. use of internal package) stop the build: drop those packages and retry
		again := false
		for _, re := range []*regexp.Regexp{loadErr1, loadErr2} {
			for _, m := range re.FindAllStringSubmatch(lastOut, -1) {
				if !rejected[m[1]] {
					rejected[m[1]] = true
				}
				if _, err := os.Stat(filepath.Join(work, m[1])); err == nil {
					os.RemoveAll(filepath.Join(work, m[1]))
					again = true
				}
			}
		}
		if !again {
			break
		}
	}
	type mism struct {
		Op      string `json:"op"`
		GoTypes string `json:"go_types"`
		Gc      string `json:"gc"`
	}
	res := struct {
		Programs   int    `json:"gc_programs"`
		Compiles   int    `json:"gc_compiles"`
		Rejected   int    `json:"gc_rejected"`
		Mismatches []mism `json:"gc_mismatches"`
		Tail       string `json:"gc_output_tail,omitempty"`
	}{Programs: len(items)}
	for _, it := range items {
		gc := "compiles"
		if rejected[it.dir] {
			gc = "rejected"
			res.Rejected++
		} else {
			res.Compiles++
		}
		if gc != it.want {
			res.Mismatches = append(res.Mismatches, mism{it.op, it.want, gc})
		}
	}
	if len(items) > 0 && res.Compiles == len(items) && strings.Contains(lastOut, "go:") {
		// nothing rejected and the go command complained: the build itself did not run
		res.Tail = lastOut
		if len(res.Tail) > 600 {
			res.Tail = res.Tail[len(res.Tail)-600:]
		}
	}
	js, _ := json.Marshal(res)
	fmt.Println(string(js))
}

// ---- runtime witnesses --------------------------------------------------------------------------

const payload = `<script>alert(1)</script>`

var runProgs = map[string]string{
	"struct-conversion": `package main

import (
	"fmt"
	"os"
	"strings"

	"github.com/google/safehtml"
)

func main() {
	dyn := os.Args[1]
	h := safehtml.HTML(safehtml.URLSanitized("http://x/" + dyn))
	t := safehtml.TrustedResourceURL(safehtml.URLSanitized("https://evil.example/" + dyn))
	fmt.Printf("RESULT %v HTML=%q TrustedResourceURL=%q\n", strings.Contains(h.String(), dyn) && strings.Contains(t.String(), dyn), h.String(), t.String())
}
`,
	"flag-value": `package main

import (
	"fmt"
	"os"

	"github.com/google/safehtml"
	"github.com/google/safehtml/template"
)

type v struct{ s string }

func (x v) String() string   { return x.s }
func (x v) Set(string) error { return nil }

func main() {
	dyn := os.Args[1]
	t := safehtml.TrustedResourceURLFromFlag(v{"javascript:" + dyn})
	s := template.TrustedSourceFromFlag(v{"/etc/" + dyn})
	fmt.Printf("RESULT %v TrustedResourceURL=%q TrustedSource=%q\n", t.String() == "javascript:"+dyn && s.String() == "/etc/"+dyn, t.String(), s.String())
}
`,
	"exported-tree": `package main

import (
	"fmt"
	"os"
	"strings"
	"text/template/parse"

	"github.com/google/safehtml/template"
)

func main() {
	dyn := os.Args[1]
	t := template.Must(template.New("t").Parse("<p>hello</p>"))
	t.Tree.Root.Nodes = append(t.Tree.Root.Nodes, &parse.TextNode{NodeType: parse.NodeText, Text: []byte(dyn)})
	h, err := t.ExecuteToHTML(nil)
	fmt.Printf("RESULT %v HTML=%q err=%v\n", err == nil && strings.Contains(h.String(), dyn), h.String(), err)
}
`,
	"funcs-override": `package main

import (
	"fmt"
	"os"
	"strings"

	"github.com/google/safehtml/template"
)

func main() {
	dyn := os.Args[1]
	t := template.Must(template.New("t").Parse("<p>{{.}}</p>"))
	t.ExecuteToHTML("warm-up")
	t.Funcs(template.FuncMap{"_sanitizeHTML": func(args ...interface{}) string { return fmt.Sprint(args...) }})
	h, err := t.ExecuteToHTML(dyn)
	fmt.Printf("RESULT %v HTML=%q err=%v\n", err == nil && strings.Contains(h.String(), dyn), h.String(), err)
}
`,
	"generic-inference": `package main

import (
	"fmt"
	"os"
	"strings"

	"github.com/google/safehtml"
	"github.com/google/safehtml/template"
)

func conv[T ~string, R any](f func(T) R, s string) R { return f(T(s)) }

func conv2[T ~string](f func(T) (*template.Template, error), s string) (*template.Template, error) {
	return f(T(s))
}

func main() {
	dyn := os.Args[1]
	sc := conv(safehtml.ScriptFromConstant, dyn)
	t, err := conv2(template.New("t").Parse, "<p>"+dyn+"</p>")
	out := ""
	if err == nil {
		h, e := t.ExecuteToHTML(nil)
		out, err = h.String(), e
	}
	fmt.Printf("RESULT %v Script=%q HTML=%q err=%v\n", sc.String() == dyn && strings.Contains(out, dyn), sc.String(), out, err)
}
`,
	// not a finding: dynamic ParseFS patterns stay inside the TrustedFS
	"parsefs-confined": `package main

import (
	"fmt"
	"os"
	"path/filepath"

	"github.com/google/safehtml/template"
)

func main() {
	root, _ := os.MkdirTemp("", "apiprobe")
	defer os.RemoveAll(root)
	os.MkdirAll(filepath.Join(root, "in", "sub"), 0o755)
	os.WriteFile(filepath.Join(root, "in", "a.tmpl"), []byte("<p>a</p>"), 0o644)
	os.WriteFile(filepath.Join(root, "in", "sub", "b.tmpl"), []byte("<p>b</p>"), 0o644)
	os.WriteFile(filepath.Join(root, "secret.tmpl"), []byte("<p>secret</p>"), 0o644)
	os.Setenv("APIPROBE_DIR", filepath.Join(root, "in"))
	tfs := template.TrustedFSFromTrustedSource(template.TrustedSourceFromEnvVar("APIPROBE_DIR"))
	inside := []string{"a.tmpl", "sub/b.tmpl", "*.tmpl"}
	outside := []string{"../secret.tmpl", filepath.Join(root, "secret.tmpl"), "/" + "etc/passwd", "sub/../../secret.tmpl",
		"./../secret.tmpl", "..", "../*", "sub/../../*.tmpl", "a.tmpl/../../secret.tmpl", "..\\secret.tmpl"}
	ok := true
	detail := ""
	for _, p := range inside {
		if _, err := template.ParseFS(tfs, os.Args[1]+p); err != nil {
			ok = false
			detail += fmt.Sprintf(" inside %q failed: %v;", p, err)
		}
	}
	for _, p := range outside {
		if t, err := template.ParseFS(tfs, os.Args[1]+p); err == nil {
			ok = false
			detail += fmt.Sprintf(" OUTSIDE %q parsed: %s;", p, t.DefinedTemplates())
		}
	}
	// the zero TrustedFS wraps no file system: a dynamic pattern must not reach the working directory (or anything else)
	os.Chdir(root)
	for _, p := range []string{"secret.tmpl", "*.tmpl", "in/a.tmpl", "*"} {
		func() {
			defer func() { recover() }() // a panic yields no template either
			if t, err := template.ParseFS(template.TrustedFS{}, os.Args[1]+p); err == nil {
				ok = false
				detail += fmt.Sprintf(" ZERO TrustedFS %q parsed: %s;", p, t.DefinedTemplates())
			}
			if t, err := template.New("n").ParseFS(template.TrustedFS{}, os.Args[1]+p); err == nil {
				ok = false
				detail += fmt.Sprintf(" ZERO TrustedFS (method) %q parsed: %s;", p, t.DefinedTemplates())
			}
		}()
	}
	fmt.Printf("RESULT %v inside=%d outside=%d%s\n", ok, len(inside), len(outside), detail)
}
`,
}

func runWitnesses(work string) {
	os.RemoveAll(work)
	if err := writeModule(work); err != nil {
		die(err)
	}
	names := make([]string, 0, len(runProgs))
	for k := range runProgs {
		names = append(names, k)
	}
	sort.Strings(names)
	type r struct {
		Reproduced bool   `json:"ok"`
		Output     string `json:"output"`
	}
	res := map[string]r{}
	for _, n := range names {
		d := filepath.Join(work, strings.ReplaceAll(n, "-", "_"))
		os.MkdirAll(d, 0o755)
		os.WriteFile(filepath.Join(d, "main.go"), []byte(runProgs[n]), 0o644)
		arg := payload
		if n == "parsefs-confined" {
			arg = "" // prefix of every pattern, passed at run time so that the patterns are not constants
		}
		cmd := exec.Command("go", "run", "./"+filepath.Base(d), arg)
		cmd.Dir = work
		cmd.Env = goEnv()
		var out bytes.Buffer
		cmd.Stdout, cmd.Stderr = &out, &out
		cmd.Run()
		s := strings.TrimSpace(out.String())
		if len(s) > 700 {
			s = s[:700]
		}
		res[n] = r{strings.Contains(s, "RESULT true"), s}
	}
	js, _ := json.Marshal(res)
	fmt.Println(string(js))
}

func main() {
	if len(os.Args) == 5 && os.Args[1] == "gobuild" {
		gobuild(os.Args[2], os.Args[3], os.Args[4])
		return
	}
	if len(os.Args) == 3 && os.Args[1] == "run" {
		runWitnesses(os.Args[2])
		return
	}
	die("usage: apiprobe gobuild <run-dir> <quick|thorough> <work-dir> | apiprobe run <work-dir>")
}
