package safehtml

import "testing"

// TestDemoURLSetSanitizedIdempotent checks that sanitizing an already
// sanitized srcset value changes nothing, including when a rejected candidate
// that carries a descriptor sits between a bare URL and a later candidate.
func TestDemoURLSetSanitizedIdempotent(t *testing.T) {
	inputs := []string{
		"a.png, b.png 2x",
		"a.png 1x, b.png 2x",
		"a.png , b.png",
		"a.png , javascript:alert(1) , b.png 2x",
		"a.png , javascript:alert(1) 1x , b.png 2x",
		"a.png,\tjavascript:alert(1) 2x\f,\rb.png",
		"/img/a,b.png , x 1e400zz , /img/c.png 640w , /img/d.png",
	}
	for _, in := range inputs {
		once := URLSetSanitized(in).String()
		twice := URLSetSanitized(once).String()
		if once != twice {
			t.Errorf("URLSetSanitized not idempotent for %q:\n first:  %q\n second: %q", in, once, twice)
		}
	}
}
