package safehtml

import (
	"strings"
	"testing"
)

// whatwgScheme returns the lower-cased scheme a WHATWG URL parser would find in s
// (after stripping leading/trailing C0 controls and space and removing TAB/LF/CR), or "".
func whatwgSchemeDemo(s string) string {
	s = strings.TrimFunc(s, func(r rune) bool { return r <= 0x20 })
	s = strings.NewReplacer("\t", "", "\n", "", "\r", "").Replace(s)
	for i := 0; i < len(s); i++ {
		c := s[i]
		switch {
		case 'a' <= c && c <= 'z' || 'A' <= c && c <= 'Z':
		case i > 0 && ('0' <= c && c <= '9' || c == '+' || c == '-' || c == '.'):
		case c == ':' && i > 0:
			return strings.ToLower(s[:i])
		default:
			return ""
		}
	}
	return ""
}

func TestDemoURLSanitizedControlCharsInScheme(t *testing.T) {
	inputs := []string{
		"java\rscript:alert(1)",
		"\rjavascript:alert(1)",
		"JaVaScRiPt\r:alert(1)",
		"\x10javascript:alert(1)",
		"\x0bjavascript:alert(1)",
		"\x0e\x19JAVASCRIPT:alert(1)",
		"j\ra\rv\ra\rscript:alert(1)",
		// sanity: ordinary ones
		"javascript:alert(1)",
		"JavaScript:alert(1)",
		"java\tscript:alert(1)",
		" javascript:alert(1)",
	}
	for _, in := range inputs {
		got := URLSanitized(in).String()
		if got != in && got != InnocuousURL {
			t.Errorf("URLSanitized(%q) = %q, neither input nor innocuous", in, got)
		}
		if got == in && whatwgSchemeDemo(got) == "javascript" {
			t.Errorf("URLSanitized(%q) returned its input, which a browser parses as a javascript: URL", in)
		}
	}
	// Converse: benign inputs are returned unchanged.
	for _, in := range []string{"http://a/b?c&d:e", "mailto:x@y", "foo/bar:baz", "a-b.c+d:rest", "HTTPS://X", "", "x"} {
		if got := URLSanitized(in).String(); got != in {
			t.Errorf("URLSanitized(%q) = %q, want unchanged", in, got)
		}
	}
}
