package template

import (
	"path/filepath"
	"strings"
	"testing"
)

// TestDemoConstantDirParentEscape checks that the dynamic filename ".." is
// rejected whatever the shape of the constant directory, and that any accepted
// result stays inside the cleaned join of dir and src.
func TestDemoConstantDirParentEscape(t *testing.T) {
	c := TrustedSourceFromConstant
	for _, tc := range []struct {
		dir string
		src TrustedSource
	}{
		{"", TrustedSource{}},
		{"", c("")},
		{".", c("")},
		{"./", c(".")},
		{"", c("./")},
		{"..", c("")},
		{"../..", c("")},
		{"", c("../")},
		{"templates/..", c("")},
		{"a/b", c("../..")},
		{"a", c("../..")},
		{"foo", c("bar")},
		{"/", c("")},
	} {
		base := filepath.Clean(filepath.Join(tc.dir, tc.src.String()))
		for _, name := range []string{"..", ".", "", "...", "..foo", "file"} {
			ts, err := TrustedSourceFromConstantDir(stringConstant(tc.dir), tc.src, name)
			if name == ".." {
				if err == nil {
					t.Errorf("dir %q src %q filename %q: accepted, got %q (parent of %q)", tc.dir, tc.src, name, ts.String(), base)
				}
				continue
			}
			if err != nil {
				continue
			}
			got := filepath.Clean(ts.String())
			rel, rerr := filepath.Rel(base, got)
			if rerr != nil || rel == ".." || strings.HasPrefix(rel, ".."+string(filepath.Separator)) || strings.ContainsRune(rel, filepath.Separator) {
				t.Errorf("dir %q src %q filename %q: result %q is not %q or a direct child (rel %q, %v)", tc.dir, tc.src, name, ts.String(), base, rel, rerr)
			}
		}
	}
}
