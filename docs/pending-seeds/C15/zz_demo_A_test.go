package safehtml

import (
	"strings"
	"testing"
)

// TestDemoA checks that a font-family name or background-image URL containing a
// truncated UTF-8 lead byte directly before a CSS string metacharacter cannot
// terminate the enclosing <string-token> and inject further declarations.
func TestDemoA(t *testing.T) {
	for _, tc := range []struct {
		desc  string
		props StyleProperties
	}{
		{"font-family, 3-byte lead then quote", StyleProperties{FontFamily: []string{"x\xe2\";color:red;y"}}},
		{"font-family, 2-byte lead then quote", StyleProperties{FontFamily: []string{"Arial\xc3\";top:0;z"}}},
		{"font-family, 4-byte lead then backslash at end", StyleProperties{FontFamily: []string{"ab\xf0\\"}, Color: "red"}},
		{"font-family, lead then newline", StyleProperties{FontFamily: []string{"ab\xe2\n;left:1px"}}},
		{"background-image, lead then quote", StyleProperties{BackgroundImageURLs: []string{"/img\xe2\");width:expression(alert(1));(\""}}},
	} {
		got := StyleFromProperties(tc.props).String()
		// Walk the output: outside a string only the delimiters written by
		// StyleFromProperties are allowed; inside a string no raw quote,
		// backslash-less newline or unescaped '<' may occur.
		decls := 0
		inStr := false
		for i := 0; i < len(got); i++ {
			c := got[i]
			switch {
			case inStr && c == '\\':
				if i+1 >= len(got) || got[i+1] == '\n' || got[i+1] == '\r' || got[i+1] == '\f' {
					t.Errorf("%s: bad escape at %d in %q", tc.desc, i, got)
				}
				i++
			case inStr && (c == '\n' || c == '\r' || c == '\f'):
				t.Errorf("%s: raw newline inside string in %q", tc.desc, got)
			case c == '"':
				inStr = !inStr
			case !inStr && c == ';':
				decls++
			}
		}
		if inStr {
			t.Errorf("%s: unterminated string in %q", tc.desc, got)
		}
		want := 1
		if tc.props.Color != "" {
			want = 2
		}
		if decls != want {
			t.Errorf("%s: got %d declarations, want %d: %q", tc.desc, decls, want, got)
		}
		if strings.Contains(got, "<") {
			t.Errorf("%s: '<' in %q", tc.desc, got)
		}
	}
}
