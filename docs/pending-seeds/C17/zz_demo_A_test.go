package safehtml

import (
	"bytes"
	"encoding/json"
	"strings"
	"testing"
)

// TestDemoScriptDataRawMessageInert checks that pre-serialized JSON passed as
// json.RawMessage is embedded as an inert literal: it must round-trip and must
// not contain '<', '>', '&', U+2028 or U+2029.
func TestDemoScriptDataRawMessageInert(t *testing.T) {
	raws := []json.RawMessage{
		json.RawMessage(`{"msg": "</script><script>alert(1)</script>"}`),
		json.RawMessage(`["<!--", "a&b", "x > y"]`),
		json.RawMessage("\"line\u2028sep\u2029end\""),
	}
	for _, raw := range raws {
		for _, data := range []interface{}{raw, &raw} {
			s, err := ScriptFromDataAndConstant("myVar", data, "go();")
			if err != nil {
				t.Fatalf("unexpected error for %s: %v", raw, err)
			}
			got := s.String()
			const prefix, suffix = "var myVar = ", ";\ngo();"
			if !strings.HasPrefix(got, prefix) || !strings.HasSuffix(got, suffix) {
				t.Fatalf("bad frame: %q", got)
			}
			j := got[len(prefix) : len(got)-len(suffix)]
			if strings.ContainsAny(j, "<>&\u2028\u2029") {
				t.Errorf("JSON literal for %s contains a forbidden code point: %q", raw, j)
			}
			var want, have interface{}
			if err := json.Unmarshal(raw, &want); err != nil {
				t.Fatal(err)
			}
			if err := json.Unmarshal([]byte(j), &have); err != nil {
				t.Fatalf("literal does not decode: %v", err)
			}
			wb, _ := json.Marshal(want)
			hb, _ := json.Marshal(have)
			if !bytes.Equal(wb, hb) {
				t.Errorf("round trip mismatch: %s vs %s", wb, hb)
			}
		}
	}
}
