from propcfg.tmplcommon import *

CFG = TMPL_C03
