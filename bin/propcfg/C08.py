from propcfg.common import *
from propcfg.tmplcommon import *

CFG = dict(TMPL_C08)
CFG["proof_modules"] = ["SafeHtml.Proofs.ConcApi"]
CFG["level_text"] = CFG["level_text"] + " Proofs/ConcApi.lean (part 2) proves that the two nil-dereference panic sites of the analysis and of commit are unreachable under invariants that every critical section preserves (analysis_newMemo, commit_no_panic, analysis_panics, escapeTemplateTop_no_nil_panics, top_keeps_hasT_noNil)."
CFG["level_note"] = "Not proved unreachable: 'node shared between templates', 'command without arguments', the escapeText no-progress guard, 'template escaping out of sync', execution of a called template whose tree is nil (apiClone can register one: NoNil is a genuine hypothesis), and fuel sufficiency; they are covered by oracle + correspondence only."
