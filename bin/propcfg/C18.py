from propcfg.common import *

CFG = {
        "module": "SafeHtml.Props.C18",
        "trusted_base": [KERNEL, TRANSLATOR, CORR, RX, UTF8,
                         "specification vocabulary: byte-level recogniser specIdent of [A-Za-z][-_A-Za-z0-9]* (Props/C18.lean, Oracle/C18.lean)",
                         "modelled, not verified: regexp.MatchString, fmt.Sprintf in the panic message (irrelevant to results), the verif-tag wrappers that convert string to stringConstant"],
        "assumptions": ["a Go panic of the constructor is the model's `none`"],
        "level_text": "Theorems C18_const, C18_prefix (result ∈ [A-Za-z][-_A-Za-z0-9]* and = prefix-hyphen-value), C18_const_complete and C18_prefix_rejects are proved in Lean for every byte string over a model of identifier.go whose two regexes are regenerated from the source on every run (rx_* obligations prove the regenerated regex trees equal the byte-level recogniser); the model is compared with the real constructors on all short strings and seeded hostile strings, and the property oracle is applied to every real output.",
        "level_note": "Trusted: Lean kernel; translator; regexp modelled by Rx.Match (validated by correspondence); UTF-8 decoder model; verif-tag wrappers converting string to stringConstant. Proof is about the model; the tie to the code is the regenerated regex trees + the correspondence run.",
        "technique": "Lean 4 proof (regex tree ⇒ byte recogniser lemmas) + regenerated regexes + differential correspondence",
    }
