from propcfg.common import *
from propcfg.tmplcommon import *

CFG = dict(TMPL_C07)
CFG["proof_modules"] = ["SafeHtml.Proofs.ApiFrames"]
CFG["level_text"] = CFG["level_text"] + " Clone isolation is proved in Proofs/ApiFrames.lean for every reachable world: step_frame (what each operation may touch: only the receiver's name space, its objects and freshly allocated ones), frame_apiClone (Clone touches nothing that exists; the model shares nothing between a set and its clone), C07_clone_isolated (from the moment of cloning, operations on one side leave every execution of the other side's objects unchanged, in both directions)."
CFG["level_note"] = "Known finding new-after-exec (t.New after execution). The isolation theorem is about objects; results through harness handle numbers after foreign Lookup/New/Clone rebinding are not covered."
