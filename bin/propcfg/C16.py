from propcfg.common import *

CFG = {
        "module": "SafeHtml.Props.C16",
        "proof_modules": ["SafeHtml.Proofs.RxCss"],
        "trusted_base": [KERNEL, TRANSLATOR, CORR, RX, UTF8,
                         "specification vocabulary: CSS Syntax Level 3 tokenizer and rule-list parser transcribed in Spec/CssTok.lean, Spec/CssParse.lean",
                         "modelled, not verified: regexp ReplaceAllString / FindStringSubmatch, container/list, strings.ToLower on ASCII"],
        "assumptions": ["Style values are complete block bodies (styleWellFormed): guaranteed for StyleFromProperties outputs, the caller's obligation for StyleFromConstant"],
        "level_text": "Proved in Lean for ALL selectors and styles over a model of stylesheet.go (fixed code, fix-C16.diff) whose two regexes are regenerated on every run: C16_accept / C16_partial (result = selector{style}; no < in the selector; the selector with regex-recognised strings removed consists only of bytes of the documented selector alphabet, has balanced ()/[] and no url( in any case), rx_invalid_class (regenerated negated class = complement of the documented alphabet), and the machine-checked defect of the unfixed logic (witness_unfixed_accepted, C16_unfixed_false: url(x\"){}b{\"y) is accepted and parses as two rules). The tokenizer/parser-level statement C16_statement (single qualified rule, prelude = selector tokens, block = style tokens, no forbidden token contributed by the selector) is NOT proved; it is checked by the CSS-Syntax-3 oracle on every real output (all selectors of ≤ 3 pieces of a 31-piece core alphabet in the thorough tier).",
        "level_note": "Proof is about the model; the tie to the code is the regenerated regex trees + the correspondence run.",
        "technique": "Lean 4 proof + regenerated regexes + differential correspondence + spec oracle on real outputs",
    }
