"""Configuration shared by the template-engine properties."""
from propcfg.common import *

TMPL_MODEL = "hand-written Lean model of template/{context,transition,escape,sanitize,sanitizers,url,template}.go (Model/Tmpl/*.lean: contexts, transition functions, escapeText, sanitizerForContext, the escaper with memo / derived templates / pending edits / commit, a model of text/template execution for the generated node kinds, and the API state machine Api.step); compared with the real package on every generated template × data × API history (bytes written and error class per call)"
TT = "text/template: the parser is not modelled (the harness sends the trees the real parser produced); execution is modelled for text, actions over map fields, if/with/range/template and the reserved sanitizer functions; anything else is reported as unsupported and skipped in the model comparison (the oracle still sees the real result)"
HIST_ORACLE = "oracle on REAL results: every Execute* step of a history is re-run on a freshly built real set with the same definitions (C06) and with the definitions made before the set's first execution (C07); panics/hangs, stickiness and zero-HTML-on-error are read off the real results"

def _cfg(module, extra_trusted, level_text, note, technique):
    return {
        "module": module,
        "trusted_base": [KERNEL, TRANSLATOR, CORR, TMPL_MODEL, TT] + extra_trusted,
        "assumptions": ["Go panics are explicit outcomes of the model; the model's fuel (100000) is never exhausted on generated inputs (exhaustion would be reported as a disagreement)"],
        "level_text": level_text,
        "level_note": note,
        "technique": technique,
    }

TMPL_C04 = _cfg("SafeHtml.Props.C04",
    ["reviewed policy: lean/SafeHtml/Reviewed/Policy.lean (frozen, hand-edited only) and the strictness order Spec/Policy.lean geStrict",
     "policy tables, data-* regex, enum sets regenerated from template/sanitizers.go / sanitize.go on every run"],
    "Theorem C04_attr / C04_content: for ALL element names, attribute names and rel values the verdict of the model's sanitizationContextForAttrVal / …ForElementContent on the REGENERATED tables is at least as strict as the reviewed verdict (refusal strictest); proved by lemmas that lift finite kernel-evaluated obligations on the two table sets (ob_*) to all names, plus rx_dataAttributeName (regenerated data-* regex = byte recogniser) and model_attr_eq (the model function = the table-driven spec). C04_default_deny_* and C04_positions prove refusal of unknown attributes/elements, tag/attribute-name positions and unquoted values. The policy function is compared with the real one over the full name cross product (thorough) and black box through real templates in six lexical forms.",
    "Trusted: kernel, translator, the reviewed tables and strictness order, the model (correspondence). Not proved: that the escaper's context (element/attribute the action is in) is the browser's — that is C01 layer 3; the nested-element caveat of DESIGN §7 C04 stands.",
    "Lean 4 proof (finite table obligations by kernel evaluation lifted to all names) + regenerated policy tables + differential correspondence")

TMPL_C05 = _cfg("SafeHtml.Props.C05", [HIST_ORACLE],
    "Theorems over the API state machine: a failed template returns the error, writes nothing and stays failed under any number of repeated Execute calls (C05_failed_exec/_execT/_forever), a template without a tree never runs (C05_incomplete), output without error implies a successful analysis (C05_ok_only_after_analysis), ToHTML variants return the zero HTML with every error. The model is compared step by step with the real package on generated histories with failing members; the oracle checks stickiness, empty output, zero HTML and 'a fresh set refuses ⇒ this history refuses' on the real results.",
    "Proved for the model; closure under arbitrary interleavings with New/Clone on other handles is checked by the oracle, not proved (see Props/C05.lean).",
    "Lean 4 proof over an API state-machine model + history correspondence + real-vs-fresh-set oracle")

TMPL_C06 = _cfg("SafeHtml.Props.C06", [HIST_ORACLE],
    "Proved over the API state machine: repeating an Execute on an analysed or failed template returns the same result and changes nothing (C06_repeat_ok/_same/_failed, C06_exec_ok_keeps_text). The history-independence clause itself is decided on every run by the oracle on the real code: every Execute* result of every generated history equals the result of the same call on a freshly built real set; the model reproduces every real result (correspondence), so a deviation is attributed.",
    "The independence from executions of other members is NOT proved (needs a relational invariant over the escaper state); it is an oracle + correspondence claim. C06_statement is kept in Props/C06.lean.",
    "Lean 4 proof of the repetition clauses + API-history correspondence + real-vs-fresh-set oracle")

TMPL_C07 = _cfg("SafeHtml.Props.C07", [HIST_ORACLE],
    "Proved over the API state machine for every state: every Execute/ExecuteTemplate sets the executed flag of its set whatever its outcome (C07_exec_freezes, C07_execT_freezes); with the flag set Parse fails and changes nothing (C07_parse_gate); Clone of an executed template fails and changes nothing (C07_clone_refuses_after_exec). The list of Parse* entry points passing through checkCanParse is regenerated from the source. Clone isolation and 'no later output changes' are decided by the oracle on real results (res = frozen reference).",
    "Known finding new-after-exec (t.New after execution). Clone frame property not proved.",
    "Lean 4 proof over an API state-machine model + history correspondence + frozen-reference oracle")

TMPL_C08 = _cfg("SafeHtml.Props.C08", [HIST_ORACLE],
    "Go panics are explicit outcomes of the model at the program points where Go panics. Proved: all non-executing operations are total in every state (C08_nonexec_total); break/continue/comment nodes and callees without a parse tree are analysis errors (C08_break_continue, C08_nil_tree_is_error); an analysis error is returned, never executed (C08_error_not_panic). The oracle requires that no step of any generated history — nor of its fresh-set replays — panics or hangs on the real code (recover + 10 s watchdog), over the full node-kind vocabulary of the installed parser.",
    "Unreachability of the model's remaining explicit panic sites and fuel sufficiency are not proved (Props/C08.lean lists them); they are covered by oracle + correspondence only.",
    "Lean 4 proof over a model with explicit panic outcomes + API-history correspondence + no-panic oracle on the real code")
