from propcfg.common import *

CFG = {
        "module": "SafeHtml.Props.C17",
        "proof_modules": ["SafeHtml.Proofs.GoJson", "SafeHtml.Proofs.JsonRoundtrip", "SafeHtml.Proofs.C17Rx"],
        "trusted_base": [KERNEL, TRANSLATOR, CORR, RX, UTF8,
                         "specification vocabulary: RFC 8259 decoder Spec/Json.lean (grammar, string decoding to code points incl. \\uXXXX and surrogate pairs, UTF-8 required), byte-level recogniser of [$_A-Za-z][$_A-Za-z0-9]+ (Props/C17.lean, Oracle/C17.lean)",
                         "modelled, not verified: encoding/json.Marshal in HTML-escaping mode (Model/GoJson.lean: appendString, the validity scanner, appendCompact with escape, sorted map keys, struct field order) — validated by the correspondence on real Go values (maps, slices, reflect.StructOf structs, numbers, RawMessage, custom Marshaler/TextMarshaler, unencodable values); number formatting is not modelled (the literal Go prints is passed through); fmt.Sprintf(\"var %s = %s;\\n%s\"); regexp.MatchString; the verif-tag wrapper converting string to stringConstant"],
        "assumptions": ["number literals in the value tree are JSON numbers (true of everything strconv prints for finite numbers; NaN/Inf are modelled as unencodable)",
                        "struct field names are valid json tag names; map keys are distinct (Go maps)",
                        "roundtrip is proved for trees without Marshaler/RawMessage nodes; for those it is checked at run time by the oracle (C17_roundtrip_statement is kept as a def, see Props/C17.lean)"],
        "level_text": "Theorems C17_frame (result = \"var \" name \" = \" J \";\\n\" script), C17_inert (J has no < > & byte and no E2 80 A8/A9, for ALL value trees including Marshaler/RawMessage bytes passed through the modelled compact+escape scanner), C17_roundtrip_partial (Spec.Json.decode J = JSON value of the data, strict RFC 8259 incl. UTF-8, for all trees without raw nodes), C17_fail / C17_ok_iff (error with zero Script exactly when the name does not match or the data is unencodable) and the regex obligation rx_jsIdentifier are proved in Lean for all inputs over a model of script.go + encoding/json; the model is compared with the real function on generated and exhaustive-small inputs and the oracle (frame split, forbidden-byte scan, independent RFC 8259 decode compared with the value computed from the term) is applied to every real output.",
        "level_note": "Trusted: Lean kernel; translator; Rx.Match; the hand-written model of encoding/json (validated by correspondence only); Spec/Json.lean as the meaning of 'decodes back'. Roundtrip for Marshaler/RawMessage-provided bytes is checked by the oracle, not proved.",
        "technique": "Lean 4 proof (structural induction over value trees; scanner-state invariant for compact; parser/printer roundtrip) + regenerated regex + differential correspondence + spec-level oracle",
    }
