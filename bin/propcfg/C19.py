import json
import os
import subprocess

from propcfg.common import *

_VERIF = os.path.dirname(os.path.dirname(os.path.dirname(os.path.abspath(__file__))))
_APIPROBE = os.path.join(_VERIF, "build", "bin", "apiprobe")


def _run_json(cmd):
    env = dict(os.environ, GOFLAGS="-mod=mod", GOPROXY="off", GOSUMDB="off", GOTOOLCHAIN="local", CGO_ENABLED="0")
    p = subprocess.run(cmd, env=env, stdout=subprocess.PIPE, stderr=subprocess.PIPE, text=True, timeout=1500)
    if p.returncode != 0:
        raise RuntimeError("%s failed: %s" % (" ".join(cmd[:2]), p.stderr[-400:]))
    return json.loads(p.stdout.strip().splitlines()[-1])


def extra_step(chk):
    """Real-toolchain part of C19 (tools/apiprobe):
    1. every client program of this run (thorough) or every hand-written probe + every 12th program (quick) is
       compiled with `go build` (gc) in a scratch module against the repo copy; gc's verdict must equal go/types';
    2. the witness program of every known finding is built and RUN (the safe-type value must really carry the
       run-time string), and the ParseFS confinement probe is run (rooted / dot-dot patterns must fail)."""
    info, errs, fails = {}, [], []
    try:
        gb = _run_json([_APIPROBE, "gobuild", chk.out, chk.tier, os.path.join(chk.out, "gobuild")])
        info.update({k: gb[k] for k in ("gc_programs", "gc_compiles", "gc_rejected")})
        mism = gb.get("gc_mismatches") or []
        info["gc_mismatches"] = len(mism)
        if mism:
            errs.append("go/types and gc disagree on %d client programs; first: %s" % (len(mism), json.dumps(mism[0])[:600]))
        if gb["gc_programs"] == 0 or gb.get("gc_output_tail"):
            errs.append("go build of the client programs did not run: " + gb.get("gc_output_tail", "no programs"))
        rw = _run_json([_APIPROBE, "run", os.path.join(chk.out, "apirun")])
        info["runtime_witnesses"] = {k: v["ok"] for k, v in rw.items()}
        info["runtime_witness_output"] = {k: v["output"][:300] for k, v in rw.items()}
        if not rw.get("parsefs-confined", {}).get("ok") and "RESULT false" in rw.get("parsefs-confined", {}).get("output", ""):
            # the probe program ran and a dynamic pattern produced a template: that program is the failing input
            fails.append({"op": "apiprobe run parsefs-confined (tools/apiprobe/main.go, program `parsefs-confined`)",
                          "real": rw["parsefs-confined"]["output"][:1500], "oracle": "fail:dynamic-pattern-reached-files-outside-the-trustedfs"})
        elif not rw.get("parsefs-confined", {}).get("ok"):
            errs.append("ParseFS confinement probe failed (a dynamic pattern left the TrustedFS, or the probe did not run): "
                        + rw.get("parsefs-confined", {}).get("output", "")[:400])
    except Exception as e:  # noqa: BLE001
        errs.append("apiprobe: %s" % e)
    if errs:
        info["extra_error"] = "; ".join(errs)
    return (not errs), info, fails


CFG = {
    "module": "SafeHtml.Props.C19",
    "extra_tools": ["apiprobe"],
    "extra_step": extra_step,
    "model_skip_prefixes": ("api.probe",),
    "trusted_base": [
        KERNEL, TRANSLATOR,
        "specification vocabulary: Spec/GoTypes.lean — my transcription of the Go spec fragment on untyped constants, assignability between "
        "named string-kind types, qualified identifiers/exportedness, conversions (string-kind; struct types with identical underlying "
        "types ignoring tags), struct type identity (unexported names of different packages differ), composite literals/selectors on "
        "foreign structs, variadic spread, and type-parameter inference through a func-typed argument; validated against go/types on "
        "every generated program and against gc (`go build`) by tools/apiprobe",
        "argument model: a client argument is a tree of literals, untyped/typed constants, variables, calls, +, conversions, parentheses over "
        "three string-kind types (string, a client-defined type, the parameter's type), or `xs...`, or a class-specific dynamic value, or "
        "a call through a client generic helper; other Go constructs that yield a string (index, slice, selector, receive, type assertion, "
        "closure call, range variable …) are all typed NON-constant values of a nameable type and behave like `var`/`call`",
        "tools/harness/c19.go: reads the API with go/types (independently of tools/extract), writes the client programs and type-checks them "
        "in-process against VERIF_REPO (build tag verif OFF); the `internal/` import rule of the go command is re-implemented in the importer",
        "Reviewed/Api.lean: hand-reviewed lists (trusted-text parameters, safe types, constructors with their covering property, exported structs); "
        "a constructor marked `covered C1x` is only as good as property C1x",
        "not modelled: reflect, unsafe, cgo, //go:linkname, the packages uncheckedconversions / legacyconversions / testconversions (they exist "
        "to bypass the gate), go vet and the safehtml conformance linters, embed.FS contents; ParseFS pattern confinement rests on "
        "io/fs.ValidPath in os.DirFS/embed.FS (stdlib; probed at run time on os.DirFS only)",
    ],
    "assumptions": [
        "the client is a package outside github.com/google/safehtml/... built by the go command (so `internal/` packages are not importable)",
        "Go >= 1.18 semantics (generics); type-checked with the installed go1.23 go/types and gc",
    ],
    "level_text": "Unbounded Lean theorem (induction over argument expressions): under Spec.GoTypes, ANY argument expression accepted for a parameter "
                  "whose type is a defined unexported string type of another package is an untyped constant expression "
                  "(assign_unexported_only_const / arg_unexported_only_const); finite kernel-evaluated theorems over the REGENERATED API surface "
                  "(tools/extract/api.go → Generated/ApiSurface.lean): all 19 reviewed trusted-text parameters have that type, nothing exported "
                  "mentions it, the 11 safe types are defined structs with only unexported fields and are pairwise non-convertible outside package "
                  "safehtml, every exported function that can take a run-time string and yields a safe type/*Template is reviewed, no exported "
                  "safe-typed vars. The full statement is FALSE on the unchanged tree in five reviewed ways (machine-checked negations + witness "
                  "programs): generic-inference, struct-conversion, flag-value, funcs-override, exported-tree; the `_partial` theorems carve out exactly those.",
    "level_note": "Proof is about Spec.GoTypes + the regenerated surface; the tie to the code is (1) the surface is re-extracted on every run and every "
                  "table theorem is re-checked by the kernel, (2) the model's compile verdict (surface + Spec.GoTypes) is compared with go/types on "
                  "one generated client program per (function, parameter, argument shape) incl. seeded random expression trees, per ordered pair of "
                  "struct types and per construction attempt, (3) gc cross-check and run-time witnesses by tools/apiprobe. Open: five known findings; "
                  "reflect/unsafe out of scope.",
    "technique": "Lean 4 proof (induction over a typed expression language + kernel decide over regenerated API tables) + exhaustive differential "
                 "type-checking of generated client programs (go/types in-process, gc cross-check)",
}
