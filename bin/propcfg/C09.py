import json
import os
import re
import subprocess

from propcfg.common import *
from propcfg.tmplcommon import TMPL_MODEL, TT

_VERIF = os.path.dirname(os.path.dirname(os.path.dirname(os.path.abspath(__file__))))
_TOOLS = os.path.join(_VERIF, "tools")
_BIN = os.path.join(_VERIF, "build", "bin")


def _env(**kw):
    return dict(os.environ, GOFLAGS="-mod=mod", GOPROXY="off", GOSUMDB="off", GOTOOLCHAIN="local", **kw)


def extra_step(chk):
    """Run-time part of C09 (tools/racer): goroutines call Execute*, Lookup, Templates, Name and DefinedTemplates on one
    freshly built set at the same time (first executions included), under the Go race detector; every result is
    compared with sequential runs of the same call on fresh identical sets (built without the race detector)."""
    info, fails = {}, []
    try:
        for out, race in (("racer", True), ("racer-ref", False)):
            cmd = ["go", "build"] + (["-race"] if race else []) + ["-tags", "verif", "-o", os.path.join(_BIN, out), "./racer"]
            p = subprocess.run(cmd, cwd=_TOOLS, env=_env(CGO_ENABLED="1" if race else "0"), stdout=subprocess.PIPE, stderr=subprocess.STDOUT, text=True, timeout=900)
            if p.returncode != 0:
                raise RuntimeError("go build %s failed: %s" % (out, p.stdout[-600:]))
        odir = os.path.join(chk.out, "racer")
        os.makedirs(odir, exist_ok=True)
        p = subprocess.run([os.path.join(_BIN, "racer-ref"), "ref", chk.tier, str(chk.seed), odir], env=_env(), stdout=subprocess.PIPE,
                           stderr=subprocess.PIPE, text=True, timeout=3000)
        if p.returncode != 0:
            raise RuntimeError("racer ref failed: " + p.stderr[-400:])
        p = subprocess.run([os.path.join(_BIN, "racer"), "run", chk.tier, str(chk.seed), odir], env=_env(GORACE="halt_on_error=0 history_size=3"),
                           stdout=subprocess.PIPE, stderr=subprocess.PIPE, text=True, timeout=6000)
        err = p.stderr
        summary = None
        findings = []
        for line in p.stdout.splitlines():
            try:
                d = json.loads(line)
            except ValueError:
                continue
            if d.get("kind") == "summary":
                summary = d
            else:
                findings.append(d)
        # attribute race reports to scenarios
        races = []
        cur = None
        desc = {}
        for line in err.splitlines():
            m = re.match(r"SCENARIO (\d+) ([0-9a-f]+)", line)
            if m:
                cur = int(m.group(1))
                desc[cur] = m.group(2)
                continue
            if "WARNING: DATA RACE" in line:
                races.append({"scenario": cur, "report": ""})
            elif races and len(races[-1]["report"]) < 2500 and (line.startswith("  ") or line.startswith("Write") or line.startswith("Read") or line.startswith("Previous") or line.startswith("Goroutine")):
                races[-1]["report"] += line + "\n"
        info["racer_summary"] = summary
        info["racer_data_races"] = len(races)
        info["racer_findings"] = len(findings)
        if summary is None:
            # the run died (e.g. fatal error: concurrent map writes): that is a finding in itself
            tail = err[-1500:]
            fails.append({"op": "racer run %s %d" % (chk.tier, chk.seed), "real": "racer did not finish (exit %d): %s" % (p.returncode, tail),
                          "oracle": "fail:concurrent-run-crashed"})
        for r in races[:5]:
            fails.append({"op": "racer scenario " + desc.get(r["scenario"], "?"), "real": r["report"], "oracle": "fail:data-race"})
        for f in findings[:5]:
            fails.append({"op": "racer scenario " + (f.get("desc") or "")[:4000], "real": json.dumps({k: f.get(k) for k in ("thread", "index", "call", "got", "allowed")})[:3000],
                          "oracle": "fail:concurrent-result-differs-from-sequential" if f.get("kind") == "mismatch" else "fail:" + str(f.get("kind"))})
    except Exception as e:  # noqa: BLE001
        info["extra_error"] = "racer: %s" % e
        return False, info, fails
    return True, info, fails


CFG = {
    "module": "SafeHtml.Props.C09",
    "extra_step": extra_step,
    "proof_modules": ["SafeHtml.Model.Conc", "SafeHtml.Proofs.Frozen", "SafeHtml.Proofs.ConcApi", "SafeHtml.Proofs.ConcReach"],
    "trusted_base": [
        KERNEL, TRANSLATOR, CORR, TMPL_MODEL, TT,
        "Model/Conc.lean: the concurrency model — critical sections under ONE mutex are atomic, the unlocked phase of a call only reads; "
        "sync.Mutex (mutual exclusion, happens-before from Unlock to the next Lock) and the Go memory model are assumed, not modelled",
        "tools/extract/locks.go: go/ast + go/types fact extractor (where nameSpace.mu is held, which fields of nameSpace / Template / escaper and "
        "which parse-tree nodes each function reads or writes, static call graph of package template); Lock/Unlock outside the two idioms "
        "`Lock(); defer Unlock()` and `Lock(); …; Unlock()` at the top level of a function body make the translator fail; calls through "
        "function values and interfaces are not resolved (package template has none on these paths)",
        "tools/racer + the Go race detector (ThreadSanitizer): dynamic, schedule-dependent; it can miss races it does not happen to schedule",
        "text/template execution runs outside the mutex and is not modelled for concurrency: that it only READS committed trees is what the "
        "race detector checks at run time",
    ],
    "assumptions": [
        "the set is fully constructed (New/Parse/Clone/Funcs/Option done) before the concurrent phase, as the property text says",
        "writers passed to Execute are not shared between goroutines",
    ],
    "level_text": "Lean theorems: (1) serializability of any schedule of calls of the shape `lock; critical section; unlock; read-only phase` "
                  "under explicit stability conditions (Model/Conc: rel_step, serializable, serializable_results — induction over the schedule, no "
                  "bound on threads, calls or steps); (2) the lock discipline of package template, proved by kernel evaluation over facts REGENERATED "
                  "from the Go source on every run: no function reachable from Execute/ExecuteTemplate/ExecuteToHTML/ExecuteTemplateToHTML/Lookup/"
                  "Templates/Name/DefinedTemplates without the mutex touches nameSpace, escaper, Template.escapeErr/Tree or writes a parse-tree node "
                  "(C09_protected_only_under_lock, unlockedReach_closed), no function taking the mutex is reachable with it held (C09_no_relock, "
                  "lockers_closed), and the executing entry points have the assumed shape (C09_exec_shape); (3) the stability conditions are proved for "
                  "read-only calls and settled executions (C09_settled_partial). Every run: the sequential semantics the theorem refers to is the API model, "
                  "compared with the real package on generated histories (order-independence oracle); tools/racer runs thousands of multi-goroutine "
                  "scenarios (shared helpers in text/attribute/URL/script/RCDATA positions, failing members, first executions racing with read-only "
                  "calls, GOMAXPROCS 1–16; data also through pointers to named types; on every other repetition the handles are resolved by Lookup before the "
                  "goroutines start, so that no accidental mutex synchronisation hides a missing one) under the race detector and compares every call's "
                  "result with sequential reference runs.",
    "level_note": "Closed for the API model: Proofs/ConcApi.lean splits apiExecute / apiExecuteTemplate into critical section + unlocked textExecute "
                  "(apiExecute_split, step_eq_runCall, serial_is_api_step: one serial step of Model/Conc IS one Api.step, the function compared with the real package), "
                  "proves Conc.Stable for these calls and Lookup/Templates (api_stable, from the escaper-state invariant of Proofs/Frozen.lean) and concludes "
                  "C09_api_serializable / C09_api_results for every world satisfying Inv; Proofs/ConcReach.lean proves Inv for EVERY world reachable from the empty world "
                  "by any sequence of model operations (invR_step for all ops incl. New on an executed set, Parse, Clone; C09_api_serializable_reachable has no hypothesis but "
                  "Reachable w). Outside: the calls Name/DefinedTemplates (not operations of the model), construction operations running concurrently with executions. The model cannot exhibit the Go memory model, the scheduler, races "
                  "inside text/template or the data passed by the caller; those are covered by the race detector and the per-call comparison only.",
    "technique": "Lean 4 proof (serializability by induction over schedules; lock discipline by kernel evaluation over regenerated go/ast facts) + "
                 "API-history correspondence + multi-goroutine driver under the Go race detector with sequential reference runs",
    "search_rounds": 3,
    "search_with_extra_step": True,
}
