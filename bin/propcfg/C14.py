from propcfg.common import *

CFG = {
        "module": "SafeHtml.Props.C14",
        "proof_modules": ["SafeHtml.Proofs.RxSearch", "SafeHtml.Proofs.RxDotSeg", "SafeHtml.Proofs.UrlProc"],
        "trusted_base": [KERNEL, TRANSLATOR, CORR, RX, UTF8,
                         "specification vocabulary: Spec/CharRef.lean (WHATWG character references inside attribute values, over the entity list shipped with the installed Go), Spec/UrlComponents.lean (WHATWG URL input preprocessing + scheme state, RFC 3986 unreserved / pct-encoded alphabets, '..' in plain and %2e spelling)",
                         "modelled, not verified: Go html.UnescapeString (Model/GoHtml.lean, from $GOROOT/src/html/escape.go incl. its int32 and short-reference quirks; entity tables regenerated from html/entity.go), regexp.MatchString, strings.ContainsAny, fmt %02x, text/template execution of a single {{.}} action with string data",
                         "hand-written mirror of the three-way switch of sanitizersForAttributeValue (Model/TmplUrl.chooseChain) — compared with real templates by op tmpl.urlattr"],
        "assumptions": ["interpolated data is a Go string (other kinds are stringified by fmt before the chain)",
                        "a single action directly after the static prefix of a double-quoted attribute value (several actions in one TrustedResourceURL value: known finding adjacent-actions-dotdot)"],
        "level_text": "Lean theorems over a model of urlProcessor / the prefix validators / html.UnescapeString whose tables and regexes are regenerated from the Go sources on every run: queryEscape output ⊆ unreserved|%hh, normalize alphabet, kept escapes, idempotence, TrustedResourceURL substitution (no '/', no new '..'), chain choice, the rejected prefix classes; soundness of an accepted prefix (scheme and component preserved under browser decoding) is stated in full and proved in part (see level_note). Model compared with the real functions exhaustively on short strings and %xy triples and on a prefix × data grammar through real templates; the spec oracle is applied to every real output.",
        "level_note": "Trusted: Lean kernel; translator; regexp modelled by Rx.Match; html.UnescapeString modelled by hand from the stdlib source; WHATWG character-reference and URL-scheme transcriptions in Spec/. C14_prefix_sound is stated in full (def C14_prefix_sound_statement) and proved only for the escaped-data part (C14_prefix_sound_partial); the composition with browser decoding of the prefix (CharRef.decode_append) is checked by the oracle on real outputs, not proved.",
        "technique": "Lean 4 proof (byte transducer invariants, regex tree ⇒ byte recogniser lemmas) + regenerated regexes/tables + differential correspondence + spec oracle on real template output",
        "search_rounds": 2,
    }
