from propcfg.common import *
from propcfg.tmplcommon import *

CFG = dict(TMPL_C06)
CFG["proof_modules"] = ["SafeHtml.Proofs.Frozen", "SafeHtml.Proofs.Independence"]
CFG["level_text"] = CFG["level_text"] + " Proofs/Independence.lean proves the first half for templates without {{template}} calls: C06_callfree_reachable — in any two reachable worlds in which the same call-free tree is installed under a name not yet analysed, the analysis has the same outcome class and, on success, execution gives the same result for every data (the analysis of a call-free template never reads the memo; the committed tree is a function of the tree alone)."
CFG["level_note"] = "Not proved: first-analysis independence for templates WITH template calls (needs a memo-correctness invariant; false without excluding the two findings memo-ignores-attr-prefix and mangled-name-collision). C06_statement is kept in Props/C06.lean."
