from propcfg.common import *
from propcfg.tmplcommon import *

CFG = dict(TMPL_C06)
CFG["proof_modules"] = ["SafeHtml.Proofs.Frozen", "SafeHtml.Proofs.Independence", "SafeHtml.Proofs.IndependenceCalls", "SafeHtml.Proofs.Layer3Repeat3", "SafeHtml.Proofs.Layer3Repeat4"]
CFG["level_text"] = CFG["level_text"] + " Proofs/Independence.lean proves the first half for templates without {{template}} calls: C06_callfree_reachable — in any two reachable worlds in which the same call-free tree is installed under a name not yet analysed, the analysis has the same outcome class and, on success, execution gives the same result for every data (the analysis of a call-free template never reads the memo; the committed tree is a function of the tree alone)."
CFG["level_note"] = "Not proved: first-analysis independence for templates WITH template calls (needs a memo-correctness invariant; false without excluding the two findings memo-ignores-attr-prefix and mangled-name-collision). C06_statement is kept in Props/C06.lean."

CFG["level_text"] = CFG["level_text"] + (" Proofs/IndependenceCalls.lean extends it to templates WITH calls, one level deep, callees call-free, calls in the plain text "
    "context, no '$' in the names (C06_textcalls_reachable, and at Api.step level C06_textcalls_step: two reachable worlds, same trees, name not analysed in "
    "either — same bytes / same error class whatever subset of the callees is already memoized in which world). The invariant behind it (nsinv_reachable) is memo "
    "correctness in the text context for every reachable world. Kernel-checked counterexamples (namespace Cex) show that both exclusions are necessary: they ARE the "
    "two listed findings memo-ignores-attr-prefix and mangled-name-collision. Reachability here requires CSPCompatible() to be called before the first execution "
    "(CspEarly): a later call leaves stale memo entries — a third source of history dependence, outside the histories C06 quantifies over.")

CFG["level_text"] = CFG["level_text"] + (" Proofs/Layer3Repeat3.lean states history independence at Api.step level for four template shapes (single straight-line template, "
    "one template with if/with/range, main + helper called from text, main + helper called inside an element / quoted attribute value — derived copy): "
    "C06_result_history_independent_{single,branch,main_plus_helper,main_plus_derived_helper} — for ARBITRARY lists pre1, pre2 of earlier Execute calls "
    "(any data, successful or failed) and every d, Execute(d) after pre1 returns exactly what Execute(d) after pre2 returns (bytes or error); the world "
    "after the first Execute is a data-independent fixed point of apiExecute.")

CFG["level_text"] = CFG["level_text"] + (" Proofs/Layer3Repeat4.lean removes every hypothesis for single-template sets: C06_result_history_independent_any_single — for an ARBITRARY "
    "tree (accepted, refused, panicking analysis, exhausted model fuel) Execute(d) after any list of earlier Execute calls returns what the first Execute(d) returns; "
    "likewise for the CSP-compatible set (…_any_single_csp).")
