from propcfg.common import *
from propcfg.tmplcommon import *

CFG = dict(TMPL_C06)
CFG["proof_modules"] = ["SafeHtml.Proofs.Frozen"]
