from propcfg.tmplcommon import *

CFG = dict(TMPL_C01)
CFG["proof_modules"] = ["SafeHtml.Proofs.HtmlTokSim", "SafeHtml.Proofs.Layer3", "SafeHtml.Proofs.Layer3E2E", "SafeHtml.Proofs.Layer3Branch", "SafeHtml.Proofs.Layer3Calls", "SafeHtml.Proofs.Layer3Repeat", "SafeHtml.Proofs.Layer3Helpers", "SafeHtml.Proofs.Layer3Repeat2", "SafeHtml.Proofs.Layer3Derived", "SafeHtml.Proofs.Layer3Repeat3", "SafeHtml.Proofs.Layer3Repeat4", "SafeHtml.Proofs.CspMono"]
