from propcfg.tmplcommon import *

CFG = dict(TMPL_C01)
CFG["proof_modules"] = ["SafeHtml.Proofs.HtmlTokSim", "SafeHtml.Proofs.Layer3"]
