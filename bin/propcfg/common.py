"""Per-property configuration of bin/check."""

KERNEL = "Lean 4.33.0 kernel (lake build; leanchecker re-check on the thorough tier); axioms allowed: propext, Classical.choice, Quot.sound — audited with #print axioms on every property theorem; no sorry, native_decide, bv_decide or own axioms"
TRANSLATOR = "tools/extract (go/packages + go/types + regexp/syntax): regenerates SafeHtml/Generated/*.lean from /repo's working tree on every run; trusted to print what the source says, cross-checked because the model runs on the generated facts in the correspondence"
CORR = "tools/harness + Main.lean driver: correspondence of the hand-written Lean model with the real code on generated inputs (compared on results of exported functions / verif-tag wrappers only)"
RX = "Go regexp semantics modelled by SafeHtml.Rx.Match (leftmost-first backtracking over UTF-8-decoded runes, invalid byte = U+FFFD); validated by the correspondence on the repo's own patterns"
UTF8 = "Go UTF-8 decoding/encoding modelled by SafeHtml.Utf8 (utf8.DecodeRuneInString tables)"

