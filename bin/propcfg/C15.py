from propcfg.common import *

CFG = {
        "module": "SafeHtml.Props.C15",
        "proof_modules": ["SafeHtml.Proofs.RxCss"],
        "trusted_base": [KERNEL, TRANSLATOR, CORR, RX, UTF8,
                         "specification vocabulary: CSS Syntax Level 3 tokenizer and declaration-list parser transcribed in Spec/CssTok.lean, Spec/CssParse.lean (no independent CSS implementation in the sandbox to cross-check)",
                         "modelled, not verified: regexp.MatchString, fmt.Fprintf(\"\\\\%06X\"), bytes.Buffer, URLSanitized (Model.urlSanitized, opaque here; its own property is C11)"],
        "assumptions": ["isSafeURL is treated as an opaque predicate (C11)"],
        "level_text": "Proved in Lean for ALL StyleProperties values over a model of style.go whose field chain, property names, literal pieces, three regexes and innocuous constants are regenerated from the source on every run: C15_ends (empty or ends with ;), C15_no_lt (no <), C15_filter / C15_filter_enum / C15_filter_regular (plain values outside the documented alphabet or with a comment marker become zGoSafezInvalidPropertyValue; whatever is emitted lies in the documented alphabet), C15_bg (every URL element is url(\" cssEscapeString(u') \") with u' = u approved by isSafeURL, or the innocuous URL), cssEscapeString_safe (string bodies contain no raw quote, backslash, newline, control or <; every backslash starts a 6-digit hex escape), fields_reviewed / fields_css_reviewed / pieces_reviewed (documented names and order), rx_* obligations (regenerated regex trees = hand recognisers; rx_regular_class fails on the unfixed [+-.] with witness ','). The tokenizer-level clauses of C15_statement (declaration list under Spec.Css = one declaration per non-empty field, no comment / bad token / open block) are NOT proved (C15_partial says exactly what is missing); they are checked by the CSS-Syntax-3 oracle on every real output (exhaustive for all byte strings of length ≤ 2 in an enum and a regular field in the thorough tier).",
        "level_note": "Proof is about the model; the tie to the code is the regenerated field chain (Generated.StyleFields), regex trees and constants + the correspondence run.",
        "technique": "Lean 4 proof over a transcribed CSS tokenizer + regenerated field chain/regexes + differential correspondence + spec oracle on real outputs",
    }
