from propcfg.common import *

CFG = {
        "module": "SafeHtml.Props.C13",
        "proof_modules": ["SafeHtml.Proofs.RxLens", "SafeHtml.Proofs.RxAscii", "SafeHtml.Proofs.RxSeq", "SafeHtml.Proofs.C13Escape", "SafeHtml.Proofs.C13Format", "SafeHtml.Proofs.C13Prefix", "SafeHtml.Proofs.C13DotDot", "SafeHtml.Proofs.C13Params"],
        "trusted_base": [KERNEL, TRANSLATOR, CORR, RX, UTF8,
                         "specification vocabulary: Spec/Rfc3986.lean (RFC 3986 appendix B split, 5.2.4 remove_dot_segments, unreserved, percent-encoding, WHATWG dot segments) and Spec/TruUrl.lean (the four prefix forms in ASCII reading, %{label} grammar, substitution)",
                         "modelled, not verified: regexp (MatchString, ReplaceAllStringFunc), strings.IndexByte/IndexRune/HasPrefix/Join, sort.Strings (= the sorted permutation, insertion sort on byte lists), fmt.Fprintf(\"%%%02x\"), bytes.Buffer, Go map lookup/iteration (association list; iteration order only matters where the code sorts), the verif-tag wrappers converting string to stringConstant"],
        "assumptions": ["err != nil of the Go function is the model's `none` (the partially built string returned beside the error is not compared)",
                        "the model and the theorems describe the code WITH fix-C13-dotdot, fix-C13-netpath and fix-C13-fold applied; on the unpatched tree the check reports VIOLATION with signatures adjacent-dot / append-dotdot / netpath-empty-arg / fold"],
        "level_text": "Theorems C13_prefix, C13_subst, C13_unreserved, C13_components, C13_no_climb, C13_append, C13_params_* are proved in Lean for all byte strings and all argument lists over a model of trustedresourceurl.go + safehtmlutil.go whose regexes and urlProcessor case tables are regenerated from the source on every run; the model is compared with the real functions on exhaustive small domains and seeded hostile inputs, and the property oracle (RFC 3986 decomposition of the REAL result against the decomposition of the format/base, dot-segment climbing) is applied to every real output.",
        "level_note": "Trusted: Lean kernel; translator; regexp modelled by Rx.Match (validated by correspondence); UTF-8 decoder model; Spec/Rfc3986 + Spec/TruUrl transcriptions; verif-tag wrappers. Proof is about the model; the tie to the code is the regenerated regex trees/tables + the correspondence run.",
        "technique": "Lean 4 proof (generic regex-matcher lemmas: backtracking matcher = ordered list of match lengths, byte-level reading of ASCII patterns, ReplaceAllStringFunc as a byte scanner) + regenerated regexes/tables + differential correspondence + RFC 3986 oracle",
    }
