from propcfg.tmplcommon import *

CFG = dict(TMPL_C02)
CFG["proof_modules"] = ["SafeHtml.Proofs.CharRefEsc"]
