from propcfg.common import *
from propcfg.tmplcommon import *

CFG = dict(TMPL_C05)
CFG["proof_modules"] = ["SafeHtml.Proofs.ApiFrames", "SafeHtml.Proofs.NoPanic"]
CFG["level_text"] = CFG["level_text"] + " Proofs/ApiFrames.lean lifts stickiness to ALL operations on reachable worlds (C05_failed_sticky_all_ops, C05_failed_forever: after any sequence of operations on any handles and sets a failed template still returns its error and writes nothing), with the exact exclusions `t.New(name)` on the failed template's own name (= known finding new-after-exec of C07) ; the second exclusion (Execute through a handle bound to a different object of the same name) is removed for every world reachable from an empty handle table by the handle-table invariant of Proofs/NoPanic.lean (C05_failed_sticky_reachable)."
CFG["level_note"] = "Proved for the model incl. closure under arbitrary interleavings (Proofs/ApiFrames.lean) up to the one stated exclusion (t.New(name) on the failed name); the tie to the code is the correspondence + oracle."
