from propcfg.common import *
from propcfg.tmplcommon import *

CFG = dict(TMPL_C05)
CFG["proof_modules"] = ["SafeHtml.Proofs.ApiFrames"]
CFG["level_text"] = CFG["level_text"] + " Proofs/ApiFrames.lean lifts stickiness to ALL operations on reachable worlds (C05_failed_sticky_all_ops, C05_failed_forever: after any sequence of operations on any handles and sets a failed template still returns its error and writes nothing), with the exact exclusions `t.New(name)` on the failed template's own name (= known finding new-after-exec of C07) and Execute through a handle bound to a different object of the same name (believed unreachable; needs a handle-table invariant)."
CFG["level_note"] = "Proved for the model incl. closure under arbitrary interleavings (Proofs/ApiFrames.lean) up to the two stated exclusions; the tie to the code is the correspondence + oracle."
