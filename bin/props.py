"""Per-property configuration of bin/check."""

KERNEL = "Lean 4.33.0 kernel (lake build; leanchecker re-check on the thorough tier); axioms allowed: propext, Classical.choice, Quot.sound — audited with #print axioms on every property theorem; no sorry, native_decide, bv_decide or own axioms"
TRANSLATOR = "tools/extract (go/packages + go/types + regexp/syntax): regenerates SafeHtml/Generated/*.lean from /repo's working tree on every run; trusted to print what the source says, cross-checked because the model runs on the generated facts in the correspondence"
CORR = "tools/harness + Main.lean driver: correspondence of the hand-written Lean model with the real code on generated inputs (compared on results of exported functions / verif-tag wrappers only)"
RX = "Go regexp semantics modelled by SafeHtml.Rx.Match (leftmost-first backtracking over UTF-8-decoded runes, invalid byte = U+FFFD); validated by the correspondence on the repo's own patterns"
UTF8 = "Go UTF-8 decoding/encoding modelled by SafeHtml.Utf8 (utf8.DecodeRuneInString tables)"

PROPS = {
    "C18": {
        "module": "SafeHtml.Props.C18",
        "trusted_base": [KERNEL, TRANSLATOR, CORR, RX, UTF8,
                         "specification vocabulary: byte-level recogniser specIdent of [A-Za-z][-_A-Za-z0-9]* (Props/C18.lean, Oracle/C18.lean)",
                         "modelled, not verified: regexp.MatchString, fmt.Sprintf in the panic message (irrelevant to results), the verif-tag wrappers that convert string to stringConstant"],
        "assumptions": ["a Go panic of the constructor is the model's `none`"],
        "level_text": "Theorems C18_const, C18_prefix (result ∈ [A-Za-z][-_A-Za-z0-9]* and = prefix-hyphen-value), C18_const_complete and C18_prefix_rejects are proved in Lean for every byte string over a model of identifier.go whose two regexes are regenerated from the source on every run (rx_* obligations prove the regenerated regex trees equal the byte-level recogniser); the model is compared with the real constructors on all short strings and seeded hostile strings, and the property oracle is applied to every real output.",
        "level_note": "Trusted: Lean kernel; translator; regexp modelled by Rx.Match (validated by correspondence); UTF-8 decoder model; verif-tag wrappers converting string to stringConstant. Proof is about the model; the tie to the code is the regenerated regex trees + the correspondence run.",
        "technique": "Lean 4 proof (regex tree ⇒ byte recogniser lemmas) + regenerated regexes + differential correspondence",
    },
}

NOT_APPLICABLE = {}
