"""Per-property configuration of bin/check: one module bin/propcfg/Cxx.py per claimed property (CFG dict)."""
import importlib
import os
import re

PROPS = {}
_here = os.path.join(os.path.dirname(os.path.abspath(__file__)), "propcfg")
for _fn in sorted(os.listdir(_here)):
    _m = re.match(r"(C\d+)\.py$", _fn)
    if _m:
        PROPS[_m.group(1)] = importlib.import_module("propcfg." + _m.group(1)).CFG

# properties not claimed, with the reason (kept current by hand)
NOT_APPLICABLE = {}
