-- Root of the `SafeHtml` library: imports everything that must build.
import SafeHtml.Props.C04
import SafeHtml.Props.C05
import SafeHtml.Props.C06
import SafeHtml.Props.C07
import SafeHtml.Props.C08
import SafeHtml.Props.C10
import SafeHtml.Props.C11
import SafeHtml.Props.C12
import SafeHtml.Props.C13
import SafeHtml.Props.C14
import SafeHtml.Props.C15
import SafeHtml.Props.C16
import SafeHtml.Props.C17
import SafeHtml.Props.C18
import SafeHtml.Props.C19
import SafeHtml.Props.C20
import SafeHtml.Driver
