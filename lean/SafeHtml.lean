-- Root of the `SafeHtml` library: imports everything that must build.
import SafeHtml.Basic.Bytes
import SafeHtml.Basic.Utf8
import SafeHtml.Rx.Match
import SafeHtml.Generated.Regexes
import SafeHtml.Generated.Tables
