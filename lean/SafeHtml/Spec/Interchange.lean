/-
Spec vocabulary for "interchange-valid" text (C10): the code points that must not occur —
NUL, C0 controls other than TAB LF FF CR, DEL, C1 controls (U+007F…U+009F), and the 66 Unicode
noncharacters (U+FDD0…U+FDEF and U+nFFFE, U+nFFFF for n = 0…16) — and the reference coercion.
Core Lean only.
-/
import SafeHtml.Basic.Utf8
namespace SafeHtml.Spec
open SafeHtml

/-- arithmetic definition (the prose of the property text) -/
def isBadRune (r : Nat) : Bool :=
  r ≤ 8 || r == 11 || (14 ≤ r && r ≤ 31) || (127 ≤ r && r ≤ 159) ||
  (0xFDD0 ≤ r && r ≤ 0xFDEF) || (65534 ≤ r % 65536 && r ≤ 0x10FFFF)

/-- the same set as explicit ranges (hand-written from the Unicode standard, used for the
    verified range comparison with the regenerated Go tables) -/
def badRanges : List (Nat × Nat) :=
  [(0, 8), (11, 11), (14, 31), (127, 159), (0xFDD0, 0xFDEF),
   (0xFFFE, 0xFFFF), (0x1FFFE, 0x1FFFF), (0x2FFFE, 0x2FFFF), (0x3FFFE, 0x3FFFF), (0x4FFFE, 0x4FFFF),
   (0x5FFFE, 0x5FFFF), (0x6FFFE, 0x6FFFF), (0x7FFFE, 0x7FFFF), (0x8FFFE, 0x8FFFF), (0x9FFFE, 0x9FFFF),
   (0xAFFFE, 0xAFFFF), (0xBFFFE, 0xBFFFF), (0xCFFFE, 0xCFFFF), (0xDFFFE, 0xDFFFF), (0xEFFFE, 0xEFFFF),
   (0xFFFFE, 0xFFFFF), (0x10FFFE, 0x10FFFF)]

/-- Unicode scalar value -/
def isScalar (r : Nat) : Bool := r ≤ 0x10FFFF && !(0xD800 ≤ r && r ≤ 0xDFFF)

def coerceRune (r : Nat) : Nat := if isBadRune r then 0xFFFD else r

/-- reference coercion: decode (every invalid byte ↦ U+FFFD), replace bad code points, re-encode -/
def refCoerce (s : Bytes) : Bytes := Utf8.encodeRunes ((Utf8.decodeRunes s).map coerceRune)

/-- structurally valid UTF-8: no decoding error. (A decoding error is a symbol U+FFFD of width 1;
    a genuine U+FFFD is three bytes.) -/
def validUtf8 (s : Bytes) : Bool :=
  (Utf8.decodeSyms s).all fun x => !(x.rune == 0xFFFD && x.bytes.length == 1)

end SafeHtml.Spec
