/-
The sanitization policy as a function of its tables, the strictness order between contexts, and
the instantiation with the REVIEWED tables. Core Lean only.
-/
import SafeHtml.Reviewed.Policy
import SafeHtml.Model.Tmpl.EscapeText
namespace SafeHtml.Spec.Policy
open SafeHtml SafeHtml.Reviewed.Policy

/-- contexts plus "a context the reviewed policy does not know" (weakest) -/
inductive Cx where
  | known (c : RSC)
  | unknown
  deriving DecidableEq, Repr

structure Tabs where
  specific : List (Bytes × Bytes × Cx)      -- (attr, element, context)
  global : List (Bytes × Cx)
  content : List (Bytes × Cx)
  void : List Bytes
  relVals : List Bytes

def lookup1 (t : List (Bytes × Cx)) (k : Bytes) : Option Cx :=
  match t.find? (fun r => r.1 == k) with
  | some r => some r.2
  | none => none

def lookup2 (t : List (Bytes × Bytes × Cx)) (a e : Bytes) : Option Cx :=
  match t.find? (fun r => r.1 == a && r.2.1 == e) with
  | some r => some r.2.2
  | none => none

def allowedElem (T : Tabs) (e : Bytes) : Bool := (lookup1 T.content e).isSome || T.void.contains e

/-- byte-level recogniser of `^data-[a-z_][-a-z0-9_]*$` -/
def isDataAttrTail (b : Nat) : Bool := b == 45 || b == 95 || isLowerAlpha b || isDigit b

def isDataAttr (a : Bytes) : Bool :=
  match a with
  | b0 :: b1 :: b2 :: b3 :: b4 :: c :: t =>
    b0 == 100 && (b1 == 97 && (b2 == 116 && (b3 == 97 && (b4 == 45 &&
      ((c == 95 || isLowerAlpha c) && t.all isDataAttrTail)))))
  | _ => false

/-- the context of an attribute value when the link/rel special case does not apply; `none` = refused -/
def fallthrough (T : Tabs) (isData : Bytes → Bool) (e a : Bytes) : Option Cx :=
  if isData a then some (.known .None)
  else match lookup2 T.specific a e with
    | some s => some s
    | none =>
      match lookup1 T.global a with
      | some s => if allowedElem T e then some s else none
      | none => none

/-- every rel value is a plain-URL relation (and there is at least one) -/
def relHit (T : Tabs) (rel : Bytes) : Bool :=
  !(Model.Tmpl.fields rel).isEmpty && (Model.Tmpl.fields rel).all fun v => T.relVals.contains v

def linkB : Bytes := [108, 105, 110, 107]
def hrefB : Bytes := [104, 114, 101, 102]

def attrCtx (T : Tabs) (isData : Bytes → Bool) (e a rel : Bytes) : Option Cx :=
  if e == linkB && a == hrefB && relHit T rel then some (.known .TrustedResourceURLOrURL)
  else fallthrough T isData e a

def contentCtx (T : Tabs) (e : Bytes) : Option Cx := lookup1 T.content e

/-! ### strictness order: `geStrict g r` = context `g` demands at least the trust class of `r` -/

def typedOnly : RSC → Bool
  | .Script | .StyleSheet | .Style | .Identifier | .HTMLValOnly | .TrustedResourceURL => true
  | _ => false

def isEnum : RSC → Bool
  | .AsyncEnum | .DirEnum | .LoadingEnum | .TargetEnum => true
  | _ => false

def geStrict (g r : Cx) : Bool :=
  match g, r with
  | .unknown, .unknown => true
  | .unknown, _ => false
  | .known _, .unknown => true
  | .known g, .known r =>
    g == r ||
    (r == .None) ||                                                     -- anything known is at least escaped
    (r == .TrustedResourceURLOrURL && (g == .URL || g == .TrustedResourceURL)) ||
    (r == .URL && g == .TrustedResourceURL) ||
    (r == .HTML && g == .RCDATA) ||
    (typedOnly g && !typedOnly r && !isEnum r)

/-- on verdicts: `none` (refused) is the strictest -/
def leqOpt (r g : Option Cx) : Bool :=
  match g with
  | none => true
  | some g => match r with
    | none => false
    | some r => geStrict g r

def revTabs : Tabs where
  specific := Reviewed.Policy.elementSpecificAttr.map fun r => (r.1, r.2.1, .known r.2.2)
  global := Reviewed.Policy.globalAttr.map fun r => (r.1, .known r.2)
  content := Reviewed.Policy.elementContent.map fun r => (r.1, .known r.2)
  void := Reviewed.Policy.allowedVoidElements
  relVals := Reviewed.Policy.urlLinkRelVals

/-- the reviewed verdict for an attribute value / element content -/
def reviewedAttr (e a rel : Bytes) : Option Cx := attrCtx revTabs isDataAttr e a rel
def reviewedContent (e : Bytes) : Option Cx := if e == [] then some (.known .HTML) else contentCtx revTabs e

def cxOfName (n : String) : Cx :=
  match n with
  | "AsyncEnum" => .known .AsyncEnum | "DirEnum" => .known .DirEnum | "HTML" => .known .HTML
  | "HTMLValOnly" => .known .HTMLValOnly | "Identifier" => .known .Identifier
  | "LoadingEnum" => .known .LoadingEnum | "None" => .known .None | "RCDATA" => .known .RCDATA
  | "Script" => .known .Script | "Style" => .known .Style | "StyleSheet" => .known .StyleSheet
  | "TargetEnum" => .known .TargetEnum | "TrustedResourceURL" => .known .TrustedResourceURL
  | "TrustedResourceURLOrURL" => .known .TrustedResourceURLOrURL | "URL" => .known .URL
  | "URLSet" => .known .URLSet
  | _ => .unknown

end SafeHtml.Spec.Policy
