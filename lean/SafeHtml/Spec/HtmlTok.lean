/-
Spec: the WHATWG HTML tokenizer (HTML Living Standard §13.2.5), on bytes, as far as token
boundaries are concerned: data, RCDATA, RAWTEXT, script data (with the escaped / double-escaped
sub-states), PLAINTEXT, tags, attributes, comments (all sub-states incl. abrupt closing), bogus
comments, DOCTYPE (skipped to `>`), CDATA treated as bogus comment (no foreign content).
Character references do not influence any state transition and are left undecoded in the
attribute values (decode with `Spec.CharRef.decodeAttr`).
After a start tag the tree-construction stage switches the tokenizer: title/textarea → RCDATA;
style/xmp/iframe/noembed/noframes/noscript (scripting enabled) → RAWTEXT; script → script data;
plaintext → PLAINTEXT. Independent of the model; core Lean only.
-/
import SafeHtml.Basic.Bytes
namespace SafeHtml.Spec.HtmlTok
open SafeHtml

inductive Token where
  | startTag (name : Bytes) (attrs : List (Bytes × Bytes)) (selfClosing : Bool)
  | endTag (name : Bytes)
  | comment (data : Bytes) (bogus : Bool)      -- bogus: `<?…>`, `<!x…>`, `</ …>`, `<![CDATA[…`
  | doctype
  | text (kind : String) (data : Bytes)       -- kind: data | rcdata | rawtext | script | plaintext
  deriving Repr, DecidableEq

inductive St where
  | data | rcdata | rawtext | script | plaintext
  | tagOpen | endTagOpen | tagName
  | textLt (k : Nat)              -- '<' seen in rcdata(1)/rawtext(2)/script(3) text
  | textEndOpen (k : Nat)         -- '</' seen
  | textEndName (k : Nat)         -- '</' + letters
  | scriptEscStart | scriptEscStartDash
  | scriptEsc | scriptEscDash | scriptEscDashDash
  | scriptEscLt | scriptEscEndOpen | scriptEscEndName
  | scriptDblEscStart | scriptDblEsc | scriptDblEscDash | scriptDblEscDashDash | scriptDblEscLt | scriptDblEscEnd
  | beforeAttrName | attrName | afterAttrName | beforeAttrValue
  | attrValueDq | attrValueSq | attrValueUnq | afterAttrValueQ | selfClosingStart
  | bogusComment | markupDeclOpen
  | commentStart | commentStartDash | comment | commentLt | commentLtBang | commentLtBangDash | commentLtBangDashDash
  | commentEndDash | commentEnd | commentEndBang
  | doctype
  deriving Repr, DecidableEq, Inhabited

structure T where
  st : St := .data
  toks : List Token := []          -- reversed
  txt : Bytes := []                -- pending character data (reversed)
  isEnd : Bool := false
  name : Bytes := []               -- tag name (reversed)
  attrs : List (Bytes × Bytes) := []   -- completed attributes (reversed)
  an : Bytes := []                 -- current attribute name (reversed)
  av : Bytes := []                 -- current attribute value (reversed)
  hasAttr : Bool := false
  selfClosing : Bool := false
  lastStart : Bytes := []          -- name of the last start tag emitted (appropriate end tag)
  tmp : Bytes := []                -- temporary buffer (reversed)
  cmt : Bytes := []                -- comment data (reversed)
  bogus : Bool := false
  pend : Bytes := []               -- markup declaration open look-ahead (reversed)
  deriving Inhabited

def isWs (c : Nat) : Bool := c == 9 || c == 10 || c == 12 || c == 32 || c == 13
def lower (c : Nat) : Nat := if isUpperAlpha c then c + 32 else c

def kindOf (s : St) : String :=
  match s with
  | .data => "data" | .rcdata => "rcdata" | .rawtext => "rawtext" | .plaintext => "plaintext"
  | _ => "script"

def textState (k : Nat) : St := if k == 1 then .rcdata else if k == 2 then .rawtext else .script

/-- flush pending character data as one text token of the given kind -/
def flush (t : T) (kind : String) : T :=
  if t.txt.isEmpty then t else { t with toks := .text kind t.txt.reverse :: t.toks, txt := [] }

def emitChar (t : T) (c : Nat) : T := { t with txt := c :: t.txt }
def emitChars (t : T) (cs : Bytes) : T := { t with txt := cs.reverse ++ t.txt }

def finishAttr (t : T) : T :=
  if !t.hasAttr then t
  else
    let nm := t.an.reverse
    -- duplicate attribute names are dropped (first one wins)
    let attrs := if t.attrs.any (fun a => a.1 == nm) then t.attrs else (nm, t.av.reverse) :: t.attrs
    { t with attrs := attrs, an := [], av := [], hasAttr := false }

def rcdataNames : List Bytes := [B "title", B "textarea"]
def rawtextNames : List Bytes := [B "style", B "xmp", B "iframe", B "noembed", B "noframes", B "noscript"]

/-- emit the current tag token; a start tag switches the tokenizer state by its name -/
def emitTag (t : T) (kindBefore : String) : T :=
  let t := finishAttr t
  let t := flush t kindBefore
  let nm := t.name.reverse
  if t.isEnd then
    { t with toks := .endTag nm :: t.toks, st := .data, name := [], attrs := [], selfClosing := false }
  else
    let next : St :=
      if nm == [116,105,116,108,101] || nm == [116,101,120,116,97,114,101,97] then .rcdata
      else if nm == [115,116,121,108,101] || nm == [120,109,112] || nm == [105,102,114,97,109,101] ||
              nm == [110,111,101,109,98,101,100] || nm == [110,111,102,114,97,109,101,115] ||
              nm == [110,111,115,99,114,105,112,116] then .rawtext
      else if nm == [115,99,114,105,112,116] then .script
      else if nm == [112,108,97,105,110,116,101,120,116] then .plaintext
      else .data
    { t with toks := .startTag nm t.attrs.reverse t.selfClosing :: t.toks, st := next, lastStart := nm,
             name := [], attrs := [], selfClosing := false }

def emitComment (t : T) : T :=
  let t := flush t "data"
  { t with toks := .comment t.cmt.reverse t.bogus :: t.toks, cmt := [], st := .data, bogus := false }

def newTag (t : T) (isEnd : Bool) : T :=
  { t with isEnd := isEnd, name := [], attrs := [], an := [], av := [], hasAttr := false, selfClosing := false }

def scriptB : Bytes := [115, 99, 114, 105, 112, 116]

/-- one byte; `fuel` bounds the "reconsume" chains (never more than 3) -/
def step : Nat → T → Nat → T
  | 0, t, _ => t
  | f+1, t, c =>
    let re (t : T) := step f t c            -- reconsume in the (new) state of t
    match t.st with
    | .data => if c == 60 then { t with st := .tagOpen } else emitChar t c
    | .rcdata => if c == 60 then { t with st := .textLt 1 } else emitChar t c
    | .rawtext => if c == 60 then { t with st := .textLt 2 } else emitChar t c
    | .script => if c == 60 then { t with st := .textLt 3 } else emitChar t c
    | .plaintext => emitChar t c
    | .tagOpen =>
      if c == 33 then { t with st := .markupDeclOpen, pend := [] }
      else if c == 47 then { t with st := .endTagOpen }
      else if isAlpha c then re { (newTag (flush t "data") false) with st := .tagName }
      else if c == 63 then re { (flush t "data") with st := .bogusComment, cmt := [], bogus := true }
      else re { (emitChar t 60) with st := .data }
    | .endTagOpen =>
      if isAlpha c then re { (newTag (flush t "data") true) with st := .tagName }
      else if c == 62 then { t with st := .data }
      else re { (flush t "data") with st := .bogusComment, cmt := [], bogus := true }
    | .tagName =>
      if isWs c then { t with st := .beforeAttrName }
      else if c == 47 then { t with st := .selfClosingStart }
      else if c == 62 then emitTag t "data"
      else { t with name := lower c :: t.name }
    | .textLt k =>
      if c == 47 then { t with st := .textEndOpen k, tmp := [] }
      else if k == 3 && c == 33 then { (emitChars t [60, 33]) with st := .scriptEscStart }
      else re { (emitChar t 60) with st := textState k }
    | .textEndOpen k =>
      if isAlpha c then re { (newTag t true) with st := .textEndName k }
      else re { (emitChars t [60, 47]) with st := textState k }
    | .textEndName k =>
      let appropriate := t.name.reverse == t.lastStart
      if isWs c && appropriate then { t with st := .beforeAttrName, tmp := [] }
      else if c == 47 && appropriate then { t with st := .selfClosingStart, tmp := [] }
      else if c == 62 && appropriate then
        emitTag { t with tmp := [] } (kindOf (textState k))
      else if isAlpha c then { t with name := lower c :: t.name, tmp := c :: t.tmp }
      else re { (emitChars t ([60, 47] ++ t.tmp.reverse)) with st := textState k, tmp := [], name := [] }
    | .scriptEscStart =>
      if c == 45 then { (emitChar t 45) with st := .scriptEscStartDash } else re { t with st := .script }
    | .scriptEscStartDash =>
      if c == 45 then { (emitChar t 45) with st := .scriptEscDashDash } else re { t with st := .script }
    | .scriptEsc =>
      if c == 45 then { (emitChar t 45) with st := .scriptEscDash }
      else if c == 60 then { t with st := .scriptEscLt }
      else emitChar t c
    | .scriptEscDash =>
      if c == 45 then { (emitChar t 45) with st := .scriptEscDashDash }
      else if c == 60 then { t with st := .scriptEscLt }
      else { (emitChar t c) with st := .scriptEsc }
    | .scriptEscDashDash =>
      if c == 45 then emitChar t 45
      else if c == 60 then { t with st := .scriptEscLt }
      else if c == 62 then { (emitChar t 62) with st := .script }
      else { (emitChar t c) with st := .scriptEsc }
    | .scriptEscLt =>
      if c == 47 then { t with st := .scriptEscEndOpen, tmp := [] }
      else if isAlpha c then re { (emitChar t 60) with st := .scriptDblEscStart, tmp := [] }
      else re { (emitChar t 60) with st := .scriptEsc }
    | .scriptEscEndOpen =>
      if isAlpha c then re { (newTag t true) with st := .scriptEscEndName }
      else re { (emitChars t [60, 47]) with st := .scriptEsc }
    | .scriptEscEndName =>
      let appropriate := t.name.reverse == t.lastStart
      if isWs c && appropriate then { t with st := .beforeAttrName, tmp := [] }
      else if c == 47 && appropriate then { t with st := .selfClosingStart, tmp := [] }
      else if c == 62 && appropriate then emitTag { t with tmp := [] } "script"
      else if isAlpha c then { t with name := lower c :: t.name, tmp := c :: t.tmp }
      else re { (emitChars t ([60, 47] ++ t.tmp.reverse)) with st := .scriptEsc, tmp := [], name := [] }
    | .scriptDblEscStart =>
      if isWs c || c == 47 || c == 62 then
        { (emitChar t c) with st := if t.tmp.reverse == scriptB then .scriptDblEsc else .scriptEsc }
      else if isAlpha c then { (emitChar t c) with tmp := lower c :: t.tmp }
      else re { t with st := .scriptEsc }
    | .scriptDblEsc =>
      if c == 45 then { (emitChar t 45) with st := .scriptDblEscDash }
      else if c == 60 then { (emitChar t 60) with st := .scriptDblEscLt }
      else emitChar t c
    | .scriptDblEscDash =>
      if c == 45 then { (emitChar t 45) with st := .scriptDblEscDashDash }
      else if c == 60 then { (emitChar t 60) with st := .scriptDblEscLt }
      else { (emitChar t c) with st := .scriptDblEsc }
    | .scriptDblEscDashDash =>
      if c == 45 then emitChar t 45
      else if c == 60 then { (emitChar t 60) with st := .scriptDblEscLt }
      else if c == 62 then { (emitChar t 62) with st := .script }
      else { (emitChar t c) with st := .scriptDblEsc }
    | .scriptDblEscLt =>
      if c == 47 then { (emitChar t 47) with st := .scriptDblEscEnd, tmp := [] }
      else re { t with st := .scriptDblEsc }
    | .scriptDblEscEnd =>
      if isWs c || c == 47 || c == 62 then
        { (emitChar t c) with st := if t.tmp.reverse == scriptB then .scriptEsc else .scriptDblEsc }
      else if isAlpha c then { (emitChar t c) with tmp := lower c :: t.tmp }
      else re { t with st := .scriptDblEsc }
    | .beforeAttrName =>
      if isWs c then t
      else if c == 47 || c == 62 then re { t with st := .afterAttrName }
      else if c == 61 then { (finishAttr t) with st := .attrName, an := [61], av := [], hasAttr := true }
      else re { (finishAttr t) with st := .attrName, an := [], av := [], hasAttr := true }
    | .attrName =>
      if isWs c || c == 47 || c == 62 then re { t with st := .afterAttrName }
      else if c == 61 then { t with st := .beforeAttrValue }
      else { t with an := lower c :: t.an }
    | .afterAttrName =>
      if isWs c then t
      else if c == 47 then { t with st := .selfClosingStart }
      else if c == 61 then { t with st := .beforeAttrValue }
      else if c == 62 then emitTag t "data"
      else re { (finishAttr t) with st := .attrName, an := [], av := [], hasAttr := true }
    | .beforeAttrValue =>
      if isWs c then t
      else if c == 34 then { t with st := .attrValueDq }
      else if c == 39 then { t with st := .attrValueSq }
      else if c == 62 then emitTag t "data"
      else re { t with st := .attrValueUnq }
    | .attrValueDq => if c == 34 then { t with st := .afterAttrValueQ } else { t with av := c :: t.av }
    | .attrValueSq => if c == 39 then { t with st := .afterAttrValueQ } else { t with av := c :: t.av }
    | .attrValueUnq =>
      if isWs c then { t with st := .beforeAttrName }
      else if c == 62 then emitTag t "data"
      else { t with av := c :: t.av }
    | .afterAttrValueQ =>
      if isWs c then { t with st := .beforeAttrName }
      else if c == 47 then { t with st := .selfClosingStart }
      else if c == 62 then emitTag t "data"
      else re { t with st := .beforeAttrName }
    | .selfClosingStart =>
      if c == 62 then emitTag { t with selfClosing := true } "data"
      else re { t with st := .beforeAttrName }
    | .bogusComment =>
      if c == 62 then emitComment t else { t with cmt := c :: t.cmt }
    | .markupDeclOpen =>
      -- look-ahead for `--`, `DOCTYPE` (case-insensitive), `[CDATA[` (bogus comment outside foreign content)
      let p := (c :: t.pend).reverse
      let up := p.map fun b => if isLowerAlpha b then b - 32 else b
      if p == [45, 45] then { (flush t "data") with st := .commentStart, cmt := [], pend := [] }
      else if up == [68, 79, 67, 84, 89, 80, 69] then { (flush t "data") with st := .doctype, pend := [] }
      else if [45, 45].take p.length == p || ([68, 79, 67, 84, 89, 80, 69].take up.length == up) then
        { t with pend := c :: t.pend }
      else
        -- not a comment/doctype: bogus comment containing what was looked at
        let t1 : T := { (flush t "data") with st := .bogusComment, cmt := [], pend := [], bogus := true }
        p.foldl (fun acc b => step f acc b) t1
    | .commentStart =>
      if c == 45 then { t with st := .commentStartDash }
      else if c == 62 then emitComment t
      else re { t with st := .comment }
    | .commentStartDash =>
      if c == 45 then { t with st := .commentEnd }
      else if c == 62 then emitComment t
      else re { t with st := .comment, cmt := 45 :: t.cmt }
    | .comment =>
      if c == 60 then { t with st := .commentLt, cmt := 60 :: t.cmt }
      else if c == 45 then { t with st := .commentEndDash }
      else { t with cmt := c :: t.cmt }
    | .commentLt =>
      if c == 33 then { t with st := .commentLtBang, cmt := 33 :: t.cmt }
      else if c == 60 then { t with cmt := 60 :: t.cmt }
      else re { t with st := .comment }
    | .commentLtBang => if c == 45 then { t with st := .commentLtBangDash } else re { t with st := .comment }
    | .commentLtBangDash =>
      if c == 45 then { t with st := .commentLtBangDashDash } else re { t with st := .commentEndDash }
    | .commentLtBangDashDash => re { t with st := .commentEnd }
    | .commentEndDash =>
      if c == 45 then { t with st := .commentEnd } else re { t with st := .comment, cmt := 45 :: t.cmt }
    | .commentEnd =>
      if c == 62 then emitComment t
      else if c == 33 then { t with st := .commentEndBang }
      else if c == 45 then { t with cmt := 45 :: t.cmt }
      else re { t with st := .comment, cmt := [45, 45] ++ t.cmt }
    | .commentEndBang =>
      if c == 45 then { t with st := .commentEndDash, cmt := [33, 45, 45] ++ t.cmt }
      else if c == 62 then emitComment t
      else re { t with st := .comment, cmt := [33, 45, 45] ++ t.cmt }
    | .doctype =>
      if c == 62 then { t with toks := .doctype :: t.toks, st := .data } else t

def run (t : T) (s : Bytes) : T := s.foldl (fun acc c => step 4 acc c) t

/-- end of input: pending text is flushed; an unfinished comment is emitted; an unfinished tag is dropped -/
def finish (t : T) : T :=
  match t.st with
  | .data | .rcdata | .rawtext | .script | .plaintext => flush t (kindOf t.st)
  | .bogusComment | .commentStart | .commentStartDash | .comment | .commentLt | .commentLtBang
  | .commentLtBangDash | .commentLtBangDashDash | .commentEndDash | .commentEnd | .commentEndBang =>
    { (emitComment t) with st := t.st }
  | .textLt k | .textEndOpen k | .textEndName k => flush t (kindOf (textState k))
  | .scriptEscStart | .scriptEscStartDash | .scriptEsc | .scriptEscDash | .scriptEscDashDash | .scriptEscLt
  | .scriptEscEndOpen | .scriptEscEndName | .scriptDblEscStart | .scriptDblEsc | .scriptDblEscDash
  | .scriptDblEscDashDash | .scriptDblEscLt | .scriptDblEscEnd => flush t "script"
  | _ => flush t "data"

structure Result where
  tokens : List Token
  final : St
  deriving Repr

def tokenize (s : Bytes) : Result :=
  let t := finish (run {} s)
  { tokens := t.toks.reverse, final := t.st }

/-- the structure of a token stream: tags with their attribute names, comments, doctype (no text, no values) -/
inductive Sk where
  | start (name : Bytes) (attrNames : List Bytes) (selfClosing : Bool)
  | close (name : Bytes)
  | comment
  | doctype
  deriving Repr, DecidableEq

def skeleton (ts : List Token) : List Sk :=
  ts.filterMap fun t =>
    match t with
    | .startTag n as sc => some (.start n (as.map (·.1)) sc)
    | .endTag n => some (.close n)
    | .comment _ _ => some .comment
    | .doctype => some .doctype
    | .text _ _ => none

end SafeHtml.Spec.HtmlTok
