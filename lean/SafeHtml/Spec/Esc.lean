/-
Spec vocabulary shared by C10 (and reusable by C01/C03): the set `Esc` of HTML-inert escaped text,
as an executable Bool predicate, and the spec unescaper for the five references of that set.

`Esc o`: `o` contains none of  <  >  "  '  NUL, and every '&' in `o` is the first byte of one of the
five character references  &amp;  &lt;  &gt;  &#34;  &#39;  (each complete, with its ';').
Text in `Esc` placed in element content, RCDATA content or a single- or double-quoted attribute value
cannot leave the data / RCDATA / attribute-value state of the WHATWG tokenizer: those states are left
only on '<' (data, RCDATA), on the matching quote (attribute values) — none of which occurs — and '&'
only ever starts a complete, ';'-terminated reference that decodes to one of  & < > " ' .
Core Lean only.
-/
import SafeHtml.Basic.Utf8
namespace SafeHtml.Spec
open SafeHtml

/-- the five references, without the leading '&':  amp;  lt;  gt;  #34;  #39; -/
def fiveRefs : List (Bytes × Nat) :=
  [([97, 109, 112, 59], 38), ([108, 116, 59], 60), ([103, 116, 59], 62), ([35, 51, 52, 59], 34), ([35, 51, 57, 59], 39)]

/-- does `t` (the text right after an '&') start with one of the five references: the byte it denotes
    and the length of the reference after the '&' -/
def refAt (t : Bytes) : Option (Nat × Nat) :=
  match fiveRefs.find? (fun r => r.1.isPrefixOf t) with
  | some r => some (r.2, r.1.length)
  | none => none

def isSpecial (c : Nat) : Bool := c == 60 || c == 62 || c == 34 || c == 39 || c == 0

/-- HTML-inert escaped text -/
def Esc : Bytes → Bool
  | [] => true
  | c :: t => (if c == 38 then (refAt t).isSome else !isSpecial c) && Esc t

/-- spec unescaper for exactly the five references the escaper emits; any other '&' is kept.
    `skip` bytes still belong to a reference already replaced. -/
def unescape5Go : Nat → Bytes → Bytes
  | _, [] => []
  | k+1, _ :: t => unescape5Go k t
  | 0, c :: t =>
    if c == 38 then
      match refAt t with
      | some (b, n) => b :: unescape5Go n t
      | none => c :: unescape5Go 0 t
    else c :: unescape5Go 0 t

def unescape5 (s : Bytes) : Bytes := unescape5Go 0 s

end SafeHtml.Spec
