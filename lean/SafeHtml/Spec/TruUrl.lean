/-
Statement vocabulary of C13 (TrustedResourceURL builders), independent of the model:
the four safe prefix forms in their ASCII reading, the `%{label}` marker grammar, substitution of
markers, and "percent-encoded down to unreserved characters" (Spec.Rfc3986.pctEncodeAll).
Core Lean only; byte lists are written out so that the kernel can evaluate the definitions.
-/
import SafeHtml.Spec.Rfc3986
namespace SafeHtml.Spec.TruUrl
open SafeHtml SafeHtml.Spec.Rfc3986

/-- `[0-9A-Za-z.:\[\]-]` : the bytes an `<origin>` may contain -/
def isOriginByte (c : Nat) : Bool := isAlnum c || c == 45 || c == 46 || c == 58 || c == 91 || c == 93

/-- one or more origin bytes followed by `/` -/
def originSlash : Bytes → Bool
  | [] => false
  | c :: t => isOriginByte c && (match t with
      | 47 :: _ => true
      | _ => originSlash t)

/-- `//<origin>/` -/
def netPath : Bytes → Bool
  | 47 :: 47 :: t => originSlash t
  | _ => false

/-- ASCII case-insensitive literal prefix (`lit` in lower case) -/
def ciPrefix : Bytes → Bytes → Bool
  | [], _ => true
  | _ :: _, [] => false
  | l :: ls, c :: cs => asciiLower c == l && ciPrefix ls cs

/-- "https:" -/
def litHttps : Bytes := [104, 116, 116, 112, 115, 58]
/-- "about:blank#" -/
def litAboutBlank : Bytes := [97, 98, 111, 117, 116, 58, 98, 108, 97, 110, 107, 35]

/-- `/<pathStart>` : a slash followed by a byte other than `/` and `\` -/
def pathAbsolute : Bytes → Bool
  | 47 :: b :: _ => b != 47 && b != 92
  | _ => false

/-- the four documented prefix forms, ASCII reading:
    `https://<origin>/`, `//<origin>/`, `/<pathStart>`, `about:blank#` -/
def safePrefix (s : Bytes) : Bool :=
  (ciPrefix litHttps s && netPath (s.drop 6)) || netPath s || pathAbsolute s || ciPrefix litAboutBlank s

/-- length of `<origin>/` (one or more origin bytes and the terminating slash) -/
def originSlashLen : Bytes → Option Nat
  | [] => none
  | c :: t =>
    if isOriginByte c then
      (match t with
       | 47 :: _ => some 2
       | _ => (originSlashLen t).map (· + 1))
    else none

/-- length of `//<origin>/` -/
def netPathLen : Bytes → Option Nat
  | 47 :: 47 :: t => (originSlashLen t).map (· + 2)
  | _ => none

/-- length of the `https://<origin>/` or `//<origin>/` prefix: the bytes that hold scheme and authority -/
def originPrefixLen (s : Bytes) : Option Nat :=
  if ciPrefix litHttps s && netPath (s.drop 6) then (netPathLen (s.drop 6)).map (· + 6) else netPathLen s

/-- `[0-9A-Za-z_]` -/
def isWord (c : Nat) : Bool := isAlnum c || c == 95

/-- a marker `%{label}` (label = one or more word bytes) at the front: label and the rest -/
def markerAt : Bytes → Option (Bytes × Bytes)
  | 37 :: 123 :: t =>
    let w := t.takeWhile isWord
    match t.drop w.length with
    | 125 :: rest => if w.isEmpty then none else some (w, rest)
    | _ => none
  | _ => none

inductive Piece where
  | lit (b : Nat)
  | marker (label : Bytes)
  deriving Repr, DecidableEq

/-- a format string as literal bytes and markers, scanning left to right (`fuel` ≥ length) -/
def piecesAux : Nat → Bytes → List Piece
  | 0, _ => []
  | _, [] => []
  | f+1, c :: t =>
    match markerAt (c :: t) with
    | some (l, rest) => .marker l :: piecesAux f rest
    | none => .lit c :: piecesAux f t

def pieces (fmt : Bytes) : List Piece := piecesAux fmt.length fmt

def labels (fmt : Bytes) : List Bytes :=
  (pieces fmt).filterMap fun | .marker l => some l | .lit _ => none

/-- the format with every marker replaced by `f label` -/
def subst (f : Bytes → Bytes) (fmt : Bytes) : Bytes :=
  (pieces fmt).flatMap fun | .lit b => [b] | .marker l => f l

/-- the literal text before the first marker -/
def literalPrefix (fmt : Bytes) : Bytes :=
  ((pieces fmt).takeWhile fun | .lit _ => true | .marker _ => false).filterMap
    fun | .lit b => some b | .marker _ => none

/-- structural delimiters of a URL: `/ ? # : @ [ ] \` (gen-delims and the backslash browsers read as `/`) -/
def isDelim (c : Nat) : Bool :=
  c == 47 || c == 63 || c == 35 || c == 58 || c == 64 || c == 91 || c == 93 || c == 92

/-- the sequence of structural delimiters -/
def skeleton (s : Bytes) : Bytes := s.filter isDelim

end SafeHtml.Spec.TruUrl
