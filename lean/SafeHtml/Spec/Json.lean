/-
RFC 8259 JSON: value type, decoder / validator. Trusted specification vocabulary; written from the
RFC grammar, independent of the model of encoding/json.

  JSON-text = ws value ws
  value     = false / null / true / object / array / number / string
  object    = ws "{" ws [ member *( ws "," ws member ) ] ws "}" ws ;  member = string ws ":" ws value
  array     = ws "[" ws [ value *( ws "," ws value ) ] ws "]" ws
  number    = [ "-" ] ( "0" / digit1-9 *DIGIT ) [ "." 1*DIGIT ] [ ("e"/"E") ["-"/"+"] 1*DIGIT ]
  string    = %x22 *char %x22 ; char = unescaped (%x20-21 / %x23-5B / %x5D-10FFFF) /
              "\" ( %x22 / "\" / "/" / b / f / n / r / t / u 4HEXDIG )
  ws        = *( %x20 / %x09 / %x0A / %x0D )

Strings are decoded to Unicode code points: `\uXXXX` escapes, a high surrogate escape followed by
a low surrogate escape combine (RFC 8259 §7); a lone surrogate escape is grammatical and is kept
as that code point. The text must be UTF-8 (§8.1): with `lossy = false` an ill-formed byte
rejects the text; with `lossy = true` it reads as U+FFFD (what a decoder that replaces does, e.g.
encoding/json itself, or an HTML parser decoding the page before the script is parsed).
Numbers keep their literal text. Objects keep member order (and duplicates).
Core Lean only.
-/
import SafeHtml.Basic.Utf8
namespace SafeHtml.Spec.Json
open SafeHtml

inductive JsonValue where
  | null
  | bool (b : Bool)
  | num (lit : Bytes)
  | str (cps : List Nat)
  | arr (xs : List JsonValue)
  | obj (kvs : List (List Nat × JsonValue))
  deriving Repr

mutual
def JsonValue.beq : JsonValue → JsonValue → Bool
  | .null, .null => true
  | .bool a, .bool b => a == b
  | .num a, .num b => a == b
  | .str a, .str b => a == b
  | .arr a, .arr b => beqL a b
  | .obj a, .obj b => beqM a b
  | _, _ => false
def beqL : List JsonValue → List JsonValue → Bool
  | [], [] => true
  | x :: s, y :: t => JsonValue.beq x y && beqL s t
  | _, _ => false
def beqM : List (List Nat × JsonValue) → List (List Nat × JsonValue) → Bool
  | [], [] => true
  | (k, x) :: s, (l, y) :: t => k == l && JsonValue.beq x y && beqM s t
  | _, _ => false
end

instance : BEq JsonValue := ⟨JsonValue.beq⟩

def isWs (c : Nat) : Bool := c == 32 || c == 9 || c == 10 || c == 13

def skipWs : Bytes → Bytes
  | [] => []
  | c :: t => if isWs c then skipWs t else c :: t

/-! ### numbers -/

def isNumCh (c : Nat) : Bool := isDigit c || c == 45 || c == 43 || c == 46 || c == 101 || c == 69

/-- longest prefix of number characters (none of them can follow a number in a JSON text) -/
def spanNum : Bytes → Bytes × Bytes
  | [] => ([], [])
  | c :: t => if isNumCh c then ((c :: (spanNum t).1), (spanNum t).2) else ([], c :: t)

def dropDigits : Bytes → Bytes
  | [] => []
  | c :: t => if isDigit c then dropDigits t else c :: t

/-- `1*DIGIT rest` ↦ rest -/
def digits1 : Bytes → Option Bytes
  | c :: t => if isDigit c then some (dropDigits t) else none
  | [] => none

/-- `[ exp ]` then end of literal -/
def numExp : Bytes → Bool
  | [] => true
  | c :: t =>
    if c == 101 || c == 69 then
      match t with
      | s :: t' =>
        if s == 43 || s == 45 then digits1 t' == some [] else digits1 (s :: t') == some []
      | [] => false
    else false

/-- `[ frac ] [ exp ]` then end of literal -/
def numFrac : Bytes → Bool
  | [] => true
  | c :: t =>
    if c == 46 then
      match digits1 t with
      | some r => numExp r
      | none => false
    else numExp (c :: t)

/-- `int [ frac ] [ exp ]` -/
def numInt : Bytes → Bool
  | [] => false
  | c :: t =>
    if c == 48 then numFrac t
    else if 49 ≤ c && c ≤ 57 then numFrac (dropDigits t)
    else false

/-- the RFC 8259 `number` production, whole string -/
def isNumber : Bytes → Bool
  | [] => false
  | c :: t => if c == 45 then numInt t else numInt (c :: t)

/-! ### strings -/

def hexv (c : Nat) : Option Nat :=
  if 48 ≤ c && c ≤ 57 then some (c - 48)
  else if 97 ≤ c && c ≤ 102 then some (c - 87)
  else if 65 ≤ c && c ≤ 70 then some (c - 55)
  else none

def hex4 : Bytes → Option (Nat × Bytes)
  | a :: b :: c :: d :: t =>
    match hexv a, hexv b, hexv c, hexv d with
    | some x, some y, some z, some w => some (x * 4096 + y * 256 + z * 16 + w, t)
    | _, _, _, _ => none
  | _ => none

def isHighSurr (u : Nat) : Bool := 0xD800 ≤ u && u ≤ 0xDBFF
def isLowSurr (u : Nat) : Bool := 0xDC00 ≤ u && u ≤ 0xDFFF

/-- after a `\u` with value `u`: combine with a following low-surrogate escape -/
def surrogate (u : Nat) (t : Bytes) : Nat × Bytes :=
  if isHighSurr u then
    match t with
    | a :: b :: t' =>
      if a == 92 && b == 117 then
        match hex4 t' with
        | some (l, t'') =>
          if isLowSurr l then (0x10000 + (u - 0xD800) * 1024 + (l - 0xDC00), t'') else (u, t)
        | none => (u, t)
      else (u, t)
    | _ => (u, t)
  else (u, t)

/-- the text after a backslash ↦ (code point, rest) -/
def parseEscape : Bytes → Option (Nat × Bytes)
  | [] => none
  | e :: t =>
    if e == 34 then some (34, t)
    else if e == 92 then some (92, t)
    else if e == 47 then some (47, t)
    else if e == 98 then some (8, t)
    else if e == 102 then some (12, t)
    else if e == 110 then some (10, t)
    else if e == 114 then some (13, t)
    else if e == 116 then some (9, t)
    else if e == 117 then
      match hex4 t with
      | some (u, t') => some (surrogate u t')
      | none => none
    else none

def consCp (cp : Nat) (r : Option (List Nat × Bytes)) : Option (List Nat × Bytes) :=
  r.map fun p => (cp :: p.1, p.2)

/-- the text after the opening quote ↦ (code points, text after the closing quote) -/
def strBody (lossy : Bool) : Nat → Bytes → Option (List Nat × Bytes)
  | 0, _ => none
  | _+1, [] => none
  | f+1, c :: t =>
    if c == 34 then some ([], t)
    else if c == 92 then
      match parseEscape t with
      | none => none
      | some (cp, t') => consCp cp (strBody lossy f t')
    else if c < 32 then none
    else if c < 128 then consCp c (strBody lossy f t)
    else
      let d := Utf8.decode1 c t
      if d.1 == Utf8.runeError && d.2 == 1 then
        (if lossy then consCp Utf8.runeError (strBody lossy f t) else none)
      else consCp d.1 (strBody lossy f ((c :: t).drop d.2))

def parseString (lossy : Bool) (t : Bytes) : Option (List Nat × Bytes) := strBody lossy (t.length + 1) t

/-! ### values -/

/-- `value *( ws "," ws value ) ws "]"`, positioned at the first value -/
def parseElems (pv : Bytes → Option (JsonValue × Bytes)) : Nat → Bytes → Option (List JsonValue × Bytes)
  | 0, _ => none
  | f+1, s =>
    match pv s with
    | none => none
    | some (v, r) =>
      match skipWs r with
      | [] => none
      | c :: r' =>
        if c == 44 then (parseElems pv f (skipWs r')).map fun p => (v :: p.1, p.2)
        else if c == 93 then some ([v], r')
        else none

/-- `member *( ws "," ws member ) ws "}"`, positioned at the first member -/
def parseMembers (lossy : Bool) (pv : Bytes → Option (JsonValue × Bytes)) :
    Nat → Bytes → Option (List (List Nat × JsonValue) × Bytes)
  | 0, _ => none
  | f+1, s =>
    match s with
    | [] => none
    | q :: t =>
      if q != 34 then none else
      match parseString lossy t with
      | none => none
      | some (k, r) =>
        match skipWs r with
        | [] => none
        | c2 :: r2 =>
          if c2 != 58 then none else
          match pv (skipWs r2) with
          | none => none
          | some (v, r3) =>
            match skipWs r3 with
            | [] => none
            | c3 :: r4 =>
              if c3 == 44 then (parseMembers lossy pv f (skipWs r4)).map fun p => ((k, v) :: p.1, p.2)
              else if c3 == 125 then some ([(k, v)], r4)
              else none

def litRest (lit : Bytes) (v : JsonValue) (t : Bytes) : Option (JsonValue × Bytes) :=
  if lit.isPrefixOf t then some (v, t.drop lit.length) else none

/-- one value at the head of the text (no leading ws) ↦ (value, rest). Fuel bounds the nesting depth. -/
def parseValue (lossy : Bool) : Nat → Bytes → Option (JsonValue × Bytes)
  | 0, _ => none
  | _+1, [] => none
  | f+1, c :: t =>
    if c == 110 then litRest [117, 108, 108] .null t
    else if c == 116 then litRest [114, 117, 101] (.bool true) t
    else if c == 102 then litRest [97, 108, 115, 101] (.bool false) t
    else if c == 34 then (parseString lossy t).map fun p => (.str p.1, p.2)
    else if c == 91 then
      match skipWs t with
      | [] => none
      | d :: t' =>
        if d == 93 then some (.arr [], t')
        else (parseElems (parseValue lossy f) (t.length + 1) (d :: t')).map fun p => (.arr p.1, p.2)
    else if c == 123 then
      match skipWs t with
      | [] => none
      | d :: t' =>
        if d == 125 then some (.obj [], t')
        else (parseMembers lossy (parseValue lossy f) (t.length + 1) (d :: t')).map fun p => (.obj p.1, p.2)
    else if c == 45 || isDigit c then
      (if isNumber (spanNum (c :: t)).1 then some (.num (spanNum (c :: t)).1, (spanNum (c :: t)).2) else none)
    else none

/-- `JSON-text = ws value ws`, whole input -/
def decodeWith (lossy : Bool) (s : Bytes) : Option JsonValue :=
  match parseValue lossy (s.length + 1) (skipWs s) with
  | some (v, r) => if (skipWs r).isEmpty then some v else none
  | none => none

/-- strict RFC 8259 decoder (UTF-8 required) -/
def decode (s : Bytes) : Option JsonValue := decodeWith false s

/-- decoder that reads ill-formed UTF-8 bytes in strings as U+FFFD -/
def decodeLossy (s : Bytes) : Option JsonValue := decodeWith true s

end SafeHtml.Spec.Json
