/-
WHATWG HTML, "parse a srcset attribute"
(https://html.spec.whatwg.org/multipage/images.html#parsing-a-srcset-attribute), steps 1–8: the collection
of image candidate strings, i.e. for every candidate its URL and its list of descriptor tokens, BEFORE
the descriptor parser (steps 9–17) validates the tokens. Parse errors that do not change the result are
not represented. Independent of the model; core Lean only.

Numbered comments quote the standard's step they transcribe.
-/
import SafeHtml.Basic.Bytes
namespace SafeHtml.Spec.Srcset
open SafeHtml

/-- https://infra.spec.whatwg.org/#ascii-whitespace : U+0009 TAB, U+000A LF, U+000C FF, U+000D CR, U+0020 SPACE -/
def isAsciiWhitespace (c : Nat) : Bool := c == 9 || c == 10 || c == 12 || c == 13 || c == 32

/-- "collect a sequence of code points meeting a condition from input given position":
    the collected code points, and the input from the new position on -/
def collect (cond : Nat → Bool) (input : Bytes) : Bytes × Bytes :=
  (input.takeWhile cond, input.dropWhile cond)

/-- "skip ASCII whitespace within input given position" -/
def skipWhitespace (input : Bytes) : Bytes := (collect isAsciiWhitespace input).2

/-- state of the descriptor tokenizer (step 8, otherwise-branch, sub-step 3) -/
inductive TokState where
  | inDescriptor
  | inParens
  | afterDescriptor
  deriving DecidableEq, Repr

/-- "If current descriptor is not empty, append current descriptor to descriptors" -/
def pushNonEmpty (descriptors : List Bytes) (current : Bytes) : List Bytes :=
  if current.isEmpty then descriptors else descriptors ++ [current]

/-- Step 8, otherwise-branch, sub-step 4 (repeated): `tokenize state current descriptors input` processes the
    character at position (head of `input`, `[]` = EOF) and returns the descriptors and the input from the
    position at which the algorithm jumps to the descriptor parser. -/
def tokenize : TokState → Bytes → List Bytes → Bytes → List Bytes × Bytes
  -- EOF
  | .inDescriptor, current, descriptors, [] =>
      -- "If current descriptor is not empty, append current descriptor to descriptors. Jump to descriptor parser."
      (pushNonEmpty descriptors current, [])
  | .inParens, current, descriptors, [] =>
      -- "Append current descriptor to descriptors. Jump to descriptor parser."
      (descriptors ++ [current], [])
  | .afterDescriptor, _, descriptors, [] =>
      -- "Jump to the step labeled descriptor parser."
      (descriptors, [])
  | .inDescriptor, current, descriptors, c :: t =>
      if isAsciiWhitespace c then
        -- "If current descriptor is not empty, append current descriptor to descriptors and let current
        --  descriptor be the empty string. Set state to after descriptor."
        tokenize .afterDescriptor [] (pushNonEmpty descriptors current) t
      else if c == 44 then
        -- "Advance position to the next character in input. If current descriptor is not empty, append
        --  current descriptor to descriptors. Jump to the step labeled descriptor parser."
        (pushNonEmpty descriptors current, t)
      else if c == 40 then
        -- "Append c to current descriptor. Set state to in parens."
        tokenize .inParens (current ++ [c]) descriptors t
      else
        -- "Append c to current descriptor."
        tokenize .inDescriptor (current ++ [c]) descriptors t
  | .inParens, current, descriptors, c :: t =>
      if c == 41 then
        -- "Append c to current descriptor. Set state to in descriptor."
        tokenize .inDescriptor (current ++ [c]) descriptors t
      else
        -- "Append c to current descriptor."
        tokenize .inParens (current ++ [c]) descriptors t
  | .afterDescriptor, current, descriptors, c :: t =>
      if isAsciiWhitespace c then
        -- "Stay in this state."
        tokenize .afterDescriptor current descriptors t
      else
        -- "Set state to in descriptor. Set position to the previous character in input." followed by the common
        -- "Advance position to the next character in input. Repeat this step.": c is processed again in state
        -- in descriptor (c is not whitespace, so it is one of the three remaining in-descriptor cases).
        if c == 44 then (pushNonEmpty descriptors current, t)
        else if c == 40 then tokenize .inParens (current ++ [c]) descriptors t
        else tokenize .inDescriptor (current ++ [c]) descriptors t

/-- remove all trailing U+002C COMMA characters -/
def stripTrailingCommas (url : Bytes) : Bytes :=
  (url.reverse.dropWhile (· == 44)).reverse

/-- an image candidate string as collected by steps 4–8: URL and descriptor tokens -/
abbrev Candidate := Bytes × List Bytes

/-- Steps 4–8 and 17 ("Return to the step labeled splitting loop"), with every candidate recorded (descriptor
    validation, steps 9–16, is not applied). `fuel` bounds the number of rounds; every round consumes at least
    one code point, so `input.length + 1` is enough. -/
def splittingLoop : Nat → Bytes → List Candidate
  | 0, _ => []
  | fuel + 1, input =>
    -- 4. "Splitting loop: Collect a sequence of code points that are ASCII whitespace or U+002C COMMA characters"
    let input := (collect (fun c => isAsciiWhitespace c || c == 44) input).2
    -- 5. "If position is past the end of input, return candidates."
    if input.isEmpty then [] else
    -- 6. "Collect a sequence of code points that are not ASCII whitespace from input given position, and let that be url."
    let (url, input) := collect (fun c => !isAsciiWhitespace c) input
    -- 7. "Let descriptors be a new empty list."
    -- 8. "If url ends with U+002C (,), then: remove all trailing U+002C COMMA characters from url."
    if url.getLast? == some 44 then
      (stripTrailingCommas url, []) :: splittingLoop fuel input
    else
      -- "Otherwise: 1. Descriptor tokenizer: Skip ASCII whitespace within input given position.
      --  2. Let current descriptor be the empty string. 3. Let state be in descriptor."
      let (descriptors, input) := tokenize .inDescriptor [] [] (skipWhitespace input)
      (url, descriptors) :: splittingLoop fuel input

/-- the image candidate strings (URL, descriptor tokens) that "parse a srcset attribute" collects from `input` -/
def candidates (input : Bytes) : List Candidate := splittingLoop (input.length + 1) input

end SafeHtml.Spec.Srcset
