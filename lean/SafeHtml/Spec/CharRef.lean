/-
WHATWG HTML §13.2.5.72–80 "character reference" states, for a character reference met INSIDE AN ATTRIBUTE VALUE
(the "consumed as part of an attribute" rule applies), over UTF-8 bytes. Transcribed from the standard,
independently of the model of Go's html.UnescapeString. The named-reference table is the regenerated
`Generated/Entities` (the HTML5 list as shipped with Go); the numeric replacement table is transcribed here
from the standard ("numeric character reference end state").
-/
import SafeHtml.Basic.Utf8
import SafeHtml.Basic.EntityTable
namespace SafeHtml.Spec.CharRef
open SafeHtml

/-- numeric character reference end state: table for 0x80–0x9F (absent = unchanged) -/
def c1Table : List (Nat × Nat) :=
  [(0x80, 0x20AC), (0x82, 0x201A), (0x83, 0x0192), (0x84, 0x201E), (0x85, 0x2026), (0x86, 0x2020), (0x87, 0x2021),
   (0x88, 0x02C6), (0x89, 0x2030), (0x8A, 0x0160), (0x8B, 0x2039), (0x8C, 0x0152), (0x8E, 0x017D),
   (0x91, 0x2018), (0x92, 0x2019), (0x93, 0x201C), (0x94, 0x201D), (0x95, 0x2022), (0x96, 0x2013), (0x97, 0x2014),
   (0x98, 0x02DC), (0x99, 0x2122), (0x9A, 0x0161), (0x9B, 0x203A), (0x9C, 0x0153), (0x9E, 0x017E), (0x9F, 0x0178)]

def numericCodePoint (x : Nat) : Nat :=
  if x == 0 then 0xFFFD
  else if x > 0x10FFFF then 0xFFFD
  else if 0xD800 ≤ x && x ≤ 0xDFFF then 0xFFFD
  else match c1Table.find? (fun e => e.1 == x) with
    | some e => e.2
    | none => x

def hexVal (c : Nat) : Option Nat :=
  if isDigit c then some (c - 48)
  else if 97 ≤ c && c ≤ 102 then some (c - 87)
  else if 65 ≤ c && c ≤ 70 then some (c - 55)
  else none

def decVal (c : Nat) : Option Nat := if isDigit c then some (c - 48) else none

/-- digits: (value, number of digits) -/
def digits (val : Nat → Option Nat) (base : Nat) : Bytes → Nat → Nat → Nat × Nat
  | [], x, n => (x, n)
  | c :: t, x, n =>
    match val c with
    | some d => digits val base t (base * x + d) (n + 1)
    | none => (x, n)

def alnumRun : Bytes → Nat
  | [] => 0
  | c :: t => if isAlnum c then alnumRun t + 1 else 0

/-- longest identifier of the table that is a prefix of `run` (no semicolon): (runes, length) -/
def longestPrefix (run : Bytes) : Nat → Option ((Nat × Nat) × Nat)
  | 0 => none
  | j+1 =>
    match EntityTable.lookup (run.take (j + 1)) with
    | some e => some (e, j + 1)
    | none => longestPrefix run j

def encodeEntity (e : Nat × Nat) : Bytes :=
  if e.2 == 0 then Utf8.encodeRune e.1 else Utf8.encodeRune e.1 ++ Utf8.encodeRune e.2

/-- one character reference, given the bytes AFTER `&`: (output bytes, bytes consumed after the `&`).
    `attr` = "consumed as part of an attribute". -/
def consume (attr : Bool) (rest : Bytes) : Bytes × Nat :=
  match rest with
  | [] => ([38], 0)
  | 35 :: t =>
    let (isHex, ds) := match t with
      | 120 :: u => (true, u)
      | 88 :: u => (true, u)
      | _ => (false, t)
    let (x, n) := if isHex then digits hexVal 16 ds 0 0 else digits decVal 10 ds 0 0
    if n == 0 then ([38], 0)     -- absence-of-digits: flush "&#" / "&#x" as text
    else
      let semi := match ds.drop n with
        | 59 :: _ => 1
        | _ => 0
      (Utf8.encodeRune (numericCodePoint x), 1 + (if isHex then 1 else 0) + n + semi)
  | _ =>
    let k := alnumRun rest
    if k == 0 then ([38], 0) else
    let run := rest.take k
    let withSemi := match rest.drop k with
      | 59 :: _ => EntityTable.lookup (run ++ [59])
      | _ => none
    match withSemi with
    | some e => (encodeEntity e, k + 1)
    | none =>
      match longestPrefix run k with
      | none => ([38], 0)               -- ambiguous ampersand: the run is emitted as ordinary text
      | some (e, j) =>
        let next := rest.drop j
        let blocked := attr && (match next with
          | c :: _ => c == 61 || isAlnum c
          | [] => false)
        if blocked then ([38], 0) else (encodeEntity e, j)

def decodeAux (attr : Bool) : Nat → Bytes → Bytes
  | 0, s => s
  | _+1, [] => []
  | f+1, c :: t =>
    if c == 38 then
      let r := consume attr t
      r.1 ++ decodeAux attr f (t.drop r.2)
    else c :: decodeAux attr f t

/-- the value the browser sees for an attribute whose source text is `s` -/
def decodeAttr (s : Bytes) : Bytes := decodeAux true s.length s

/-- the same in data state (text) -/
def decodeText (s : Bytes) : Bytes := decodeAux false s.length s

/-- `s` ends inside a character reference: some suffix `&…` could still be continued into (or be changed as) a
    reference by appended characters: `&`, `&` alnum+, `&#`, `&#` digit*, `&#x`, `&#x` hexdigit*. -/
def refPrefixTail : Bytes → Bool
  | [] => true
  | 35 :: t =>
    (match t with
     | 120 :: u => u.all fun c => (hexVal c).isSome
     | 88 :: u => u.all fun c => (hexVal c).isSome
     | _ => false) || t.all isDigit
  | c :: t => isAlpha c && t.all isAlnum

def endsWithCharRefPrefix : Bytes → Bool
  | [] => false
  | c :: t => (c == 38 && refPrefixTail t) || endsWithCharRefPrefix t

end SafeHtml.Spec.CharRef
