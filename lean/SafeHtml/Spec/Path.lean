/-
Spec vocabulary for C20: lexical Unix paths on byte lists — Go's `path/filepath` documentation
for `Clean` and `Join` (GOOS=linux: Separator '/', ListSeparator ':'), transcribed on components.

`Clean` (doc of path/filepath.Clean):
  1. Replace multiple Separator elements with a single one.
  2. Eliminate each . path name element (the current directory).
  3. Eliminate each inner .. path name element (the parent directory) along with the non-..
     element that precedes it.
  4. Eliminate .. elements that begin a rooted path: replace "/.." by "/" at the beginning.
  The returned path ends in a slash only if it is the root "/"; the empty result is ".".
`Join`: empty elements are ignored, the rest joined with Separator, the result Cleaned;
  if all elements are empty the result is the empty string.

Core Lean only, structurally recursive, independent of the model of the Go code. Validated against
the real `filepath.Clean/Join` by the correspondence ops `path.clean`, `path.join3`.
-/
import SafeHtml.Basic.Bytes
namespace SafeHtml.Spec.Path
open SafeHtml

/-- `filepath.Separator` on Unix -/
def sepByte : Nat := 47
/-- `filepath.ListSeparator` on Unix -/
def listSepByte : Nat := 58
/-- "." -/
def dot : Bytes := [46]
/-- ".." -/
def dotdot : Bytes := [46, 46]

/-- `strings.Split(p, "/")`: never empty; `splitSep "" = [""]`. -/
def splitSep : Bytes → List Bytes
  | [] => [[]]
  | c :: t =>
    if c = 47 then [] :: splitSep t
    else match splitSep t with
      | [] => [[c]]
      | h :: r => (c :: h) :: r

/-- `strings.Join(cs, "/")` -/
def joinSep : List Bytes → Bytes
  | [] => []
  | [c] => c
  | c :: t => c ++ 47 :: joinSep t

/-- a path name element that survives rules 1 and 2: not empty, not "." -/
def keepElem (c : Bytes) : Bool := !(c == []) && !(c == dot)

/-- the path name elements of `p` after rules 1 and 2 (empty and "." elements dropped) -/
def components (p : Bytes) : List Bytes := (splitSep p).filter keepElem

/-- rooted = begins with the separator -/
def isRooted : Bytes → Bool
  | 47 :: _ => true
  | _ => false

/-- One element pushed on the (reversed: head = last element) stack of kept elements, rules 3 and 4. -/
def step (rooted : Bool) (stk : List Bytes) (c : Bytes) : List Bytes :=
  if c = dotdot then
    match stk with
    | [] => if rooted then [] else [dotdot]
    | t :: rest => if t = dotdot then dotdot :: t :: rest else rest
  else c :: stk

/-- the elements of the cleaned path, first element first -/
def resolve (rooted : Bool) (cs : List Bytes) : List Bytes :=
  (cs.foldl (step rooted) []).reverse

/-- print a rooted/unrooted element list as a path -/
def render (rooted : Bool) (elems : List Bytes) : Bytes :=
  match rooted, elems with
  | false, [] => dot
  | true, [] => [47]
  | false, es => joinSep es
  | true, es => 47 :: joinSep es

/-- `filepath.Clean` (Unix) -/
def clean (p : Bytes) : Bytes :=
  render (isRooted p) (resolve (isRooted p) (components p))

/-- "Empty elements are ignored." -/
def nonEmptyElems (elems : List Bytes) : List Bytes := elems.filter (fun e => !(e == []))

/-- `filepath.Join` (Unix) -/
def join (elems : List Bytes) : Bytes :=
  match nonEmptyElems elems with
  | [] => []
  | es => clean (joinSep es)

/-- the elements of an (already clean or not) path, with `.`/empty elements dropped and `..` resolved:
    what the path *names*, together with `isRooted`. -/
def elements (p : Bytes) : List Bytes := resolve (isRooted p) (components p)

/-- a filename that may be appended as one path element: no separator, no list separator,
    and none of the names with a special meaning -/
def plainName (f : Bytes) : Bool :=
  !(f == []) && !(f == dot) && !(f == dotdot) && !f.contains 47 && !f.contains 58

/-- the path of the entry called `f` in directory `base`; `base` is a clean path or "" -/
def child (base f : Bytes) : Bytes :=
  if base = [] ∨ base = dot then f
  else if base = [47] then 47 :: f
  else base ++ 47 :: f

end SafeHtml.Spec.Path
