/-
RFC 3986 on bytes: the five components (appendix B:
  ^(([^:/?#]+):)?(//([^/?#]*))?([^?#]*)(\?([^#]*))?(#(.*))?  ),
`remove_dot_segments` (section 5.2.4, the input/output-buffer algorithm, rules A–E),
unreserved characters (section 2.3) and percent-encoding (section 2.1).
Additionally the WHATWG URL notion of single-dot and double-dot path segment (`.`, `%2e`, `..`, `.%2e`,
`%2e.`, `%2e%2e`, ASCII case-insensitive), because browsers treat those like `.`/`..`.
Specification vocabulary: independent of the model, core Lean only.
-/
import SafeHtml.Basic.Bytes
namespace SafeHtml.Spec.Rfc3986
open SafeHtml

structure Parts where
  scheme : Option Bytes
  authority : Option Bytes
  path : Bytes
  query : Option Bytes
  fragment : Option Bytes
  deriving Repr, DecidableEq, BEq

/-- split at the first `c`: text before it, and (if `c` occurs) the text after it -/
def cut (c : Nat) : Bytes → Bytes × Option Bytes
  | [] => ([], none)
  | b :: t => if b == c then ([], some t) else ((cut c t).1.cons b, (cut c t).2)

/-- `^([^:/?#]+):` on a string without `?`/`#`: the scheme and the rest -/
def splitScheme (s : Bytes) : Option Bytes × Bytes :=
  let w := s.takeWhile fun b => !(b == 58 || b == 47 || b == 63 || b == 35)
  match s.drop w.length with
  | 58 :: rest => if w.isEmpty then (none, s) else (some w, rest)
  | _ => (none, s)

/-- `(//([^/?#]*))?` on a string without `?`/`#` -/
def splitAuthority (s : Bytes) : Option Bytes × Bytes :=
  match s with
  | 47 :: 47 :: t =>
    let a := t.takeWhile fun b => !(b == 47 || b == 63 || b == 35)
    (some a, t.drop a.length)
  | _ => (none, s)

def split (s : Bytes) : Parts :=
  let bf := cut 35 s
  let bq := cut 63 bf.1
  let sc := splitScheme bq.1
  let au := splitAuthority sc.2
  { scheme := sc.1, authority := au.1, path := au.2, query := bq.2, fragment := bf.2 }

/-- path segments: the pieces between `/` (a path `/a/b` has segments `["", "a", "b"]`) -/
def segments : Bytes → List Bytes
  | [] => [[]]
  | b :: t =>
    if b == 47 then [] :: segments t
    else match segments t with
      | [] => [[b]]
      | s :: ss => (b :: s) :: ss

def isUnreserved (c : Nat) : Bool := isAlnum c || c == 45 || c == 46 || c == 95 || c == 126

/-- `(unreserved | "%" HEXDIG HEXDIG)*` -/
def isUnreservedOrPct : Bytes → Bool
  | [] => true
  | 37 :: a :: b :: t => isHexDigit a && isHexDigit b && isUnreservedOrPct t
  | c :: t => isUnreserved c && isUnreservedOrPct t

def hexValB (c : Nat) : Nat :=
  if isDigit c then c - 48 else if 97 ≤ c && c ≤ 102 then c - 87 else c - 55

/-- percent-decoding (malformed escapes are kept) -/
def pctDecode : Bytes → Bytes
  | [] => []
  | 37 :: a :: b :: t =>
    if isHexDigit a && isHexDigit b then (hexValB a * 16 + hexValB b) :: pctDecode t
    else 37 :: pctDecode (a :: b :: t)
  | c :: t => c :: pctDecode t

/-- percent-encode everything but unreserved characters, lower-case hex (what "percent-encoded down
    to unreserved characters" means) -/
def pctEncodeAll : Bytes → Bytes
  | [] => []
  | c :: t =>
    (if isUnreserved c then [c] else [37, hexDigitLower (c / 16 % 16), hexDigitLower (c % 16)]) ++ pctEncodeAll t

/-- a literal or percent-encoded dot at the front: the rest after it -/
def dotAt : Bytes → Option Bytes
  | 46 :: t => some t
  | 37 :: 50 :: e :: t => if e == 101 || e == 69 then some t else none
  | _ => none

/-- WHATWG single-dot path segment -/
def isDotSeg (s : Bytes) : Bool :=
  match dotAt s with
  | some [] => true
  | _ => false

/-- WHATWG double-dot path segment -/
def isDotDotSeg (s : Bytes) : Bool :=
  match dotAt s with
  | some t => (match dotAt t with | some [] => true | _ => false)
  | none => false

/-- two adjacent dots (each literal or `%2e`/`%2E`) anywhere -/
def hasDoubleDot : Bytes → Bool
  | [] => false
  | c :: t =>
    (match dotAt (c :: t) with
     | some r => (dotAt r).isSome
     | none => false) || hasDoubleDot t

/-- replace percent-encoded dots by literal ones in dot segments, so that RFC 3986
    `remove_dot_segments` sees what a browser sees -/
def normDotSegs (path : Bytes) : List Bytes :=
  (segments path).map fun s => if isDotSeg s then [46] else if isDotDotSeg s then [46, 46] else s

def joinSlash : List Bytes → Bytes
  | [] => []
  | [x] => x
  | x :: y :: t => x ++ 47 :: joinSlash (y :: t)

/-- remove the last segment and its preceding `/` from the output buffer (kept reversed) -/
def dropLastSegRev : Bytes → Bytes
  | [] => []
  | c :: t => if c == 47 then t else dropLastSegRev t

/-- RFC 3986 5.2.4; `out` is the output buffer reversed; `fuel` ≥ input length + 1 -/
def rdsLoop : Nat → Bytes → Bytes → Bytes
  | 0, _, out => out.reverse
  | _, [], out => out.reverse
  -- A
  | f+1, 46 :: 46 :: 47 :: r, out => rdsLoop f r out
  | f+1, 46 :: 47 :: r, out => rdsLoop f r out
  -- B
  | f+1, 47 :: 46 :: 47 :: r, out => rdsLoop f (47 :: r) out
  | f+1, [47, 46], out => rdsLoop f [47] out
  -- C
  | f+1, 47 :: 46 :: 46 :: 47 :: r, out => rdsLoop f (47 :: r) (dropLastSegRev out)
  | f+1, [47, 46, 46], out => rdsLoop f [47] (dropLastSegRev out)
  -- D
  | f+1, [46], out => rdsLoop f [] out
  | f+1, [46, 46], out => rdsLoop f [] out
  -- E
  | f+1, c :: r, out =>
    let seg := r.takeWhile (· != 47)
    rdsLoop f (r.drop seg.length) (seg.reverse ++ c :: out)

def removeDotSegments (path : Bytes) : Bytes := rdsLoop (path.length + 1) path []

/-- the path a browser resolves: percent-encoded dot segments decoded, then `remove_dot_segments` -/
def resolvedPath (path : Bytes) : Bytes := removeDotSegments (joinSlash (normDotSegs path))

/-- directory part: everything up to and including the last `/` -/
def dirOf (path : Bytes) : Bytes :=
  (path.reverse.dropWhile (· != 47)).reverse

end SafeHtml.Spec.Rfc3986
