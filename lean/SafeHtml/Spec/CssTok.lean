/-
CSS Syntax Module Level 3 — §3.3 input preprocessing and §4.3 tokenizer, on code points (`Nat`).
Transcribed section by section; independent of the model. Core Lean only.

Deviations from the letter of the standard, all observational only:
 * comments are returned as `Tok.comment closed` (the standard drops them) so that properties can
   speak about them; `tokens` is the standard's token stream (comments removed), `tokensC` keeps them;
 * string / url tokens carry `closed := false` when they were ended by EOF (a parse error in the
   standard, which still returns the token);
 * numeric tokens keep their representation (code points) instead of a numeric value;
 * every recursive consumer takes fuel (= remaining input length suffices) so that all functions
   are structurally recursive and evaluate in the kernel.
-/
import SafeHtml.Basic.Bytes
namespace SafeHtml.Spec.Css
open SafeHtml

inductive Tok where
  | ident (name : List Nat)
  | function (name : List Nat)
  | atKeyword (name : List Nat)
  | hash (name : List Nat) (isId : Bool)
  | string (val : List Nat) (closed : Bool)
  | badString
  | url (val : List Nat) (closed : Bool)
  | badUrl
  | delim (c : Nat)
  | number (repr : List Nat)
  | percentage (repr : List Nat)
  | dimension (repr : List Nat) (unit : List Nat)
  | whitespace
  | cdo | cdc | colon | semicolon | comma
  | lbrack | rbrack | lparen | rparen | lbrace | rbrace
  | comment (closed : Bool)
  deriving Repr, DecidableEq

/-! ### §3.3 preprocessing -/

def isSurrogate (c : Nat) : Bool := 0xD800 ≤ c && c ≤ 0xDFFF

/-- CR LF, CR, FF ↦ LF;  NUL and surrogates ↦ U+FFFD -/
def preprocess : List Nat → List Nat
  | [] => []
  | c :: t =>
    if c = 13 then
      10 :: (match t with
        | d :: t' => if d = 10 then preprocess t' else preprocess (d :: t')
        | [] => [])
    else if c = 12 then 10 :: preprocess t
    else if c = 0 || isSurrogate c then 0xFFFD :: preprocess t
    else c :: preprocess t

/-! ### §4.2 definitions -/

def isNewline (c : Nat) : Bool := c == 10
def isWs (c : Nat) : Bool := c == 10 || c == 9 || c == 32
def isIdentStart (c : Nat) : Bool := isAlpha c || 128 ≤ c || c == 95
def isIdentChar (c : Nat) : Bool := isIdentStart c || isDigit c || c == 45
def isNonPrintable (c : Nat) : Bool := c ≤ 8 || c == 11 || (14 ≤ c && c ≤ 31) || c == 127

def hexDigitVal (c : Nat) : Nat :=
  if isDigit c then c - 48 else if 97 ≤ c && c ≤ 102 then c - 87 else c - 55

/-- §4.3.8: do the first two code points of `s` form a valid escape?
    (EOF after the backslash counts as valid, as in the standard's wording.) -/
def validEscape (s : List Nat) : Bool :=
  match s with
  | c :: t => c == 92 && (match t with | d :: _ => d != 10 | [] => true)
  | [] => false

/-- §4.3.9: would the first three code points of `s` start an ident sequence? -/
def startsIdent (s : List Nat) : Bool :=
  match s with
  | [] => false
  | c :: t =>
    if c == 45 then
      (match t with
        | d :: _ => isIdentStart d || d == 45 || validEscape t
        | [] => false)
    else if isIdentStart c then true
    else if c == 92 then validEscape s
    else false

/-- §4.3.10: would the first three code points of `s` start a number? -/
def startsNumber (s : List Nat) : Bool :=
  match s with
  | [] => false
  | c :: t =>
    if c == 43 || c == 45 then
      (match t with
        | d :: t' => isDigit d || (d == 46 && (match t' with | e :: _ => isDigit e | [] => false))
        | [] => false)
    else if c == 46 then (match t with | d :: _ => isDigit d | [] => false)
    else isDigit c

/-! ### §4.3.7 consume an escaped code point (the backslash is already consumed) -/

def takeHex : Nat → List Nat → List Nat × List Nat
  | 0, s => ([], s)
  | _+1, [] => ([], [])
  | n+1, c :: t =>
    if isHexDigit c then
      let r := takeHex n t
      (c :: r.1, r.2)
    else ([], c :: t)

def hexValue (h : List Nat) : Nat := h.foldl (fun a c => a * 16 + hexDigitVal c) 0

def consumeEscaped : List Nat → Nat × List Nat
  | [] => (0xFFFD, [])
  | c :: t =>
    if isHexDigit c then
      let r := takeHex 5 t
      let v := hexValue (c :: r.1)
      let rest := match r.2 with
        | w :: r' => if isWs w then r' else w :: r'
        | [] => []
      (if v == 0 || isSurrogate v || v > 0x10FFFF then 0xFFFD else v, rest)
    else (c, t)

/-! ### §4.3.11 consume an ident sequence -/

def consumeName : Nat → List Nat → List Nat × List Nat
  | 0, s => ([], s)
  | _+1, [] => ([], [])
  | f+1, c :: t =>
    if isIdentChar c then
      let r := consumeName f t
      (c :: r.1, r.2)
    else if validEscape (c :: t) then
      let e := consumeEscaped t
      let r := consumeName f e.2
      (e.1 :: r.1, r.2)
    else ([], c :: t)

/-! ### §4.3.12 consume a number (representation only) -/

def spanP (p : Nat → Bool) : List Nat → List Nat × List Nat
  | [] => ([], [])
  | c :: t => if p c then let r := spanP p t; (c :: r.1, r.2) else ([], c :: t)

def consumeNumber (s : List Nat) : List Nat × List Nat :=
  -- 2. optional sign
  let a : List Nat × List Nat := match s with
    | c :: t => if c == 43 || c == 45 then ([c], t) else ([], s)
    | [] => ([], [])
  -- 3. digits
  let b := spanP isDigit a.2
  -- 4. `.` digit
  let c : List Nat × List Nat := match b.2 with
    | p :: d :: t =>
      if p == 46 && isDigit d then let r := spanP isDigit t; (p :: d :: r.1, r.2) else ([], b.2)
    | _ => ([], b.2)
  -- 5. e/E, optional sign, digit
  let d : List Nat × List Nat := match c.2 with
    | e :: x :: t =>
      if e == 69 || e == 101 then
        if isDigit x then let r := spanP isDigit t; (e :: x :: r.1, r.2)
        else if x == 43 || x == 45 then
          (match t with
            | y :: t' => if isDigit y then let r := spanP isDigit t'; (e :: x :: y :: r.1, r.2) else ([], c.2)
            | [] => ([], c.2))
        else ([], c.2)
      else ([], c.2)
    | _ => ([], c.2)
  (a.1 ++ b.1 ++ c.1 ++ d.1, d.2)

/-! ### §4.3.3 consume a numeric token -/

def consumeNumeric (s : List Nat) : Tok × List Nat :=
  let n := consumeNumber s
  if startsIdent n.2 then
    let u := consumeName n.2.length n.2
    (.dimension n.1 u.1, u.2)
  else match n.2 with
    | c :: t => if c == 37 then (.percentage n.1, t) else (.number n.1, n.2)
    | [] => (.number n.1, [])

/-! ### §4.3.5 consume a string token (the opening quote `q` is already consumed) -/

inductive StrEnd where
  | closed | eof | newline
  deriving Repr, DecidableEq

def consumeStr (q : Nat) : Nat → List Nat → List Nat × StrEnd × List Nat
  | 0, s => ([], .eof, s)
  | _+1, [] => ([], .eof, [])
  | f+1, c :: t =>
    if c == q then ([], .closed, t)
    else if c == 10 then ([], .newline, c :: t)
    else if c == 92 then
      match t with
      | [] => ([], .eof, [])
      | d :: t' =>
        if d == 10 then consumeStr q f t'
        else
          let e := consumeEscaped (d :: t')
          let r := consumeStr q f e.2
          (e.1 :: r.1, r.2.1, r.2.2)
    else
      let r := consumeStr q f t
      (c :: r.1, r.2.1, r.2.2)

def consumeString (q : Nat) (s : List Nat) : Tok × List Nat :=
  let r := consumeStr q s.length s
  match r.2.1 with
  | .closed => (.string r.1 true, r.2.2)
  | .eof => (.string r.1 false, r.2.2)
  | .newline => (.badString, r.2.2)

/-! ### §4.3.14 consume the remnants of a bad url;  §4.3.6 consume a url token -/

def badUrlRemnants : Nat → List Nat → List Nat
  | 0, s => s
  | _+1, [] => []
  | f+1, c :: t =>
    if c == 41 then t
    else if validEscape (c :: t) then badUrlRemnants f (consumeEscaped t).2
    else badUrlRemnants f t

def skipWs (s : List Nat) : List Nat := (spanP isWs s).2

/-- after `url(`; leading whitespace already skipped by the caller -/
def consumeUrl : Nat → List Nat → Tok × List Nat
  | 0, s => (.url [] false, s)
  | _+1, [] => (.url [] false, [])
  | f+1, c :: t =>
    if c == 41 then (.url [] true, t)
    else if isWs c then
      match skipWs t with
      | [] => (.url [] false, [])
      | d :: t' => if d == 41 then (.url [] true, t') else (.badUrl, badUrlRemnants f (d :: t'))
    else if c == 34 || c == 39 || c == 40 || isNonPrintable c then (.badUrl, badUrlRemnants f t)
    else if c == 92 then
      if validEscape (c :: t) then
        let e := consumeEscaped t
        match consumeUrl f e.2 with
        | (.url v cl, r) => (.url (e.1 :: v) cl, r)
        | x => x
      else (.badUrl, badUrlRemnants f t)
    else
      match consumeUrl f t with
      | (.url v cl, r) => (.url (c :: v) cl, r)
      | x => x

/-! ### §4.3.4 consume an ident-like token -/

def isUrlName (n : List Nat) : Bool := n.map asciiLower == [117, 114, 108]

/-- `url(` has been consumed: drop whitespace while the next TWO code points are whitespace -/
def urlSkipWs : List Nat → List Nat
  | a :: b :: t => if isWs a && isWs b then urlSkipWs (b :: t) else a :: b :: t
  | s => s

def isQuote (c : Nat) : Bool := c == 34 || c == 39

def consumeIdentLike (s : List Nat) : Tok × List Nat :=
  let n := consumeName s.length s
  match n.2 with
  | c :: t =>
    if c == 40 then
      if isUrlName n.1 then
        let r := urlSkipWs t
        let quoted := match r with
          | a :: u => isQuote a || (isWs a && (match u with | b :: _ => isQuote b | [] => false))
          | [] => false
        if quoted then (.function n.1, r)
        else
          let r' := skipWs r
          consumeUrl r'.length r'
      else (.function n.1, t)
    else (.ident n.1, n.2)
  | [] => (.ident n.1, [])

/-! ### §4.3.2 comments -/

/-- after `/*`: the input after the first `*/`, and whether it was found -/
def skipComment : List Nat → Bool × List Nat
  | [] => (false, [])
  | c :: t =>
    match t with
    | d :: t' => if c == 42 && d == 47 then (true, t') else skipComment t
    | [] => (false, [])

/-! ### §4.3.1 consume a token (input non-empty: `c` is the next input code point) -/

def consumeToken (c : Nat) (t : List Nat) : Tok × List Nat :=
  if c == 47 && t.head? == some 42 then
    let r := skipComment (t.drop 1)
    (.comment r.1, r.2)
  else if isWs c then (.whitespace, skipWs t)
  else if c == 34 then consumeString 34 t
  else if c == 35 then
    (match t with
      | d :: _ =>
        if isIdentChar d || validEscape t then
          let n := consumeName t.length t
          (.hash n.1 (startsIdent t), n.2)
        else (.delim c, t)
      | [] => (.delim c, t))
  else if c == 39 then consumeString 39 t
  else if c == 40 then (.lparen, t)
  else if c == 41 then (.rparen, t)
  else if c == 43 then
    if startsNumber (c :: t) then consumeNumeric (c :: t) else (.delim c, t)
  else if c == 44 then (.comma, t)
  else if c == 45 then
    if startsNumber (c :: t) then consumeNumeric (c :: t)
    else
      (match t with
        | a :: b :: t' =>
          if a == 45 && b == 62 then (.cdc, t')
          else if startsIdent (c :: t) then consumeIdentLike (c :: t) else (.delim c, t)
        | _ => if startsIdent (c :: t) then consumeIdentLike (c :: t) else (.delim c, t))
  else if c == 46 then
    if startsNumber (c :: t) then consumeNumeric (c :: t) else (.delim c, t)
  else if c == 58 then (.colon, t)
  else if c == 59 then (.semicolon, t)
  else if c == 60 then
    (match t with
      | a :: b :: d :: t' => if a == 33 && b == 45 && d == 45 then (.cdo, t') else (.delim c, t)
      | _ => (.delim c, t))
  else if c == 64 then
    if startsIdent t then
      let n := consumeName t.length t
      (.atKeyword n.1, n.2)
    else (.delim c, t)
  else if c == 91 then (.lbrack, t)
  else if c == 92 then
    if validEscape (c :: t) then consumeIdentLike (c :: t) else (.delim c, t)
  else if c == 93 then (.rbrack, t)
  else if c == 123 then (.lbrace, t)
  else if c == 125 then (.rbrace, t)
  else if isDigit c then consumeNumeric (c :: t)
  else if isIdentStart c then consumeIdentLike (c :: t)
  else (.delim c, t)

/-- all tokens of a preprocessed code point list, comments included -/
def tokAux : Nat → List Nat → List Tok
  | 0, _ => []
  | _, [] => []
  | f+1, c :: t =>
    let r := consumeToken c t
    r.1 :: tokAux f r.2

def tokensC (s : List Nat) : List Tok := tokAux s.length s

def isComment : Tok → Bool
  | .comment _ => true
  | _ => false

/-- the standard's token stream of a preprocessed input -/
def tokens (s : List Nat) : List Tok := (tokensC s).filter (fun t => !isComment t)

/-- tokenizer applied to raw code points (preprocessing included) -/
def tokenize (s : List Nat) : List Tok := tokens (preprocess s)
def tokenizeC (s : List Nat) : List Tok := tokensC (preprocess s)

/-- tokens that the standard flags as parse errors at the token level -/
def isBadTok : Tok → Bool
  | .badString => true
  | .badUrl => true
  | .string _ false => true
  | .url _ false => true
  | .comment false => true
  | _ => false

end SafeHtml.Spec.Css
