/-
CSS Syntax Module Level 3 — §5.4 parser algorithms on a token list:
component values / simple blocks / functions (§5.4.7–9), "consume a list of declarations"
(§5.4.4–5), "consume a list of rules" (§5.4.1–3). Independent of the model. Core Lean only.

All consumers take fuel (token count + 1 suffices) so that they are structurally recursive.
Parse errors of the standard are recorded as data (`closed := false`, `Item.bad`), never dropped
silently, so that properties can speak about them.
-/
import SafeHtml.Spec.CssTok
namespace SafeHtml.Spec.Css

/-- component value (§5.3): preserved token, simple block, function -/
inductive CV where
  | tok (t : Tok)
  | block (opener : Tok) (body : List CV) (closed : Bool)
  | func (name : List Nat) (body : List CV) (closed : Bool)
  deriving Repr

/-- mirror token of a block opener, `none` if `t` does not open anything -/
def closerOf : Tok → Option Tok
  | .lbrace => some .rbrace
  | .lbrack => some .rbrack
  | .lparen => some .rparen
  | .function _ => some .rparen
  | _ => none

def mkBlock (opener : Tok) (body : List CV) (closed : Bool) : CV :=
  match opener with
  | .function n => .func n body closed
  | o => .block o body closed

/-- §5.4.8 / §5.4.9: consume component values up to the ending token `closer` (already inside the
    block). Returns the body, whether the ending token was found (false = EOF, a parse error) and
    the remaining tokens. -/
def consumeBody : Nat → Tok → List Tok → List CV × Bool × List Tok
  | 0, _, ts => ([], false, ts)
  | _+1, _, [] => ([], false, [])
  | f+1, closer, t :: ts =>
    if t = closer then ([], true, ts)
    else
      match closerOf t with
      | some cl =>
        let inner := consumeBody f cl ts
        let more := consumeBody f closer inner.2.2
        (mkBlock t inner.1 inner.2.1 :: more.1, more.2.1, more.2.2)
      | none =>
        let more := consumeBody f closer ts
        (.tok t :: more.1, more.2.1, more.2.2)

/-- §5.4.7 consume a component value (`t` is the next token) -/
def consumeCV (fuel : Nat) (t : Tok) (ts : List Tok) : CV × List Tok :=
  match closerOf t with
  | some cl =>
    let inner := consumeBody fuel cl ts
    (mkBlock t inner.1 inner.2.1, inner.2.2)
  | none => (.tok t, ts)

mutual
  def CV.flatten : CV → List Tok
    | .tok t => [t]
    | .block o body closed =>
      o :: flattenL body ++ (if closed then (match closerOf o with | some c => [c] | none => []) else [])
    | .func n body closed => Tok.function n :: flattenL body ++ (if closed then [Tok.rparen] else [])
  def flattenL : List CV → List Tok
    | [] => []
    | c :: cs => c.flatten ++ flattenL cs
end

mutual
  /-- no block or function anywhere inside was ended by EOF -/
  def CV.allClosed : CV → Bool
    | .tok _ => true
    | .block _ body closed => closed && allClosedL body
    | .func _ body closed => closed && allClosedL body
  def allClosedL : List CV → Bool
    | [] => true
    | c :: cs => c.allClosed && allClosedL cs
end

/-- component values up to (not including) the next top-level `;` or EOF -/
def consumeUntilSemi : Nat → List Tok → List CV × List Tok
  | 0, ts => ([], ts)
  | _+1, [] => ([], [])
  | f+1, t :: ts =>
    if t = .semicolon then ([], t :: ts)
    else
      let c := consumeCV f t ts
      let more := consumeUntilSemi f c.2
      (c.1 :: more.1, more.2)

structure Decl where
  name : List Nat
  value : List CV          -- after steps 5–6 (important removed, trailing whitespace trimmed)
  important : Bool
  deriving Repr

inductive Item where
  | decl (d : Decl)
  | atRule (name : List Nat) (prelude : List CV) (block : Option (List CV)) (closed : Bool)
  | bad (toks : List CV)   -- parse error: thrown away by the standard; kept here for inspection
  deriving Repr

def CV.isWs : CV → Bool
  | .tok .whitespace => true
  | _ => false

def dropWsCV (l : List CV) : List CV := l.dropWhile CV.isWs

def isImportantIdent : CV → Bool
  | .tok (.ident n) => n.map asciiLower == [105, 109, 112, 111, 114, 116, 97, 110, 116]
  | _ => false

def isBang : CV → Bool
  | .tok (.delim 33) => true
  | _ => false

/-- §5.4.5 consume a declaration from a list of component values (first one is the ident `name`) -/
def finishDecl (name : List Nat) (rest : List CV) : Option Decl :=
  match dropWsCV rest with
  | .tok .colon :: v =>
    let v := dropWsCV v
    -- 5: last two non-whitespace tokens `!` `important`
    let r := dropWsCV v.reverse
    let (v', imp) := match r with
      | a :: r' =>
        (match dropWsCV r' with
          | b :: r'' => if isImportantIdent a && isBang b then (r''.reverse, true) else (v, false)
          | [] => (v, false))
      | [] => (v, false)
    -- 6: trailing whitespace
    some { name := name, value := (dropWsCV v'.reverse).reverse, important := imp }
  | _ => none

/-- §5.4.2 consume an at-rule (the at-keyword is already consumed) -/
def consumeAtRuleBody : Nat → List Tok → List CV × Option (List CV) × Bool × List Tok
  | 0, ts => ([], none, false, ts)
  | _+1, [] => ([], none, false, [])
  | f+1, t :: ts =>
    if t = .semicolon then ([], none, true, ts)
    else if t = .lbrace then
      let b := consumeBody f .rbrace ts
      ([], some b.1, b.2.1, b.2.2)
    else
      let c := consumeCV f t ts
      let more := consumeAtRuleBody f c.2
      (c.1 :: more.1, more.2.1, more.2.2.1, more.2.2.2)

/-- §5.4.4 consume a list of declarations -/
def declListAux : Nat → List Tok → List Item
  | 0, _ => []
  | _+1, [] => []
  | f+1, t :: ts =>
    match t with
    | .whitespace => declListAux f ts
    | .semicolon => declListAux f ts
    | .atKeyword n =>
      let r := consumeAtRuleBody f ts
      .atRule n r.1 r.2.1 r.2.2.1 :: declListAux f r.2.2.2
    | .ident n =>
      let r := consumeUntilSemi f ts
      (match finishDecl n r.1 with
        | some d => .decl d
        | none => .bad (.tok t :: r.1)) :: declListAux f r.2
    | _ =>
      let r := consumeUntilSemi (f+1) (t :: ts)
      .bad r.1 :: declListAux f r.2

def declList (ts : List Tok) : List Item := declListAux (ts.length + 1) ts

structure QRule where
  prelude : List CV
  block : List CV
  closed : Bool            -- the `{}` block was ended by `}` (false: by EOF)
  deriving Repr

inductive Rule where
  | qualified (r : QRule)
  | at (name : List Nat) (prelude : List CV) (block : Option (List CV)) (closed : Bool)
  | error (prelude : List CV)   -- qualified rule that hit EOF before `{`: "return nothing"
  deriving Repr

/-- §5.4.3 consume a qualified rule -/
def consumeQRule : Nat → List Tok → Option QRule × List CV × List Tok
  | 0, ts => (none, [], ts)
  | _+1, [] => (none, [], [])
  | f+1, t :: ts =>
    if t = .lbrace then
      let b := consumeBody f .rbrace ts
      (some { prelude := [], block := b.1, closed := b.2.1 }, [], b.2.2)
    else
      let c := consumeCV f t ts
      let more := consumeQRule f c.2
      (more.1.map (fun q => { q with prelude := c.1 :: q.prelude }), c.1 :: more.2.1, more.2.2)

/-- §5.4.1 consume a list of rules -/
def ruleListAux (top : Bool) : Nat → List Tok → List Rule
  | 0, _ => []
  | _+1, [] => []
  | f+1, t :: ts =>
    let qualified (all : List Tok) : List Rule :=
      let r := consumeQRule (f+1) all
      (match r.1 with
        | some q => Rule.qualified q
        | none => Rule.error r.2.1) :: ruleListAux top f r.2.2
    match t with
    | .whitespace => ruleListAux top f ts
    | .cdo => if top then ruleListAux top f ts else qualified (t :: ts)
    | .cdc => if top then ruleListAux top f ts else qualified (t :: ts)
    | .atKeyword n =>
      let r := consumeAtRuleBody f ts
      .at n r.1 r.2.1 r.2.2.1 :: ruleListAux top f r.2.2.2
    | _ => qualified (t :: ts)

/-- "parse a list of rules" (`top := false`) / "parse a stylesheet" (`top := true`) -/
def ruleList (top : Bool) (ts : List Tok) : List Rule := ruleListAux top (ts.length + 1) ts

end SafeHtml.Spec.Css
