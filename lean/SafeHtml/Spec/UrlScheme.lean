/-
Spec vocabulary (trusted transcription, independent of the model):

* WHATWG URL Standard, "basic URL parser" — input preprocessing and the two states that decide
  whether an input has a scheme (https://url.spec.whatwg.org/#concept-basic-url-parser):
    1. "Remove any leading and trailing C0 control or space from input."   (U+0000 … U+0020)
    2. "Remove all ASCII tab or newline from input."                        (U+0009, U+000A, U+000D)
    scheme start state: ASCII alpha → append lower-cased to buffer, go to scheme state;
                        otherwise (no state override) → no scheme state.
    scheme state:       ASCII alphanumeric, '+', '-', '.' → append lower-cased to buffer;
                        ':' → the URL's scheme is buffer;
                        otherwise (incl. end of input, no state override) → no scheme state.
  The parser works on code points; every code point it tests is ASCII and UTF-8 is
  ASCII-transparent (no byte of a multi-byte sequence is < 0x80), so the same functions are
  correct on the UTF-8 bytes, on Go's rune sequence, or on any list of naturals. They are
  written over `List Nat`; the theorems of Props/C11 use the byte reading, the oracle
  (Oracle/C11) evaluates both the byte and the code-point reading on every real output.

* A one-round HTML character-reference decoder sufficient for the statement of C11: numeric
  references (decimal / hexadecimal, with or without the terminating ';') and a small list of
  named references. The theorem C11_safe is stated for EVERY decoder `dec` satisfying
  `DecLaw dec` (text before the first '&' is copied unchanged), of which `decodeRefs` is one.

Core Lean only.
-/
import SafeHtml.Basic.Utf8
namespace SafeHtml.Spec.UrlScheme
open SafeHtml

/-- "C0 control or space": U+0000 … U+0020 -/
def isC0OrSpace (c : Nat) : Bool := c ≤ 32

/-- "ASCII tab or newline": U+0009, U+000A, U+000D -/
def isTabOrNewline (c : Nat) : Bool := c == 9 || c == 10 || c == 13

def stripLeading (s : List Nat) : List Nat := s.dropWhile isC0OrSpace
def stripTrailing (s : List Nat) : List Nat := (s.reverse.dropWhile isC0OrSpace).reverse

/-- steps 1–2 of the basic URL parser's input preprocessing -/
def preprocess (s : List Nat) : List Nat :=
  (stripTrailing (stripLeading s)).filter (fun c => !isTabOrNewline c)

/-- characters allowed after the first one of a scheme -/
def isSchemeChar (c : Nat) : Bool := isAlnum c || c == 43 || c == 45 || c == 46

/-- scheme state; `buf` is the buffer, most recent character first -/
def schemeState (buf : List Nat) : List Nat → Option (List Nat)
  | [] => none
  | c :: t =>
    if isSchemeChar c then schemeState (asciiLower c :: buf) t
    else if c == 58 then some buf.reverse
    else none

/-- scheme start state -/
def schemeStart : List Nat → Option (List Nat)
  | [] => none
  | c :: t => if isAlpha c then schemeState [asciiLower c] t else none

/-- the (lower-cased) scheme a WHATWG URL parser finds in `s`, if it finds one -/
def whatwgScheme (s : List Nat) : Option (List Nat) := schemeStart (preprocess s)

/-- "javascript" -/
def javascript : List Nat := [106, 97, 118, 97, 115, 99, 114, 105, 112, 116]

/-- the fixed value of the property text: `about:invalid#zGoSafez` -/
def innocuous : List Nat :=
  [97, 98, 111, 117, 116, 58, 105, 110, 118, 97, 108, 105, 100, 35, 122, 71, 111, 83, 97, 102, 101, 122]

/-! ### completeness clauses of the property text -/

def isAsciiSchemeByte (c : Nat) : Bool := isAlnum c || c == 43 || c == 46 || c == 45

/-- "starts with an ASCII scheme ([A-Za-z0-9+.-]+ then ':')": the scheme, if so -/
def asciiSchemePrefix (s : Bytes) : Option Bytes :=
  match s.takeWhile isAsciiSchemeByte, s.dropWhile isAsciiSchemeByte with
  | c :: sch, 58 :: _ => some (c :: sch)
  | _, _ => none

def isDelim (c : Nat) : Bool := c == 47 || c == 63 || c == 35

/-- "':' and '&' occur only after the first '/', '?' or '#'" -/
def noColonAmpBeforeFirstDelim (s : Bytes) : Bool :=
  (s.takeWhile (fun c => !isDelim c)).all (fun c => c != 58 && c != 38)

/-! ### one round of character-reference decoding -/

/-- what every one-round character-reference decoder does: text before the first '&' is kept -/
structure DecLaw (dec : Bytes → Bytes) : Prop where
  nil : dec [] = []
  keep : ∀ a b : Bytes, 38 ∉ a → dec (a ++ b) = a ++ dec b

def digitVal (c : Nat) : Option Nat := if isDigit c then some (c - 48) else none
def hexDigitVal (c : Nat) : Option Nat :=
  if isDigit c then some (c - 48)
  else if 97 ≤ c && c ≤ 102 then some (c - 87)
  else if 65 ≤ c && c ≤ 70 then some (c - 55)
  else none

/-- read digits: (value, number of bytes read) -/
def readNum (val : Nat → Option Nat) (base : Nat) : Bytes → Nat → Nat → Nat × Nat
  | [], acc, n => (acc, n)
  | c :: t, acc, n =>
    match val c with
    | some d => readNum val base t (acc * base + d) (n + 1)
    | none => (acc, n)

/-- named references decoded by the concrete decoder (name without '&', with ';') -/
def namedRefs : List (Bytes × Bytes) :=
  [ ([99, 111, 108, 111, 110, 59], [58]),                    -- colon;
    ([84, 97, 98, 59], [9]),                                  -- Tab;
    ([78, 101, 119, 76, 105, 110, 101, 59], [10]),            -- NewLine;
    ([97, 109, 112, 59], [38]),                               -- amp;
    ([97, 109, 112], [38]),                                   -- amp   (legacy, no ';')
    ([65, 77, 80, 59], [38]),                                 -- AMP;
    ([108, 116, 59], [60]), ([103, 116, 59], [62]),           -- lt; gt;
    ([108, 116], [60]), ([103, 116], [62]),                   -- lt gt (legacy)
    ([113, 117, 111, 116, 59], [34]), ([113, 117, 111, 116], [34]),   -- quot; quot
    ([97, 112, 111, 115, 59], [39]),                          -- apos;
    ([112, 108, 117, 115, 59], [43]),                         -- plus;
    ([112, 101, 114, 105, 111, 100, 59], [46]),               -- period;
    ([115, 111, 108, 59], [47]),                              -- sol;
    ([113, 117, 101, 115, 116, 59], [63]),                    -- quest;
    ([110, 117, 109, 59], [35]),                              -- num;
    ([110, 98, 115, 112, 59], [194, 160]), ([110, 98, 115, 112], [194, 160]) ]  -- nbsp; nbsp

def findNamed : List (Bytes × Bytes) → Bytes → Option (Bytes × Nat)
  | [], _ => none
  | (name, out) :: rest, t => if name.isPrefixOf t then some (out, name.length) else findNamed rest t

/-- the reference starting right after an '&': (replacement bytes, bytes consumed after the '&') -/
def parseRef (t : Bytes) : Option (Bytes × Nat) :=
  match t with
  | 35 :: c :: t' =>
    if c == 120 || c == 88 then
      let (v, n) := readNum hexDigitVal 16 t' 0 0
      if n == 0 then none
      else
        let semi := match t'.drop n with | 59 :: _ => 1 | _ => 0
        some (Utf8.encodeRune (if v == 0 then 0xFFFD else v), 2 + n + semi)
    else
      let (v, n) := readNum digitVal 10 (c :: t') 0 0
      if n == 0 then none
      else
        let semi := match (c :: t').drop n with | 59 :: _ => 1 | _ => 0
        some (Utf8.encodeRune (if v == 0 then 0xFFFD else v), 1 + n + semi)
  | _ => findNamed namedRefs t

/-- `skip` bytes are still to be dropped (they belong to a reference already replaced) -/
def decodeGo : Nat → Bytes → Bytes
  | _, [] => []
  | k+1, _ :: t => decodeGo k t
  | 0, c :: t =>
    if c == 38 then
      match parseRef t with
      | some (out, n) => out ++ decodeGo n t
      | none => c :: decodeGo 0 t
    else c :: decodeGo 0 t

/-- concrete one-round decoder: numeric references and `namedRefs` -/
def decodeRefs (s : Bytes) : Bytes := decodeGo 0 s

end SafeHtml.Spec.UrlScheme
