/-
URL vocabulary used by C14 (core Lean only):
  * WHATWG URL "basic URL parser": input preprocessing (strip leading/trailing C0-control-or-space, remove
    ASCII tab/newline) followed by scheme start state / scheme state → the scheme, lower-cased, or none;
  * RFC 3986 alphabets (unreserved, pct-encoded) and percent-decoding of valid triplets;
  * the ".." dot-segment in plain and percent-encoded spelling.
-/
import SafeHtml.Basic.Bytes
namespace SafeHtml.Spec.UrlComp
open SafeHtml

def isC0OrSpace (c : Nat) : Bool := c ≤ 32
def isTabOrNewline (c : Nat) : Bool := c == 9 || c == 10 || c == 13

def stripLeading (s : Bytes) : Bytes := s.dropWhile isC0OrSpace
def preprocess (s : Bytes) : Bytes :=
  ((stripLeading s).reverse.dropWhile isC0OrSpace).reverse.filter fun c => !isTabOrNewline c

def isSchemeChar (c : Nat) : Bool := isAlnum c || c == 43 || c == 45 || c == 46

/-- scheme state: returns the scheme bytes read so far when `:` is met -/
def schemeState : Bytes → Bytes → Option Bytes
  | [], _ => none
  | c :: t, acc =>
    if isSchemeChar c then schemeState t (asciiLower c :: acc)
    else if c == 58 then some acc.reverse
    else none

/-- scheme of an absolute-URL-with-scheme input, as the WHATWG parser finds it (none = no scheme: relative) -/
def whatwgScheme (s : Bytes) : Option Bytes :=
  match preprocess s with
  | [] => none
  | c :: t => if isAlpha c then schemeState t [asciiLower c] else none

def javascript : Bytes := [106, 97, 118, 97, 115, 99, 114, 105, 112, 116]

def isUnreserved (c : Nat) : Bool := isAlnum c || c == 45 || c == 46 || c == 95 || c == 126

def hexValue (c : Nat) : Nat :=
  if isDigit c then c - 48 else if 97 ≤ c && c ≤ 102 then c - 87 else c - 55

/-- every byte is unreserved or part of a well-formed `%hh` -/
def unreservedOrPct : Bytes → Bool
  | [] => true
  | c :: t =>
    if c == 37 then
      match t with
      | a :: b :: u => isHexDigit a && isHexDigit b && unreservedOrPct u
      | _ => false
    else isUnreserved c && unreservedOrPct t

/-- decode well-formed `%hh` triplets, leave everything else -/
def pctDecode : Bytes → Bytes
  | [] => []
  | 37 :: a :: b :: t =>
    if isHexDigit a && isHexDigit b then (hexValue a * 16 + hexValue b) :: pctDecode t
    else 37 :: pctDecode (a :: b :: t)
  | c :: t => c :: pctDecode t

/-- every `%` is followed by two hex digits -/
def pctWellFormed : Bytes → Bool
  | [] => true
  | 37 :: a :: b :: t => isHexDigit a && isHexDigit b && pctWellFormed t
  | 37 :: _ => false
  | _ :: t => pctWellFormed t

/-- strip one "." in plain or percent-encoded form -/
def stripDot : Bytes → Option Bytes
  | [] => none
  | c :: t =>
    if c == 46 then some t
    else if c == 37 then
      match t with
      | a :: e :: u => if a == 50 && (e == 101 || e == 69) then some u else none
      | _ => none
    else none

def startsDotDot (s : Bytes) : Bool :=
  match stripDot s with
  | some t => (stripDot t).isSome
  | none => false

/-- the string contains "..", ".%2e", "%2e.", "%2e%2e" (any case) -/
def containsDotDot : Bytes → Bool
  | [] => false
  | c :: t => startsDotDot (c :: t) || containsDotDot t

/-- ends with "." or "%2e" -/
def endsWithDot : Bytes → Bool
  | [] => false
  | c :: t => (stripDot (c :: t) == some []) || endsWithDot t

/-- ends with "%" or "%h" -/
def endsWithPctPrefix : Bytes → Bool
  | [] => false
  | [37] => true
  | [37, h] => isHexDigit h
  | _ :: t => endsWithPctPrefix t

/-! ### RFC 3986 path segments -/

def isDelim (c : Nat) : Bool := c == 58 || c == 47 || c == 63 || c == 35

/-- RFC 3986 appendix B, `^(([^:/?#]+):)?(//([^/?#]*))?([^?#]*)`: the path component -/
def pathOf (s : Bytes) : Bytes :=
  let pre := s.takeWhile fun c => !isDelim c
  let s1 := match s.drop pre.length with
    | 58 :: r => if pre.isEmpty then s else r
    | _ => s
  let s2 := match s1 with
    | 47 :: 47 :: r => r.dropWhile fun c => !(c == 47 || c == 63 || c == 35)
    | _ => s1
  s2.takeWhile fun c => !(c == 63 || c == 35)

def splitSegs : Bytes → Bytes → List Bytes
  | [], cur => [cur.reverse]
  | c :: t, cur => if c == 47 then cur.reverse :: splitSegs t [] else splitSegs t (c :: cur)

/-- the segment is "..", ".%2e", "%2e." or "%2e%2e" (any case) -/
def isDotDotSeg (seg : Bytes) : Bool :=
  match stripDot seg with
  | some t => stripDot t == some []
  | none => false

/-- number of ".." segments in the path of the URL reference `s` -/
def dotDotSegments (s : Bytes) : Nat := ((splitSegs (pathOf s) []).filter isDotDotSeg).length

/-- the whole string is "." or "%2e" -/
def dotOnly (s : Bytes) : Bool := stripDot s == some []

/-- some suffix is "/." or "/%2e" -/
def slashDot : Bytes → Bool
  | [] => false
  | c :: t => (c == 47 && dotOnly t) || slashDot t

/-- the last path segment so far is exactly "." or "%2e" -/
def endsWithDotSegment (s : Bytes) : Bool := dotOnly s || slashDot s

def isWsOrCtl (c : Nat) : Bool := c ≤ 32 || c == 127

def count (c : Nat) (s : Bytes) : Nat := (s.filter (· == c)).length

end SafeHtml.Spec.UrlComp
