/-
Spec.GoTypes — the fragment of the Go language specification that property C19 rests on,
as a small executable decision procedure (core Lean only; compiled into the driver).

Transcribed from https://go.dev/ref/spec :
  * "Constants": an untyped string constant has no type yet; a constant expression built from
    untyped constants is untyped; `"a" + c` with `c` typed has c's type; `T(c)` is a typed constant.
  * "Assignability": a value x of type V is assignable to T if V and T are identical, or V and T
    have identical underlying types and at least one of them is NOT a named type, or x is an
    untyped constant representable by a value of type T.  (`string` and every defined string
    type are named types, so between string-kind types only identity and the untyped-constant
    rule ever apply.)
  * "Exported identifiers" / "Qualified identifiers": `pkg.name` is legal only if `name` is
    exported.  Hence a client can never WRITE the name of an unexported type of another
    package: no `var v pkg.t`, no `const c pkg.t`, no conversion `pkg.t(x)`.
  * "Operators": the operands of `+` must have identical types after the untyped operand has
    been converted to the other operand's type.
  * "Conversions": every string-kind type converts to every other; struct types convert iff
    their underlying types are identical IGNORING TAGS.
  * "Type identity": two struct types are identical iff same field sequence, same names, same
    embeddedness, identical field types; "non-exported field names from different packages are
    always different".
  * "Composite literals" / "Selectors": a field of a struct of another package can be named in a
    literal or selector only if exported; an unkeyed literal must list every field and
    "it is an error to specify an ElementList ... for a struct of another package with
    non-exported fields" (implicit assignment).
  * "Passing arguments to ... parameters": `f(xs...)` needs `xs` assignable to `[]T`.

The client program is always a package different from the two library packages.
Package keys: 1 = safehtml, 2 = safehtml/template, 3 = the client, 9 = any other.
-/
import SafeHtml.Basic.Bytes
namespace SafeHtml.Spec.GoTypes
open SafeHtml

def clientPkg : Nat := 3

/-- A string-kind type as seen from the client package. -/
inductive StrTy
  | string                                   -- predeclared `string` (an alias of it IS it)
  | clientDef                                -- a defined string type declared by the client
  | lib (pkg name : Nat) (exported : Bool)   -- a defined string type declared in a library package
deriving DecidableEq, Repr

/-- can the client write the type's name (declare variables/constants of it, convert to it)? -/
def StrTy.nameable : StrTy → Bool
  | .string => true
  | .clientDef => true
  | .lib _ _ e => e

/-- Type classes of parameters, results, fields and variables of the API surface. -/
inductive Cls
  | str (t : StrTy)                  -- string or a defined string type
  | variadic (t : StrTy)             -- ...T, T string-kind
  | slice (t : StrTy)                -- []T, T string-kind
  | mapStringString
  | emptyInterface
  | flagValue                        -- flag.Value
  | safe (pkg name : Nat)            -- exported defined struct of pkg 1/2 with ≥1 field, all unexported
  | variadicSafe (pkg name : Nat)
  | templatePtr                      -- *template.Template
  | templatePtrSlice
  | funcMap                          -- map[string]interface{} (named or not)
  | stringStruct (pkg name : Nat)    -- exported struct of pkg 1/2 whose fields are all exported strings
  | bytes                            -- []byte
  | embedFS | error | bool | writer
  | other
deriving DecidableEq, Repr

/-- "stringConstant": a defined, unexported string type of library package `pkg`. -/
def Cls.isStringConstantOf (pkg : Nat) : Cls → Bool
  | .str (.lib p _ false) => p == pkg
  | .variadic (.lib p _ false) => p == pkg
  | _ => false

/-- can a value of this class carry a string chosen at run time by the client?
    (`other` is answered conservatively.) -/
def Cls.acceptsDynamic : Cls → Bool
  | .str t => t.nameable
  | .variadic t => t.nameable
  | .slice t => t.nameable
  | .mapStringString | .emptyInterface | .flagValue | .funcMap | .stringStruct _ _ | .bytes | .other => true
  | .safe _ _ | .variadicSafe _ _ | .templatePtr | .templatePtrSlice
  | .embedFS | .error | .bool | .writer => false

/-- results through which trusted content is handed out -/
def Cls.isSafeLike : Cls → Bool
  | .safe _ _ | .variadicSafe _ _ | .templatePtr | .templatePtrSlice => true
  | _ => false

/-! ### string-kind expressions of a client program -/

inductive StrExpr
  | lit                          -- "…"
  | uconst                       -- a named untyped constant  (const c = "…")
  | tconst (t : StrTy)           -- a named typed constant    (const c T = "…")
  | var (t : StrTy)              -- a variable / parameter / field of type T
  | call (t : StrTy)             -- a call returning T (fmt.Sprintf, a method, …)
  | cat (a b : StrExpr)          -- a + b
  | conv (t : StrTy) (e : StrExpr)   -- T(e)
  | paren (e : StrExpr)
deriving Repr

/-- static type of an expression -/
inductive ETy
  | untyped                      -- untyped string constant
  | const (t : StrTy)            -- typed constant
  | val (t : StrTy)              -- non-constant value
deriving DecidableEq, Repr

/-- `env t`: the library itself hands out values of type `t` (an exported result, variable, constant
or field of that type). Types the client can name need no such source. -/
def srcOk (env : StrTy → Bool) (t : StrTy) : Bool := t.nameable || env t

def catTy : ETy → ETy → Option ETy
  | .untyped, b => some b
  | a, .untyped => some a
  | .const t, .const u => if t = u then some (.const t) else none
  | .const t, .val u => if t = u then some (.val t) else none
  | .val t, .const u => if t = u then some (.val t) else none
  | .val t, .val u => if t = u then some (.val t) else none

def convTy (t : StrTy) : ETy → ETy
  | .untyped => .const t
  | .const _ => .const t
  | .val _ => .val t

/-- `none` = the expression itself does not compile -/
def typeOf (env : StrTy → Bool) : StrExpr → Option ETy
  | .lit => some .untyped
  | .uconst => some .untyped
  | .tconst t => if srcOk env t then some (.const t) else none
  | .var t => if srcOk env t then some (.val t) else none
  | .call t => if srcOk env t then some (.val t) else none
  | .cat a b =>
    match typeOf env a, typeOf env b with
    | some x, some y => catTy x y
    | _, _ => none
  | .conv t e =>
    if t.nameable then (typeOf env e).map (convTy t) else none
  | .paren e => typeOf env e

/-- Assignability restricted to string-kind types (all of them named types). -/
def assignableTo : ETy → StrTy → Bool
  | .untyped, _ => true
  | .const t, p => t = p
  | .val t, p => t = p

def exprAssignable (env : StrTy → Bool) (e : StrExpr) (p : StrTy) : Bool :=
  match typeOf env e with
  | some τ => assignableTo τ p
  | none => false

/-- an expression built only from literals and untyped constants: a compile-time constant the
program text fixes completely -/
def StrExpr.isUntypedConst : StrExpr → Bool
  | .lit => true
  | .uconst => true
  | .cat a b => a.isUntypedConst && b.isUntypedConst
  | .paren e => e.isUntypedConst
  | _ => false

/-- what a client can write in one argument position -/
inductive Arg
  | expr (e : StrExpr)          -- one string-kind expression
  | spread (t : StrTy)          -- `xs...` with `xs` a variable of type []T
  | dyn                         -- a value of the parameter's own class built from a run-time string:
                                -- map literal, interface{}(s), a client flag.Value, struct literal, FuncMap literal, []T{s}, []byte(s)
  | viaGeneric (e : StrExpr)    -- Go ≥ 1.18: the client passes the library FUNCTION to its own generic helper
                                --   func g[T ~string, R any](f func(…, T, …) R, s string) R { return f(…, T(s), …) }
                                -- as g(pkg.F, e): "Type inference" binds T to the parameter's type without the
                                -- client ever writing its name, and "Conversions" allow T(s) because every type
                                -- in T's type set has underlying type string.
deriving Repr

def argCompiles (env : StrTy → Bool) : Cls → Arg → Bool
  | .str p, .expr e => exprAssignable env e p
  | .variadic p, .expr e => exprAssignable env e p
  | .variadic p, .spread t => srcOk env t && decide (t = p)
  | .slice p, .dyn => p.nameable && decide (p = .string)
  | .emptyInterface, .expr e => (typeOf env e).isSome
  | .emptyInterface, .dyn => true
  | .mapStringString, .dyn => true
  | .flagValue, .dyn => true
  | .funcMap, .dyn => true
  | .stringStruct _ _, .dyn => true
  | .bytes, .dyn => true
  | .str _, .viaGeneric e => exprAssignable env e .string
  | .variadic _, .viaGeneric e => exprAssignable env e .string
  | _, _ => false

def Arg.isUntypedConst : Arg → Bool
  | .expr e => e.isUntypedConst
  | _ => false

/-! ### struct types: identity, convertibility, construction from outside -/

structure FieldSig where
  name : Nat
  exported : Bool
  declPkg : Nat        -- package that qualifies the name when it is not exported
  embedded : Bool
  ty : Nat             -- key of the canonical (fully qualified) field type
deriving DecidableEq, Repr

def fieldIdentical (a b : FieldSig) : Bool :=
  a.name == b.name && a.exported == b.exported && a.embedded == b.embedded && a.ty == b.ty &&
    (a.exported || a.declPkg == b.declPkg)

def identicalStruct : List FieldSig → List FieldSig → Bool
  | [], [] => true
  | a :: as, b :: bs => fieldIdentical a b && identicalStruct as bs
  | _, _ => false

/-- `T(x)` between two struct types: identical underlying types (tags are not part of `FieldSig`). -/
def convertibleStruct (a b : List FieldSig) : Bool := identicalStruct a b

/-- key of the canonical type string "string" -/
def stringTyKey : Nat := nameKey [115, 116, 114, 105, 110, 103]

def fieldAccessible (client : Nat) (f : FieldSig) : Bool := f.exported || f.declPkg == client

/-- ways a client may try to make or fill a value of a struct type `T` of another package -/
inductive Make
  | zero                   -- T{}
  | convString             -- T(s)
  | convConst              -- T("x")
  | litUnkeyed             -- T{v1, …, vn}  one value per field (each of the field's own type)
  | litKeyed (f : Nat)     -- T{f: v}
  | fieldWrite (f : Nat)   -- x.f = v
  | fieldRead (f : Nat)    -- _ = x.f
  | anonConv               -- T(struct{ …same field list, re-declared by the client… }{…})
deriving Repr

def findField (fs : List FieldSig) (k : Nat) : Option FieldSig := fs.find? (·.name == k)

def makeCompiles (client : Nat) (fs : List FieldSig) : Make → Bool
  | .zero => true
  | .convString => false
  | .convConst => false
  | .litUnkeyed => !fs.isEmpty && fs.all (fieldAccessible client)
  | .litKeyed k =>
    match findField fs k with
    | some f => fieldAccessible client f
    | none => false
  | .fieldWrite k =>
    match findField fs k with
    | some f => fieldAccessible client f
    | none => false
  | .fieldRead k =>
    match findField fs k with
    | some f => fieldAccessible client f
    | none => false
  | .anonConv =>
    -- the client re-declares the field list: unexported names now belong to the client package
    convertibleStruct (fs.map fun f => { f with declPkg := if f.exported then f.declPkg else client }) fs

/-! ### shape of the generated API surface (filled by tools/extract/api.go) -/

structure Func where
  key : Nat                -- nameKey of "pkg.Name" or "pkg.Recv.Name"
  name : String
  pkg : Nat
  recv : Nat               -- 0 = plain function, else nameKey of the receiver's type name
  ptrRecv : Bool
  params : List Cls
  results : List Cls
  resultMentionsSC : Bool  -- some result type mentions an unexported string type of pkg 1/2
  resultMentionsSafe : Bool -- some result type mentions (at any depth) a safe struct type or Template
deriving Repr

structure Field where
  key : Nat
  name : String
  exported : Bool
  embedded : Bool
  declPkg : Nat
  cls : Cls
  tyKey : Nat
  tyStr : String
  mentionsSC : Bool
deriving Repr

def Field.sig (f : Field) : FieldSig :=
  { name := f.key, exported := f.exported, declPkg := f.declPkg, embedded := f.embedded, ty := f.tyKey }

inductive Kind | struct | string | int | map | interface | func | other
deriving DecidableEq, Repr

structure TypeDecl where
  key : Nat                -- nameKey of the bare type name
  qkey : Nat               -- nameKey of "pkg.Name"
  name : String            -- "pkg.Name"
  pkg : Nat
  alias : Bool
  kind : Kind
  fields : List Field
  methods : List Nat       -- exported method set of *T (or the interface's methods), by nameKey
  underlying : String
deriving Repr

structure VarDecl where
  key : Nat
  name : String
  pkg : Nat
  isConst : Bool
  cls : Cls
  mentionsSC : Bool
  mentionsSafe : Bool      -- the type mentions (at any depth) a safe struct type or Template
deriving Repr

structure StringTypeDecl where
  key : Nat
  name : String
  pkg : Nat
  exported : Bool
  alias : Bool
  target : String
deriving Repr

end SafeHtml.Spec.GoTypes
