/- Lookup in the regenerated HTML entity table (`Generated/Entities`): binary search over the rows sorted by
   `nameKey`. Shared by the model of Go's html.UnescapeString and by the WHATWG character-reference spec. -/
import SafeHtml.Basic.Bytes
import SafeHtml.Generated.Entities
namespace SafeHtml.EntityTable
open SafeHtml SafeHtml.Generated.Entities

def bsearch (k : Nat) : Nat → Nat → Nat → Option (Nat × Nat)
  | 0, _, _ => none
  | f+1, lo, hi =>
    if lo < hi then
      let mid := (lo + hi) / 2
      let e := table[mid]!
      if e.1 == k then some e.2
      else if e.1 < k then bsearch k f (mid + 1) hi
      else bsearch k f lo mid
    else none

/-- `some (r1, r2)` (r2 = 0 for a one-rune entity) for a name such as `amp;` or `amp` -/
def lookup (name : Bytes) : Option (Nat × Nat) := bsearch (nameKey name) 40 0 table.size

end SafeHtml.EntityTable
