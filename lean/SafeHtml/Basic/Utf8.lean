/-
Go's UTF-8 decoding (`for _, r := range s`, `utf8.DecodeRuneInString`) and encoding
(`string([]rune)`, `utf8.EncodeRune`, `bytes.Buffer.WriteRune`).
An invalid byte decodes to U+FFFD with width 1.
-/
import SafeHtml.Basic.Bytes
namespace SafeHtml

/-- A decoded symbol: the rune Go sees and the original bytes it came from. -/
structure Sym where
  rune : Nat
  bytes : List Nat
  deriving Repr, DecidableEq

namespace Utf8

def runeError : Nat := 0xFFFD

def isCont (b : Nat) : Bool := 128 ≤ b && b ≤ 191

/-- Decode one rune at the head of a non-empty string: (rune, width). Go's `first`/`acceptRanges` tables. -/
def decode1 (b0 : Nat) (t : Bytes) : Nat × Nat :=
  if b0 < 128 then (b0, 1)
  else if b0 < 0xC2 then (runeError, 1)
  else if b0 ≤ 0xDF then
    match t with
    | b1 :: _ => if isCont b1 then ((b0 % 32) * 64 + b1 % 64, 2) else (runeError, 1)
    | _ => (runeError, 1)
  else if b0 ≤ 0xEF then
    let lo := if b0 = 0xE0 then 0xA0 else 0x80
    let hi := if b0 = 0xED then 0x9F else 0xBF
    match t with
    | b1 :: b2 :: _ =>
      if lo ≤ b1 && b1 ≤ hi && isCont b2 then ((b0 % 16) * 4096 + (b1 % 64) * 64 + b2 % 64, 3)
      else (runeError, 1)
    | _ => (runeError, 1)
  else if b0 ≤ 0xF4 then
    let lo := if b0 = 0xF0 then 0x90 else 0x80
    let hi := if b0 = 0xF4 then 0x8F else 0xBF
    match t with
    | b1 :: b2 :: b3 :: _ =>
      if lo ≤ b1 && b1 ≤ hi && isCont b2 && isCont b3 then
        ((b0 % 8) * 262144 + (b1 % 64) * 4096 + (b2 % 64) * 64 + b3 % 64, 4)
      else (runeError, 1)
    | _ => (runeError, 1)
  else (runeError, 1)

def decodeAux : Nat → Bytes → List Sym
  | 0, _ => []
  | _, [] => []
  | f+1, b0 :: t =>
    let (r, w) := decode1 b0 t
    ⟨r, (b0 :: t).take w⟩ :: decodeAux f ((b0 :: t).drop w)

/-- all symbols of a string, in order (Go `range` loop) -/
def decodeSyms (s : Bytes) : List Sym := decodeAux s.length s

def decodeRunes (s : Bytes) : List Nat := (decodeSyms s).map (·.rune)

/-- Go `utf8.EncodeRune` / `string(rune)`; surrogates and out-of-range become U+FFFD. -/
def encodeRune (r : Nat) : Bytes :=
  if r < 0x80 then [r]
  else if r < 0x800 then [0xC0 + r / 64, 0x80 + r % 64]
  else if (0xD800 ≤ r && r ≤ 0xDFFF) || r > 0x10FFFF then [0xEF, 0xBF, 0xBD]
  else if r < 0x10000 then [0xE0 + r / 4096, 0x80 + (r / 64) % 64, 0x80 + r % 64]
  else [0xF0 + r / 262144, 0x80 + (r / 4096) % 64, 0x80 + (r / 64) % 64, 0x80 + r % 64]

def encodeRunes (rs : List Nat) : Bytes := rs.flatMap encodeRune

def symsBytes (xs : List Sym) : Bytes := xs.flatMap (·.bytes)

end Utf8
end SafeHtml
