/-
Basic vocabulary: bytes are `Nat`, strings are `List Nat`.
Every predicate on bytes is written so that a value ≥ 256 behaves like an ordinary
non-ASCII byte; only UTF-8 and hex formatting need `Bytes.wf`.
-/
namespace SafeHtml

abbrev Byte := Nat
abbrev Bytes := List Nat
abbrev Rune := Nat

def Bytes.wf (s : Bytes) : Prop := ∀ b ∈ s, b < 256

instance (s : Bytes) : Decidable (Bytes.wf s) := by unfold Bytes.wf; infer_instance

/-- Go string literal → bytes (UTF-8 of the Lean string). -/
def B (s : String) : Bytes := s.toUTF8.toList.map (·.toNat)

def isLowerAlpha (c : Nat) : Bool := 97 ≤ c && c ≤ 122
def isUpperAlpha (c : Nat) : Bool := 65 ≤ c && c ≤ 90
def isAlpha (c : Nat) : Bool := isLowerAlpha c || isUpperAlpha c
def isDigit (c : Nat) : Bool := 48 ≤ c && c ≤ 57
def isAlnum (c : Nat) : Bool := isAlpha c || isDigit c
def isHexDigit (c : Nat) : Bool := isDigit c || (97 ≤ c && c ≤ 102) || (65 ≤ c && c ≤ 70)
def asciiLower (c : Nat) : Nat := if isUpperAlpha c then c + 32 else c

def hexDigitLower (n : Nat) : Nat := if n < 10 then 48 + n else 87 + n
def hexDigitUpper (n : Nat) : Nat := if n < 10 then 48 + n else 55 + n

/-- `nameKey` is injective on byte lists whose bytes are < 256 (leading 1 keeps length). -/
def nameKey (s : Bytes) : Nat := s.foldl (fun a b => a * 256 + b) 1

def Bytes.toStr (s : Bytes) : String :=
  String.ofList (s.map fun b => Char.ofNat b)

/-- hex rendering used by the line protocol: "-" for empty -/
def hexOf (s : Bytes) : String :=
  if s.isEmpty then "-" else
  String.ofList (s.flatMap fun b => [Char.ofNat (hexDigitLower (b / 16 % 16)), Char.ofNat (hexDigitLower (b % 16))])

def hexVal (c : Char) : Option Nat :=
  let n := c.toNat
  if 48 ≤ n && n ≤ 57 then some (n - 48)
  else if 97 ≤ n && n ≤ 102 then some (n - 87)
  else if 65 ≤ n && n ≤ 70 then some (n - 55)
  else none

def unhexChars : List Char → Option Bytes
  | [] => some []
  | a :: b :: t => do
      let x ← hexVal a
      let y ← hexVal b
      let r ← unhexChars t
      pure ((x * 16 + y) :: r)
  | _ => none

def unhex (s : String) : Option Bytes :=
  if s == "-" then some [] else unhexChars s.toList

/-- list helpers -/
def isPrefixOfB (p s : Bytes) : Bool := p.isPrefixOf s
def isSuffixOfB (p s : Bytes) : Bool := p.isSuffixOf s

def containsSub (needle : Bytes) : Bytes → Bool
  | [] => needle.isEmpty
  | c :: t => needle.isPrefixOf (c :: t) || containsSub needle t

end SafeHtml
