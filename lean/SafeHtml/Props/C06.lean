/-
C06 — execution results depend only on definitions, name and data, not on history.
Theorems over the API state machine; the property itself (equality with a freshly built set) is applied
to the REAL results of every generated history by `Oracle.Hist.c06`.
-/
import SafeHtml.Proofs.ApiLemmas
import SafeHtml.Model.Tmpl.PrefixLite
namespace SafeHtml.Props.C06
open SafeHtml SafeHtml.Model.Tmpl

/-- **Repeating a call returns the same result (analysed template).** Executing an already analysed template
    does not touch the set beyond the (already set) executed flag, and its result is a function of the
    committed text set and the data. -/
theorem C06_repeat_ok (w : World) (h oid : Nat) (o : TObj) (d : Value)
    (ho : w.obj h = some (oid, o)) (hs : o.status = .ok) :
    apiExecute w h d =
      (w.setNs o.ns { w.ns o.ns with escaped := true },
       textExecute (w.setNs o.ns { w.ns o.ns with escaped := true }) o d) := by
  unfold apiExecute
  simp [ho, hs]

/-- the committed trees are not touched by executing: the text set after the call is the one before -/
theorem C06_exec_ok_keeps_text (w : World) (h oid : Nat) (o : TObj) (d : Value)
    (ho : w.obj h = some (oid, o)) (hs : o.status = .ok) :
    ((apiExecute w h d).1.ns o.ns).text = (w.ns o.ns).text := by
  rw [C06_repeat_ok w h oid o d ho hs]; simp [ns_setNs_same]

theorem textExecute_congr (w1 w2 : World) (o : TObj) (d : Value)
    (ht : (w1.ns o.ns).text = (w2.ns o.ns).text) (hf : w1.fuel = w2.fuel) :
    textExecute w1 o d = textExecute w2 o d := by
  unfold textExecute
  simp only [ht, hf]

/-- **Each action is rewritten exactly once (analysed template).** A second Execute of an analysed template
    returns exactly what the first returned: same bytes, same error class. -/
theorem C06_repeat_same (w : World) (h oid : Nat) (o : TObj) (d : Value)
    (ho : w.obj h = some (oid, o)) (hs : o.status = .ok) :
    (apiExecute (apiExecute w h d).1 h d).2 = (apiExecute w h d).2 := by
  have h1 := C06_repeat_ok w h oid o d ho hs
  have ho' : (apiExecute w h d).1.obj h = some (oid, o) := by rw [h1]; exact ho
  have h2 := C06_repeat_ok _ h oid o d ho' hs
  rw [h2]
  simp only []
  rw [h1]
  simp only []
  apply textExecute_congr
  · simp [ns_setNs_same]
  · rfl

/-- … and likewise a failed template keeps returning the same error (see C05). -/
theorem C06_repeat_failed (w : World) (h oid : Nat) (o : TObj) (c : ErrCode) (d : Value)
    (ho : w.obj h = some (oid, o)) (hs : o.status = .failed c) :
    (apiExecute (apiExecute w h d).1 h d).2 = (apiExecute w h d).2 := by
  have e1 : ∀ (w : World), w.obj h = some (oid, o) →
      apiExecute w h d = (w.setNs o.ns { w.ns o.ns with escaped := true }, .err (analysisCls c) []) := by
    intro w ho; unfold apiExecute; simp [ho, hs]
  have ho' : (apiExecute w h d).1.obj h = some (oid, o) := by rw [e1 w ho]; exact ho
  rw [e1 _ ho', e1 w ho]

/-! ### the full property and what is proved of it

`C06_statement`: for every history `hist` over a set with definitions `D` and every Execute\* call `op`,
`result (run (define D ++ hist) op) = result (run (define D) op)` (bytes written and error-ness).

Proved: the repetition clauses above.  Not proved: independence from executions of OTHER members (needs a
relational invariant between the memo/derived/pristine state of the escaper and the pure analysis of a fresh
set). It is decided on every run by the oracle on real results (`res = fresh` for every Execute\* step of every
generated history, real code against real code). On the pinned tree that comparison failed in four ways, all
repaired (see known_findings.json `fixed:` lines): memo stored the assumed context, derived templates were
copied from rewritten trees, a failed analysis cleared trees that callers use. -/

end SafeHtml.Props.C06
