/-
C04 — the sanitization policy is default-deny and never weaker than the reviewed policy.

`Spec.Policy.attrCtx T isData e a rel` is the verdict for an action in the value of attribute `a`
of element `e` as a function of the tables `T`; the model's `sanitizationContextForAttrVal`
(Model/Tmpl/Sanitize.lean, which runs on the REGENERATED tables and regex) is proved equal to it
on `genTabs`, and `C04_attr` proves, for ALL element names, attribute names and rel values, that the
regenerated policy demands at least the trust class of the reviewed one. The finite facts about the
two table sets are discharged by kernel evaluation (`decide +kernel`); everything else is by lemma.
-/
import SafeHtml.Spec.Policy
import SafeHtml.Model.Tmpl.Sanitize
import SafeHtml.Proofs.Tactics
import SafeHtml.Proofs.RxAscii
namespace SafeHtml.Props.C04
open SafeHtml SafeHtml.Spec.Policy SafeHtml.Model.Tmpl

/-- the regenerated tables in the vocabulary of `Spec.Policy` -/
def genTabs : Tabs where
  specific := Generated.Policy.elementSpecificAttr.map fun r => (r.2.2.1, r.2.2.2.1, cxOfName r.2.2.2.2.name)
  global := Generated.Policy.globalAttr.map fun r => (r.2.1, cxOfName r.2.2.name)
  content := Generated.Policy.elementContent.map fun r => (r.2.1, cxOfName r.2.2.name)
  void := Generated.Policy.allowedVoidElements.map (·.2)
  relVals := Generated.Policy.urlLinkRelVals.map (·.2)

def genIsData (a : Bytes) : Bool := Rx.matchString Generated.Regexes.template_dataAttributeNamePattern a

/-! ### generic lemmas about association lists -/

theorem lookup1_none (t : List (Bytes × Cx)) (k : Bytes) (h : k ∉ t.map (·.1)) : lookup1 t k = none := by
  unfold lookup1
  have : t.find? (fun r => r.1 == k) = none := by
    rw [List.find?_eq_none]
    intro r hr hk
    apply h
    simp only [beq_iff_eq] at hk
    exact List.mem_map.mpr ⟨r, hr, hk⟩
  rw [this]

theorem lookup2_none (t : List (Bytes × Bytes × Cx)) (a e : Bytes)
    (h : (a, e) ∉ t.map (fun r => (r.1, r.2.1))) : lookup2 t a e = none := by
  unfold lookup2
  have : t.find? (fun r => r.1 == a && r.2.1 == e) = none := by
    rw [List.find?_eq_none]
    intro r hr hk
    apply h
    simp only [Bool.and_eq_true, beq_iff_eq] at hk
    exact List.mem_map.mpr ⟨r, hr, by rw [hk.1, hk.2]⟩
  rw [this]

/-- a binary predicate on lookups holds for every key if it holds for the keys of both tables and for (none, none) -/
theorem lookup1_forall (tr tg : List (Bytes × Cx)) (P : Option Cx → Option Cx → Bool)
    (hk : (tr.map (·.1) ++ tg.map (·.1)).all (fun k => P (lookup1 tr k) (lookup1 tg k)) = true)
    (hn : P none none = true) (k : Bytes) : P (lookup1 tr k) (lookup1 tg k) = true := by
  by_cases h : k ∈ tr.map (·.1) ++ tg.map (·.1)
  · exact List.all_eq_true.mp hk k h
  · simp only [List.mem_append, not_or] at h
    rw [lookup1_none tr k h.1, lookup1_none tg k h.2]; exact hn

/-! ### finite obligations on the regenerated vs reviewed tables (kernel evaluation) -/

/-- every regenerated element-specific row is at least as strict as the reviewed verdict for that pair -/
theorem ob_specific_gen :
    genTabs.specific.all (fun p => leqOpt (fallthrough revTabs isDataAttr p.2.1 p.1) (some p.2.2)) = true := by
  decide +kernel

/-- every reviewed element-specific row is still honoured by the regenerated tables -/
theorem ob_specific_rev :
    revTabs.specific.all (fun p => leqOpt (some p.2.2) (fallthrough genTabs isDataAttr p.2.1 p.1)) = true := by
  decide +kernel

/-- global attributes: regenerated context ⊒ reviewed context, for every key of either table -/
theorem ob_global :
    (revTabs.global.map (·.1) ++ genTabs.global.map (·.1)).all
      (fun k => leqOpt (lookup1 revTabs.global k) (lookup1 genTabs.global k)) = true := by
  decide +kernel

/-- element contents likewise -/
theorem ob_content :
    (revTabs.content.map (·.1) ++ genTabs.content.map (·.1)).all
      (fun k => leqOpt (lookup1 revTabs.content k) (lookup1 genTabs.content k)) = true := by
  decide +kernel

/-- an element the regenerated tables allow (content table or void list) is allowed by the reviewed ones -/
theorem ob_allowed :
    (genTabs.content.map (·.1) ++ genTabs.void).all (fun e => allowedElem revTabs e) = true := by
  decide +kernel

/-- the regenerated rel values that relax link/href to TrustedResourceURLOrURL are all reviewed -/
theorem ob_rel : genTabs.relVals.all (fun v => revTabs.relVals.contains v) = true := by
  decide +kernel

/-- when the reviewed policy relaxes link/href but the regenerated one does not, the fall-through is stricter -/
theorem ob_link_href :
    leqOpt (some (.known .TrustedResourceURLOrURL)) (fallthrough genTabs isDataAttr linkB hrefB) = true := by
  decide +kernel

/-- no key of the element-specific tables is a data-* attribute (so the data-* test never shadows a row) -/
theorem ob_no_data_keys :
    (revTabs.specific ++ genTabs.specific).all (fun p => !isDataAttr p.1) = true := by
  decide +kernel

/-! ### the regenerated data-* regex is the byte recogniser -/

/-- peel one class off a right-nested concatenation, on bytes -/
theorem lensB_cls_cat (rs : List (Nat × Nat)) (r : Rx.Re) (s : Bytes) :
    Rx.lensB (.cat (.cls rs) r) s =
      match s with
      | [] => []
      | b :: t => if Rx.inCls rs b then (Rx.lensB r t).map (1 + ·) else [] := by
  cases s with
  | nil => simp [Rx.lensB]
  | cons b t =>
    simp only [Rx.lensB]
    by_cases h : Rx.inCls rs b = true <;> simp [h]

/-- does `r` match some prefix of the bytes? -/
def nb (r : Rx.Re) (s : Bytes) : Bool := !(Rx.lensB r s).isEmpty

theorem nb_cls_cat (rs : List (Nat × Nat)) (r : Rx.Re) (s : Bytes) :
    nb (.cat (.cls rs) r) s = match s with
      | [] => false
      | b :: t => Rx.inCls rs b && nb r t := by
  unfold nb
  rw [lensB_cls_cat]
  cases s with
  | nil => rfl
  | cons b t => by_cases h : Rx.inCls rs b = true <;> simp [h]

theorem lensB_cat_assoc (a b c : Rx.Re) (s : Bytes) :
    Rx.lensB (.cat (.cat a b) c) s = Rx.lensB (.cat a (.cat b c)) s := by
  simp only [Rx.lensB, List.flatMap_assoc, List.flatMap_map, List.map_flatMap, List.map_map,
    List.drop_drop]
  congr 1; funext n; congr 1; funext k
  simp [Nat.add_assoc, Nat.add_comm n k]
  intro x _; omega

theorem nb_cat_assoc (a b c : Rx.Re) (s : Bytes) : nb (.cat (.cat a b) c) s = nb (.cat a (.cat b c)) s := by
  unfold nb; rw [lensB_cat_assoc]

/-- `C*$` on bytes: some match length exists iff every byte is in the class -/
theorem nb_star_eot (rs : List (Nat × Nat)) (s : Bytes) :
    nb (.cat (.star (.cls rs) true) .eot) s = s.all (Rx.inCls rs) := by
  have hspan : ∀ s : Bytes, Rx.spanB rs s ≤ s.length := by
    intro s; induction s with
    | nil => simp [Rx.spanB]
    | cons c t ih => simp only [Rx.spanB]; split <;> simp <;> omega
  have hall : ∀ s : Bytes, (Rx.spanB rs s = s.length) ↔ s.all (Rx.inCls rs) = true := by
    intro s; induction s with
    | nil => simp [Rx.spanB]
    | cons c t ih =>
      simp only [Rx.spanB, List.length_cons, List.all_cons, Bool.and_eq_true]
      by_cases hc : Rx.inCls rs c = true
      · simp [hc, ih]
      · simp [hc]
  unfold nb
  rw [Bool.eq_iff_iff, ← hall]
  simp only [Rx.lensB, Bool.not_eq_true', List.isEmpty_eq_false_iff, ne_eq]
  constructor
  · intro h
    apply Classical.byContradiction
    intro hne
    apply h
    rw [List.flatMap_eq_nil_iff]
    intro n hn
    have hn' : n ≤ Rx.spanB rs s := by simp at hn; omega
    have := hspan s
    have hd : (List.drop n s).isEmpty = false := by
      simp only [List.isEmpty_eq_false_iff, ne_eq, List.drop_eq_nil_iff]; omega
    simp [hd]
  · intro heq h
    have hmem : s.length ∈ (List.range (Rx.spanB rs s + 1)).reverse := by
      simp; omega
    have hin : (s.length + 0) ∈ List.flatMap (fun n => List.map (fun x => n + x)
        (if (List.drop n s).isEmpty = true then [0] else [])) (List.range (Rx.spanB rs s + 1)).reverse := by
      rw [List.mem_flatMap]
      exact ⟨s.length, hmem, by simp⟩
    rw [h] at hin; simp at hin

theorem cls_lit (c b : Nat) : Rx.inCls [(c, c)] b = (b == c) := by
  simp only [Rx.inCls, List.any, Bool.or_false]
  rw [Bool.eq_iff_iff]; simp; omega

theorem rx_dataAttributeName (a : Bytes) : genIsData a = isDataAttr a := by
  unfold genIsData Generated.Regexes.template_dataAttributeNamePattern
  rw [Rx.matchString_bot_ascii _ (by decide) (by decide)]
  show nb _ a = _
  rw [nb_cat_assoc]
  have hfirst : ∀ c, Rx.inCls [(95, 95), (97, 122)] c = (c == 95 || isLowerAlpha c) := by
    intro c; simp only [Rx.inCls, List.any, isLowerAlpha, Bool.or_false]
    cls_arith
  have htail : ∀ t : Bytes, t.all (Rx.inCls [(45, 45), (48, 57), (95, 95), (97, 122)]) = t.all isDataAttrTail := by
    intro t; congr 1; funext b
    simp only [Rx.inCls, List.any, isDataAttrTail, isLowerAlpha, isDigit, Bool.or_false]
    cls_arith
  match a with
  | [] => simp [nb_cls_cat, isDataAttr]
  | [b0] =>
    rw [nb_cls_cat]; simp only []; rw [nb_cat_assoc, nb_cls_cat]; simp [isDataAttr]
  | [b0, b1] =>
    rw [nb_cls_cat]; simp only []; rw [nb_cat_assoc, nb_cls_cat]; simp only []
    rw [nb_cat_assoc, nb_cls_cat]; simp [isDataAttr]
  | [b0, b1, b2] =>
    rw [nb_cls_cat]; simp only []; rw [nb_cat_assoc, nb_cls_cat]; simp only []
    rw [nb_cat_assoc, nb_cls_cat]; simp only []
    rw [nb_cat_assoc, nb_cls_cat]; simp [isDataAttr]
  | [b0, b1, b2, b3] =>
    rw [nb_cls_cat]; simp only []; rw [nb_cat_assoc, nb_cls_cat]; simp only []
    rw [nb_cat_assoc, nb_cls_cat]; simp only []
    rw [nb_cat_assoc, nb_cls_cat]; simp only []
    rw [nb_cls_cat]; simp [isDataAttr]
  | [b0, b1, b2, b3, b4] =>
    rw [nb_cls_cat]; simp only []; rw [nb_cat_assoc, nb_cls_cat]; simp only []
    rw [nb_cat_assoc, nb_cls_cat]; simp only []
    rw [nb_cat_assoc, nb_cls_cat]; simp only []
    rw [nb_cls_cat]; simp only []
    rw [nb_cls_cat]; simp [isDataAttr]
  | b0 :: b1 :: b2 :: b3 :: b4 :: c :: t =>
    rw [nb_cls_cat]; simp only []; rw [nb_cat_assoc, nb_cls_cat]; simp only []
    rw [nb_cat_assoc, nb_cls_cat]; simp only []
    rw [nb_cat_assoc, nb_cls_cat]; simp only []
    rw [nb_cls_cat]; simp only []
    rw [nb_cls_cat]; simp only []
    rw [nb_star_eot, htail, hfirst]
    simp only [cls_lit, isDataAttr]

/-! ### the main theorem: for ALL names, the regenerated policy is at least as strict as the reviewed one -/

theorem leqOpt_refl_none : leqOpt none none = true := rfl

theorem allowed_mono (e : Bytes) (h : allowedElem genTabs e = true) : allowedElem revTabs e = true := by
  have hk := List.all_eq_true.mp ob_allowed
  unfold allowedElem at h
  rw [Bool.or_eq_true] at h
  rcases h with h | h
  · -- e is a key of the regenerated content table
    apply hk e
    rw [List.mem_append]; left
    cases hl : lookup1 genTabs.content e with
    | none => simp [hl] at h
    | some c =>
      apply Classical.byContradiction
      intro hn
      rw [lookup1_none _ _ hn] at hl; cases hl
  · apply hk e
    rw [List.mem_append]; right
    simpa using h

theorem global_mono (a : Bytes) : leqOpt (lookup1 revTabs.global a) (lookup1 genTabs.global a) = true :=
  lookup1_forall revTabs.global genTabs.global leqOpt ob_global rfl a

theorem lookup2_mem (t : List (Bytes × Bytes × Cx)) (a e : Bytes) (c : Cx) (h : lookup2 t a e = some c) :
    (a, e, c) ∈ t := by
  unfold lookup2 at h
  cases hf : t.find? (fun r => r.1 == a && r.2.1 == e) with
  | none => simp [hf] at h
  | some r =>
    simp only [hf, Option.some.injEq] at h
    have hm := List.mem_of_find?_eq_some hf
    have hp := List.find?_some hf
    simp only [Bool.and_eq_true, beq_iff_eq] at hp
    have : r = (a, e, c) := by
      cases r with
      | mk r1 r2 => cases r2 with
        | mk r21 r22 => simp only at hp h; rw [hp.1, hp.2, h]
    rw [← this]; exact hm

/-- the fall-through verdict (no link/rel special case), with the SAME data-* recogniser on both sides -/
theorem fallthrough_mono (e a : Bytes) :
    leqOpt (fallthrough revTabs isDataAttr e a) (fallthrough genTabs isDataAttr e a) = true := by
  by_cases hd : isDataAttr a = true
  · simp [fallthrough, hd, leqOpt, geStrict]
  · have hd' : isDataAttr a = false := by simpa using hd
    cases hg : lookup2 genTabs.specific a e with
    | some g =>
      -- a regenerated element-specific row: obligation ob_specific_gen
      have hm := lookup2_mem _ _ _ _ hg
      have := List.all_eq_true.mp ob_specific_gen (a, e, g) hm
      simp only [fallthrough, hd', hg] at this ⊢
      exact this
    | none =>
      cases hr : lookup2 revTabs.specific a e with
      | some r =>
        have hm := lookup2_mem _ _ _ _ hr
        have := List.all_eq_true.mp ob_specific_rev (a, e, r) hm
        simp only [fallthrough, hd', hr, hg] at this ⊢
        exact this
      | none =>
        simp only [fallthrough, hd', hg, hr]
        have hgm := global_mono a
        cases hgg : lookup1 genTabs.global a with
        | none => cases lookup1 revTabs.global a <;> simp [leqOpt] <;> split <;> rfl
        | some g =>
          rw [hgg] at hgm
          cases hrg : lookup1 revTabs.global a with
          | none => rw [hrg] at hgm; simp [leqOpt] at hgm
          | some r =>
            rw [hrg] at hgm
            by_cases hag : allowedElem genTabs e = true
            · simp only [hag, allowed_mono e hag, if_true]; exact hgm
            · have : allowedElem genTabs e = false := by simpa using hag
              simp only [this]
              split <;> rfl

theorem relHit_mono (rel : Bytes) (h : relHit genTabs rel = true) : relHit revTabs rel = true := by
  unfold relHit at *
  rw [Bool.and_eq_true] at *
  refine ⟨h.1, ?_⟩
  rw [List.all_eq_true] at *
  intro v hv
  have hc := h.2 v hv
  exact List.all_eq_true.mp ob_rel v (by simpa using hc)

/-- **C04 (attribute values).** For every element name, attribute name and rel value, the verdict of the
    regenerated policy is at least as strict as the reviewed verdict (refusal being the strictest). -/
theorem C04_attr_spec (e a rel : Bytes) :
    leqOpt (attrCtx revTabs isDataAttr e a rel) (attrCtx genTabs isDataAttr e a rel) = true := by
  unfold attrCtx
  by_cases hl : (e == linkB && a == hrefB) = true
  · by_cases hg : relHit genTabs rel = true
    · simp [hl, hg, relHit_mono rel hg, leqOpt, geStrict]
    · have hg' : relHit genTabs rel = false := by simpa using hg
      by_cases hr : relHit revTabs rel = true
      · simp only [Bool.and_eq_true, beq_iff_eq] at hl
        simp only [hl.1, hl.2, hg', hr, beq_self_eq_true, Bool.and_self, Bool.and_false, Bool.false_eq_true,
          if_false, if_true]
        exact ob_link_href
      · have hr' : relHit revTabs rel = false := by simpa using hr
        simp only [hl, hg', hr', Bool.and_false, Bool.false_eq_true, if_false]
        exact fallthrough_mono e a
  · have hl' : (e == linkB && a == hrefB) = false := by simpa using hl
    simp only [hl', Bool.false_and, Bool.false_eq_true, if_false]
    exact fallthrough_mono e a

/-- **C04 (element contents).** -/
theorem C04_content_spec (e : Bytes) : leqOpt (contentCtx revTabs e) (contentCtx genTabs e) = true :=
  lookup1_forall revTabs.content genTabs.content leqOpt ob_content rfl e

/-! ### the model's policy function IS `attrCtx genTabs` (so the theorem is about what the model runs) -/

theorem lookupSC_map (tbl : List (Nat × List Nat × Generated.Policy.SC)) (k : Bytes) :
    lookup1 (tbl.map fun r => (r.2.1, cxOfName r.2.2.name)) k =
      (lookupSC tbl k).map (fun sc => cxOfName sc.name) := by
  unfold lookup1 lookupSC
  induction tbl with
  | nil => rfl
  | cons r t ih =>
    simp only [List.map_cons, List.find?_cons]
    by_cases h : (r.2.1 == k) = true
    · simp [h]
    · have : (r.2.1 == k) = false := by simpa using h
      simp only [this]; exact ih

theorem memKey_map (tbl : List (Nat × List Nat)) (k : Bytes) :
    (tbl.map (·.2)).contains k = memKey tbl k := by
  unfold memKey
  induction tbl with
  | nil => rfl
  | cons r t ih =>
    simp only [List.map_cons, List.contains_cons, List.any_cons, ih]
    rw [BEq.comm]

theorem lookup2_map (tbl : List (Nat × Nat × List Nat × List Nat × Generated.Policy.SC)) (a e : Bytes) :
    lookup2 (tbl.map fun r => (r.2.2.1, r.2.2.2.1, cxOfName r.2.2.2.2.name)) a e =
      ((tbl.find? (fun r => r.2.2.1 == a && r.2.2.2.1 == e)).map fun r => cxOfName r.2.2.2.2.name) := by
  unfold lookup2
  induction tbl with
  | nil => rfl
  | cons r t ih =>
    simp only [List.map_cons, List.find?_cons]
    by_cases h : (r.2.2.1 == a && r.2.2.2.1 == e) = true
    · simp [h]
    · have : (r.2.2.1 == a && r.2.2.2.1 == e) = false := by simpa using h
      simp only [this]; exact ih

/-- the model function (which the correspondence check compares with the real code) equals the
    table-driven specification on the regenerated tables -/
theorem model_attr_eq (e a rel : Bytes) :
    (sanitizationContextForAttrVal e a rel).map (fun sc => cxOfName sc.name) =
      attrCtx genTabs genIsData e a rel := by
  unfold sanitizationContextForAttrVal attrCtx fallthrough relHit allowedElem genTabs genIsData
  simp only [lookupSC_map, memKey_map, lookup2_map]
  have hlink : linkName = linkB := rfl
  have hhref : hrefName = hrefB := rfl
  rw [hlink, hhref]
  by_cases h1 : (e == linkB && a == hrefB &&
      (!(fields rel).isEmpty && (fields rel).all fun v => memKey Generated.Policy.urlLinkRelVals v)) = true
  · simp only [h1, if_true]
    simp only [Bool.and_eq_true] at h1
    simp [h1.1.1, h1.1.2, h1.2]; rfl
  · have h1' : (e == linkB && a == hrefB &&
        (!(fields rel).isEmpty && (fields rel).all fun v => memKey Generated.Policy.urlLinkRelVals v)) = false := by
      cases hx : (e == linkB && a == hrefB &&
        (!(fields rel).isEmpty && (fields rel).all fun v => memKey Generated.Policy.urlLinkRelVals v)) with
      | false => rfl
      | true => exact absurd hx h1
    simp only [h1', Bool.false_eq_true, if_false]
    by_cases hd : Rx.matchString Generated.Regexes.template_dataAttributeNamePattern a = true
    · simp [hd]; rfl
    · have hd' : Rx.matchString Generated.Regexes.template_dataAttributeNamePattern a = false := by simpa using hd
      simp only [hd', Bool.false_eq_true, if_false]
      cases hs : List.find? (fun r => r.2.2.1 == a && r.2.2.2.1 == e) Generated.Policy.elementSpecificAttr with
      | some r => simp
      | none =>
        simp only [Option.map_none]
        cases hg : lookupSC Generated.Policy.globalAttr a with
        | none => simp
        | some g =>
          simp only [Option.map_some]
          cases hc : lookupSC Generated.Policy.elementContent e <;>
            cases hv : memKey Generated.Policy.allowedVoidElements e <;> simp

/-- **C04** on the model: for all names, what the model's `sanitizationContextForAttrVal` (regenerated
    tables, regenerated data-* regex) returns is at least as strict as the reviewed verdict. -/
theorem C04_attr (e a rel : Bytes) :
    leqOpt (reviewedAttr e a rel)
      ((sanitizationContextForAttrVal e a rel).map (fun sc => cxOfName sc.name)) = true := by
  rw [model_attr_eq]
  have : attrCtx genTabs genIsData e a rel = attrCtx genTabs isDataAttr e a rel := by
    unfold attrCtx fallthrough; rw [rx_dataAttributeName]
  rw [this]
  exact C04_attr_spec e a rel

theorem C04_content (e : Bytes) :
    leqOpt (contentCtx revTabs e)
      ((sanitizationContextForElementContent e).map (fun sc => cxOfName sc.name)) = true := by
  have : (sanitizationContextForElementContent e).map (fun sc => cxOfName sc.name) = contentCtx genTabs e := by
    unfold sanitizationContextForElementContent contentCtx genTabs
    rw [lookupSC_map]
  rw [this]; exact C04_content_spec e

/-! ### default deny -/

/-- an attribute that is in no table and is not data-* is refused on every element (reviewed policy) -/
theorem C04_default_deny_attr (e a rel : Bytes)
    (hnl : ¬ (e = linkB ∧ a = hrefB)) (hd : isDataAttr a = false)
    (hs : (a, e) ∉ genTabs.specific.map (fun r => (r.1, r.2.1)))
    (hg : a ∉ genTabs.global.map (·.1)) :
    sanitizationContextForAttrVal e a rel = none := by
  have h := model_attr_eq e a rel
  have hsp : attrCtx genTabs genIsData e a rel = none := by
    unfold attrCtx fallthrough
    have : (e == linkB && a == hrefB) = false := by
      rw [Bool.eq_false_iff]; intro hc
      simp only [Bool.and_eq_true, beq_iff_eq] at hc; exact hnl hc
    simp only [this, Bool.false_and, Bool.false_eq_true, if_false, rx_dataAttributeName, hd,
      lookup2_none _ _ _ hs, lookup1_none _ _ hg]
  rw [hsp] at h
  cases hv : sanitizationContextForAttrVal e a rel with
  | none => rfl
  | some sc => rw [hv] at h; simp at h

/-- an element that is in neither the content table nor anything else has no content context -/
theorem C04_default_deny_content (e : Bytes) (h : e ∉ genTabs.content.map (·.1)) :
    sanitizationContextForElementContent e = none := by
  have : (sanitizationContextForElementContent e).map (fun sc => cxOfName sc.name) = contentCtx genTabs e := by
    unfold sanitizationContextForElementContent contentCtx genTabs
    rw [lookupSC_map]
  have hn : contentCtx genTabs e = none := lookup1_none _ _ h
  rw [hn] at this
  cases hv : sanitizationContextForElementContent e with
  | none => rfl
  | some sc => rw [hv] at this; simp at this

/-- actions in tag names, attribute names, after an attribute name, and in unquoted attribute values are refused -/
theorem C04_positions (v : Validators) (c : Ctx)
    (h : c.state = .tag ∨ c.state = .attrName ∨ c.state = .afterName ∨
      (c.state = .attr ∧ (c.attrName ≠ [] ∨ c.attrNames ≠ []) ∧ c.delim ≠ .dq ∧ c.delim ≠ .sq ∧
        ¬ (c.elemNames = [] ∧ c.elemName = [] ∧ c.state = .text))) :
    sanitizerForContext v c = none := by
  unfold sanitizerForContext
  rcases h with h | h | h | ⟨hs, hn, hd1, hd2, _⟩
  · simp [h]
  · simp [h]
  · simp [h]
  · have h1 : (c.attrName != [] || !c.attrNames.isEmpty) = true := by
      rcases hn with hn | hn
      · simp [hn]
      · cases hl : c.attrNames with
        | nil => exact absurd hl hn
        | cons _ _ => simp
    simp [hs, h1, hd1, hd2]

/-! ### non-vacuity -/
-- href on a: reviewed TrustedResourceURLOrURL; onclick on a: refused; data-x anywhere: None; script content: Script
example : reviewedAttr [97] [104, 114, 101, 102] [] = some (.known .TrustedResourceURLOrURL) := by decide
example : reviewedAttr [97] [111, 110, 99, 108, 105, 99, 107] [] = none := by decide
example : reviewedAttr [120] [100, 97, 116, 97, 45, 120] [] = some (.known .None) := by decide
example : reviewedContent [115, 99, 114, 105, 112, 116] = some (.known .Script) := by decide
example : reviewedContent [111, 98, 106, 101, 99, 116] = none := by decide
example : geStrict (.known .TrustedResourceURL) (.known .TrustedResourceURLOrURL) = true := by decide
example : geStrict (.known .TrustedResourceURLOrURL) (.known .TrustedResourceURL) = false := by decide
example : geStrict (.known .None) (.known .URL) = false := by decide

end SafeHtml.Props.C04
