/-
C16 — CSSRule yields exactly one rule: selectors cannot inject blocks, rules or markup.
The code proved here is the FIXED code (fix-C16.diff: `url(` rejected outside strings); the unfixed
behaviour is `cssRuleWith false`, for which `C16_unfixed_false` exhibits the defect.
-/
import SafeHtml.Model.StyleSheet
import SafeHtml.Spec.CssParse
import SafeHtml.Oracle.C16
import SafeHtml.Proofs.RxCss
import SafeHtml.Proofs.Tactics
namespace SafeHtml.Props.C16
open SafeHtml SafeHtml.Rx SafeHtml.Model SafeHtml.Generated.Regexes SafeHtml.Spec.Css

/-- `[-_a-zA-Z0-9#.:* ,>+~[\]()=^$|]` -/
def allowedSel (c : Nat) : Bool :=
  c == 45 || c == 95 || isAlnum c || c == 35 || c == 46 || c == 58 || c == 42 || c == 32 || c == 44 ||
  c == 62 || c == 43 || c == 126 || c == 91 || c == 93 || c == 40 || c == 41 || c == 61 || c == 94 ||
  c == 36 || c == 124

def invalidCls : List (Nat × Nat) :=
  [(0, 31), (33, 34), (37, 39), (47, 47), (59, 60), (63, 64), (92, 92), (96, 96), (123, 123), (125, 125), (127, 1114111)]

theorem rx_invalid_shape : safehtml_invalidCSSSelectorRune = .cls invalidCls := rfl

/-- the regenerated negated class is the complement of the documented selector alphabet
    (for every rune Go can produce, i.e. ≤ 0x10FFFF) -/
theorem rx_invalid_class (c : Nat) (hc : c ≤ 1114111) : inCls invalidCls c = !allowedSel c := by
  simp only [inCls, invalidCls, List.any, allowedSel, isAlnum, isAlpha, isLowerAlpha, isUpperAlpha, isDigit, Bool.or_false]
  rw [Bool.eq_iff_iff]; simp; omega

theorem allowedSel_ascii (c : Nat) (h : allowedSel c = true) : c < 128 := by
  simp only [allowedSel, isAlnum, isAlpha, isLowerAlpha, isUpperAlpha, isDigit, Bool.or_eq_true,
    Bool.and_eq_true, decide_eq_true_eq, beq_iff_eq] at h
  omega

/-- a class that contains everything above 127: absence of a match means every BYTE is allowed -/
theorem no_invalid_rune (s : Bytes)
    (h : (findSubmatch safehtml_invalidCSSSelectorRune safehtml_invalidCSSSelectorRune_ncap s).isSome = false) :
    s.all allowedSel = true := by
  rw [rx_invalid_shape, findSubmatch_cls_isSome] at h
  rw [← Utf8.all_ascii_iff allowedSel allowedSel_ascii]
  rw [List.all_eq_true]
  intro x hx
  have hnot : inCls invalidCls x.rune = false := by
    cases hh : inCls invalidCls x.rune with
    | false => rfl
    | true =>
      have : (Utf8.decodeSyms s).any (fun x => inCls invalidCls x.rune) = true :=
        List.any_eq_true.mpr ⟨x, hx, hh⟩
      rw [this] at h; simp at h
  have hc := Utf8.decodeSyms_rune_le s x hx
  rw [rx_invalid_class _ hc] at hnot; simpa using hnot

/-- What CSSRule guarantees for every accepted selector, for ALL inputs: the result is `selector{style}`; the
    selector has no `<`; with its (regex-recognised) strings removed it consists of bytes of the documented selector
    alphabet only (so: no `{ } ; @ / \\ < "` `'`, no newline, tab, FF, control or non-ASCII byte outside strings),
    has balanced `()`/`[]`, and contains no `url(` in any letter case. -/
theorem C16_accept (sel st r : Bytes) (h : cssRule sel st = some r) :
    r = sel ++ [123] ++ st ++ [125] ∧ 60 ∉ sel ∧
    (selectorWithoutStrings sel).all allowedSel = true ∧
    hasBalancedBrackets (selectorWithoutStrings sel) = true ∧
    containsUrlParen (selectorWithoutStrings sel) = false := by
  unfold cssRule cssRuleWith at h
  split at h
  · simp at h
  · rename_i hlt
    simp only [] at h
    split at h
    · simp at h
    · rename_i hinv
      split at h
      · simp at h
      · rename_i hbal
        split at h
        · simp at h
        · rename_i hurl
          simp only [Option.some.injEq] at h
          refine ⟨h.symm, ?_, no_invalid_rune _ (by simpa using hinv), by simpa using hbal, by simpa using hurl⟩
          intro hm
          exact hlt (List.contains_iff_mem.mpr hm)

/-- C16 at full strength (the executable property of `Oracle.C16` holds for every accepted call): result shape;
    the selector's tokens contain no `{ } ; @`, comment, `<`, bad-string, bad-url, unterminated string/url, and
    its brackets are balanced; and for every style that is a complete block body, a CSS Syntax 3 parser
    ("parse a list of rules" and "parse a stylesheet") sees a single qualified rule whose prelude is the selector's
    tokens and whose block holds the style's tokens. -/
def C16_statement : Prop :=
  ∀ sel st r : Bytes, cssRule sel st = some r → Oracle.C16.check sel st (some r) = "pass"

/-- the same statement for the UNFIXED code -/
def C16_statement_unfixed : Prop :=
  ∀ sel st r : Bytes, cssRuleWith false sel st = some r → Oracle.C16.check sel st (some r) = "pass"

/-- `C16_partial`: the part of `C16_statement` that is proved for all inputs is `C16_accept` (result shape and the
    byte-level facts about the selector with strings removed).
    MISSING: (1) `Rx.replaceAllFunc cssStringPattern · ""` removes exactly the maximal runs that
    `Spec.Css.consumeStr` reads as closed strings (lock-step lemma between the regex and the tokenizer);
    (2) over the selector alphabet without `url(` the tokenizer emits no forbidden token and never consumes a quote;
    (3) `hasBalancedBrackets` agrees with `Spec.Css.consumeBody` nesting. These are checked by `Oracle.C16` on every
    real output of every run (exhaustively for short selectors over the core alphabet in the thorough tier). -/
theorem C16_partial (sel st r : Bytes) (h : cssRule sel st = some r) :
    r = sel ++ [123] ++ st ++ [125] ∧ 60 ∉ sel ∧
    (selectorWithoutStrings sel).all allowedSel = true ∧
    hasBalancedBrackets (selectorWithoutStrings sel) = true ∧
    containsUrlParen (selectorWithoutStrings sel) = false :=
  C16_accept sel st r h

/-! ### Non-vacuity and the defect of the unfixed code -/

-- `a[b="}"]` with style `c:d;` is accepted
example : cssRule [97, 91, 98, 61, 34, 125, 34, 93] [99, 58, 100, 59] =
    some [97, 91, 98, 61, 34, 125, 34, 93, 123, 99, 58, 100, 59, 125] := by decide
-- `a{` is rejected, `a[` is rejected, `a<` is rejected
example : cssRule [97, 123] [] = none := by decide
example : cssRule [97, 91] [] = none := by decide
example : cssRule [97, 60] [] = none := by decide

-- the parser-level clause of `C16_statement` on the accepted instance `a[b="}"]{c:d;}`: a single closed qualified rule
example : (ruleList true (tokenize (Utf8.decodeRunes
    [97, 91, 98, 61, 34, 125, 34, 93, 123, 99, 58, 100, 59, 125]))).length = 1 := by decide
example : Oracle.C16.checkRule true (tokenize [97, 91, 98, 61, 34, 125, 34, 93]) (tokenize [99, 58, 100, 59])
    (tokenize [97, 91, 98, 61, 34, 125, 34, 93, 123, 99, 58, 100, 59, 125]) = true := by decide

/-- witness `url(x"){}b{"y)`: accepted by the unfixed logic, rejected by the fixed one -/
def witness : Bytes := [117, 114, 108, 40, 120, 34, 41, 123, 125, 98, 123, 34, 121, 41]

theorem witness_fixed_rejected : cssRule witness [] = none := by decide

theorem witness_unfixed_accepted : cssRuleWith false witness [] = some (witness ++ [123, 125]) := by decide

/-- … and a CSS Syntax 3 parser reads the accepted result `url(x"){}b{"y){}` as a bad-url token followed by
    TWO qualified rules (`<bad-url>{}` and `b{…`), i.e. the selector injected a rule: the unfixed code violates C16. -/
theorem C16_unfixed_false :
    (tokenizeC (Utf8.decodeRunes witness)).contains Tok.badUrl = true ∧
    (ruleList true (tokenize (Utf8.decodeRunes (witness ++ [123, 125])))).length = 2 := by
  decide


/-- the reviewed tree of `cssStringPattern` (strings end at LF, FF or CR — CSS newlines — and may contain
    backslash escapes of anything): the regenerated regex must be exactly this tree. Editing the regex in
    stylesheet.go breaks this obligation; the directed search then looks for a selector that fails the oracle. -/
def reviewedCssStringPattern : Rx.Re :=
  (.alt (.cat (.cls [(34, 34)]) (.cat (.star (.cap 1 (.alt (.cls [(0, 9), (11, 11), (14, 33), (35, 91), (93, 1114111)]) (.cat (.cls [(92, 92)]) (.cls [(0, 1114111)])))) true) (.cls [(34, 34)]))) (.cat (.cls [(39, 39)]) (.cat (.star (.cap 2 (.alt (.cls [(0, 9), (11, 11), (14, 38), (40, 91), (93, 1114111)]) (.cat (.cls [(92, 92)]) (.cls [(0, 1114111)])))) true) (.cls [(39, 39)]))))

theorem rx_cssStringPattern_reviewed :
    SafeHtml.Generated.Regexes.safehtml_cssStringPattern = reviewedCssStringPattern := by decide

end SafeHtml.Props.C16
