/-
C19 — trusted-text parameters accept only compile-time constants; no raw back doors.

The quantifier of this property is over client PROGRAMS. It is split in two layers:

  A. (unbounded, by induction on expressions)  Under the rules of Spec.GoTypes, an argument
     expression of ANY shape that a client package manages to pass to a parameter whose type is a
     defined, unexported string type of another package is an untyped constant expression
     (`assign_unexported_only_const`, `arg_unexported_only_const`).
  B. (finite, by kernel evaluation over the REGENERATED surface `Generated.ApiSurface`)  every
     reviewed trusted-text parameter has such a type; nothing exported hands that type out; the
     safe types are defined structs with only unexported fields; every exported way of turning a
     run-time string into a safe type is on the reviewed list, which points at the covering property.

The unchanged tree violates the full statement in five reviewed ways (known findings; all
API-breaking to fix): generic-inference, struct-conversion, flag-value, funcs-override, exported-tree.
Each has a machine-checked negation witness and a `_partial` theorem that carves out exactly it.

Out of scope: `reflect`, `unsafe`, cgo/linkname, and the three conversions packages
(uncheckedconversions, legacyconversions, testconversions), which exist to bypass the gate.
-/
import SafeHtml.Model.Api
import SafeHtml.Reviewed.Api
namespace SafeHtml.Props.C19
open SafeHtml SafeHtml.Spec.GoTypes SafeHtml.Generated SafeHtml.Model.Api SafeHtml.Reviewed.Api

-- the readable names in the generated surface are the names the keys were computed from
#guard ApiSurface.funcs.all fun f => nameKey (B f.name) == f.key
#guard ApiSurface.types.all fun t => nameKey (B t.name) == t.qkey && nameKey (B (bareName t.name)) == t.key
#guard ApiSurface.vars.all fun v => nameKey (B v.name) == v.key

/-! ## A. Expressions (unbounded) -/

def ETy.ty? : ETy → Option StrTy
  | .untyped => none
  | .const t => some t
  | .val t => some t

theorem catTy_ty {x y τ : ETy} (h : catTy x y = some τ) :
    ETy.ty? τ = none ∨ ETy.ty? τ = ETy.ty? x ∨ ETy.ty? τ = ETy.ty? y := by
  cases x <;> cases y <;> simp only [catTy] at h <;>
    first
    | (cases h; simp [ETy.ty?])
    | (split at h
       · cases h; simp [ETy.ty?]
       · cases h)

theorem catTy_untyped {x y : ETy} (h : catTy x y = some .untyped) : x = .untyped ∧ y = .untyped := by
  cases x <;> cases y <;> simp only [catTy] at h <;>
    first
    | exact ⟨rfl, rfl⟩
    | (cases h)
    | (split at h <;> cases h)

/-- No expression has a type the client cannot name unless the library hands out a value of it. -/
theorem typeOf_not_unnameable (env : StrTy → Bool) (P : StrTy)
    (hn : P.nameable = false) (he : env P = false) :
    ∀ (e : StrExpr) (τ : ETy), typeOf env e = some τ → ETy.ty? τ ≠ some P := by
  have hsrc : srcOk env P = false := by simp [srcOk, hn, he]
  intro e
  induction e with
  | lit => intro τ h; simp only [typeOf] at h; cases h; simp [ETy.ty?]
  | uconst => intro τ h; simp only [typeOf] at h; cases h; simp [ETy.ty?]
  | tconst t =>
    intro τ h; simp only [typeOf] at h
    split at h
    · cases h; simp only [ETy.ty?]; intro hc; cases hc; simp_all
    · cases h
  | var t =>
    intro τ h; simp only [typeOf] at h
    split at h
    · cases h; simp only [ETy.ty?]; intro hc; cases hc; simp_all
    · cases h
  | call t =>
    intro τ h; simp only [typeOf] at h
    split at h
    · cases h; simp only [ETy.ty?]; intro hc; cases hc; simp_all
    · cases h
  | cat a b iha ihb =>
    intro τ h; simp only [typeOf] at h
    split at h
    · rename_i x y hx hy
      rcases catTy_ty h with h0 | h1 | h2
      · simp [h0]
      · rw [h1]; exact iha x hx
      · rw [h2]; exact ihb y hy
    · cases h
  | conv t e ih =>
    intro τ h; simp only [typeOf] at h
    split at h
    · rename_i ht
      cases hte : typeOf env e with
      | none => simp [hte] at h
      | some σ =>
        simp only [hte, Option.map_some, Option.some.injEq] at h
        subst h
        have : t ≠ P := by intro hc; subst hc; simp [hn] at ht
        cases σ <;> simp [convTy, ETy.ty?, this]
    · cases h
  | paren e ih => intro τ h; simp only [typeOf] at h; exact ih τ h

/-- An expression whose static type is "untyped constant" consists of literals and untyped constants only. -/
theorem untyped_is_const_expr (env : StrTy → Bool) :
    ∀ e : StrExpr, typeOf env e = some .untyped → e.isUntypedConst = true := by
  intro e
  induction e with
  | lit => intro _; rfl
  | uconst => intro _; rfl
  | tconst t => intro h; simp only [typeOf] at h; split at h <;> cases h
  | var t => intro h; simp only [typeOf] at h; split at h <;> cases h
  | call t => intro h; simp only [typeOf] at h; split at h <;> cases h
  | cat a b iha ihb =>
    intro h; simp only [typeOf] at h
    split at h
    · rename_i x y hx hy
      obtain ⟨rfl, rfl⟩ := catTy_untyped h
      simp [StrExpr.isUntypedConst, iha hx, ihb hy]
    · cases h
  | conv t e ih =>
    intro h; simp only [typeOf] at h
    split at h
    · cases hte : typeOf env e with
      | none => simp [hte] at h
      | some σ => cases σ <;> simp [hte, convTy] at h
    · cases h
  | paren e ih => intro h; simp only [typeOf] at h; simp [StrExpr.isUntypedConst, ih h]

/-- **Key rule.** Whatever expression a client writes: if it is accepted where a defined string type
that the client cannot name is expected (and the library exports no value of that type), it is an
untyped constant expression. -/
theorem assign_unexported_only_const (env : StrTy → Bool) (P : StrTy)
    (hn : P.nameable = false) (he : env P = false) (e : StrExpr)
    (h : exprAssignable env e P = true) : e.isUntypedConst = true := by
  unfold exprAssignable at h
  cases hte : typeOf env e with
  | none => simp [hte] at h
  | some τ =>
    have hne := typeOf_not_unnameable env P hn he e τ hte
    cases τ with
    | untyped => exact untyped_is_const_expr env e hte
    | const t => simp [hte, assignableTo] at h; subst h; simp [ETy.ty?] at hne
    | val t => simp [hte, assignableTo] at h; subst h; simp [ETy.ty?] at hne

def Arg.usesGeneric : Arg → Bool
  | .viaGeneric _ => true
  | _ => false

/-- the same for whole arguments (single expression, `xs...`, class-specific dynamic values), generics apart -/
theorem arg_unexported_only_const (env : StrTy → Bool) (pkg : Nat) (c : Cls)
    (hc : c.isStringConstantOf pkg = true)
    (he : ∀ n, env (.lib pkg n false) = false) (a : Arg) (hg : Arg.usesGeneric a = false)
    (h : argCompiles env c a = true) : a.isUntypedConst = true := by
  cases c with
  | str t =>
    cases t with
    | lib p n ex =>
      cases ex with
      | true => simp [Cls.isStringConstantOf] at hc
      | false =>
        simp [Cls.isStringConstantOf] at hc; subst hc
        cases a with
        | expr e => exact assign_unexported_only_const env _ rfl (he n) e (by simpa [argCompiles] using h)
        | spread t => simp [argCompiles] at h
        | dyn => simp [argCompiles] at h
        | viaGeneric e => simp [Arg.usesGeneric] at hg
    | string => simp [Cls.isStringConstantOf] at hc
    | clientDef => simp [Cls.isStringConstantOf] at hc
  | variadic t =>
    cases t with
    | lib p n ex =>
      cases ex with
      | true => simp [Cls.isStringConstantOf] at hc
      | false =>
        simp [Cls.isStringConstantOf] at hc; subst hc
        cases a with
        | expr e => exact assign_unexported_only_const env _ rfl (he n) e (by simpa [argCompiles] using h)
        | spread t =>
          simp only [argCompiles, Bool.and_eq_true, decide_eq_true_eq] at h
          obtain ⟨h1, h2⟩ := h
          subst h2
          simp [srcOk, StrTy.nameable, he] at h1
        | dyn => simp [argCompiles] at h
        | viaGeneric e => simp [Arg.usesGeneric] at hg
    | string => simp [Cls.isStringConstantOf] at hc
    | clientDef => simp [Cls.isStringConstantOf] at hc
  | _ => simp [Cls.isStringConstantOf] at hc

/-- Go ≥ 1.18: the generic helper defeats the gate for EVERY string-kind parameter. -/
theorem generic_defeats_gate (env : StrTy → Bool) (pkg : Nat) (c : Cls) (hc : c.isStringConstantOf pkg = true) :
    argCompiles env c (.viaGeneric (.var .string)) = true := by
  cases c with
  | str t => simp [argCompiles, exprAssignable, typeOf, srcOk, StrTy.nameable, assignableTo]
  | variadic t => simp [argCompiles, exprAssignable, typeOf, srcOk, StrTy.nameable, assignableTo]
  | _ => simp [Cls.isStringConstantOf] at hc

/-! non-vacuity: the rule does distinguish (what each self-test mutant would change) -/
example : exprAssignable (fun _ => false) .lit (.lib 2 7 false) = true := by decide
example : exprAssignable (fun _ => false) (.cat .lit .uconst) (.lib 2 7 false) = true := by decide
example : exprAssignable (fun _ => false) (.var .string) (.lib 2 7 false) = false := by decide
example : exprAssignable (fun _ => false) (.cat .lit (.var .string)) (.lib 2 7 false) = false := by decide
example : exprAssignable (fun _ => false) (.conv (.lib 2 7 false) (.var .string)) (.lib 2 7 false) = false := by decide
example : exprAssignable (fun _ => false) (.tconst .string) (.lib 2 7 false) = false := by decide
-- `type stringConstant = string`: the parameter type IS string
example : exprAssignable (fun _ => false) (.var .string) .string = true := by decide
-- exported `StringConstant`: a conversion becomes writable
example : exprAssignable (fun _ => false) (.conv (.lib 2 7 true) (.var .string)) (.lib 2 7 true) = true := by decide
-- a leak (`func K() stringConstant`): the call result is accepted
example : exprAssignable (fun _ => true) (.call (.lib 2 7 false)) (.lib 2 7 false) = true := by decide

/-! ## B. The regenerated surface (finite) -/

/-- the reviewed trusted-text parameter exists and has its package's unexported defined string type -/
def trustedParamOk (tp : TrustedParam) : Bool :=
  match findFunc tp.func with
  | some f =>
    match f.params[tp.idx]? with
    | some c => c.isStringConstantOf f.pkg
    | none => false
  | none => false

/-- table obligation: breaks when a trusted-text parameter becomes `string`, an alias, or exported -/
theorem surface_trusted_params : trustedText.all trustedParamOk = true := by decide +kernel

/-- table obligation: nothing exported by either package mentions an unexported string type -/
theorem surface_no_leak : leaksPkg 1 = false ∧ leaksPkg 2 = false := by
  constructor <;> decide +kernel

/-- a package key that is not 1 or 2 owns nothing in the surface -/
theorem surface_pkgs : ApiSurface.funcs.all (fun f => f.pkg == 1 || f.pkg == 2) = true ∧
    ApiSurface.vars.all (fun v => v.pkg == 1 || v.pkg == 2) = true ∧
    ApiSurface.types.all (fun t => t.pkg == 1 || t.pkg == 2) = true := by
  refine ⟨?_, ?_, ?_⟩ <;> decide +kernel

theorem env_closed_of (pkg : Nat) (h : pkg = 1 ∨ pkg = 2) (n : Nat) : env (.lib pkg n false) = false := by
  rcases h with rfl | rfl
  · simp [env, surface_no_leak.1]
  · simp [env, surface_no_leak.2]

/-- C19 (i), full strength: for every reviewed trusted-text parameter, EVERY argument a client can
write there is an untyped constant expression. -/
def C19_const_params_statement : Prop :=
  ∀ tp ∈ trustedText, ∃ f c, findFunc tp.func = some f ∧ f.params[tp.idx]? = some c ∧
    ∀ a : Arg, argCompiles env c a = true → a.isUntypedConst = true

theorem trusted_param_cls (tp : TrustedParam) (h : tp ∈ trustedText) :
    ∃ f c, findFunc tp.func = some f ∧ f.params[tp.idx]? = some c ∧ c.isStringConstantOf f.pkg = true := by
  have := List.all_eq_true.mp surface_trusted_params tp h
  unfold trustedParamOk at this
  split at this
  · rename_i f hf
    split at this
    · rename_i c hc
      exact ⟨f, c, hf, hc, this⟩
    · cases this
  · cases this

/-- proved part: every way of writing the argument EXCEPT through a client generic function whose type
parameter is inferred from the library function. Missing for the full statement: exactly that (known
finding `generic-inference`; the language offers no way to close it from inside the library). -/
theorem C19_const_params_partial :
    ∀ tp ∈ trustedText, ∃ f c, findFunc tp.func = some f ∧ f.params[tp.idx]? = some c ∧
      ∀ a : Arg, Arg.usesGeneric a = false → argCompiles env c a = true → a.isUntypedConst = true := by
  intro tp h
  obtain ⟨f, c, hf, hc, hcls⟩ := trusted_param_cls tp h
  have hpkg : f.pkg = 1 ∨ f.pkg = 2 := by
    have hmem : f ∈ ApiSurface.funcs := List.mem_of_find?_eq_some hf
    have := List.all_eq_true.mp surface_pkgs.1 f hmem
    simpa using this
  exact ⟨f, c, hf, hc, fun a hg ha =>
    arg_unexported_only_const env f.pkg c hcls (env_closed_of f.pkg hpkg) a hg ha⟩

theorem C19_false_generic_inference : ¬ C19_const_params_statement := by
  intro hall
  have hmem : (⟨152777063432729567636848295191440833756224662888384937873587138164,
      "safehtml.ScriptFromConstant", 0, "script text"⟩ : TrustedParam) ∈ trustedText := by
    simp [trustedText]
  obtain ⟨f, c, hf, hc, hcls⟩ := trusted_param_cls _ hmem
  obtain ⟨f', c', hf', hc', hargs⟩ := hall _ hmem
  rw [hf] at hf'; cases hf'
  rw [hc] at hc'; cases hc'
  have := hargs (.viaGeneric (.var .string)) (generic_defeats_gate env f.pkg c hcls)
  simp [Arg.isUntypedConst] at this

/-- C19 (ii): no exported result, variable, constant or field mentions `stringConstant`, and each
package has exactly one string-kind type: unexported, defined (not an alias). -/
def C19_no_leak_statement : Prop :=
  leaksPkg 1 = false ∧ leaksPkg 2 = false ∧
  ApiSurface.stringTypes.all (fun s => !s.exported && !s.alias) = true ∧
  (ApiSurface.stringTypes.map (·.pkg)) = [1, 2]

theorem C19_no_leak : C19_no_leak_statement := by
  refine ⟨surface_no_leak.1, surface_no_leak.2, ?_, ?_⟩ <;> decide +kernel

/-- shape of a reviewed safe type: present, defined (not an alias), a struct, ≥1 field, every field
unexported and not embedded -/
def typeOk (s : SafeType) : Bool :=
  match findType s.pkg s.key with
  | some t => !t.alias && t.kind == .struct && !t.fields.isEmpty && t.fields.all (fun f => !f.exported && !f.embedded)
  | none => false

def notConvertible (a b : SafeType) : Bool :=
  match findType a.pkg a.key, findType b.pkg b.key with
  | some x, some y => !convertOk x y
  | _, _ => false

def sameType (a b : SafeType) : Bool := a.pkg == b.pkg && a.key == b.key

/-- C19 (iii), full strength: shape, and NO conversion `T2(x : T1)` between two different safe types -/
def C19_types_statement : Prop :=
  safeTypes.all typeOk = true ∧
  safeTypes.all (fun a => safeTypes.all fun b => sameType a b || notConvertible a b) = true

/-- proved part: shape for all eleven; no conversion unless BOTH types are in package safehtml.
Missing: the 8×7 pairs inside package safehtml (known finding `struct-conversion`). -/
theorem C19_types_partial :
    safeTypes.all typeOk = true ∧
    safeTypes.all (fun a => safeTypes.all fun b =>
      sameType a b || (a.pkg == 1 && b.pkg == 1) || notConvertible a b) = true := by
  constructor <;> decide +kernel

/-- the carve-out is exact: every pair it excludes IS convertible on the current tree -/
theorem C19_types_carveout_exact :
    safeTypes.all (fun a => safeTypes.all fun b =>
      sameType a b || !(a.pkg == 1 && b.pkg == 1) || !notConvertible a b) = true := by decide +kernel

theorem C19_false_struct_conversion : ¬ C19_types_statement := by
  intro h
  have h2 := h.2
  revert h2
  decide +kernel

/-- a pointer-receiver method of a reviewed safe type can overwrite its receiver -/
def writesSafeRecv (f : Func) : Bool :=
  f.ptrRecv && safeTypes.any fun t => t.pkg == f.pkg && t.key == f.recv

/-- a function/method that can receive a run-time string and yields a safe type or a *Template
(as a result, or by overwriting a safe-typed pointer receiver) -/
def needsReview (f : Func) : Bool :=
  (f.results.any Cls.isSafeLike || f.resultMentionsSafe || writesSafeRecv f) && f.params.any Cls.acceptsDynamic

def ctorCovered (f : Func) : Bool :=
  match lookup constructors f.key with
  | some e => e.status.isCovered
  | none => false

def ctorFinding (f : Func) (sigs : List String) : Bool :=
  match lookup constructors f.key with
  | some e =>
    match e.status with
    | .finding s => sigs.contains s
    | .covered _ => false
  | none => false

/-- C19 (iv), full strength: every such function is reviewed and covered by a property -/
def C19_constructors_statement : Prop :=
  ApiSurface.funcs.all (fun f => !needsReview f || ctorCovered f) = true

/-- proved part. Missing: the three `…FromFlag` constructors (any caller can implement flag.Value:
`flag-value`) and `Template.Funcs` (caller functions under caller-chosen names: `funcs-override`). -/
theorem C19_constructors_partial :
    ApiSurface.funcs.all (fun f => !needsReview f || ctorCovered f ||
      ctorFinding f ["flag-value", "funcs-override"]) = true := by decide +kernel

def hasFinding (sig : String) : Bool :=
  ApiSurface.funcs.any fun f => needsReview f && ctorFinding f [sig]

theorem C19_false_flag_value : ¬ C19_constructors_statement := by
  unfold C19_constructors_statement; decide +kernel

theorem C19_false_funcs_override : ¬ C19_constructors_statement := by
  unfold C19_constructors_statement; decide +kernel

/-- both carve-outs are needed: excusing only one of the two signatures still leaves a failing function -/
theorem C19_constructors_carveout_minimal :
    ApiSurface.funcs.all (fun f => !needsReview f || ctorCovered f || ctorFinding f ["flag-value"]) = false ∧
    ApiSurface.funcs.all (fun f => !needsReview f || ctorCovered f || ctorFinding f ["funcs-override"]) = false := by
  constructor <;> decide +kernel

/-- each of the two signatures is really present (needs review, listed as that finding) -/
theorem C19_finding_flag_value_present : hasFinding "flag-value" = true := by decide +kernel
theorem C19_finding_funcs_override_present : hasFinding "funcs-override" = true := by decide +kernel

def structCovered (t : TypeDecl) : Bool :=
  match lookup structs t.qkey with
  | some e => e.status.isCovered
  | none => false

def structFinding (t : TypeDecl) (sig : String) : Bool :=
  match lookup structs t.qkey with
  | some e => e.status == .finding sig
  | none => false

/-- C19 (v), full strength: an exported type with an exported field is reviewed plain data -/
def C19_fields_statement : Prop :=
  ApiSurface.types.all (fun t => t.fields.all (fun f => !f.exported) || structCovered t) = true

/-- proved part. Missing: `Template.Tree` (`exported-tree`). -/
theorem C19_fields_partial :
    ApiSurface.types.all (fun t => t.fields.all (fun f => !f.exported) || structCovered t ||
      structFinding t "exported-tree") = true := by decide +kernel

theorem C19_false_exported_tree : ¬ C19_fields_statement := by
  unfold C19_fields_statement; decide +kernel

/-- C19 (vi): no exported variable or constant has a type that mentions (at any depth: pointer, slice,
map, func result …) a safe type or Template -/
def C19_vars_statement : Prop :=
  ApiSurface.vars.all (fun v => !v.cls.isSafeLike && !v.mentionsSafe) = true

theorem C19_vars : C19_vars_statement := by unfold C19_vars_statement; decide +kernel

/-- the whole property over the model -/
def C19_statement : Prop :=
  C19_const_params_statement ∧ C19_no_leak_statement ∧ C19_types_statement ∧
    C19_constructors_statement ∧ C19_fields_statement ∧ C19_vars_statement

theorem C19_false : ¬ C19_statement := fun h => C19_false_generic_inference h.1

/-- everything that IS proved about the unchanged tree, in one place -/
theorem C19_partial :
    (∀ tp ∈ trustedText, ∃ f c, findFunc tp.func = some f ∧ f.params[tp.idx]? = some c ∧
      ∀ a : Arg, Arg.usesGeneric a = false → argCompiles env c a = true → a.isUntypedConst = true) ∧
    C19_no_leak_statement ∧
    (safeTypes.all typeOk = true ∧
      safeTypes.all (fun a => safeTypes.all fun b =>
        sameType a b || (a.pkg == 1 && b.pkg == 1) || notConvertible a b) = true) ∧
    (ApiSurface.funcs.all (fun f => !needsReview f || ctorCovered f ||
      ctorFinding f ["flag-value", "funcs-override"]) = true) ∧
    (ApiSurface.types.all (fun t => t.fields.all (fun f => !f.exported) || structCovered t ||
      structFinding t "exported-tree") = true) ∧
    C19_vars_statement :=
  ⟨C19_const_params_partial, C19_no_leak, C19_types_partial, C19_constructors_partial, C19_fields_partial, C19_vars⟩

/-! non-vacuity of the finite part -/
example : ApiSurface.funcs.length > 60 := by decide +kernel
example : (ApiSurface.funcs.filter needsReview).length ≥ 20 := by decide +kernel
example : trustedText.length = 19 ∧ safeTypes.length = 11 := by decide
-- identical field lists convert; an unexported name re-declared by another package does not
example : convertibleStruct [⟨5, false, 1, false, 9⟩] [⟨5, false, 1, false, 9⟩] = true := by decide
example : convertibleStruct [⟨5, false, 1, false, 9⟩] [⟨5, false, 3, false, 9⟩] = false := by decide
example : convertibleStruct [⟨5, true, 1, false, 9⟩] [⟨5, true, 3, false, 9⟩] = true := by decide
example : makeCompiles 3 [⟨5, false, 1, false, 9⟩] (.litKeyed 5) = false := by decide
example : makeCompiles 3 [⟨5, true, 1, false, 9⟩] (.litKeyed 5) = true := by decide

end SafeHtml.Props.C19
