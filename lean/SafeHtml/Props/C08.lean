/-
C08 — the template API is total: problems are returned as errors, never panics or hangs.
The model makes Go panics explicit (`Out.panic`, `Res.panic` at exactly the program points where Go
would panic) and every model function is a total Lean function on an explicit fuel argument.
-/
import SafeHtml.Proofs.ApiLemmas
import SafeHtml.Model.Tmpl.PrefixLite
namespace SafeHtml.Props.C08
open SafeHtml SafeHtml.Model.Tmpl

def isPanic : Ret → Bool
  | .exec (.panic _) => true
  | .html (.panic _) => true
  | _ => false

/-- **New, Parse\*, Clone, Lookup, Templates, CSPCompatible never panic** (for every state, every argument). -/
theorem C08_nonexec_total (w : World) (op : Op)
    (h : match op with
      | .exec .. | .execT .. | .execHTML .. | .execTHTML .. => False
      | _ => True) :
    isPanic (Api.step w op).2 = false := by
  cases op <;> simp at h <;> simp only [Api.step] <;> (try split) <;> rfl

/-- **{{break}} / {{continue}} (and comment nodes) are analysis errors, not panics.** -/
theorem C08_break_continue (env : Env) (f : Nat) (tn : String) (e : Esc) (c : Ctx) (id : Nat) :
    escapeNode env (f + 1) tn e c (.brk id) = .ok (e, Ctx.errorCtx .escapeAction) ∧
    escapeNode env (f + 1) tn e c (.cont id) = .ok (e, Ctx.errorCtx .escapeAction) ∧
    escapeNode env (f + 1) tn e c (.comment id) = .ok (e, Ctx.errorCtx .escapeAction) := by
  refine ⟨?_, ?_, ?_⟩ <;> simp [escapeNode]

/-- **A callee without a parse tree is an analysis error, not a nil dereference.** -/
theorem C08_nil_tree_is_error (env : Env) (f : Nat) (e : Esc) (c : Ctx) (name : String)
    (hc : c.state ≠ .error)
    (hmemo : alookup e.output (mangle c name) = none)
    (ht : e.template env name = some none) :
    ∃ e', escapeTree env (f + 1) e c name = .ok (e', Ctx.errorCtx .noSuchTemplate, mangle c name) := by
  unfold escapeTree
  have hce : (c.state == State.error) = false := by simpa using hc
  simp only [hmemo, hce, Bool.false_eq_true, if_false]
  -- `called` and the classification bookkeeping are the only fields updated before the template lookup,
  -- and `Esc.template` reads `derived` only
  have key : ∀ e' : Esc, e'.derived = e.derived → Esc.template env e' name = some none := by
    intro e' hd
    unfold Esc.template at ht ⊢
    rw [hd]; exact ht
  split
  · rename_i h; unfold Esc.template at h ht; simp only [] at h; rw [ht] at h; cases h
  · exact ⟨_, rfl⟩
  · rename_i tr h; unfold Esc.template at h ht; simp only [] at h; rw [ht] at h; cases h

/-- **An analysis error never reaches execution**: Execute returns the error and the bytes written are empty. -/
theorem C08_error_not_panic (w : World) (h oid : Nat) (o : TObj) (d : Value) (w' : World) (code : ErrCode)
    (ho : w.obj h = some (oid, o)) (hs : o.status = .unset) (ht : o.treeNil = false)
    (hq : escapeTemplateTop (w.setNs o.ns { w.ns o.ns with escaped := true }) o.ns o.name = .inr (w', some code)) :
    apiExecute w h d = (w', .err (analysisCls code) []) := by
  unfold apiExecute
  simp [ho, hs, ht, hq]

/-! ### the full property and what is proved of it

`C08_statement`: for every template text the parser accepts, every data value and every history,
`isPanic (Api.step w op).2 = false` for every reachable `w`, and the fuel the driver supplies is never
exhausted (no hang).

Proved: the non-executing operations are total in every state; the three program points that panicked on
the pinned tree are errors now (`C08_break_continue`, `C08_nil_tree_is_error`; the third — executing a caller
of a template whose tree had been cleared — disappears because failed analyses no longer clear trees, see
C06).  Not proved: unreachability of the remaining explicit panic sites of the model (`node shared between
templates`, `infinite loop in escapeText`, command without arguments — impossible for parser-produced trees —,
`e.template(name).Funcs` on a vanished template, `template escaping out of sync`) and sufficiency of the
fuel.  These are decided on every run by the oracle (`Oracle.Hist.c08`: no step of any generated history —
nor of its fresh-set replays — may return `panic` or `timeout` on the REAL code), with the model's panic site
as classification.
-/

/-- non-vacuity: a range loop with {{break}} now fails to analyse (and does not panic) -/
example :
    let w := (Api.step (Api.step { v := liteValidators, fuel := 40 } (.new 0 "t")).1
      (.parse 0 [{ name := "t", root := .cons (.rangeN 0 { cmds := [{ args := [.dot] }] } (.cons (.brk 1) .nil) .nil) .nil }])).1
    (Api.step w (.exec 0 .noValue)).2.str = "err:analysis:ErrEscapeAction -" := by
  decide +kernel

end SafeHtml.Props.C08
