/-
C12 — URLSetSanitized keeps only safe image candidates under the WHATWG srcset parser.

Only property statements, the table obligations and non-vacuity examples live here; the proofs are in
`Proofs/UrlSet.lean` (audited through `proof_modules`).

Vocabulary
* `Spec.Srcset.candidates` — WHATWG "parse a srcset attribute", candidate collection (URL + descriptor tokens).
* `Model.isSafeURL u = true` — "URLSanitized would leave u unchanged" (url.go; its meaning is C11). It is used as an
  opaque function: the only facts needed are `isSafeURL InnocuousURL` (evaluated) and `SafeStable isSafeURL`
  (writing an edge comma as `%2c` keeps a safe URL safe), proved in `Proofs/UrlSetSafe.lean` from C11's byte-level
  reading of the regenerated `safeURLPattern` (`Proofs/UrlRx.lean`). The `_of_stable` forms take it as a hypothesis
  and hold for ANY url predicate.
* `parseFloatOk` — model of `strconv.ParseFloat(·,64) == nil`; the only fact used is `PfAlphabet parseFloatOk`
  (accepted strings are over `[0-9A-Za-z+-._]`), proved in `Proofs/UrlSetFloat.lean`.
* `Segmentation s segs` — the Go scanner's reading of `s` as `ws* url ws* metadata ws* (',' …)`; `keep` — the
  loop's filter; `render` — `u₁[ m₁] , u₂[ m₂] , …`; `output [] = InnocuousURL`.
-/
import SafeHtml.Proofs.UrlSetSafe
import SafeHtml.Proofs.UrlSetFloat
namespace SafeHtml.Props.C12
open SafeHtml SafeHtml.Model SafeHtml.Model.UrlSet SafeHtml.Spec.Srcset SafeHtml.Proofs.UrlSet

/-! ### obligations on regenerated data -/

/-- the regenerated `asciiWhitespace` table is the standard's ASCII whitespace (TAB LF FF CR SPACE) -/
theorem tbl_asciiWhitespace (b : Nat) : inTable asciiWhitespace b = isAsciiWhitespace b :=
  table_asciiWhitespace b

/-- the regenerated `srcsetMetachars` table is ASCII whitespace plus the comma -/
theorem tbl_srcsetMetachars (b : Nat) : inTable srcsetMetachars b = (isAsciiWhitespace b || b == 44) :=
  table_srcsetMetachars b

/-- the regenerated `InnocuousURL` is accepted by (the model of) `isSafeURL` -/
theorem innocuous_safe : isSafeURL Generated.Tables.innocuousURL = true := by decide

/-- `parseFloatOk` accepts only strings over `[0-9A-Za-z+-._]` (in particular no parenthesis) -/
theorem pf_alphabet : PfAlphabet parseFloatOk := parseFloatOk_alphabet

/-- writing an edge comma as `%2c` keeps a URL accepted by `isSafeURL` accepted -/
theorem safe_stable : SafeStable isSafeURL := isSafeURL_stable

/-- `orBit5` is Go's `c | 32` on bytes -/
theorem orBit5_eq_lor : ∀ c, c < 256 → orBit5 c = c ||| 32 := by decide +kernel

/-! ### the property -/

/-- C12, clause 1. Every image candidate that the WHATWG algorithm finds in `URLSetSanitized(s)` has a URL that
    `URLSanitized` leaves unchanged, and no descriptor or exactly one descriptor that is a number (as
    `strconv.ParseFloat` accepts) followed by at most one ASCII letter. -/
theorem C12_safe (s : Bytes) :
    ∀ c ∈ candidates (urlSetSanitized s),
      isSafeURL c.1 = true ∧ (c.2 = [] ∨ ∃ m, c.2 = [m] ∧ m ≠ [] ∧ MetaOk parseFloatOk m) :=
  safe_generic isSafeURL parseFloatOk innocuous_safe isSafeURL_stable parseFloatOk_alphabet s

/-- the same for an arbitrary URL predicate `safe` and ParseFloat acceptor `pf` with the three facts as hypotheses -/
theorem C12_safe_of_stable (safe pf : Bytes → Bool) (hI : safe Generated.Tables.innocuousURL = true)
    (hS : SafeStable safe) (hpf : PfAlphabet pf) (s : Bytes) :
    ∀ c ∈ candidates (urlSetSanitizedWith safe pf s),
      safe c.1 = true ∧ (c.2 = [] ∨ ∃ m, c.2 = [m] ∧ m ≠ [] ∧ MetaOk pf m) :=
  safe_generic safe pf hI hS hpf s

/-- C12, key lemma. On everything the sanitizer writes, the WHATWG candidate collection and the Go scanner
    segment identically: both find exactly the written (url, metadata) pairs. -/
theorem C12_same_segmentation (l : List Seg) (hl : l ≠ []) (hg : ∀ y ∈ l, Good y ∧ ∀ b ∈ y.2, b ≠ 40) :
    candidates (render l) = l.map (fun y => (y.1, descOf y.2)) ∧
    scan ((render l).length + 1) (render l) = l := by
  refine ⟨candidates_render l hg, ?_⟩
  cases l with
  | nil => exact absurd rfl hl
  | cons x r => exact scan_render x r (fun y hy => (hg y hy).1)

/-- C12, clause 2. The result is the rendering `u₁[ m₁] , u₂[ m₂] …` (or `InnocuousURL` if none) of a `filterMap`,
    hence in order, of the scanner's segmentation of `s`; a pair is kept iff its URL is non-empty and safe and its
    metadata well formed; the metadata is copied and the URL is copied except that a leading / trailing comma
    is written as `%2c`. -/
theorem C12_sublist (s : Bytes) :
    ∃ segs : List Seg, Segmentation s segs ∧
      urlSetSanitized s = output (segs.filterMap (keep isSafeURL parseFloatOk)) ∧
      (∀ seg x, keep isSafeURL parseFloatOk seg = some x →
        seg.1 ≠ [] ∧ isSafeURL seg.1 = true ∧ isOptionalSrcMetadataWellFormed seg.2 = true ∧ x.2 = seg.2 ∧
        ∃ lead core trail, seg.1 = lead ++ core ++ trail ∧ (lead = [] ∨ lead = [44]) ∧ (trail = [] ∨ trail = [44]) ∧
          x.1 = encComma lead ++ core ++ encComma trail) := by
  obtain ⟨segs, h1, h2⟩ := sublist_generic isSafeURL parseFloatOk s
  refine ⟨segs, h1, h2, ?_⟩
  intro seg x hk
  obtain ⟨hx, a, b, c⟩ := keep_snd _ _ seg x hk
  obtain ⟨lead, core, trail, d1, d2, d3, d4, _, _⟩ := appendURLToSet_spec seg.1 a
  exact ⟨a, b, c, by rw [hx], lead, core, trail, d1, d2, d3, by rw [hx]; exact d4⟩

/-- C12, clause 3. When no candidate survives the result is exactly `about:invalid#zGoSafez`. -/
theorem C12_innocuous (s : Bytes) (h : kept isSafeURL parseFloatOk s = []) :
    urlSetSanitized s = Generated.Tables.innocuousURL := by
  unfold urlSetSanitized
  rw [urlSetSanitizedWith_eq, output, if_pos h]

/-- … and otherwise it is the non-empty rendering of the kept pairs. -/
theorem C12_not_innocuous (s : Bytes) (h : kept isSafeURL parseFloatOk s ≠ []) :
    urlSetSanitized s = render (kept isSafeURL parseFloatOk s) ∧ urlSetSanitized s ≠ [] := by
  unfold urlSetSanitized
  rw [urlSetSanitizedWith_eq, output, if_neg h]
  exact ⟨rfl, render_ne_nil _ h (kept_good _ _ _ s)⟩

/-- C12, clause 4. Sanitizing an already sanitized value changes nothing. -/
theorem C12_idempotent (s : Bytes) :
    urlSetSanitized (urlSetSanitized s) = urlSetSanitized s :=
  idempotent_generic isSafeURL parseFloatOk innocuous_safe isSafeURL_stable s

theorem C12_idempotent_of_stable (safe pf : Bytes → Bool) (hI : safe Generated.Tables.innocuousURL = true)
    (hS : SafeStable safe) (s : Bytes) :
    urlSetSanitizedWith safe pf (urlSetSanitizedWith safe pf s) = urlSetSanitizedWith safe pf s :=
  idempotent_generic safe pf hI hS s

/-- stability is really needed: for a URL predicate that is not stable (here: "contains no `%`"), the sanitizer is not
    idempotent and emits a URL the predicate rejects ("," ↦ "%2c" ↦ about:invalid#zGoSafez) -/
example : let safe : Bytes → Bool := fun u => !u.contains 37
    urlSetSanitizedWith safe parseFloatOk (urlSetSanitizedWith safe parseFloatOk [44]) ≠
      urlSetSanitizedWith safe parseFloatOk [44] := by decide +kernel

/-! ### Non-vacuity -/
-- "a 1x,b 2x"
example : urlSetSanitized [97, 32, 49, 120, 44, 98, 32, 50, 120] = [97, 32, 49, 120, 32, 44, 32, 98, 32, 50, 120] := by decide +kernel
-- ",a," ↦ "%2ca%2c"
example : urlSetSanitized [44, 97, 44] = [37, 50, 99, 97, 37, 50, 99] := by decide +kernel
-- "a,b" is one URL for both parsers
example : candidates [97, 44, 98] = [([97, 44, 98], [])] := by decide +kernel
-- "a (b , c" : the parenthesis state swallows the separator
example : candidates [97, 32, 40, 98, 32, 44, 32, 99] = [([97], [[40, 98, 32, 44, 32, 99]])] := by decide +kernel
-- "a, b 1x" : a trailing comma ends the URL
example : candidates [97, 44, 32, 98, 32, 49, 120] = [([97], []), ([98], [[49, 120]])] := by decide +kernel
-- "j:x 1x" with j = javascript is dropped; "a (" is dropped
example : urlSetSanitized [97, 32, 40] = Generated.Tables.innocuousURL := by decide +kernel
-- "a 1e309x" (out of range) is dropped, "a 0x1p-2w" is kept
example : parseFloatOk [49, 101, 51, 48, 57] = false := by decide +kernel
example : isOptionalSrcMetadataWellFormed [48, 120, 49, 112, 45, 50, 119] = true := by decide +kernel

/-! ### the transcription of the WHATWG algorithm, pinned on examples -/
-- ' ,, a.png,,, b 1x (foo' : leading commas skipped, all trailing commas stripped, unclosed parenthesis runs to the end
example : candidates [32, 44, 44, 32, 97, 46, 112, 110, 103, 44, 44, 44, 32, 98, 32, 49, 120, 32, 40, 102, 111, 111] = [([97, 46, 112, 110, 103], []), ([98], [[49, 120], [40, 102, 111, 111]])] := by decide
-- 'a, b 2x (c, d) e ,f' : a parenthesised descriptor keeps its comma and space
example : candidates [97, 44, 32, 98, 32, 50, 120, 32, 40, 99, 44, 32, 100, 41, 32, 101, 32, 44, 102] = [([97], []), ([98], [[50, 120], [40, 99, 44, 32, 100, 41], [101]]), ([102], [])] := by decide
-- 'a b c , d' : after-descriptor state: comma after whitespace ends the candidate
example : candidates [97, 32, 98, 32, 99, 32, 44, 32, 100] = [([97], [[98], [99]]), ([100], [])] := by decide
-- 'a\x0c1x\t,\nb' : FF TAB LF are whitespace
example : candidates [97, 12, 49, 120, 9, 44, 10, 98] = [([97], [[49, 120]]), ([98], [])] := by decide
-- '' : empty
example : candidates [] = [] := by decide
-- ' , ' : only separators
example : candidates [32, 44, 32] = [] := by decide

end SafeHtml.Props.C12
