/-
C01 — template markup structure is never altered by untrusted data.

What is proved here (for every value / every byte string, no bound):

 1. what the engine emits for untrusted data is inert text: in element content (`_sanitizeHTML`), in RCDATA
    (`_sanitizeRCDATA`, typed values included), in every quoted attribute value (C03_attr_escaped), the emitted
    bytes are in `Esc` (no `< > " '` NUL, every `&` a complete reference); a comment position emits nothing;
 2. `Esc` text cannot move an HTML5 tokenizer (Spec/HtmlTok, a transcription of the WHATWG tokenizer independent of
    the engine): fed in the data or RCDATA state, or inside a double- or single-quoted attribute value, it leaves
    the state, the emitted tokens, the tag and the attribute names unchanged and only extends the pending text /
    the current attribute value;
 3. the positions where no escaping could be inert (tag names, attribute names, unquoted values) are refused by the
    analysis (C04_positions), and an accepted template ends in the text context.

What is NOT proved: that the context the engine infers for a static text prefix is the state the tokenizer is in
after that prefix (for all template texts). It is false of the current code for the listed findings
(script-comment, foreign-rawtext, split-name) and is checked, not proved, by the correspondence run (model = engine on
every generated template) plus the tokenizer oracle on the real output.
-/
import SafeHtml.Props.C02
import SafeHtml.Spec.HtmlTok
import SafeHtml.Model.Tmpl.Api
namespace SafeHtml.Props.C01
open SafeHtml SafeHtml.Model SafeHtml.Model.Tmpl SafeHtml.Spec SafeHtml.Spec.HtmlTok
open SafeHtml.Props.C02 (Untrusted)

/-! ### 1. emitted bytes are inert -/

/-- element content: every value that is not a safehtml.HTML comes out escaped -/
theorem C01_text_inert (v o : Value) (hv : Untrusted v) (h : runFn fnHTML v = .ok o) :
    ∃ s, o = .str s ∧ Esc s = true := by
  simp only [runFn, fnHTML, typedOr] at h
  split at h
  · next t b hi => exact absurd hi (hv t b)
  · cases hs : stringify v with
    | none => simp [hs, Except.map] at h
    | some s =>
      simp only [hs, Except.map] at h
      cases h
      exact ⟨_, rfl, C10.C10_inert s⟩

/-- RCDATA (title, textarea): every value, even a safehtml.HTML, comes out escaped -/
theorem C01_rcdata_inert (v o : Value) (h : runFn "_sanitizeRCDATA" v = .ok o) :
    ∃ s, o = .str s ∧ Esc s = true := by
  simp only [runFn] at h
  cases hs : stringify v with
  | none => simp [hs, Except.map] at h
  | some s =>
    simp only [hs, Except.map] at h
    cases h
    exact ⟨_, rfl, C10.C10_inert s⟩

/-- quoted attribute values: every value of every type -/
theorem C01_attr_inert (v : Validators) (c : Ctx) (chain : List String) (val o : Value)
    (hc : sanitizersForAttributeValue v c = some chain) (hr : runChain chain val = .ok o) :
    ∃ s, o = .str s ∧ Esc s = true := C03.C03_attr_escaped v c chain val o hc hr

/-- comments: nothing is emitted -/
theorem C01_comment_empty (v : Value) : runFn fnHTMLComment v = .ok (.str []) := rfl

/-! ### 2. inert text does not move the tokenizer -/

theorem Esc_no_special : ∀ (s : Bytes), Esc s = true → ∀ c ∈ s, c ≠ 60 ∧ c ≠ 62 ∧ c ≠ 34 ∧ c ≠ 39 ∧ c ≠ 0
  | [], _, c, hc => by simp at hc
  | d :: t, h, c, hc => by
    simp only [Spec.Esc, Bool.and_eq_true] at h
    rcases List.mem_cons.1 hc with rfl | hc
    · by_cases h38 : c = 38
      · subst h38; decide
      · have := h.1
        simp only [beq_iff_eq, h38, if_false, isSpecial, Bool.not_eq_true', Bool.or_eq_false_iff, beq_eq_false_iff_ne] at this
        omega
    · exact Esc_no_special t h.2 c hc

theorem run_nil (t : T) : run t [] = t := rfl
theorem run_cons (t : T) (c : Nat) (s : Bytes) : run t (c :: s) = run (step 4 t c) s := rfl

/-- data state: bytes other than `<` only extend the pending text -/
theorem run_data : ∀ (x : Bytes) (t : T), t.st = .data → (∀ c ∈ x, c ≠ 60) → run t x = { t with txt := x.reverse ++ t.txt }
  | [], t, _, _ => by simp [run_nil]
  | c :: x, t, hst, h => by
    have hc : (c == 60) = false := by simpa using h c (by simp)
    have h1 : step 4 t c = emitChar t c := by simp [step, hst, hc]
    rw [run_cons, h1, run_data x (emitChar t c) (by simpa [emitChar] using hst) (fun d hd => h d (by simp [hd]))]
    simp [emitChar]

theorem run_rcdata : ∀ (x : Bytes) (t : T), t.st = .rcdata → (∀ c ∈ x, c ≠ 60) → run t x = { t with txt := x.reverse ++ t.txt }
  | [], t, _, _ => by simp [run_nil]
  | c :: x, t, hst, h => by
    have hc : (c == 60) = false := by simpa using h c (by simp)
    have h1 : step 4 t c = emitChar t c := by simp [step, hst, hc]
    rw [run_cons, h1, run_rcdata x (emitChar t c) (by simpa [emitChar] using hst) (fun d hd => h d (by simp [hd]))]
    simp [emitChar]

theorem run_dq : ∀ (x : Bytes) (t : T), t.st = .attrValueDq → (∀ c ∈ x, c ≠ 34) → run t x = { t with av := x.reverse ++ t.av }
  | [], t, _, _ => by simp [run_nil]
  | c :: x, t, hst, h => by
    have hc : (c == 34) = false := by simpa using h c (by simp)
    have h1 : step 4 t c = { t with av := c :: t.av } := by simp [step, hst, hc]
    rw [run_cons, h1, run_dq x _ (by simpa using hst) (fun d hd => h d (by simp [hd]))]
    simp

theorem run_sq : ∀ (x : Bytes) (t : T), t.st = .attrValueSq → (∀ c ∈ x, c ≠ 39) → run t x = { t with av := x.reverse ++ t.av }
  | [], t, _, _ => by simp [run_nil]
  | c :: x, t, hst, h => by
    have hc : (c == 39) = false := by simpa using h c (by simp)
    have h1 : step 4 t c = { t with av := c :: t.av } := by simp [step, hst, hc]
    rw [run_cons, h1, run_sq x _ (by simpa using hst) (fun d hd => h d (by simp [hd]))]
    simp

theorem run_append (t : T) (a b : Bytes) : run t (a ++ b) = run (run t a) b := by
  simp [run, List.foldl_append]

/-- the positions at which the engine lets untrusted data through (escaped) -/
def InertPos (s : St) : Prop := s = .data ∨ s = .rcdata ∨ s = .attrValueDq ∨ s = .attrValueSq

/-- **Inert text does not move the tokenizer.** After any prefix `pre` that leaves the tokenizer in the data or
    RCDATA state or inside a quoted attribute value, feeding `Esc` text `x` leaves the state, the tokens emitted so
    far, the tag name, the attribute names and every other register unchanged: only the pending character data
    (`txt`) or the current attribute value (`av`) is extended by `x`. -/
theorem C01_esc_inert (pre x : Bytes) (hx : Esc x = true) (hp : InertPos (run {} pre).st) :
    let t := run {} pre
    run {} (pre ++ x) =
      (if t.st = .attrValueDq ∨ t.st = .attrValueSq then { t with av := x.reverse ++ t.av }
       else { t with txt := x.reverse ++ t.txt }) := by
  intro t
  have hs := Esc_no_special x hx
  rw [run_append]
  rcases hp with h | h | h | h
  · rw [run_data x _ h (fun c hc => (hs c hc).1)]; simp [t, h]
  · rw [run_rcdata x _ h (fun c hc => (hs c hc).1)]; simp [t, h]
  · rw [run_dq x _ h (fun c hc => (hs c hc).2.2.1)]; simp [t, h]
  · rw [run_sq x _ h (fun c hc => (hs c hc).2.2.2.1)]; simp [t, h]

/-- in particular the tokenizer state and the tokens emitted up to that point do not depend on the data -/
theorem C01_esc_same_state (pre x y : Bytes) (hx : Esc x = true) (hy : Esc y = true)
    (hp : InertPos (run {} pre).st) :
    (run {} (pre ++ x)).st = (run {} (pre ++ y)).st ∧ (run {} (pre ++ x)).toks = (run {} (pre ++ y)).toks ∧
    (run {} (pre ++ x)).name = (run {} (pre ++ y)).name ∧ (run {} (pre ++ x)).an = (run {} (pre ++ y)).an ∧
    (run {} (pre ++ x)).attrs = (run {} (pre ++ y)).attrs := by
  have h1 := C01_esc_inert pre x hx hp
  have h2 := C01_esc_inert pre y hy hp
  simp only at h1 h2
  rw [h1, h2]
  split <;> simp

/-! ### 3. positions and end context -/

/-- no action is accepted inside a tag name, an attribute name, after an attribute name or in an unquoted value -/
theorem C01_positions (v : Validators) (c : Ctx)
    (h : c.state = .tag ∨ c.state = .attrName ∨ c.state = .afterName ∨
      (c.state = .attr ∧ (c.attrName ≠ [] ∨ c.attrNames ≠ []) ∧ c.delim ≠ .dq ∧ c.delim ≠ .sq ∧
        ¬ (c.elemNames = [] ∧ c.elemName = [] ∧ c.state = .text))) :
    sanitizerForContext v c = none := C04.C04_positions v c h

/-- a template is accepted only if its analysis ends in the text context without error -/
theorem C01_end_context (w : World) (ns : Nat) (name : String) (w' : World)
    (h : escapeTemplateTop w ns name = .inr (w', none)) :
    ∃ e c x, escapeTree { text := (w.ns ns).text, nsHas := fun n => (alookup (w.ns ns).set n).isSome,
                          csp := (w.ns ns).csp, v := w.v } w.fuel (w.ns ns).esc {} name = .ok (e, c, x) ∧
      c.state = .text ∧ c.err = none := by
  unfold escapeTemplateTop at h
  simp only at h
  split at h
  · cases h
  · cases h
  · next e c x heq =>
    refine ⟨e, c, x, heq, ?_⟩
    split at h
    · cases h
    · next hf =>
      unfold finalError at hf
      split at hf
      · next he => rw [hf] at he; cases he
      · split at hf
        · cases hf
        · next hn he =>
          constructor
          · simpa using he
          · cases hc : c.err with
            | none => rfl
            | some _ => simp [hc] at hn

/-! ### the full statement (data-independence of the token skeleton) -/

/-- C01 for one action: the same static prefix and suffix around two untrusted values.
    PROVED in Proofs/HtmlTokSim.lean (`C01_one_action`, and `C01_n_actions` for any number of actions) by a simulation
    relation over all tokenizer states. -/
def C01_one_action_statement : Prop :=
  ∀ pre post x y : Bytes, Esc x = true → Esc y = true → InertPos (run {} pre).st →
    skeleton (HtmlTok.tokenize (pre ++ x ++ post)).tokens = skeleton (HtmlTok.tokenize (pre ++ y ++ post)).tokens ∧
    (HtmlTok.tokenize (pre ++ x ++ post)).final = (HtmlTok.tokenize (pre ++ y ++ post)).final

/-! ### non-vacuity -/
-- `<a title="` puts the tokenizer inside a double-quoted value; `<p>` in data; `<title>` in RCDATA
example : (run {} (B "<a title=\"")).st = .attrValueDq := by decide +kernel
example : (run {} (B "<p>")).st = .data := by decide +kernel
example : (run {} (B "<title>")).st = .rcdata := by decide +kernel
example : Esc (htmlEscaped (B "\"><script>")) = true := C10.C10_inert _

end SafeHtml.Props.C01
