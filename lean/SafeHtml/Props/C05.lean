/-
C05 — templates that cannot be contextualised never produce output, and the failure is sticky.
Theorems over the API state machine (Model/Tmpl/Api.lean, Step.lean); its agreement with the real
package on generated histories is checked on every run (correspondence stream tmpl.hist.C05), and the
oracle `Oracle.Hist.c05` applies the property to the REAL results of every history.
-/
import SafeHtml.Proofs.ApiLemmas
import SafeHtml.Model.Tmpl.PrefixLite
namespace SafeHtml.Props.C05
open SafeHtml SafeHtml.Model.Tmpl

def isFailed : Status → Bool
  | .failed _ => true
  | _ => false

/-- **Sticky, no output (Execute).** A template whose analysis failed returns an error, writes nothing,
    and stays failed: nothing but the "executed" flag of its set changes. -/
theorem C05_failed_exec (w : World) (h oid : Nat) (o : TObj) (c : ErrCode) (d : Value)
    (ho : w.obj h = some (oid, o)) (hs : o.status = .failed c) :
    apiExecute w h d = (w.setNs o.ns { w.ns o.ns with escaped := true }, .err (analysisCls c) []) := by
  unfold apiExecute
  simp [ho, hs]

/-- **Sticky, no output (ExecuteTemplate).** -/
theorem C05_failed_execT (w : World) (h oid tid : Nat) (o t : TObj) (c : ErrCode) (name : String) (d : Value)
    (ho : w.obj h = some (oid, o)) (hset : alookup (w.ns o.ns).set name = some tid)
    (ht : nlookup w.objs tid = some t) (hs : t.status = .failed c) :
    apiExecuteTemplate w h name d =
      (w.setNs o.ns { w.ns o.ns with escaped := true }, .err (analysisCls c) []) := by
  unfold apiExecuteTemplate
  simp [ho, hset, ht, hs, objs_setNs]

/-- the handle still denotes the same failed object afterwards … -/
theorem C05_failed_stays (w : World) (h oid : Nat) (o : TObj) (c : ErrCode) (d : Value)
    (ho : w.obj h = some (oid, o)) (hs : o.status = .failed c) :
    (apiExecute w h d).1.obj h = some (oid, o) := by
  rw [C05_failed_exec w h oid o c d ho hs]; exact ho

/-- … hence **any number of repeated Execute calls** on it keep failing without output. -/
theorem C05_failed_forever (ds : List Value) (w : World) (h oid : Nat) (o : TObj) (c : ErrCode)
    (ho : w.obj h = some (oid, o)) (hs : o.status = .failed c) :
    ∀ d ∈ ds, ∀ (k : Nat), k ≤ ds.length →
      (apiExecute ((ds.take k).foldl (fun w d => (apiExecute w h d).1) w) h d).2 = .err (analysisCls c) [] := by
  intro d _ k _
  have hinv : ∀ (l : List Value) (w : World), w.obj h = some (oid, o) →
      (l.foldl (fun w d => (apiExecute w h d).1) w).obj h = some (oid, o) := by
    intro l
    induction l with
    | nil => intro w hw; exact hw
    | cons x xs ih =>
      intro w hw
      simp only [List.foldl_cons]
      exact ih _ (C05_failed_stays w h oid o c x hw hs)
  have := hinv (ds.take k) w ho
  rw [C05_failed_exec _ h oid o c d this hs]

/-- **A template without a parse tree never runs.** -/
theorem C05_incomplete (w : World) (h oid : Nat) (o : TObj) (d : Value)
    (ho : w.obj h = some (oid, o)) (hs : o.status = .unset) (ht : o.treeNil = true) :
    (apiExecute w h d).2 = .err "incomplete" [] := by
  unfold apiExecute
  simp [ho, hs, ht]

/-- **The un-analysed body is never run.** Whenever Execute produces output without error, the analysis of
    the executed template has succeeded (its status is `ok`) — before or during this call. -/
theorem C05_ok_only_after_analysis (w : World) (h oid : Nat) (o : TObj) (d : Value) (out : Bytes)
    (ho : w.obj h = some (oid, o)) (hr : (apiExecute w h d).2 = .ok out) :
    o.status = .ok ∨
      (o.status = .unset ∧ ∃ w', escapeTemplateTop (w.setNs o.ns { w.ns o.ns with escaped := true }) o.ns o.name =
        .inr (w', none)) := by
  unfold apiExecute at hr
  simp only [ho] at hr
  cases hs : o.status with
  | failed c => simp [hs] at hr
  | ok => left; rfl
  | unset =>
    right
    refine ⟨rfl, ?_⟩
    simp only [hs] at hr
    by_cases ht : o.treeNil = true
    · simp [ht] at hr
    · have ht' : o.treeNil = false := by simpa using ht
      simp only [ht', Bool.false_eq_true, if_false] at hr
      cases hq : escapeTemplateTop (w.setNs o.ns { w.ns o.ns with escaped := true }) o.ns o.name with
      | inl r =>
        simp only [hq] at hr
        -- a panic / fuel outcome is not `.ok`
        unfold escapeTemplateTop at hq
        simp only [] at hq
        repeat' (split at hq)
        all_goals (first | (cases hq; simp at hr) | (simp at hq))
      | inr p =>
        obtain ⟨w', r⟩ := p
        cases r with
        | some code => simp [hq] at hr
        | none => exact ⟨w', rfl⟩

/-- **ExecuteToHTML returns the zero HTML with every error**, also after output was produced. -/
theorem C05_toHTML_zero (r : Res) (cls : String) (partialOut : Bytes) (h : zeroOnError r = .err cls partialOut) :
    partialOut = [] := by
  cases r <;> simp [zeroOnError] at h
  exact h.2

/-! ### the full property and what is proved of it

`C05_statement`: for every history of Execute\*/ExecuteTemplate\*/Lookup/New/Clone calls, once the analysis of a
template failed every later execution of it returns an error and writes nothing, and a template that a fresh
set would refuse never produces output.  Proved: the one-step facts above and their closure under repeated
Execute calls (`C05_failed_forever`).  Not proved: closure under ALL interleavings with New/Clone/Lookup on
other handles (needs the invariant that a failed object is only ever overwritten by `*existing = *emptyTmpl`,
which leaves it without a parse tree — `C05_incomplete`), and "a fresh set would refuse ⇒ this history
refuses" (that is C06).  Both are checked on every run by `Oracle.Hist.c05` on the real results.
-/

/-- non-vacuity: a failing template (`<a href="`, ends inside an attribute) and its second execution -/
example :
    let w := (Api.step (Api.step (Api.step { v := liteValidators, fuel := 40 } (.new 0 "t")).1
      (.parse 0 [{ name := "t", root := .cons (.text 0 [60, 97, 32, 104, 114, 101, 102, 61, 34]) .nil }])).1
      (.exec 0 .noValue)).1
    (Api.step w (.exec 0 .noValue)).2.str = "err:analysis:ErrEndContext -" := by
  decide +kernel

end SafeHtml.Props.C05
