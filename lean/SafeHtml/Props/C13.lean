/-
C13 — TrustedResourceURL builders confine dynamic parts to where the format puts them.

Model: Model/Tru.lean + Model/UrlUtil.lean (trustedresourceurl.go, safehtmlutil.go WITH the three
fixes fix-C13-dotdot, fix-C13-netpath, fix-C13-fold applied; see deliver/NOTES.md for which theorem
needs which fix).  Statement vocabulary: Spec/Rfc3986.lean, Spec/TruUrl.lean.
Obligations tying the proofs to the regenerated data live in the proof modules:
  Proofs/C13Prefix.rx_prefix      safeTrustedResourceURLPrefixPattern  = Spec.TruUrl.safePrefix
  Proofs/C13DotDot.rx_dotdot      urlDoubleDotSegmentPattern           = Spec.Rfc3986.hasDoubleDot
  Proofs/C13Format.lensB_marker   trustedResourceURLFormatMarkerPattern = `%{` word+ `}` (markerAt)
  Proofs/C13Escape.urlKeeps_false_eq   urlProcessor case tables        = RFC 3986 unreserved
All theorems hold for ALL byte strings / argument lists (bytes are arbitrary `Nat`s; only the
decoding round trip needs `Bytes.wf`).
-/
import SafeHtml.Model.Tru
import SafeHtml.Spec.TruUrl
import SafeHtml.Proofs.C13Escape
import SafeHtml.Proofs.C13Format
import SafeHtml.Proofs.C13Prefix
import SafeHtml.Proofs.C13DotDot
import SafeHtml.Proofs.C13Params
namespace SafeHtml.Props.C13
open SafeHtml SafeHtml.Model SafeHtml.Spec.Rfc3986 SafeHtml.Spec.TruUrl SafeHtml.Proofs.C13

/-! ### QueryEscapeURL -/

/-- `QueryEscapeURL a` is `a` percent-encoded down to unreserved characters: it is the spec encoder,
    lies in `(unreserved | %hh)*`, and decodes back to `a`. -/
theorem C13_unreserved (a : Bytes) :
    queryEscapeURL a = pctEncodeAll a ∧ isUnreservedOrPct (queryEscapeURL a) = true ∧
      (Bytes.wf a → pctDecode (queryEscapeURL a) = a) := by
  refine ⟨queryEscapeURL_eq a, ?_, ?_⟩
  · rw [queryEscapeURL_eq]; exact pctEncodeAll_unreservedOrPct a
  · intro h; rw [queryEscapeURL_eq]; exact pctDecode_pctEncodeAll a h

/-- no byte of an escaped argument is a structural delimiter (`/ ? # : @ [ ] \`) -/
theorem C13_unreserved_no_delim (a : Bytes) : ∀ b ∈ queryEscapeURL a, isDelim b = false := by
  rw [queryEscapeURL_eq]; exact pctEncodeAll_no_delim a

/-! ### TrustedResourceURLFormatFromConstant / FromFlag -/

/-- success ⇒ the format starts with `https://<origin>/`, `//<origin>/`, `/<pathStart>` or
    `about:blank#` (ASCII reading). -/
theorem C13_prefix (fmt : Bytes) (args : Args) (r : Bytes)
    (h : trustedResourceURLFormat fmt args = some r) : safePrefix fmt = true := by
  have := (format_some fmt args r h).1
  rwa [rx_prefix] at this

/-- success ⇒ every label has an argument, and the result is the format with every `%{label}`
    replaced by the argument percent-encoded down to unreserved characters. -/
theorem C13_subst (fmt : Bytes) (args : Args) (r : Bytes)
    (h : trustedResourceURLFormat fmt args = some r) :
    (∀ l ∈ labels fmt, (args.lookup l).isSome = true) ∧
      r = subst (fun l => pctEncodeAll ((args.lookup l).getD [])) fmt := by
  obtain ⟨_, hl, hr, _⟩ := format_some fmt args r h
  refine ⟨?_, hr⟩
  intro l hlab
  obtain ⟨v, hv, _⟩ := hl l hlab
  simp [hv]

/-- a missing argument is an error -/
theorem C13_missing (fmt : Bytes) (args : Args) (l : Bytes) (hl : l ∈ labels fmt)
    (hm : args.lookup l = none) : trustedResourceURLFormat fmt args = none := by
  cases h : trustedResourceURLFormat fmt args with
  | none => rfl
  | some r =>
    have := (C13_subst fmt args r h).1 l hl
    simp [hm] at this

/-- a `//…` format is of the `//<origin>/` form -/
theorem netPath_of_slashes (t : Bytes) (h : safePrefix (47 :: 47 :: t) = true) :
    ∃ m, originPrefixLen (47 :: 47 :: t) = some (m + 2) := by
  rcases safePrefix_forms _ h with h1 | h1 | h1
  · have hci : ciPrefix litHttps (47 :: 47 :: t) = false := by simp [ciPrefix, litHttps, asciiLower, isUpperAlpha]
    simp only [originPrefixLen, hci, Bool.false_and, Bool.false_eq_true, if_false, netPathLen] at h1 ⊢
    cases ho : originSlashLen t with
    | none => simp [ho] at h1
    | some m => exact ⟨m, by simp⟩
  · simp [pathAbsolute] at h1
  · simp [ciPrefix, litAboutBlank, asciiLower, isUpperAlpha] at h1

/-- the arguments cannot change scheme or host, nor add a path segment, query or fragment:
    (1) the sequence of structural delimiters `/ ? # : @ [ ] \` of the result is that of the format
        with the markers deleted;
    (2) if the format has the `https://<origin>/` or `//<origin>/` form, those bytes (scheme,
        authority and the terminating slash) are literally the first bytes of the result, and the
        result has the same form with the same length;
    (3) the result starts with `//` iff the format does, and never with `/\`. -/
theorem C13_components (fmt : Bytes) (args : Args) (r : Bytes)
    (h : trustedResourceURLFormat fmt args = some r) :
    skeleton r = skeleton (subst (fun _ => []) fmt) ∧
    (∀ n, originPrefixLen fmt = some n → r.take n = fmt.take n ∧ originPrefixLen r = some n) ∧
    ([47, 47] : Bytes).isPrefixOf r = ([47, 47] : Bytes).isPrefixOf fmt ∧
    ([47, 92] : Bytes).isPrefixOf r = false := by
  obtain ⟨_, _, hr, _, hnet⟩ := format_some fmt args r h
  have hsafe := C13_prefix fmt args r h
  have hpre : ∀ n, originPrefixLen fmt = some n → r.take n = fmt.take n ∧ originPrefixLen r = some n := by
    intro n hn
    obtain ⟨hle, hpct⟩ := originPrefixLen_spec fmt n hn
    have hsplit : fmt = fmt.take n ++ fmt.drop n := (List.take_append_drop n fmt).symm
    have hr' : r = fmt.take n ++ subst (fun l => pctEncodeAll ((args.lookup l).getD [])) (fmt.drop n) := by
      rw [hr]
      conv => lhs; rw [hsplit]
      exact subst_lit_prefix _ _ _ hpct
    have hlen : (fmt.take n).length = n := by simp; omega
    refine ⟨?_, ?_⟩
    · rw [hr', List.take_append_of_le_length (by omega), List.take_of_length_le (by omega)]
    · rw [hr']; exact originPrefixLen_prefix fmt _ n hn
  refine ⟨?_, hpre, ?_⟩
  · rw [hr]; exact skeleton_subst _ _ (fun l => skeleton_pctEncodeAll _)
  · cases hf : ([47, 47] : Bytes).isPrefixOf fmt with
    | false => exact ⟨(hnet hf).1, (hnet hf).2⟩
    | true =>
      have : ∃ t, fmt = 47 :: 47 :: t := by
        match fmt, hf with
        | [], hf => simp [List.isPrefixOf] at hf
        | [a], hf => simp [List.isPrefixOf] at hf
        | a :: b :: t, hf =>
          simp only [List.isPrefixOf, Bool.and_eq_true, beq_iff_eq, Bool.and_true] at hf
          exact ⟨t, by rw [← hf.1, ← hf.2]⟩
      obtain ⟨t, ht⟩ := this
      subst ht
      obtain ⟨m, hm⟩ := netPath_of_slashes t hsafe
      have := (hpre _ hm).1
      match r, this with
      | a :: b :: r', this =>
        simp only [List.take_succ_cons, List.cons.injEq] at this
        obtain ⟨h1, h2, _⟩ := this
        subst h1; subst h2
        simp [List.isPrefixOf]
      | [a], this => simp at this
      | [], this => simp at this

/-- the arguments — alone or together — cannot make the path climb: the result contains no two
    adjacent dots in any encoding (`..`, `.%2e`, `%2E.`, …), hence no path segment of the result is a
    double-dot segment, so `remove_dot_segments` never removes a segment the format spells out. -/
theorem C13_no_climb (fmt : Bytes) (args : Args) (r : Bytes)
    (h : trustedResourceURLFormat fmt args = some r) :
    hasDoubleDot r = false ∧ ∀ seg ∈ segments (split r).path, isDotDotSeg seg = false := by
  obtain ⟨_, _, _, hdd, _⟩ := format_some fmt args r h
  rw [rx_dotdot] at hdd
  exact ⟨hdd, no_dotdot_segment r hdd⟩

/-! ### TrustedResourceURLAppend -/

theorem C13_append (t s r : Bytes) (h : trustedResourceURLAppend t s = some r) :
    safePrefix t = true ∧ r = t ++ pctEncodeAll s ∧ skeleton r = skeleton t ∧
    (∀ n, originPrefixLen t = some n → r.take n = t.take n ∧ originPrefixLen r = some n) ∧
    hasDoubleDot r = false ∧ ∀ seg ∈ segments (split r).path, isDotDotSeg seg = false := by
  unfold trustedResourceURLAppend at h
  cases hp : isSafeTrustedResourceURLPrefix t
  · simp [hp] at h
  simp only [hp, Bool.not_true, Bool.false_eq_true, if_false] at h
  cases hdd : urlContainsDoubleDotSegment (t ++ queryEscapeURL s)
  case true => simp [hdd] at h
  simp only [hdd, Bool.false_eq_true, if_false, Option.some.injEq] at h
  subst h
  rw [rx_prefix] at hp
  rw [rx_dotdot] at hdd
  rw [queryEscapeURL_eq] at hdd ⊢
  refine ⟨hp, rfl, ?_, ?_, hdd, no_dotdot_segment _ hdd⟩
  · simp only [skeleton, List.filter_append]
    have := skeleton_pctEncodeAll s
    simp only [skeleton] at this
    rw [this, List.append_nil]
  · intro n hn
    obtain ⟨hle, _⟩ := originPrefixLen_spec t n hn
    refine ⟨List.take_append_of_le_length hle, ?_⟩
    have : t ++ pctEncodeAll s = t.take n ++ (t.drop n ++ pctEncodeAll s) := by
      rw [← List.append_assoc, List.take_append_drop]
    rw [this]; exact originPrefixLen_prefix t _ n hn

/-! ### TrustedResourceURLWithParams -/

/-- the result does not depend on the order of the parameter list (Go: on map iteration order) -/
theorem C13_params_perm (t : Bytes) (p₁ p₂ : Args) (h : p₁.Perm p₂) :
    trustedResourceURLWithParams t p₁ = trustedResourceURLWithParams t p₂ :=
  withParams_perm t p₁ p₂ h

/-- pairs with an empty key or value are skipped; if nothing remains the URL is returned unchanged -/
theorem C13_params_nothing (t : Bytes) (ps : Args) (h : ∀ kv ∈ ps, kv.1 = [] ∨ kv.2 = []) :
    trustedResourceURLWithParams t ps = t := by
  apply withParams_nothing
  unfold encodeParams
  rw [List.filterMap_eq_nil_iff]
  intro kv hkv
  rcases h kv hkv with h | h <;> simp [h]

/-- only the query component changes: scheme, authority, path and fragment are those of the base, and
    the new query is the old one (if any, and non-empty, followed by `&`) followed by the added text -/
theorem C13_params_only_query (t : Bytes) (ps : Args) (h : encodeParams ps ≠ []) :
    (split (trustedResourceURLWithParams t ps)).scheme = (split t).scheme ∧
    (split (trustedResourceURLWithParams t ps)).authority = (split t).authority ∧
    (split (trustedResourceURLWithParams t ps)).path = (split t).path ∧
    (split (trustedResourceURLWithParams t ps)).fragment = (split t).fragment ∧
    (split (trustedResourceURLWithParams t ps)).query =
      some (match (split t).query with
        | none => addedQuery ps
        | some [] => addedQuery ps
        | some (c :: q) => (c :: q) ++ 38 :: addedQuery ps) :=
  withParams_split t ps h

/-- new keys and values are percent-encoded: the added text is `k=v` items joined by `&`, sorted, and
    contains only unreserved bytes, `%`, `=` and `&` -/
theorem C13_params_encoded (ps : Args) :
    addedQuery ps = joinAmp (sortStrings (encodeParams ps)) ∧
    (∀ b ∈ addedQuery ps, isUnreserved b = true ∨ b = 37 ∨ b = 61 ∨ b = 38) ∧
    (sortStrings (encodeParams ps)).Pairwise (fun a b => bytesLe a b = true) ∧
    (sortStrings (encodeParams ps)).Perm (encodeParams ps) :=
  ⟨rfl, addedQuery_bytes ps, sortStrings_sorted _, sortStrings_perm _⟩

/-! ### Non-vacuity (kernel evaluation of the model on the regenerated regexes) -/
-- "/d/%{a}%{b}", a=".", b="x" ↦ "/d/.x"
example : trustedResourceURLFormat [47,100,47,37,123,97,125,37,123,98,125] [([97],[46]),([98],[120])] = some [47,100,47,46,120] := by decide
-- adjacent-dot (needs fix-C13-dotdot): "/d/%{a}%{b}", a=".", b="." is rejected
example : trustedResourceURLFormat [47,100,47,37,123,97,125,37,123,98,125] [([97],[46]),([98],[46])] = none := by decide
-- netpath-empty-arg (needs fix-C13-netpath): "/%{a}/e", a="" is rejected (would be "//e")
example : trustedResourceURLFormat [47,37,123,97,125,47,101] [([97],[])] = none := by decide
-- missing argument
example : trustedResourceURLFormat [47,37,123,97,125,47,101] [] = none := by decide
-- "/d%{a}", a="/" ↦ "/d%2f"
example : trustedResourceURLFormat [47,100,37,123,97,125] [([97],[47])] = some [47,100,37,50,102] := by decide
-- fold (needs fix-C13-fold): "httpſ://x/" (U+017F) is rejected
example : trustedResourceURLFormat [104,116,116,112,0xC5,0xBF,58,47,47,120,47] [] = none := by decide
-- append-dotdot (needs fix-C13-dotdot): Append("/a/", "..") is rejected; Append("/a/", "b/") ↦ "/a/b%2f"
example : trustedResourceURLAppend [47,97,47] [46,46] = none := by decide
example : trustedResourceURLAppend [47,97,47] [98,47] = some [47,97,47,98,37,50,102] := by decide
-- WithParams("/a?q#f", {b:1, "":x, a:&}) ↦ "/a?q&a=%26&b=1#f"
example : trustedResourceURLWithParams [47,97,63,113,35,102] [([98],[49]),([],[120]),([97],[38])] =
    [47,97,63,113,38,97,61,37,50,54,38,98,61,49,35,102] := by decide

end SafeHtml.Props.C13
