/-
C17 — ScriptFromDataAndConstant embeds data as an inert, round-tripping JSON literal.
Only property statements, the Rx obligation and non-vacuity examples live here; the proofs of the
lemmas about the model of encoding/json are in Proofs/GoJson.lean and Proofs/JsonRoundtrip.lean.
-/
import SafeHtml.Model.Script
import SafeHtml.Oracle.C17
import SafeHtml.Proofs.Tactics
import SafeHtml.Proofs.C17Rx
import SafeHtml.Proofs.GoJson
import SafeHtml.Proofs.JsonRoundtrip
namespace SafeHtml.Props.C17
open SafeHtml SafeHtml.Rx SafeHtml.Model SafeHtml.Model.GoJson SafeHtml.Generated.Regexes

/-- `[$_A-Za-z]` -/
def isJsStart (c : Nat) : Bool := c == 36 || c == 95 || isAlpha c
/-- `[$_A-Za-z0-9]` -/
def isJsPart (c : Nat) : Bool := isJsStart c || isDigit c

/-- what `jsIdentifierPattern` accepts: an ASCII identifier of at least two characters -/
def jsIdent : Bytes → Bool
  | c :: d :: t => isJsStart c && isJsPart d && t.all isJsPart
  | _ => false

/-- ASCII identifier `[$_A-Za-z][$_A-Za-z0-9]*` (the property's "ASCII identifier") -/
def asciiIdent : Bytes → Bool
  | [] => false
  | c :: t => isJsStart c && t.all isJsPart

/-! ### Rx obligation: the regenerated regex means what the statement says -/

theorem rx_jsIdentifier (s : Bytes) : matchString safehtml_jsIdentifierPattern s = jsIdent s := by
  unfold safehtml_jsIdentifierPattern
  rw [match_bot_cls_plus_eot_bytes _ _ (by decide) (by decide)]
  have e1 : ∀ b, inCls [(36, 36), (65, 90), (95, 95), (97, 122)] b = isJsStart b := by
    intro b
    simp only [inCls, List.any, isJsStart, isAlpha, isLowerAlpha, isUpperAlpha, Bool.or_false]
    cls_arith
  have e2 : ∀ b, inCls [(36, 36), (48, 57), (65, 90), (95, 95), (97, 122)] b = isJsPart b := by
    intro b
    simp only [inCls, List.any, isJsPart, isJsStart, isDigit, isAlpha, isLowerAlpha, isUpperAlpha, Bool.or_false]
    cls_arith
  match s with
  | [] => rfl
  | [_] => rfl
  | c :: d :: t =>
    simp only [jsIdent, e1, e2]
    congr 1
    exact congrArg _ (funext e2)

/-- every accepted name is an ASCII identifier (so: a name that is not an ASCII identifier is rejected) -/
theorem jsIdent_asciiIdent (s : Bytes) (h : jsIdent s = true) : asciiIdent s = true := by
  match s with
  | [] => simp [jsIdent] at h
  | [_] => simp [jsIdent] at h
  | c :: d :: t =>
    simp only [jsIdent, Bool.and_eq_true] at h
    simp [asciiIdent, h.1.1, h.1.2, h.2]

/-! ### Property theorems -/

/-- **frame**: a successful call returns exactly `var name = J;\nscript` with `J` the JSON encoding
    of the data, and the name is an ASCII identifier. -/
theorem C17_frame (name script r : Bytes) (v : JVal)
    (h : scriptFromDataAndConstant name v script = .ok r) :
    ∃ J, marshal v = some J ∧
      r = [118, 97, 114, 32] ++ name ++ [32, 61, 32] ++ J ++ [59, 10] ++ script ∧
      jsIdent name = true ∧ asciiIdent name = true := by
  unfold scriptFromDataAndConstant at h
  rw [rx_jsIdentifier] at h
  cases hn : jsIdent name with
  | false => simp [hn] at h
  | true =>
    simp only [hn, Bool.not_true, Bool.false_eq_true, if_false] at h
    cases hm : marshal v with
    | none => simp [hm] at h
    | some J =>
      simp only [hm, Except.ok.injEq] at h
      exact ⟨J, rfl, h.symm, rfl, jsIdent_asciiIdent name hn⟩

/-- **inert**: the JSON literal holds no `<`, `>`, `&` byte and no U+2028 / U+2029 (E2 80 A8 / E2 80 A9) —
    for EVERY value tree, including bytes provided by json.Marshaler / json.RawMessage implementations
    (which go through the modelled `compact` with escaping) and TextMarshaler text. Hence the data
    cannot close the script element (`</script`), open an HTML comment (`<!--`) or end a JS line. -/
theorem C17_inert (v : JVal) (J : Bytes) (hw : wfNum v = true) (h : marshal v = some J) :
    60 ∉ J ∧ 62 ∉ J ∧ 38 ∉ J ∧
      containsSub [226, 128, 168] J = false ∧ containsSub [226, 128, 169] J = false :=
  inertB_spec J (enc_inert v J hw h)

/-- the whole result is inert up to the constant parts: every forbidden byte of the result lies in
    the constant name/script, never in the data part. (Corollary of frame + inert, stated on the result.) -/
theorem C17_result (name script r : Bytes) (v : JVal) (hw : wfNum v = true)
    (h : scriptFromDataAndConstant name v script = .ok r) :
    ∃ J, r = [118, 97, 114, 32] ++ name ++ [32, 61, 32] ++ J ++ [59, 10] ++ script ∧
      60 ∉ J ∧ 62 ∉ J ∧ 38 ∉ J ∧
      containsSub [226, 128, 168] J = false ∧ containsSub [226, 128, 169] J = false := by
  obtain ⟨J, hm, hr, _, _⟩ := C17_frame name script r v h
  exact ⟨J, hr, C17_inert v J hw hm⟩

/-- **roundtrip (proved part)**: for every value tree without json.Marshaler / json.RawMessage nodes
    (strings of arbitrary bytes, TextMarshaler text, numbers, nested maps / slices / structs), the JSON
    literal is a single strict RFC 8259 JSON text (UTF-8 included) and decodes back to the JSON value
    of the data: strings as the code points Go's decoding of the bytes gives (ill-formed byte = U+FFFD),
    map members in sorted key order, struct members in field order.
    `expected v = some e` only says that `e` is that JSON value; for a raw-free tree it is defined
    whenever the data is encodable and its number literals are JSON numbers. -/
theorem C17_roundtrip_partial (v : JVal) (J : Bytes) (e : Spec.Json.JsonValue) (hn : noRaw v = true)
    (h : marshal v = some J) (he : Oracle.C17.expected v = some e) : Spec.Json.decode J = some e :=
  decode_of_reads J e (enc_reads v J e hn h he)

/-- on the result of the call -/
theorem C17_roundtrip_result_partial (name script r : Bytes) (v : JVal) (e : Spec.Json.JsonValue)
    (hn : noRaw v = true) (he : Oracle.C17.expected v = some e)
    (h : scriptFromDataAndConstant name v script = .ok r) :
    ∃ J, r = [118, 97, 114, 32] ++ name ++ [32, 61, 32] ++ J ++ [59, 10] ++ script ∧
      Spec.Json.decode J = some e := by
  obtain ⟨J, hm, hr, _, _⟩ := C17_frame name script r v h
  exact ⟨J, hr, C17_roundtrip_partial v J e hn hm he⟩

/-- The full-strength roundtrip statement, including Marshaler / RawMessage nodes (whose JSON value is
    what their bytes denote; a decoder that replaces ill-formed UTF-8 is used because the Go scanner
    lets ill-formed bytes inside Marshaler-provided string literals through).
    NOT proved. Missing: (1) a lemma relating the modelled Go scanner + `compact` to the RFC decoder
    (`compact b = some J → decodeLossy J = decodeLossy b`, and `compact b = some _ → (decodeLossy b).isSome`),
    (2) `decode J = some e → decodeLossy J = some e`. With these the proof of `enc_reads` goes through
    unchanged for `raw` leaves. Until then this clause is checked at run time by the oracle on every
    real output (Oracle/C17.lean, clauses not-a-json-text / roundtrip). -/
def C17_roundtrip_statement : Prop :=
  ∀ (v : JVal) (J : Bytes) (e : Spec.Json.JsonValue),
    marshal v = some J → Oracle.C17.expected v = some e → Spec.Json.decodeLossy J = some e

mutual
/-- the data cannot be encoded: an unencodable leaf, or Marshaler/RawMessage bytes the scanner rejects -/
def unencodable : JVal → Bool
  | .bad => true
  | .raw b => (compact b).isNone
  | .arr xs => unencodableL xs
  | .obj _ kvs => unencodableM kvs
  | _ => false
def unencodableL : List JVal → Bool
  | [] => false
  | x :: t => unencodable x || unencodableL t
def unencodableM : List (Bytes × JVal) → Bool
  | [] => false
  | (_, x) :: t => unencodable x || unencodableM t
end

theorem marshal_none_iff : ∀ v : JVal, marshal v = none ↔ unencodable v = true := by
  unfold marshal
  apply JVal.induct (P := fun v => enc v = none ↔ unencodable v = true)
    (PL := fun xs => encL xs = none ↔ unencodableL xs = true)
    (PM := fun kvs => encM kvs = none ↔ unencodableM kvs = true)
  · simp [enc, unencodable]
  · intro b; simp [enc, unencodable]
  · intro l; simp [enc, unencodable]
  · intro s; simp [enc, unencodable]
  · intro xs ih; simp [enc, unencodable, ih]
  · intro m kvs ih; simp [enc, unencodable, ih]
  · intro b; simp [enc, unencodable]
  · intro b; simp [enc, unencodable]
  · simp [enc, unencodable]
  · simp [encL, unencodableL]
  · intro x t ihx iht
    simp only [encL, unencodableL, Bool.or_eq_true, ← ihx, ← iht]
    cases enc x <;> cases encL t <;> simp
  · simp [encM, unencodableM]
  · intro k x t ihx iht
    simp only [encM, unencodableM, Bool.or_eq_true, ← ihx, ← iht]
    cases enc x <;> cases encM t <;> simp

/-- **fail**: the call returns an error — and with it no Script at all (Go: the zero `Script{}`;
    the harness checks that the returned Script is empty) — exactly when the name is not accepted
    or the data cannot be encoded. In particular every name that is not an ASCII identifier fails. -/
theorem C17_fail (name script : Bytes) (v : JVal) :
    (∃ e, scriptFromDataAndConstant name v script = .error e) ↔
      (jsIdent name = false ∨ unencodable v = true) := by
  unfold scriptFromDataAndConstant
  rw [rx_jsIdentifier, ← marshal_none_iff]
  cases hn : jsIdent name <;> cases hm : marshal v <;> simp

theorem C17_fail_nonident (name script : Bytes) (v : JVal) (h : asciiIdent name = false) :
    scriptFromDataAndConstant name v script = .error .name := by
  unfold scriptFromDataAndConstant
  rw [rx_jsIdentifier]
  cases hn : jsIdent name with
  | false => rfl
  | true => have := jsIdent_asciiIdent name hn; simp [this] at h

theorem C17_fail_unencodable (name script : Bytes) (v : JVal) (h : unencodable v = true) :
    ∃ e, scriptFromDataAndConstant name v script = .error e :=
  (C17_fail name script v).2 (Or.inr h)

/-! ### Non-vacuity -/
-- name "x1", data ["<\xff", RawMessage " [ ]"], script "f()"
example : scriptFromDataAndConstant [120, 49] (.arr [.str [60, 255], .raw [32, 91, 32, 93]]) [102, 40, 41] =
    .ok [118, 97, 114, 32, 120, 49, 32, 61, 32,
         91, 34, 92, 117, 48, 48, 51, 99, 92, 117, 102, 102, 102, 100, 34, 44, 91, 93, 93, 59, 10, 102, 40, 41] := by decide
-- one-letter name, trailing newline, leading digit: rejected
example : scriptFromDataAndConstant [120] .null [] = .error .name := by decide
example : scriptFromDataAndConstant [120, 49, 10] .null [] = .error .name := by decide
example : scriptFromDataAndConstant [49, 120] .null [] = .error .name := by decide
-- a channel inside a map; a Marshaler returning `[1,]`
example : scriptFromDataAndConstant [120, 49] (.obj true [([97], .bad)]) [] = .error .json := by decide
example : scriptFromDataAndConstant [120, 49] (.raw [91, 49, 44, 93]) [] = .error .json := by decide
-- U+2028 in a string and in Marshaler-provided bytes is escaped
example : marshal (.str [226, 128, 168]) = some [34, 92, 117, 50, 48, 50, 56, 34] := by decide
example : marshal (.raw [34, 226, 128, 169, 60, 34]) = some [34, 92, 117, 50, 48, 50, 57, 92, 117, 48, 48, 51, 99, 34] := by decide

-- roundtrip: map {"b<": "\xff", "a": [1.5e+3, null]} (keys get sorted, `<` and the bad byte escaped)
example : ((marshal (.obj true [([98, 60], .str [255]), ([97], .arr [.num [49, 46, 53, 101, 43, 51], .null])])).bind
    Spec.Json.decode == some (.obj [([97], .arr [.num [49, 46, 53, 101, 43, 51], .null]), ([98, 60], .str [65533])])) = true := by
  decide
example : (Oracle.C17.expected (.obj true [([98, 60], .str [255]), ([97], .arr [.num [49, 46, 53, 101, 43, 51], .null])]) ==
    some (.obj [([97], .arr [.num [49, 46, 53, 101, 43, 51], .null]), ([98, 60], .str [65533])])) = true := by decide

end SafeHtml.Props.C17
