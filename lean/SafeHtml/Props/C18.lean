/-
C18 — Identifier constructors admit only [A-Za-z][-_A-Za-z0-9]*, keep constant prefix.
Only property statements, their Rx obligations and non-vacuity examples live here.
-/
import SafeHtml.Model.Identifier
import SafeHtml.Proofs.Tactics
namespace SafeHtml.Props.C18
open SafeHtml SafeHtml.Rx SafeHtml.Model SafeHtml.Generated.Regexes

/-- byte-level recogniser of `[-_A-Za-z0-9]` -/
def isIdentTail (c : Nat) : Bool := c == 45 || c == 95 || isAlnum c

/-- the independent byte-level recogniser of `[A-Za-z][-_A-Za-z0-9]*` -/
def specIdent : Bytes → Bool
  | [] => false
  | c :: t => isAlpha c && t.all isIdentTail

/-! ### Rx obligations: the regenerated regexes mean what the statement says. -/

theorem rx_startsWithAlphabet (s : Bytes) :
    matchString safehtml_startsWithAlphabetPattern s =
      match s with
      | [] => false
      | b :: _ => isAlpha b := by
  unfold safehtml_startsWithAlphabetPattern
  rw [match_bot_cls_bytes _ (by decide)]
  cases s with
  | nil => rfl
  | cons b t =>
    simp only [inCls, List.any, isAlpha, isLowerAlpha, isUpperAlpha, Bool.or_false]
    cls_arith

theorem rx_onlyAlphanumericsOrHyphen (s : Bytes) :
    matchString safehtml_onlyAlphanumericsOrHyphenPattern s = s.all isIdentTail := by
  unfold safehtml_onlyAlphanumericsOrHyphenPattern
  rw [match_bot_star_eot_bytes _ (by decide)]
  congr 1
  funext b
  simp only [inCls, List.any, isIdentTail, isAlnum, isDigit, isAlpha, isLowerAlpha, isUpperAlpha, Bool.or_false]
  cls_arith

/-! ### Property theorems -/

/-- `IdentifierFromConstant` returns its argument, and only if it is a spec identifier. -/
theorem C18_const (v r : Bytes) (h : identifierFromConstant v = some r) :
    specIdent r = true ∧ r = v := by
  unfold identifierFromConstant at h
  rw [rx_startsWithAlphabet, rx_onlyAlphanumericsOrHyphen] at h
  cases v with
  | nil => simp at h
  | cons c t =>
    simp only [List.all_cons] at h
    cases hA : isAlpha c <;> cases hC : isIdentTail c <;> cases hT : t.all isIdentTail <;>
      simp [hA, hC, hT] at h
    subst h
    simp [specIdent, hA, hT]

/-- With a prefix: result is `prefix-value`, a spec identifier; the dynamic part only adds `[-_A-Za-z0-9]`. -/
theorem C18_prefix (p v r : Bytes) (h : identifierFromConstantPrefix p v = some r) :
    specIdent r = true ∧ r = p ++ [45] ++ v ∧ v.all isIdentTail = true := by
  unfold identifierFromConstantPrefix at h
  rw [rx_startsWithAlphabet, rx_onlyAlphanumericsOrHyphen, rx_onlyAlphanumericsOrHyphen] at h
  cases p with
  | nil => simp at h
  | cons c t =>
    simp only [List.all_cons] at h
    cases hA : isAlpha c <;> cases hC : isIdentTail c <;> cases hT : t.all isIdentTail <;>
      cases hV : v.all isIdentTail <;> simp [hA, hC, hT, hV] at h
    subst h
    refine ⟨?_, by simp, rfl⟩
    simp only [List.all_eq_true] at hT hV
    simp only [specIdent, hA, Bool.true_and, List.all_eq_true]
    intro x hx
    simp only [List.mem_append, List.mem_cons] at hx
    rcases hx with hx | hx | hx
    · exact hT x hx
    · subst hx; decide
    · exact hV x hx

/-- completeness: every spec identifier is accepted (the constructors reject nothing they should take) -/
theorem C18_const_complete (v : Bytes) (h : specIdent v = true) : identifierFromConstant v = some v := by
  unfold identifierFromConstant
  rw [rx_startsWithAlphabet, rx_onlyAlphanumericsOrHyphen]
  cases v with
  | nil => simp [specIdent] at h
  | cons c t =>
    simp only [specIdent, Bool.and_eq_true] at h
    have h2 : isIdentTail c = true := by
      simp [isIdentTail, isAlnum, h.1]
    simp [h.1, h.2, h2]

/-- a value with any byte outside `[-_A-Za-z0-9]` (newline, NUL, non-ASCII…) panics -/
theorem C18_prefix_rejects (p v : Bytes) (b : Nat) (hb : b ∈ v) (hbad : isIdentTail b = false) :
    identifierFromConstantPrefix p v = none := by
  unfold identifierFromConstantPrefix
  rw [rx_onlyAlphanumericsOrHyphen v]
  have : v.all isIdentTail = false := by
    rw [Bool.eq_false_iff]; intro hall
    rw [List.all_eq_true] at hall
    have := hall b hb; simp [hbad] at this
  simp [this]

/-! ### Non-vacuity -/
-- "a-b_9", prefix "pre" value "x-1", value "x\n", "9a"
example : identifierFromConstant [97, 45, 98, 95, 57] = some [97, 45, 98, 95, 57] := by decide
example : identifierFromConstantPrefix [112, 114, 101] [120, 45, 49] = some [112, 114, 101, 45, 120, 45, 49] := by decide
example : identifierFromConstantPrefix [112, 114, 101] [120, 10] = none := by decide
example : identifierFromConstant [57, 97] = none := by decide

end SafeHtml.Props.C18

