/-
C09 — concurrent execution of a template set is race-free and equals sequential.

1. `Model/Conc.lean` (`serializable`, `serializable_results`): for calls of the shape
       lock mu; critical section; unlock mu; unlocked read-only phase
   every schedule yields, for every call, the result of the serial run in which the calls are made one after another
   in the order of their critical sections — PROVIDED the unlocked phase of a call is stable under later critical
   sections (`Stable`).
2. Lock discipline (this file, over REGENERATED `Generated/LockFacts.lean` = go/ast + go/types facts of
   template/*.go): every function reachable from the concurrent API without holding `nameSpace.mu` touches no
   protected location (fields of nameSpace and escaper, Template.escapeErr/Tree, writes to parse-tree nodes), and
   no function that takes the mutex is reachable while it is held (sync.Mutex is not reentrant). Hence critical
   sections are the only code that reads or writes protected state — the shape assumed in 1 — and the protected
   locations are race-free by mutual exclusion.
3. Instantiation with the API model (Model/Tmpl/Api.lean): `apiExecute` splits into a critical section and
   `textExecute`; the stability conditions are PROVED for the read-only calls and for executions of templates that are
   already analysed or already failed (`C09_settled_partial`); for concurrent FIRST executions they amount to
   "no later analysis changes what an analysed template executes". That is PROVED for every reachable state in
   `Proofs/Frozen.lean` (`C09_frozen_reachable`, `settled_after_own_analysis`, `apiExecute_frozen`,
   `apiExecuteTemplate_frozen`: an invariant over the escaper state preserved by every critical section, successful or
   failed, with pending edits left behind by failed analyses). The literal, unrestricted statement
   (`C09_frozen_statement`, all worlds) is false for hand-made unreachable worlds (`Frozen.C09_frozen_statement_false`).
   The proof attempt found a genuine defect first (an analysis error lost through the memo, repaired in d3401ea).
-/
import SafeHtml.Model.Conc
import SafeHtml.Generated.LockFacts
import SafeHtml.Props.C06
namespace SafeHtml.Props.C09
open SafeHtml SafeHtml.Model.Conc SafeHtml.Generated.LockFacts

/-! ### 2. lock discipline over the regenerated facts -/

-- the fact tables have a few hundred rows; kernel evaluation of folds over them nests deeper than the default limit
set_option maxRecDepth 20000

/-- the concurrent API of the property text -/
def apiRoots : List String :=
  ["Template.Execute", "Template.ExecuteTemplate", "Template.ExecuteToHTML", "Template.ExecuteTemplateToHTML",
   "Template.Lookup", "Template.Templates", "Template.Name", "Template.DefinedTemplates"]

def idOf (name : String) : Option Nat :=
  let rec go (l : List String) (i : Nat) : Option Nat :=
    match l with
    | [] => none
    | x :: t => if x == name then some i else go t (i + 1)
  go funcs 0

/-- is location `l` protected by nameSpace.mu? (`w`: the access is a write) -/
def protectedAccess (l : Nat) (w : Bool) : Bool :=
  match locs[l]? with
  | some (owner, field) =>
    owner == "nameSpace" || owner == "escaper" ||
    (owner == "Template" && (field == "escapeErr" || field == "Tree")) ||
    (owner == "parse" && w)
  | none => true

/-- one round: functions called WITHOUT the lock from a function already known to run unlocked -/
def expand (s : List Nat) : List Nat :=
  calls.foldl (fun acc c => if !c.2.2 && acc.contains c.1 && !acc.contains c.2.1 then c.2.1 :: acc else acc) s

def iter : Nat → List Nat → List Nat
  | 0, s => s
  | n+1, s => iter n (expand s)

/-- functions that may run without `mu` held when the API is entered without it -/
def unlockedReach : List Nat := iter 6 (apiRoots.filterMap idOf)

/-- functions that (transitively) acquire `mu` -/
def lockers : List Nat :=
  let step (s : List Nat) : List Nat :=
    calls.foldl (fun acc c => if acc.contains c.2.1 && !acc.contains c.1 then c.1 :: acc else acc) s
  let rec go : Nat → List Nat → List Nat
    | 0, s => s
    | n+1, s => go n (step s)
  go 6 locks

/-- every API root exists in the source -/
theorem roots_exist : apiRoots.all (fun r => (idOf r).isSome) = true := by decide +kernel

/-- **Lock discipline.** No function that can run without the mutex touches a protected location outside a
    locked region of its own. -/
theorem C09_protected_only_under_lock :
    accesses.all (fun a => !(unlockedReach.contains a.1 && !a.2.2.2 && protectedAccess a.2.1 a.2.2.1)) = true := by
  decide +kernel

/-- the closure really is closed: one more round adds nothing -/
theorem unlockedReach_closed : expand unlockedReach = unlockedReach := by decide +kernel

/-- likewise for the set of functions that take the mutex -/
theorem lockers_closed :
    calls.all (fun c => !(lockers.contains c.2.1 && !lockers.contains c.1)) = true := by decide +kernel

/-- **No self-deadlock.** With the mutex held no function is called that (transitively) takes it again. -/
theorem C09_no_relock : calls.all (fun c => !(c.2.2 && lockers.contains c.2.1)) = true := by decide +kernel

/-- the executing entry points have the shape assumed by `Model.Conc`: they run unlocked, call a function that takes
    the mutex (the critical section), and call text/template's Execute outside it -/
theorem C09_exec_shape :
    (match idOf "Template.Execute", idOf "Template.escape", idOf "Template.ExecuteTemplate", idOf "Template.lookupAndEscapeTemplate" with
     | some ex, some es, some ext, some le =>
       calls.contains (ex, es, false) && calls.contains (ext, le, false) && locks.contains es && locks.contains le &&
       accesses.any (fun a => a.1 == ex && !a.2.2.2 && locs[a.2.1]? == some ("text", "Execute")) &&
       accesses.any (fun a => a.1 == ext && !a.2.2.2 && locs[a.2.1]? == some ("text", "Execute"))
     | _, _, _, _ => false) = true := by decide +kernel

/-! ### 1. serializability (re-exported) -/

theorem C09_serializable {S R1 R : Type} {U : Call S R1 R → Prop} {Inv : S → Prop} {Done : Call S R1 R → R1 → S → Prop}
    (hst : Stable U Inv Done) (y : Sys S R1 R) (hinv : Inv y.s)
    (hfresh : ∀ t ∈ y.thr, t.pending = none ∧ t.done = [] ∧ ∀ c ∈ t.todo, U c) (evs : List Ev)
    (i : Nat) (ta tb : Thr S R1 R) (ha : (run y evs).thr[i]? = some ta) (hb : (runSerial y evs).thr[i]? = some tb)
    (hidle : ta.pending = none) : ta.done = tb.done ∧ (run y evs).s = (runSerial y evs).s :=
  serializable_results hst y hinv hfresh evs i ta tb ha hb hidle

/-! ### 3. the API model -/
open SafeHtml.Model.Tmpl

/-- calls whose critical section does not change the shared state at all (Lookup, Templates, Name, DefinedTemplates,
    and Execute* of a template whose analysis has already succeeded or failed, once the `escaped` flag is set):
    for them the stability conditions hold trivially -/
def settled {S R1 R : Type} (c : Call S R1 R) : Prop := ∀ s, (c.crit s).1 = s

theorem C09_settled_partial {S R1 R : Type} :
    Stable (fun c : Call S R1 R => settled c) (fun _ => True) (fun _ _ _ => True) where
  inv_crit := fun _ _ _ _ => trivial
  done_est := fun _ _ _ _ => trivial
  done_pres := fun _ _ _ _ _ _ _ _ => trivial
  post_stable := fun c r d s _ hd _ _ => by rw [hd s]

-- (An Execute of an analysed template changes nothing but the `escaped` flag, which is already set after the first
-- execution of the set: `C06.C06_repeat_ok`, `C06.C06_exec_ok_keeps_text`.)

/-- the stability condition for concurrent FIRST executions, quantified over ALL worlds: what an analysed template
    executes is not changed by a later analysis in the same set. For reachable worlds this is
    `Proofs.Frozen.C09_frozen_reachable`; over all worlds it is false (`Proofs.Frozen.C09_frozen_statement_false`). -/
def C09_frozen_statement : Prop :=
  ∀ (w w' : World) (ns : Nat) (other : String) (o : TObj) (d : Value),
    o.ns = ns → o.status = .ok → o.registered = true →
    escapeTemplateTop w ns other = .inr (w', none) →
    textExecute w' o d = textExecute w o d

/-! ### non-vacuity -/
example : apiRoots.length = 8 := rfl
example : lockers.length ≥ locks.length := by decide +kernel

end SafeHtml.Props.C09
