/-
C03 — safe-type values bypass sanitization only in their own context; attribute values are always escaped.
Theorems over the model's run-time sanitizer functions (Model/Tmpl/Value.lean) and the chains the analysis
chooses (Model/Tmpl/Sanitize.lean); both run on regenerated facts and are compared with the real package
cell by cell (7 types × contexts × contents, typed vs plain string) on every run.
-/
import SafeHtml.Model.Tmpl.Sanitize
import SafeHtml.Model.Tmpl.Value
import SafeHtml.Props.C10
namespace SafeHtml.Props.C03
open SafeHtml SafeHtml.Model SafeHtml.Model.Tmpl SafeHtml.Spec

/-- the safe types each reserved function passes through unchanged -/
def allowedFn : String → List SafeT
  | "_sanitizeHTML" => [.HTML]
  | "_sanitizeHTMLValOnly" => [.HTML]
  | "_sanitizeIdentifier" => [.Identifier]
  | "_sanitizeScript" => [.Script]
  | "_sanitizeStyle" => [.Style]
  | "_sanitizeStyleSheet" => [.StyleSheet]
  | "_sanitizeTrustedResourceURL" => [.TrustedResourceURL]
  | "_sanitizeTrustedResourceURLOrURL" => [.TrustedResourceURL, .URL]
  | "_sanitizeURL" => [.URL]
  | _ => []

def reservedFns : List String :=
  ["_sanitizeHTML", "_sanitizeRCDATA", "_sanitizeHTMLValOnly", "_sanitizeIdentifier", "_sanitizeScript",
   "_sanitizeStyle", "_sanitizeStyleSheet", "_sanitizeTrustedResourceURL", "_sanitizeTrustedResourceURLOrURL",
   "_sanitizeURL", "_sanitizeURLSet", "_sanitizeAsyncEnum", "_sanitizeDirEnum", "_sanitizeLoadingEnum",
   "_sanitizeTargetEnum", "_sanitizeHTMLComment", "_queryEscapeURL", "_normalizeURL",
   "_validateTrustedResourceURLSubstitution", "_evalArgs"]

/-- the reserved functions of the model are exactly the keys of the regenerated `funcs` map -/
theorem gen_funcs_are_reserved : (Generated.Policy.funcs.map (·.1)).all (fun f => reservedFns.contains f) = true ∧
    reservedFns.all (fun f => (Generated.Policy.funcs.map (·.1)).contains f) = true := by decide

/-- **Bypass only in the own context.** A safe-typed value is passed through unchanged by a sanitizer exactly when
    its type is one the sanitizer's contract covers; otherwise the sanitizer treats it exactly like the plain
    string with the same contents (escapes, sanitizes or rejects it). For every content `b`, every type. -/
theorem C03_bypass (f : String) (hf : f ∈ reservedFns) (t : SafeT) (b : Bytes) :
    runFn f (.safe t b) =
      if (allowedFn f).contains t then .ok (.str b) else runFn f (.str b) := by
  simp only [reservedFns, List.mem_cons, List.not_mem_nil, or_false] at hf
  rcases hf with rfl | rfl | rfl | rfl | rfl | rfl | rfl | rfl | rfl | rfl | rfl | rfl | rfl | rfl | rfl | rfl | rfl | rfl | rfl | rfl <;>
    cases t <;> simp [runFn, allowedFn, typedOr, typedOnly, enumCheck, stringify, Value.sprint, Value.indirect, Except.map]

/-- the same through any number of pointers (`safehtmlutil.Indirect`), for the functions that look at the type -/
theorem C03_bypass_ptr (f : String) (hf : f ∈ ["_sanitizeHTML", "_sanitizeHTMLValOnly", "_sanitizeIdentifier",
      "_sanitizeScript", "_sanitizeStyle", "_sanitizeStyleSheet", "_sanitizeTrustedResourceURL",
      "_sanitizeTrustedResourceURLOrURL", "_sanitizeURL"]) (t : SafeT) (b : Bytes) :
    runFn f (.ptr (.safe t b)) = runFn f (.safe t b) := by
  simp only [List.mem_cons, List.not_mem_nil, or_false] at hf
  rcases hf with rfl | rfl | rfl | rfl | rfl | rfl | rfl | rfl | rfl <;>
    cases t <;> simp [runFn, typedOr, typedOnly, stringify, Value.sprint, Value.indirect, Except.map]

/-- every reserved function returns a plain string when it succeeds -/
theorem runFn_str (f : String) (v w : Value) (h : runFn f v = .ok w) : ∃ s, w = .str s := by
  unfold runFn at h
  split at h <;> (try (simp only [Except.map] at h)) <;>
    (first
      | (cases h; exact ⟨_, rfl⟩)
      | (split at h <;> first | (cases h; exact ⟨_, rfl⟩) | (cases h))
      | (cases h))

/-- a chain whose first function does not pass the type through behaves on the typed value as on the string -/
theorem C03_chain (f : String) (fs : List String) (hf : f ∈ reservedFns) (t : SafeT) (b : Bytes) :
    runChain (f :: fs) (.safe t b) =
      if (allowedFn f).contains t then runChain fs (.str b) else runChain (f :: fs) (.str b) := by
  simp only [runChain]
  rw [C03_bypass f hf t b]
  split <;> rfl

/-! ### attribute values are always escaped -/

theorem rev_append_ne (s : String) (hs : s ≠ "") : (appendIfNotEmpty [fnHTML] s).reverse = [] ++ [s, fnHTML] := by
  simp [appendIfNotEmpty, hs]

/-- the chain chosen for an attribute value always ends in `…, g, _sanitizeHTML` with at least one function
    `g` in front of the final escaper (so the escaper always receives a string, never a typed HTML value) -/
theorem attr_chain_shape (v : Validators) (c : Ctx) (chain : List String)
    (h : sanitizersForAttributeValue v c = some chain) :
    ∃ pre g, chain = pre ++ [g, fnHTML] := by
  unfold sanitizersForAttributeValue at h
  simp only [] at h
  split at h
  · cases h
  · rename_i sc0 _
    split at h
    · cases h
    · split at h
      · cases h
      · split at h
        · -- not a URL context: [sanitizer or _evalArgs, _sanitizeHTML]
          simp only [Option.some.injEq] at h
          subst h
          by_cases hs : sc0.sanitizerName = ""
          · exact ⟨[], fnEvalArgs, by simp [hs, appendIfNotEmpty, fnEvalArgs]⟩
          · exact ⟨[], sc0.sanitizerName, by simp [hs, appendIfNotEmpty]⟩
        · split at h
          · cases h
          · split at h
            · simp only [Option.some.injEq] at h
              subst h
              by_cases hs : sc0.sanitizerName = ""
              · exact ⟨[], fnNormalizeURL, by simp [hs, appendIfNotEmpty, fnNormalizeURL]⟩
              · exact ⟨[sc0.sanitizerName], fnNormalizeURL, by simp [hs, appendIfNotEmpty, fnNormalizeURL]⟩
            · split at h
              · split at h
                · simp only [Option.some.injEq] at h; subst h
                  exact ⟨[fnValidateTRUSubst], fnQueryEscapeURL, by simp⟩
                · split at h
                  · simp only [Option.some.injEq] at h; subst h
                    exact ⟨[], fnQueryEscapeURL, by simp⟩
                  · simp only [Option.some.injEq] at h; subst h
                    exact ⟨[], fnNormalizeURL, by simp⟩
              · cases h

theorem runChain_append (a b : List String) (v : Value) :
    runChain (a ++ b) v = (runChain a v).bind (runChain b) := by
  induction a generalizing v with
  | nil => simp [runChain, Except.bind]
  | cons f fs ih =>
    simp only [List.cons_append, runChain]
    cases runFn f v with
    | error e => rfl
    | ok w => exact ih w

/-- **Attribute values are always HTML-escaped**, whatever the type and contents of the value: the emitted text
    contains none of `< > " '` or NUL and every `&` starts one of the five references, so it cannot terminate the
    attribute value or the tag. -/
theorem C03_attr_escaped (v : Validators) (c : Ctx) (chain : List String) (val : Value) (o : Value)
    (hc : sanitizersForAttributeValue v c = some chain) (hr : runChain chain val = .ok o) :
    ∃ s, o = .str s ∧ Esc s = true := by
  obtain ⟨pre, g, rfl⟩ := attr_chain_shape v c chain hc
  rw [runChain_append] at hr
  cases h1 : runChain pre val with
  | error e => simp [h1, Except.bind] at hr
  | ok w =>
    simp only [h1, Except.bind, runChain] at hr
    cases h2 : runFn g w with
    | error e => simp [h2, bind, Except.bind] at hr
    | ok w2 =>
      obtain ⟨s, rfl⟩ := runFn_str g w w2 h2
      have : runFn fnHTML (.str s) = .ok (.str (htmlEscaped s)) := by
        simp [runFn, fnHTML, typedOr, Value.indirect, stringify, Value.sprint, Except.map]
      simp only [h2, this, bind, Except.bind, Except.ok.injEq] at hr
      exact ⟨_, hr.symm, SafeHtml.Props.C10.C10_inert s⟩

/-! ### non-vacuity -/
-- HTML into an href: not its context, treated like the string
example : runFn "_sanitizeURL" (.safe .HTML [60, 98, 62]) = runFn "_sanitizeURL" (.str [60, 98, 62]) :=
  C03_bypass "_sanitizeURL" (by decide) .HTML _
-- HTML in element content: passed through
example : runFn "_sanitizeHTML" (.safe .HTML [60, 98, 62]) = .ok (.str [60, 98, 62]) :=
  C03_bypass "_sanitizeHTML" (by decide) .HTML _
-- the attribute theorem's hypotheses are satisfiable: <a title="{{.}}"> with a safehtml.HTML value
example : ∃ v c chain, sanitizersForAttributeValue v c = some chain ∧ (runChain chain (.safe .HTML [60])).isOk := by
  refine ⟨⟨fun _ => true, fun _ => true, fun _ => false⟩, { state := .attr, elemName := [97], attrName := [116, 105, 116, 108, 101] }, [fnEvalArgs, fnHTML], by decide +kernel, by decide +kernel⟩

end SafeHtml.Props.C03
