/-
C02 — untrusted strings never reach code contexts; URLs never become javascript:.

Layers proved here (model = Model/Tmpl/{Sanitize,Value}, Model/{Url,UrlUtil,Html}; all on REGENERATED tables and
regexes, compared with the real engine on every run):

 1. policy: event-handler attributes are refused for every element; style / srcdoc attribute values, script / style
    element bodies and code-loading URLs get a typed-only context (or are refused) — for ALL element, attribute and
    rel values, via the reviewed policy and the strictness theorem C04_attr;
 2. run time: a typed-only sanitizer returns an error for EVERY value that is not of its safe type; a comment
    position emits nothing; hence the chain chosen in those contexts fails on every untrusted value;
 3. URL start: a value sanitized by the chain chosen at the start of a URL attribute, after the browser has decoded
    the character references of the escaper, never has the `javascript` scheme as a WHATWG parser reads it.

The full statement (any number of actions, loop iterations and called templates per attribute) is FALSE of the
current code: `C02_false_split_scheme` proves it on the model; the oracle replays the witnesses on the real engine
(known findings split-scheme, srcset-static-prefix, rel-dynamic, split-name).
-/
import SafeHtml.Props.C03
import SafeHtml.Props.C04
import SafeHtml.Props.C11
import SafeHtml.Props.C14
namespace SafeHtml.Props.C02
open SafeHtml SafeHtml.Model SafeHtml.Model.Tmpl SafeHtml.Spec SafeHtml.Spec.Policy SafeHtml.Spec.UrlScheme
open SafeHtml.Reviewed.Policy SafeHtml.Generated.Policy

/-! ### run time -/

/-- a value that carries no safehtml type (through any number of pointers) -/
def Untrusted (v : Value) : Prop := ∀ t b, v.indirect ≠ .safe t b

def typedOnlyFns : List String :=
  ["_sanitizeHTMLValOnly", "_sanitizeIdentifier", "_sanitizeScript", "_sanitizeStyle", "_sanitizeStyleSheet",
   "_sanitizeTrustedResourceURL"]

/-- **typed-only sanitizers reject every untrusted value** (execution fails instead of emitting it) -/
theorem C02_typed_only (f : String) (hf : f ∈ typedOnlyFns) (v : Value) (hv : Untrusted v) :
    runFn f v = .error .sanitizer := by
  have key : ∀ ts, Model.Tmpl.typedOnly ts v = .error .sanitizer := by
    intro ts
    unfold Model.Tmpl.typedOnly
    split
    · next t b h => exact absurd h (hv t b)
    · rfl
  simp only [typedOnlyFns, List.mem_cons, List.not_mem_nil, or_false] at hf
  rcases hf with rfl | rfl | rfl | rfl | rfl | rfl <;> simp [runFn, key, Except.map]

/-- … and so does every chain that starts with one -/
theorem C02_typed_only_chain (f : String) (fs : List String) (hf : f ∈ typedOnlyFns) (v : Value) (hv : Untrusted v) :
    runChain (f :: fs) v = .error .sanitizer := by
  simp [runChain, C02_typed_only f hf v hv, bind, Except.bind]

/-- nothing is emitted at a comment position, whatever the value -/
theorem C02_comment (v : Value) : runFn fnHTMLComment v = .ok (.str []) := rfl

/-- a wrong safe type is as untrusted as a string: e.g. a safehtml.HTML in a script body -/
theorem C02_wrong_type (f : String) (hf : f ∈ typedOnlyFns) (t : SafeT) (b : Bytes)
    (ht : (C03.allowedFn f).contains t = false) : runFn f (.safe t b) = .error .sanitizer := by
  simp only [typedOnlyFns, List.mem_cons, List.not_mem_nil, or_false] at hf
  rcases hf with rfl | rfl | rfl | rfl | rfl | rfl <;> cases t <;>
    simp_all [runFn, Model.Tmpl.typedOnly, Value.indirect, Except.map, C03.allowedFn]

/-! ### policy (reviewed tables, every element / attribute / rel) -/

theorem lookup2_mem (t : List (Bytes × Bytes × Cx)) (a e : Bytes) (s : Cx) (h : lookup2 t a e = some s) :
    (a, e, s) ∈ t := by
  unfold lookup2 at h
  split at h
  · next r hr =>
    have hm := List.mem_of_find?_eq_some hr
    have hp := List.find?_some hr
    simp only [Bool.and_eq_true, beq_iff_eq] at hp
    cases h
    obtain ⟨r1, r2, r3⟩ := r
    simp only at hp
    rw [← hp.1, ← hp.2]; exact hm
  · cases h

theorem lookup1_mem (t : List (Bytes × Cx)) (a : Bytes) (s : Cx) (h : lookup1 t a = some s) : (a, s) ∈ t := by
  unfold lookup1 at h
  split at h
  · next r hr =>
    have hm := List.mem_of_find?_eq_some hr
    have hp := List.find?_some hr
    simp only [beq_iff_eq] at hp
    cases h
    obtain ⟨r1, r2⟩ := r
    simp only at hp
    rw [← hp]; exact hm
  · cases h

/-- where a verdict of the table-driven policy can come from -/
theorem attrCtx_cases (T : Tabs) (isData : Bytes → Bool) (e a rel : Bytes) (s : Cx)
    (h : attrCtx T isData e a rel = some s) :
    (e = linkB ∧ a = hrefB ∧ relHit T rel = true ∧ s = .known .TrustedResourceURLOrURL) ∨
    (isData a = true ∧ s = .known .None) ∨ (a, e, s) ∈ T.specific ∨ (a, s) ∈ T.global := by
  unfold attrCtx at h
  split at h
  · next hc =>
    simp only [Bool.and_eq_true, beq_iff_eq] at hc
    cases h; exact Or.inl ⟨hc.1.1, hc.1.2, hc.2, rfl⟩
  · unfold fallthrough at h
    split at h
    · next hd => cases h; exact Or.inr (Or.inl ⟨hd, rfl⟩)
    · split at h
      · next s' hs => cases h; exact Or.inr (Or.inr (Or.inl (lookup2_mem _ _ _ _ hs)))
      · split at h
        · next s' hs =>
          split at h
          · cases h; exact Or.inr (Or.inr (Or.inr (lookup1_mem _ _ _ hs)))
          · cases h
        · cases h

def onB : Bytes := [111, 110]
def styleB : Bytes := [115, 116, 121, 108, 101]
def srcdocB : Bytes := [115, 114, 99, 100, 111, 99]

theorem isDataAttr_d (a : Bytes) (h : isDataAttr a = true) : ∃ t, a = 100 :: t := by
  unfold isDataAttr at h
  split at h
  · next b0 b1 b2 b3 b4 c t =>
    simp only [Bool.and_eq_true, beq_iff_eq] at h
    exact ⟨_, by rw [h.1]⟩
  · cases h

/-- the reviewed policy refuses every attribute whose name starts with "on", on every element -/
theorem reviewed_on (e a rel : Bytes) (h : onB.isPrefixOf a = true) : reviewedAttr e a rel = none := by
  cases hv : reviewedAttr e a rel with
  | none => rfl
  | some s =>
    exfalso
    rcases attrCtx_cases _ _ _ _ _ _ hv with ⟨_, ha, _, _⟩ | ⟨hd, _⟩ | hm | hm
    · subst ha; revert h; decide
    · obtain ⟨t, rfl⟩ := isDataAttr_d a hd
      revert h; simp [onB, List.isPrefixOf]
    · have hall : (revTabs.specific.all fun r => !onB.isPrefixOf r.1) = true := by decide +kernel
      have := List.all_eq_true.1 hall _ hm
      simp [h] at this
    · have hall : (revTabs.global.all fun r => !onB.isPrefixOf r.1) = true := by decide +kernel
      have := List.all_eq_true.1 hall _ hm
      simp [h] at this

/-- a fixed attribute name `a` (not data-*, not href) gets only contexts from the set `ok` -/
theorem reviewed_fixed (a : Bytes) (ok : Cx → Bool) (hd : isDataAttr a = false) (hh : a ≠ hrefB)
    (hs : (revTabs.specific.all fun r => r.1 != a || ok r.2.2) = true)
    (hg : (revTabs.global.all fun r => r.1 != a || ok r.2) = true)
    (e rel : Bytes) : reviewedAttr e a rel = none ∨ ∃ s, reviewedAttr e a rel = some s ∧ ok s = true := by
  cases hv : reviewedAttr e a rel with
  | none => exact Or.inl rfl
  | some s =>
    refine Or.inr ⟨s, rfl, ?_⟩
    rcases attrCtx_cases _ _ _ _ _ _ hv with ⟨_, ha, _, _⟩ | ⟨hd', _⟩ | hm | hm
    · exact absurd ha hh
    · rw [hd] at hd'; cases hd'
    · have := List.all_eq_true.1 hs _ hm
      simpa using this
    · have := List.all_eq_true.1 hg _ hm
      simpa using this

theorem reviewed_style (e rel : Bytes) :
    reviewedAttr e styleB rel = none ∨ reviewedAttr e styleB rel = some (.known .Style) := by
  rcases reviewed_fixed styleB (· == .known .Style) (by decide) (by decide) (by decide +kernel) (by decide +kernel) e rel with h | ⟨s, h, hs⟩
  · exact Or.inl h
  · right; rw [h]; simp only [beq_iff_eq] at hs; rw [hs]

theorem reviewed_srcdoc (e rel : Bytes) :
    reviewedAttr e srcdocB rel = none ∨ reviewedAttr e srcdocB rel = some (.known .HTMLValOnly) := by
  rcases reviewed_fixed srcdocB (· == .known .HTMLValOnly) (by decide) (by decide) (by decide +kernel) (by decide +kernel) e rel with h | ⟨s, h, hs⟩
  · exact Or.inl h
  · right; rw [h]; simp only [beq_iff_eq] at hs; rw [hs]

/-- code-loading URL attributes: (element, attribute) -/
def codeUrlAttrs : List (Bytes × Bytes) :=
  [(B "script", B "src"), (B "iframe", B "src"), (B "frame", B "src"), (B "embed", B "src"),
   (B "object", B "data"), (B "base", B "href")]

theorem reviewed_code_url (e a rel : Bytes) (h : (e, a) ∈ codeUrlAttrs) :
    reviewedAttr e a rel = none ∨ reviewedAttr e a rel = some (.known .TrustedResourceURL) := by
  have hne : ∀ p ∈ codeUrlAttrs, (p.1 == linkB) = false := by decide +kernel
  have hl := hne _ h
  simp only at hl
  have : reviewedAttr e a rel = fallthrough revTabs isDataAttr e a := by
    unfold reviewedAttr attrCtx; simp [hl]
  rw [this]
  have hall : ∀ p ∈ codeUrlAttrs, fallthrough revTabs isDataAttr p.1 p.2 = none ∨
      fallthrough revTabs isDataAttr p.1 p.2 = some (.known .TrustedResourceURL) := by decide +kernel
  exact hall _ h

def stylesheetB : Bytes := B "stylesheet"

/-- a link whose rel makes it a stylesheet (whatever else rel contains) needs a TrustedResourceURL -/
theorem reviewed_link_stylesheet (rel : Bytes) (h : (Model.Tmpl.fields rel).contains stylesheetB = true) :
    reviewedAttr linkB hrefB rel = some (.known .TrustedResourceURL) := by
  have hr : relHit revTabs rel = false := by
    unfold relHit
    rw [Bool.and_eq_false_iff]; right
    rw [Bool.eq_false_iff]; intro hall
    have hm : stylesheetB ∈ Model.Tmpl.fields rel := by simpa using h
    have := List.all_eq_true.1 hall _ hm
    revert this; decide +kernel
  unfold reviewedAttr attrCtx
  simp only [hr, Bool.and_false, Bool.false_eq_true, if_false]
  decide +kernel

/-! ### transfer to the engine's policy (regenerated tables) through C04 -/

theorem model_refused (e a rel : Bytes) (h : reviewedAttr e a rel = none) :
    sanitizationContextForAttrVal e a rel = none := by
  have := C04.C04_attr e a rel
  rw [h] at this
  cases hv : sanitizationContextForAttrVal e a rel with
  | none => rfl
  | some sc => rw [hv] at this; simp [leqOpt] at this

theorem model_typed (e a rel : Bytes) (r : RSC) (hr : Spec.Policy.typedOnly r = true)
    (h : reviewedAttr e a rel = some (.known r)) :
    sanitizationContextForAttrVal e a rel = none ∨
      ∃ sc, sanitizationContextForAttrVal e a rel = some sc ∧ cxOfName sc.name = .known r := by
  have := C04.C04_attr e a rel
  rw [h] at this
  cases hv : sanitizationContextForAttrVal e a rel with
  | none => exact Or.inl rfl
  | some sc =>
    refine Or.inr ⟨sc, rfl, ?_⟩
    rw [hv] at this
    simp only [Option.map, leqOpt] at this
    cases hc : cxOfName sc.name with
    | unknown => rw [hc] at this; simp [geStrict] at this
    | known g =>
      rw [hc] at this
      cases g <;> cases r <;> simp_all [geStrict, Spec.Policy.typedOnly, Spec.Policy.isEnum]

/-- **event handlers**: an action inside the value of any `on…` attribute of any element is rejected -/
theorem C02_event_handler (e a rel : Bytes) (h : onB.isPrefixOf a = true) :
    sanitizationContextForAttrVal e a rel = none :=
  model_refused e a rel (reviewed_on e a rel h)

/-- **style attribute**: refused or the typed-only Style context -/
theorem C02_style_attr (e rel : Bytes) :
    sanitizationContextForAttrVal e styleB rel = none ∨ sanitizationContextForAttrVal e styleB rel = some .Style := by
  rcases reviewed_style e rel with h | h
  · exact Or.inl (model_refused _ _ _ h)
  · rcases model_typed _ _ _ .Style rfl h with h' | ⟨sc, h', hn⟩
    · exact Or.inl h'
    · right; rw [h']; cases sc <;> simp_all [SC.name, cxOfName]

/-- **srcdoc**: refused or the typed-only HTMLValOnly context -/
theorem C02_srcdoc (e rel : Bytes) :
    sanitizationContextForAttrVal e srcdocB rel = none ∨
      sanitizationContextForAttrVal e srcdocB rel = some .HTMLValOnly := by
  rcases reviewed_srcdoc e rel with h | h
  · exact Or.inl (model_refused _ _ _ h)
  · rcases model_typed _ _ _ .HTMLValOnly rfl h with h' | ⟨sc, h', hn⟩
    · exact Or.inl h'
    · right; rw [h']; cases sc <;> simp_all [SC.name, cxOfName]

/-- **code-loading URLs** need a TrustedResourceURL (or are refused), for every rel value -/
theorem C02_code_url (e a rel : Bytes) (h : (e, a) ∈ codeUrlAttrs) :
    sanitizationContextForAttrVal e a rel = none ∨
      sanitizationContextForAttrVal e a rel = some .TrustedResourceURL := by
  rcases reviewed_code_url e a rel h with h | h
  · exact Or.inl (model_refused _ _ _ h)
  · rcases model_typed _ _ _ .TrustedResourceURL rfl h with h' | ⟨sc, h', hn⟩
    · exact Or.inl h'
    · right; rw [h']; cases sc <;> simp_all [SC.name, cxOfName]

/-- **stylesheet links**: whenever the rel tokens include `stylesheet`, whatever else they include -/
theorem C02_link_stylesheet (rel : Bytes) (h : (Model.Tmpl.fields rel).contains stylesheetB = true) :
    sanitizationContextForAttrVal linkB hrefB rel = none ∨
      sanitizationContextForAttrVal linkB hrefB rel = some .TrustedResourceURL := by
  rcases model_typed _ _ _ .TrustedResourceURL rfl (reviewed_link_stylesheet rel h) with h' | ⟨sc, h', hn⟩
  · exact Or.inl h'
  · right; rw [h']; cases sc <;> simp_all [SC.name, cxOfName]

/-- **script and style element bodies** are typed-only contexts -/
theorem C02_bodies :
    sanitizationContextForElementContent (B "script") = some .Script ∧
    sanitizationContextForElementContent (B "style") = some .StyleSheet := by decide +kernel

/-- **element bodies**: an action directly inside a script (style) element — whatever state the body scanner is in,
    as long as it is not a tag, attribute or comment position — gets exactly the chain `[_sanitizeScript]`
    (`[_sanitizeStyleSheet]`), which fails on every untrusted value -/
theorem C02_body_chain (v : Validators) (c : Ctx) (val : Value) (hu : Untrusted val)
    (hn : c.elemNames = [] ∧ c.attrName = [] ∧ c.attrNames = [])
    (hs : c.state ≠ .tag ∧ c.state ≠ .attrName ∧ c.state ≠ .afterName ∧ c.state ≠ .htmlCmt)
    (he : c.elemName = [115, 99, 114, 105, 112, 116] ∨ c.elemName = [115, 116, 121, 108, 101]) :
    ∃ chain, sanitizerForContext v c = some chain ∧ runChain chain val = .error .sanitizer := by
  have hb1 : sanitizationContextForElementContent [115, 99, 114, 105, 112, 116] = some .Script := by decide +kernel
  have hb2 : sanitizationContextForElementContent [115, 116, 121, 108, 101] = some .StyleSheet := by decide +kernel
  rcases he with he | he
  · refine ⟨["_sanitizeScript"], ?_, C02_typed_only_chain _ _ (by decide) val hu⟩
    unfold sanitizerForContext sanitizerForElementContent
    simp [hs.1, hs.2.1, hs.2.2.1, hs.2.2.2, hn.1, hn.2.1, hn.2.2, he, hb1, allSame, appendIfNotEmpty,
      SC.sanitizerName]
  · refine ⟨["_sanitizeStyleSheet"], ?_, C02_typed_only_chain _ _ (by decide) val hu⟩
    unfold sanitizerForContext sanitizerForElementContent
    simp [hs.1, hs.2.1, hs.2.2.1, hs.2.2.2, hn.1, hn.2.1, hn.2.2, he, hb2, allSame, appendIfNotEmpty,
      SC.sanitizerName]

/-! ### the chain in a typed-only attribute context fails on every untrusted value -/

def typedSC (sc : SC) : Bool := sc == .Style || sc == .HTMLValOnly || sc == .Identifier || sc == .Script || sc == .StyleSheet

/-- single element / attribute name (the common case; the multi-name case requires all pairs to agree) -/
theorem C02_attr_chain_typed (v : Validators) (c : Ctx) (sc : SC) (chain : List String) (val : Value)
    (hn : c.elemNames = [] ∧ c.attrNames = [])
    (hsc : sanitizationContextForAttrVal c.elemName c.attrName c.linkRel = some sc) (ht : typedSC sc = true)
    (hc : sanitizersForAttributeValue v c = some chain) (hu : Untrusted val) :
    runChain chain val = .error .sanitizer := by
  unfold sanitizersForAttributeValue at hc
  simp only [hn.1, hn.2, List.isEmpty_nil, if_true, List.flatMap_cons, List.flatMap_nil, List.map_cons, List.map_nil,
    List.append_nil, hsc, allSame, List.all_nil, if_true] at hc
  have hurl : sc.isURLorTRU = false := by cases sc <;> simp_all [typedSC, SC.isURLorTRU]
  have hname : sc.sanitizerName ∈ typedOnlyFns ∧ sc.sanitizerName ≠ "" := by
    cases sc <;> simp_all [typedSC, SC.sanitizerName, typedOnlyFns]
  split at hc
  · cases hc
  · split at hc
    · cases hc
    · simp only [hurl, Bool.not_false, if_true, Option.some.injEq] at hc
      subst hc
      simp only [hname.2, if_false, appendIfNotEmpty]
      have : (decide (sc.sanitizerName = "")) = false := by simp [hname.2]
      simp only [beq_iff_eq, hname.2, if_false, List.reverse_append, List.reverse_cons, List.reverse_nil,
        List.nil_append, List.cons_append]
      exact C02_typed_only_chain _ _ hname.1 val hu

/-- at the start of a TrustedResourceURL attribute the chain fails on every untrusted value -/
theorem C02_tru_start (val : Value) (hu : Untrusted val) :
    runChain ["_sanitizeTrustedResourceURL", fnNormalizeURL, fnHTML] val = .error .sanitizer :=
  C02_typed_only_chain _ _ (by decide) val hu

/-! ### URL start: never `javascript:` after the browser's decoding -/

theorem proc_head (norm : Bool) (t : Bytes) (a : Nat) (rest : Bytes) (ha : a ≠ 37)
    (h : urlProcessor norm t = a :: rest) : ∃ t', t = a :: t' ∧ rest = urlProcessor norm t' := by
  cases t with
  | nil => simp [urlProcessor] at h
  | cons c t' =>
    simp only [urlProcessor] at h
    split at h
    · simp only [List.cons_append, List.nil_append, List.cons.injEq] at h
      exact ⟨t', by rw [h.1], h.2.symm⟩
    · simp only [pctEncode, List.cons_append, List.cons.injEq] at h
      exact absurd h.1.symm ha

theorem proc_prefix (norm : Bool) : ∀ (p : Bytes) (t rest : Bytes), (∀ b ∈ p, b ≠ 37) →
    urlProcessor norm t = p ++ rest → ∃ t', t = p ++ t' ∧ rest = urlProcessor norm t'
  | [], t, rest, _, h => ⟨t, rfl, h.symm⟩
  | a :: p, t, rest, hp, h => by
    obtain ⟨t1, rfl, h1⟩ := proc_head norm t a (p ++ rest) (hp a (by simp)) h
    obtain ⟨t2, rfl, h2⟩ := proc_prefix norm p t1 rest (fun b hb => hp b (by simp [hb])) h1.symm
    exact ⟨t2, rfl, h2⟩

/-- normalisation cannot create a `javascript:` URL out of one the sanitizer accepts -/
theorem norm_no_js (t : Bytes) (h : isSafeURL t = true) : whatwgScheme (normalizeURL t) ≠ some javascript := by
  intro hj
  obtain ⟨pfx, q, hy, hpfx, hjs⟩ := UrlSchemeFacts.whatwg_js_shape _ hj
  have hin : ∀ b ∈ pfx, isAlpha b = true := by
    intro b hb
    rcases hpfx b hb with h1 | h1
    · have := (C14.C14_norm_alphabet t b (by rw [hy]; simp [hb])).1
      omega
    · exact h1
  have h37 : ∀ b ∈ pfx ++ [58], b ≠ 37 := by
    intro b hb
    rcases List.mem_append.1 hb with hb | hb
    · have := hin b hb
      intro h37; subst h37; revert this; decide
    · simp at hb; omega
  obtain ⟨t', ht, _⟩ := proc_prefix true (pfx ++ [58]) t q h37 (by
    show normalizeURL t = _; rw [hy]; simp)
  have : isSafeURL t = false :=
    C11.shape_rejected id ⟨rfl, fun _ _ _ => rfl⟩ t pfx t' (by simpa using ht) hpfx hjs
  rw [h] at this; cases this

theorem sanitized_safe (s : Bytes) : isSafeURL (urlSanitized s) = true := by
  rcases C11.C11_shape s with h | h
  · rw [h]; exact C11.returned_isSafe s h
  · rw [h]; exact C11.innocuous_isSafe ▸ (by rw [← C11.gen_innocuousURL])

theorem bad_printable : ∀ b : Fin 127, 32 ≤ b.val → (isBadRune b.val = false) := by decide +kernel

theorem refCoerce_printable : ∀ (x : Bytes), (∀ b ∈ x, 32 ≤ b ∧ b < 127) → refCoerce x = x
  | [], _ => by simp [refCoerce, Utf8.decodeRunes, Utf8.decodeSyms, Utf8.decodeAux, Utf8.encodeRunes]
  | b :: t, h => by
    have hb := h b (by simp)
    have ih := refCoerce_printable t (fun c hc => h c (by simp [hc]))
    unfold refCoerce Utf8.decodeRunes at *
    rw [Utf8.decodeSyms_cons_ascii b t (by omega)]
    simp only [List.map_cons, Utf8.encodeRunes, List.flatMap_cons]
    have hbad : isBadRune b = false := bad_printable ⟨b, by omega⟩ hb.1
    simp only [coerceRune, hbad, Bool.false_eq_true, if_false]
    rw [Utf8.encodeRune_ascii b (by omega)]
    simp only [Utf8.encodeRunes] at ih
    rw [ih]; rfl

theorem url_chain_eq (s : Bytes) :
    runChain ["_sanitizeURL", fnNormalizeURL, fnHTML] (.str s) =
      .ok (.str (htmlEscaped (normalizeURL (urlSanitized s)))) := by
  simp [runChain, runFn, fnNormalizeURL, fnHTML, typedOr, Value.indirect, stringify, Value.sprint, Except.map,
    bind, Except.bind]

/-- **URL start.** For every untrusted string `s` placed by `{{.}}` at the start of a URL attribute
    (chain `_sanitizeURL, _normalizeURL, _sanitizeHTML`), the attribute value the browser obtains by decoding the
    emitted character references never has the `javascript` scheme as a WHATWG URL parser reads it. -/
theorem C02_url_start (s : Bytes) :
    ∃ out, runChain ["_sanitizeURL", fnNormalizeURL, fnHTML] (.str s) = .ok (.str out) ∧
      unescape5 out = normalizeURL (urlSanitized s) ∧
      whatwgScheme (unescape5 out) ≠ some javascript := by
  refine ⟨htmlEscaped (normalizeURL (urlSanitized s)), ?_, ?_, ?_⟩
  · simp [runChain, runFn, fnNormalizeURL, fnHTML, typedOr, Value.indirect, stringify, Value.sprint, Except.map,
      bind, Except.bind]
  · rw [C10.C10_roundtrip]
    apply refCoerce_printable
    intro b hb
    have := C14.C14_norm_alphabet _ b hb
    omega
  · rw [C10.C10_roundtrip, refCoerce_printable]
    · exact norm_no_js _ (sanitized_safe s)
    · intro b hb
      have := C14.C14_norm_alphabet _ b hb
      omega

/-- the same chain for the URL-or-TrustedResourceURL context (link href with a plain-URL rel) -/
theorem C02_url_start_link (s : Bytes) :
    ∃ out, runChain ["_sanitizeTrustedResourceURLOrURL", fnNormalizeURL, fnHTML] (.str s) = .ok (.str out) ∧
      whatwgScheme (unescape5 out) ≠ some javascript := by
  refine ⟨htmlEscaped (normalizeURL (urlSanitized s)), ?_, ?_⟩
  · simp [runChain, runFn, fnNormalizeURL, fnHTML, typedOr, Value.indirect, stringify, Value.sprint, Except.map,
      bind, Except.bind]
  · rw [C10.C10_roundtrip, refCoerce_printable]
    · exact norm_no_js _ (sanitized_safe s)
    · intro b hb
      have := C14.C14_norm_alphabet _ b hb
      omega

/-! ### the full statement, and why it is only partially proved -/

/-- clause 2 of the property for two adjacent actions `href="{{.A}}{{.B}}"`: the concatenation of the two emitted
    pieces, decoded, never has the javascript scheme -/
def C02_two_actions_statement : Prop :=
  ∀ a b oa ob : Bytes,
    runChain ["_sanitizeURL", fnNormalizeURL, fnHTML] (.str a) = .ok (.str oa) →
    runChain ["_sanitizeURL", fnNormalizeURL, fnHTML] (.str b) = .ok (.str ob) →
    whatwgScheme (unescape5 (oa ++ ob)) ≠ some javascript

/-- FALSE of the current code (known finding `split-scheme`): "java" + "script:alert(1)" -/
theorem C02_false_split_scheme : ¬ C02_two_actions_statement := by
  intro h
  have := h (B "java") (B "script:x") _ _ (url_chain_eq _) (url_chain_eq _)
  apply this
  decide +kernel

end SafeHtml.Props.C02
