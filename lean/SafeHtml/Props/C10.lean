/-
C10 — HTMLEscaped yields inert, interchange-valid, round-tripping text for every input;
HTMLConcat is plain concatenation.

Statements only (machinery: Proofs/Html, Proofs/RangeCover, Proofs/Utf8More).
Spec vocabulary: Spec/Esc (`Esc`, `unescape5`), Spec/Interchange (`isBadRune`, `badRanges`, `isScalar`,
`refCoerce`, `validUtf8`).

How the clauses of the property text are stated:
* "contains none of < > \" ' and no & other than the first character of the five references" — `C10_no_specials`;
* "valid UTF-8 free of NUL, C0/C1 controls other than TAB LF FF CR, DEL and noncharacters" — `C10_interchange_valid`;
* "HTML-unescaping it yields s with exactly those code points and every invalid byte replaced by U+FFFD" —
  `C10_roundtrip`, stated with the SPEC unescaper `unescape5`, which decodes exactly the five references the
  escaper emits (`&amp; &lt; &gt; &#34; &#39;`) and keeps any other '&'; by `C10_no_specials` no other '&' occurs.
  (The harness additionally compares Go's `html.UnescapeString` of the real output with the reference coercion.)
* "placed in element content, RCDATA content or a single- or double-quoted attribute value it tokenizes as one
  text run / attribute value and never ends the enclosing construct" — `C10_inert`, stated as membership in `Esc`
  (no `< > " '` NUL; every '&' starts one of the five complete references): those tokenizer states are left only
  on '<' or the matching quote. The tokenizer itself (Spec.HtmlTok) belongs to C01 and is not re-stated here.
* "HTMLConcat is plain concatenation" — `C10_concat` (plus: concatenation of `Esc` texts is in `Esc`).
No well-formedness hypothesis on the bytes is needed (a "byte" ≥ 256 decodes like an invalid byte).
-/
import SafeHtml.Proofs.Html
namespace SafeHtml.Props.C10
open SafeHtml SafeHtml.Utf8 SafeHtml.Model SafeHtml.Spec SafeHtml.HtmlFacts
open SafeHtml.Generated.Tables

/-! ### obligations on the regenerated range tables (break when html.go's `controlChar` or the
    merged table changes; `RangeCover.firstUncovered` names the first offending rune) -/

/-- every code point the property forbids is in `controlChar ∪ unicode.Noncharacter_Code_Point` -/
theorem gen_tables_cover_bad : RangeCover.covers (controlChar ++ nonCharacter) badRanges = true := by decide

/-- and nothing else is (the coercion replaces exactly those code points) -/
theorem gen_tables_within_bad : RangeCover.covers badRanges (controlChar ++ nonCharacter) = true := by decide

example : RangeCover.firstUncovered (controlChar ++ nonCharacter) badRanges = none := by decide

theorem isControlOrNonChar_eq (r : Nat) : isControlOrNonChar r = isBadRune r := by
  unfold isControlOrNonChar
  rw [model_inRanges, model_inRanges, ← RangeCover.inRanges_append, isBadRune_ranges, Bool.eq_iff_iff]
  exact ⟨RangeCover.covers_sound _ _ gen_tables_within_bad r, RangeCover.covers_sound _ _ gen_tables_cover_bad r⟩

/-- the Go coercion is the reference coercion -/
theorem coerce_eq_ref (s : Bytes) : coerceToUTF8InterchangeValid s = refCoerce s := by
  unfold coerceToUTF8InterchangeValid refCoerce coerceRunes coerceRune
  simp only [isControlOrNonChar_eq, runeError]

theorem htmlEscaped_eq (s : Bytes) : htmlEscaped s = htmlEscapeString (refCoerce s) := by
  unfold htmlEscaped; rw [coerce_eq_ref]

theorem coerced_good (s : Bytes) : ∀ r ∈ (decodeRunes s).map coerceRune, isScalar r = true ∧ isBadRune r = false := by
  intro r hr
  obtain ⟨x, hx, rfl⟩ := List.mem_map.1 hr
  unfold coerceRune
  by_cases hb : isBadRune x = true
  · simp only [hb, if_true]; decide
  · simp only [hb]
    exact ⟨decodeRunes_scalar s x hx, by simpa using hb⟩

theorem escRune_good (r : Nat) (h : isScalar r = true ∧ isBadRune r = false) :
    ∀ x ∈ escRune r, isScalar x = true ∧ isBadRune x = false := by
  unfold escRune
  repeat' split
  all_goals (try (intro x hx; simp only [List.mem_cons, List.not_mem_nil, or_false] at hx;
                  rcases hx with rfl | rfl | rfl | rfl | rfl <;> decide))
  intro x hx
  simp only [List.mem_singleton] at hx
  subst hx; exact h

/-- the output as a sequence of code points -/
def outRunes (s : Bytes) : List Nat := ((decodeRunes s).map coerceRune).flatMap escRune

theorem htmlEscaped_runes (s : Bytes) : htmlEscaped s = encodeRunes (outRunes s) := by
  rw [htmlEscaped_eq]; unfold refCoerce outRunes
  exact htmlEscapeString_encodeRunes _

theorem outRunes_good (s : Bytes) : ∀ r ∈ outRunes s, isScalar r = true ∧ isBadRune r = false := by
  intro r hr
  simp only [outRunes, List.mem_flatMap] at hr
  obtain ⟨x, hx, hrx⟩ := hr
  exact escRune_good x (coerced_good s x hx) r hrx

/-! ### property theorems (every byte string `s`) -/

/-- clause 4 (inertness), as membership in `Esc` -/
theorem C10_inert (s : Bytes) : Esc (htmlEscaped s) = true := by
  rw [htmlEscaped_eq]
  apply Esc_htmlEscapeString
  unfold refCoerce
  apply zero_notin_encodeRunes
  intro h0
  have := (coerced_good s 0 h0).2
  simp [isBadRune] at this

/-- clause 1: none of `< > " '` (nor NUL), and every '&' is the first byte of one of the five references -/
theorem C10_no_specials (s : Bytes) :
    (∀ b ∈ htmlEscaped s, b ≠ 60 ∧ b ≠ 62 ∧ b ≠ 34 ∧ b ≠ 39 ∧ b ≠ 0) ∧
    (∀ pre post, htmlEscaped s = pre ++ 38 :: post → (refAt post).isSome = true) := by
  refine ⟨Esc_mem _ (C10_inert s), ?_⟩
  intro pre post h
  have := C10_inert s
  rw [h] at this
  exact Esc_amp pre post this

/-- clause 2: the output is structurally valid UTF-8 (no decoding error; it is the encoding of its own
    code points), and none of its code points is a surrogate, out of range, NUL, a C0/C1 control other
    than TAB LF FF CR, DEL, or a noncharacter -/
theorem C10_interchange_valid (s : Bytes) :
    validUtf8 (htmlEscaped s) = true ∧
    encodeRunes (decodeRunes (htmlEscaped s)) = htmlEscaped s ∧
    ∀ r ∈ decodeRunes (htmlEscaped s), isScalar r = true ∧ isBadRune r = false := by
  have hs : ∀ r ∈ outRunes s, isScalar r = true := fun r hr => (outRunes_good s r hr).1
  rw [htmlEscaped_runes, decodeRunes_encodeRunes _ hs]
  exact ⟨validUtf8_encodeRunes _ hs, rfl, outRunes_good s⟩

/-- clause 3: unescaping (the five references) gives the reference coercion of `s`: `s` with every invalid
    byte and every forbidden code point — and nothing else — replaced by U+FFFD -/
theorem C10_roundtrip (s : Bytes) : unescape5 (htmlEscaped s) = refCoerce s := by
  rw [htmlEscaped_eq, unescape5_htmlEscapeString]

/-- clause 5: HTMLConcat is plain concatenation; concatenating inert texts gives an inert text -/
theorem C10_concat (hs : List Bytes) :
    htmlConcat hs = hs.flatten ∧ ((∀ h ∈ hs, Esc h = true) → Esc (htmlConcat hs) = true) :=
  ⟨rfl, Esc_flatten hs⟩

/-! ### non-vacuity (explicit byte lists; kernel evaluation) -/

-- `<a href="x">&'` ↦ `&lt;a href=&#34;x&#34;&gt;&amp;&#39;`
example : htmlEscaped [60, 97, 34, 62, 38, 39] =
    [38,108,116,59, 97, 38,35,51,52,59, 38,103,116,59, 38,97,109,112,59, 38,35,51,57,59] := by decide
-- NUL, U+001F, DEL, U+0080 (C2 80), U+FDD0 (EF B7 90), U+10FFFF (F4 8F BF BF), a lone 0xFF, a surrogate (ED A0 80): all U+FFFD
example : htmlEscaped [0] = [239, 191, 189] := by decide
example : htmlEscaped [31] = [239, 191, 189] := by decide
example : htmlEscaped [127] = [239, 191, 189] := by decide
example : htmlEscaped [194, 128] = [239, 191, 189] := by decide
example : htmlEscaped [239, 183, 144] = [239, 191, 189] := by decide
example : htmlEscaped [244, 143, 191, 191] = [239, 191, 189] := by decide
example : htmlEscaped [255] = [239, 191, 189] := by decide
example : htmlEscaped [237, 160, 128] = [239, 191, 189, 239, 191, 189, 239, 191, 189] := by decide
-- TAB LF FF CR, U+001E? no: 0x1E is replaced; U+00A0 (C2 A0) and U+1F600 (F0 9F 98 80) are kept
example : htmlEscaped [9, 10, 12, 13, 32] = [9, 10, 12, 13, 32] := by decide
example : htmlEscaped [194, 160, 240, 159, 152, 128] = [194, 160, 240, 159, 152, 128] := by decide
-- Esc rejects a bare '&', an unterminated reference and a quote
example : Esc [97, 38, 98] = false := by decide
example : Esc [38, 97, 109, 112] = false := by decide
example : Esc [39] = false := by decide
example : Esc [38, 97, 109, 112, 59, 38, 35, 51, 57, 59] = true := by decide
example : unescape5 [38, 97, 109, 112, 59, 108, 116, 59] = [38, 108, 116, 59] := by decide
example : isBadRune 0x1F = true ∧ isBadRune 0x9F = true ∧ isBadRune 0x7FFFF = true ∧ isBadRune 0xFDEF = true
    ∧ isBadRune 0xFDF0 = false ∧ isBadRune 0x20 = false ∧ isBadRune 0xFFFD = false := by decide

end SafeHtml.Props.C10
