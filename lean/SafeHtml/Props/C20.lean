/-
C20 — TrustedSourceFromConstantDir keeps dynamic filenames inside the constant dir.

For every dynamic filename, `TrustedSourceFromConstantDir(dir, src, filename)` either returns an
error or a path that is the cleaned join of dir and src itself or a direct child of it (no path
separator, no list separator, not "..").

Only property statements, the obligations on the regenerated facts (`gen_*`) and non-vacuity
examples live here; the lemmas about `Spec.Path.clean` are in `Proofs/Path.lean`.
Paths are byte lists, GOOS=linux (Separator 47 '/', ListSeparator 58 ':').
-/
import SafeHtml.Model.TrustedSource
import SafeHtml.Proofs.Path
namespace SafeHtml.Props.C20
open SafeHtml SafeHtml.Model SafeHtml.Spec.Path

/-! ### Obligations on the regenerated facts (break when trustedsource.go is edited) -/

/-- the scan is for exactly the separator and the list separator of the platform (both ASCII, which
    is what makes the byte-level model of `strings.IndexAny` exact) -/
theorem gen_indexAnyRunes : Generated.TrustedSource.indexAnyRunes = [sepByte, listSepByte] := by decide

/-- the special name is ".." -/
theorem gen_specialName : Generated.TrustedSource.specialName = dotdot := by decide

/-- the result is `filepath.Join(dir, src, filename)` in that order -/
theorem gen_joinArgs : Generated.TrustedSource.joinArgs = [0, 1, 2] := by decide

/-- the model, with the generated facts resolved -/
theorem model_eq (dir src f : Bytes) :
    trustedSourceFromConstantDir dir src f =
      if f.any (fun b => b == 47 || b == 58) then none
      else if f = dotdot then none
      else some (join [dir, src, f]) := by
  unfold trustedSourceFromConstantDir indexAnyHit filepathJoin
  rw [gen_indexAnyRunes, gen_specialName, gen_joinArgs]
  simp [tsArg, sepByte, listSepByte]

/-- what the two guards let through: "", "." or a plain name -/
theorem accepted_name (f : Bytes) (h1 : f.any (fun b => b == 47 || b == 58) = false) (h2 : f ≠ dotdot) :
    f = [] ∨ f = dot ∨ plainName f = true := by
  by_cases he : f = []
  · exact Or.inl he
  by_cases hd : f = dot
  · exact Or.inr (Or.inl hd)
  right; right
  have h47 : 47 ∉ f := by
    intro hm
    have : f.any (fun b => b == 47 || b == 58) = true := List.any_eq_true.2 ⟨47, hm, by decide⟩
    rw [h1] at this; exact absurd this (by simp)
  have h58 : 58 ∉ f := by
    intro hm
    have : f.any (fun b => b == 47 || b == 58) = true := List.any_eq_true.2 ⟨58, hm, by decide⟩
    rw [h1] at this; exact absurd this (by simp)
  simp [plainName, he, hd, h2, h47, h58]

/-! ### `filepath.Join` of (dir, src, filename) in terms of `Join(dir, src)` -/

/-- an empty filename adds nothing -/
theorem join3_empty (dir src : Bytes) : join [dir, src, []] = join [dir, src] :=
  join_append_empty [dir, src]

/-- "." adds nothing (but names the current directory when dir and src are empty) -/
theorem join3_dot (dir src : Bytes) : join [dir, src, dot] = clean (join [dir, src]) :=
  join_append_dot [dir, src]

/-- a plain name selects the direct child of `Join(dir, src)` -/
theorem join3_plain (dir src f : Bytes) (hf : plainName f = true) :
    join [dir, src, f] = child (join [dir, src]) f :=
  join_append_plain [dir, src] f hf

/-! ### Property theorems -/

/-- **C20.** A successful call returns `Join(dir, src)` itself (filename ""), its cleaned form
    (filename "."; differs from `Join(dir, src)` only when dir and src are both empty: "" vs "."),
    or the direct child named `f` of it, and then `f` is a plain name: not "", ".", "..", no '/', no ':'.
    `child` treats the bases "", "." (child = f) and "/" (child = "/f") correctly. -/
theorem C20 (dir src f r : Bytes) (h : trustedSourceFromConstantDir dir src f = some r) :
    r = join [dir, src] ∨ r = clean (join [dir, src]) ∨
      (r = child (join [dir, src]) f ∧ f ≠ [] ∧ f ≠ dot ∧ f ≠ dotdot ∧ 47 ∉ f ∧ 58 ∉ f) := by
  rw [model_eq] at h
  cases h1 : f.any (fun b => b == 47 || b == 58) <;> simp only [h1] at h
  · by_cases h2 : f = dotdot
    · simp [h2] at h
    · simp [h2] at h
      subst h
      rcases accepted_name f h1 h2 with he | hd | hp
      · subst he; exact Or.inl (join3_empty dir src)
      · subst hd; exact Or.inr (Or.inl (join3_dot dir src))
      · refine Or.inr (Or.inr ⟨join3_plain dir src f hp, ?_⟩)
        simpa [plainName, and_assoc] using hp
  · exact absurd h (by simp)

/-- the same with the base written as `Clean(Join(dir, src))` (DESIGN §7): for a non-empty base the
    two are equal (`clean_idem`); for dir = src = "" the base is "" and its cleaned form "." — both
    name the directory the path is evaluated in, and `child` of either is `f`. -/
theorem C20_cleanBase (dir src f r : Bytes) (h : trustedSourceFromConstantDir dir src f = some r) :
    r = join [dir, src] ∨ r = clean (join [dir, src]) ∨
      (r = child (clean (join [dir, src])) f ∧ plainName f = true) := by
  rcases C20 dir src f r h with h1 | h1 | ⟨h1, h2⟩
  · exact Or.inl h1
  · exact Or.inr (Or.inl h1)
  · refine Or.inr (Or.inr ⟨?_, by simp [plainName, h2]⟩)
    rw [h1]
    rcases join_cases [dir, src] with hb | ⟨p, _, hb⟩
    · rw [hb]
      have : clean [] = dot := by decide
      rw [this]; simp [child]
    · rw [hb, clean_idem]

/-- a successful result is `filepath.Join(dir, src, filename)` -/
theorem result_eq (dir src f r : Bytes) (h : trustedSourceFromConstantDir dir src f = some r) :
    r = join [dir, src, f] := by
  rw [model_eq] at h
  cases h1 : f.any (fun b => b == 47 || b == 58) <;> simp only [h1] at h
  · by_cases h2 : f = dotdot
    · simp [h2] at h
    · simp [h2] at h; exact h.symm
  · exact absurd h (by simp)

/-- the statement exactly as written in DESIGN §7 (`r = Clean(Join(dir,src))` or a child of it) holds
    with ONE exception, which the DESIGN text overlooked and which is harmless: dir, src and filename
    all empty give the empty TrustedSource "" (`filepath.Join` returns "" and not "." then). -/
theorem C20_design (dir src f r : Bytes) (h : trustedSourceFromConstantDir dir src f = some r) :
    (dir = [] ∧ src = [] ∧ f = [] ∧ r = []) ∨ r = clean (join [dir, src]) ∨
      (r = child (clean (join [dir, src])) f ∧ plainName f = true) := by
  rcases C20_cleanBase dir src f r h with h1 | h1 | h1
  · rcases join_cases [dir, src] with hb | ⟨p, _, hb⟩
    · left
      have hr : r = [] := by rw [h1, hb]
      have := (join_eq_nil_iff [dir, src, f]).1 (by rw [← result_eq dir src f r h, hr])
      exact ⟨this dir (by simp), this src (by simp), this f (by simp), hr⟩
    · right; left; rw [h1, hb, clean_idem]
  · exact Or.inr (Or.inl h1)
  · exact Or.inr (Or.inr h1)

/-- **C20_rejects.** A filename with a separator or a list separator, or the name "..", is an error,
    whatever dir and src are. -/
theorem C20_rejects (dir src f : Bytes) (h : 47 ∈ f ∨ 58 ∈ f ∨ f = dotdot) :
    trustedSourceFromConstantDir dir src f = none := by
  rw [model_eq]
  rcases h with h | h | h
  · have : f.any (fun b => b == 47 || b == 58) = true := List.any_eq_true.2 ⟨47, h, by simp⟩
    simp [this]
  · have : f.any (fun b => b == 47 || b == 58) = true := List.any_eq_true.2 ⟨58, h, by simp⟩
    simp [this]
  · subst h; simp

/-- the converse (nothing else is rejected): "", "." and every plain name are accepted -/
theorem C20_accepts (dir src f : Bytes) (h : f = [] ∨ f = dot ∨ plainName f = true) :
    trustedSourceFromConstantDir dir src f = some (join [dir, src, f]) := by
  rw [model_eq]
  have hany : f.any (fun b => b == 47 || b == 58) = false := by
    rcases h with h | h | h
    · subst h; rfl
    · subst h; decide
    · simp only [plainName, Bool.and_eq_true, Bool.not_eq_true', List.contains_eq_mem,
        decide_eq_false_iff_not] at h
      rw [Bool.eq_false_iff]
      intro ht
      obtain ⟨b, hb, hb2⟩ := List.any_eq_true.1 ht
      simp only [Bool.or_eq_true, beq_iff_eq] at hb2
      rcases hb2 with e | e
      · subst e; exact h.1.2 hb
      · subst e; exact h.2 hb
  have hdd : f ≠ dotdot := by
    rcases h with h | h | h
    · subst h; decide
    · subst h; decide
    · intro e; subst e; revert h; decide
  simp [hany, hdd]

/-- **C20_components.** In path components (split on '/', empty and "." elements dropped): the
    components of the result are those of the constant directory `Join(dir, src)` followed by at
    most one more, which is the filename itself and is a plain name; rootedness is that of the
    constant directory. So the result cannot name a parent, a sibling or a nested directory, and
    cannot contain a second search-path entry. -/
theorem C20_components (dir src f r : Bytes) (h : trustedSourceFromConstantDir dir src f = some r) :
    ∃ extra : List Bytes, (extra = [] ∨ (extra = [f] ∧ plainName f = true)) ∧
      components r = components (join [dir, src]) ++ extra ∧
      isRooted r = isRooted (join [dir, src]) := by
  have base_cases : join [dir, src] = [] ∨ ∃ p, p ≠ [] ∧ join [dir, src] = clean p := join_cases _
  rcases C20 dir src f r h with h1 | h1 | ⟨h1, hne, hdot, hdd, h47, h58⟩
  · exact ⟨[], Or.inl rfl, by rw [h1, List.append_nil], by rw [h1]⟩
  · refine ⟨[], Or.inl rfl, ?_, ?_⟩
    · rw [h1, List.append_nil]
      rcases base_cases with hb | ⟨p, _, hb⟩
      · rw [hb]; decide
      · rw [hb, clean_idem]
    · rw [h1, isRooted_clean]
  · have hp : plainName f = true := by simp [plainName, hne, hdot, hdd, h47, h58]
    have hk : keepElem f = true := (keepElem_iff f).2 ⟨hne, hdot⟩
    refine ⟨[f], Or.inr ⟨rfl, hp⟩, ?_, ?_⟩
    · rw [h1]
      rcases base_cases with hb | ⟨p, hpne, hb⟩
      · rw [hb]; simp only [child, true_or, if_true]
        rw [components_sepfree f h47 hk]; rfl
      · rw [hb, ← clean_append_plain p f hpne hp, components_clean, components_clean]
        unfold elements
        rw [isRooted_append p _ hpne, components_append_sep, components_sepfree f h47 hk,
          resolve_append_singleton _ _ _ hdd]
    · rw [h1]
      rcases base_cases with hb | ⟨p, hpne, hb⟩
      · rw [hb]; simp only [child, true_or, if_true]
        rw [isRooted_sepfree f h47]; rfl
      · rw [hb, ← clean_append_plain p f hpne hp, isRooted_clean, isRooted_clean,
          isRooted_append p _ hpne]

/-! ### Non-vacuity -/
-- dir "a/b/", src "", file "x.txt"  ↦  "a/b/x.txt"
example : trustedSourceFromConstantDir [97, 47, 98, 47] [] [120, 46, 116, 120, 116]
    = some [97, 47, 98, 47, 120, 46, 116, 120, 116] := by decide
-- dir "/", src "", file "x" ↦ "/x" ; dir "", src "", file "x" ↦ "x" ; dir ".", file "x" ↦ "x"
example : trustedSourceFromConstantDir [47] [] [120] = some [47, 120] := by decide
example : trustedSourceFromConstantDir [] [] [120] = some [120] := by decide
example : trustedSourceFromConstantDir [46] [] [120] = some [120] := by decide
-- dir "a/../..", src "b", file "..." ↦ "../b/..."
example : trustedSourceFromConstantDir [97, 47, 46, 46, 47, 46, 46] [98] [46, 46, 46]
    = some [46, 46, 47, 98, 47, 46, 46, 46] := by decide
-- file "", "." : the directory itself ; dir = src = "" : "" and "."
example : trustedSourceFromConstantDir [97, 47] [98] [] = some [97, 47, 98] := by decide
example : trustedSourceFromConstantDir [97, 47] [98] [46] = some [97, 47, 98] := by decide
example : trustedSourceFromConstantDir [] [] [] = some [] := by decide   -- the exception of C20_design
example : trustedSourceFromConstantDir [] [] [46] = some [46] := by decide
-- rejected: "..", "a/b", "/", "a:b", "../x"
example : trustedSourceFromConstantDir [97] [] [46, 46] = none := by decide
example : trustedSourceFromConstantDir [97] [] [97, 47, 98] = none := by decide
example : trustedSourceFromConstantDir [97] [] [47] = none := by decide
example : trustedSourceFromConstantDir [97] [] [97, 58, 98] = none := by decide
example : trustedSourceFromConstantDir [97] [] [46, 46, 47, 120] = none := by decide
-- Clean: "a//b/./c/../d/" ↦ "a/b/d" ; "/../a" ↦ "/a" ; "../../a/.." ↦ "../.." ; "" ↦ "."
example : clean [97, 47, 47, 98, 47, 46, 47, 99, 47, 46, 46, 47, 100, 47] = [97, 47, 98, 47, 100] := by decide
example : clean [47, 46, 46, 47, 97] = [47, 97] := by decide
example : clean [46, 46, 47, 46, 46, 47, 97, 47, 46, 46] = [46, 46, 47, 46, 46] := by decide
example : clean [] = [46] := by decide

end SafeHtml.Props.C20
