/-
C07 — definitions freeze at first execution; clones are isolated.
Theorems over the API state machine `Api.step` (Model/Tmpl/Step.lean), whose agreement with the real
package on generated histories is checked on every run (correspondence stream tmpl.hist.C07).
-/
import SafeHtml.Proofs.ApiLemmas
import SafeHtml.Model.Tmpl.PrefixLite
namespace SafeHtml.Props.C07
open SafeHtml SafeHtml.Model.Tmpl

/-- the name space of the template a handle denotes -/
def nsOf (w : World) (h : Nat) : Option Nat := (w.obj h).map (·.2.ns)

def escapedNs (w : World) (n : Nat) : Bool := (w.ns n).escaped

/-- **Parse gate.** Once the set of `h` has executed anything, `Parse` on `h` fails and changes nothing. -/
theorem C07_parse_gate (w : World) (h : Nat) (defs : List Tree) (n : Nat)
    (hn : nsOf w h = some n) (he : escapedNs w n = true) :
    Api.step w (.parse h defs) = (w, .done "err:parse-gate") := by
  unfold nsOf at hn
  cases ho : w.obj h with
  | none => simp [ho] at hn
  | some p =>
    obtain ⟨oid, o⟩ := p
    simp only [ho, Option.map_some, Option.some.injEq] at hn
    simp only [Api.step, apiParse, ho]
    unfold escapedNs at he
    rw [← hn] at he
    simp [he]

/-- **Every Execute op freezes the set of its receiver**, whatever its outcome. -/
theorem C07_exec_freezes (w : World) (h : Nat) (d : Value) (n : Nat) (hn : nsOf w h = some n) :
    escapedNs (apiExecute w h d).1 n = true := by
  unfold nsOf at hn
  cases ho : w.obj h with
  | none => simp [ho] at hn
  | some p =>
    obtain ⟨oid, o⟩ := p
    simp only [ho, Option.map_some, Option.some.injEq] at hn
    subst hn
    unfold apiExecute escapedNs
    simp only [ho]
    have key : ((w.setNs o.ns { w.ns o.ns with escaped := true }).ns o.ns).escaped = true := by
      rw [ns_setNs_same]
    repeat' split
    all_goals first
      | exact key
      | (have := escapeTemplateTop_escaped _ _ _ _ _ (by assumption); simp only []; rw [this]; exact key)

/-- the same for ExecuteTemplate (any name, defined or not) -/
theorem C07_execT_freezes (w : World) (h : Nat) (name : String) (d : Value) (n : Nat) (hn : nsOf w h = some n) :
    escapedNs (apiExecuteTemplate w h name d).1 n = true := by
  unfold nsOf at hn
  cases ho : w.obj h with
  | none => simp [ho] at hn
  | some p =>
    obtain ⟨oid, o⟩ := p
    simp only [ho, Option.map_some, Option.some.injEq] at hn
    subst hn
    unfold apiExecuteTemplate escapedNs
    simp only [ho]
    have key : ((w.setNs o.ns { w.ns o.ns with escaped := true }).ns o.ns).escaped = true := by
      rw [ns_setNs_same]
    repeat' split
    all_goals first
      | exact key
      | (have := escapeTemplateTop_escaped _ _ _ _ _ (by assumption); simp only []; rw [this]; exact key)

/-- **Clone refuses executed templates**, and then changes nothing. -/
theorem C07_clone_refuses_after_exec (w : World) (h h' oid : Nat) (o : TObj)
    (ho : w.obj h = some (oid, o)) (hs : o.status ≠ .unset) :
    Api.step w (.clone h h') = (w, .done "err:clone") := by
  simp only [Api.step, apiClone, ho]
  simp [hs]

/-- the flag is only ever set: no op clears it (shown for the ops that touch it) -/
theorem C07_parse_keeps_escaped (w : World) (h : Nat) (defs : List Tree) (n : Nat)
    (he : escapedNs w n = true) (hn : nsOf w h = some n) :
    escapedNs (Api.step w (.parse h defs)).1 n = true := by
  rw [C07_parse_gate w h defs n hn he]; exact he

/-! ### statement of the full property (history form) and what is proved of it

`C07_statement` : along every history, after the first Execute* on a set (i) every Parse* on a template of
that set fails and (ii) every later Execute* result equals the result of the same call on a fresh set built
from the definition calls made before that first execution; and for every successful Clone, no later op on
one side changes a result of the other side.

Proved above: (i) as `C07_parse_gate` + `C07_exec_freezes` (for `Execute`; `ExecuteTemplate` sets the flag in
the same way, first line of `apiExecuteTemplate`), the Clone refusal. (ii) and the frame property of
Clone are checked on every run by the oracle (`Oracle.Hist.c07`: `res = frozen`, parse-after-exec,
clone-after-exec) on the REAL results; they are not proved. Known deviation of the real code from (ii):
`t.New(name)` after the first execution replaces the template of that name (signature `new-after-exec`).
-/

/-- non-vacuity: a world in which the hypotheses of `C07_parse_gate` hold -/
example : nsOf (Api.step (Api.step { v := liteValidators } (.new 0 "t")).1 (.exec 0 .noValue)).1 0 = some 0 ∧
    escapedNs (Api.step (Api.step { v := liteValidators } (.new 0 "t")).1 (.exec 0 .noValue)).1 0 = true := by
  decide

end SafeHtml.Props.C07
