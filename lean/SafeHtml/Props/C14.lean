/-
C14 — data interpolated after a static URL prefix stays inside its URL component.
Statements, `_partial` variants, negation witness of the known finding, Rx / table obligations, non-vacuity.
Helper lemmas: Proofs/UrlProc.lean (urlProcessor over the regenerated case lists), Proofs/RxSearch.lean.
-/
import SafeHtml.Model.TmplUrl
import SafeHtml.Model.Html
import SafeHtml.Spec.CharRef
import SafeHtml.Spec.UrlComponents
import SafeHtml.Proofs.UrlProc
import SafeHtml.Proofs.RxSearch
import SafeHtml.Proofs.RxDotSeg
import SafeHtml.Proofs.Tactics
namespace SafeHtml.Props.C14
open SafeHtml SafeHtml.Rx SafeHtml.Model SafeHtml.Model.TmplUrl SafeHtml.Generated.Regexes
open SafeHtml.Spec SafeHtml.Spec.UrlComp SafeHtml.Proofs.UrlProc

/-! ### Rx / table obligations -/

/-- `[[:space:]]|[[:cntrl:]]` (unanchored) = "some byte is ≤ 0x20 or 0x7f" -/
theorem rx_containsWhitespaceOrControl (s : Bytes) :
    matchString template_containsWhitespaceOrControlPattern s = s.any isWsOrCtl := by
  unfold template_containsWhitespaceOrControlPattern
  rw [match_cls_any_bytes _ (by decide)]
  congr 1
  funext b
  simp only [inCls, List.any, isWsOrCtl, Bool.or_false]
  cls_arith

/-- after deliver/fix-C14-tru-dot.diff `validateTrustedResourceURLPrefix` has exactly one extra reject test on the
    decoded prefix, `(?i)(?:^|/)(?:\.|%2e)$`. On the pinned (unfixed) tree the regenerated list is empty and this
    obligation fails. -/
theorem rx_truPrefixRejects : Generated.TmplUrlFacts.truPrefixRejectPatterns = [Rx.dotSegRe] := by
  rfl

/-- … and that regex means "the last path segment so far is exactly `.` or `%2e`" (Proofs/RxDotSeg.lean) -/
theorem rx_endsWithDotSegment (d : Bytes) :
    (Generated.TmplUrlFacts.truPrefixRejectPatterns.any fun r => matchString r d) = endsWithDotSegment d := by
  rw [rx_truPrefixRejects]
  simp only [List.any_cons, List.any_nil, Bool.or_false, match_dotSeg]

/-! ### queryEscapeURL: fully percent-encoded -/

/-- every output byte is unreserved or `%` — in particular none of `& = # ? / : + ; , @ $ ! * ' ( ) [ ]`, no quote,
    no angle bracket, no space, no control, no non-ASCII byte -/
theorem C14_query (s : Bytes) : ∀ b ∈ queryEscapeURL s, isUnreserved b = true ∨ b = 37 := query_bytes s

/-- … and every `%` starts a well-formed `%hh` (the output is in `(unreserved | pct-encoded)*`) -/
theorem C14_query_wellformed (s : Bytes) : unreservedOrPct (queryEscapeURL s) = true := query_unreservedOrPct s

/-- the bytes the property text names cannot be added -/
theorem C14_query_no_delims (s : Bytes) (b : Nat) (hb : b ∈ queryEscapeURL s) :
    b ≠ 38 ∧ b ≠ 61 ∧ b ≠ 35 ∧ b ≠ 63 ∧ b ≠ 47 ∧ b ≠ 58 ∧ b ≠ 92 := by
  rcases C14_query s b hb with h | h
  · simp only [isUnreserved, isAlnum, isAlpha, isLowerAlpha, isUpperAlpha, isDigit, Bool.or_eq_true, Bool.and_eq_true,
      decide_eq_true_eq, beq_iff_eq] at h
    omega
  · omega

/-! ### normalizeURL -/

/-- no quotes, angle brackets, spaces, controls, backslashes, back-ticks or non-ASCII bytes -/
theorem C14_norm_alphabet (s : Bytes) (b : Nat) (hb : b ∈ normalizeURL s) :
    32 < b ∧ b < 127 ∧ b ≠ 34 ∧ b ≠ 39 ∧ b ≠ 60 ∧ b ≠ 62 ∧ b ≠ 92 ∧ b ≠ 96 := by
  have := norm_bytes s b hb
  simp only [normOk, Bool.and_eq_true, decide_eq_true_eq, bne_iff_ne] at this
  omega

/-- a valid `%XX` of the input is kept as it is (and what follows is normalised independently) -/
theorem C14_norm_keeps_escapes (pre post : Bytes) (a b : Nat) (ha : isHexDigit a = true) (hb : isHexDigit b = true) :
    ∃ X, normalizeURL (pre ++ 37 :: a :: b :: post) = X ++ 37 :: a :: b :: normalizeURL post :=
  norm_keeps_escape pre post a b ha hb

/-- normalising twice equals normalising once -/
theorem C14_norm_idem (s : Bytes) : normalizeURL (normalizeURL s) = normalizeURL s := norm_idem s

/-! ### after a TrustedResourceURL prefix -/

/-- FULL statement: the substitution is returned unchanged, contains no ".." in any spelling, its escaped form adds
    no `/` (no new segment: `QueryEscapeURL` turns `/` into `%2f`), and after a validated prefix whose decoded form
    is `d` the escaped data creates no ".." PATH SEGMENT (RFC 3986 segments of the path, `.` also spelled `%2e`) that
    `d` did not already contain. Scope: a SINGLE action directly after the static prefix (see the known finding
    `adjacent-actions-dotdot` below for two actions). -/
def C14_tru_subst_statement : Prop :=
  ∀ (p d w v : Bytes), validateTrustedResourceURLPrefix p = true → decodeURLPrefix p = some d →
    validateTrustedResourceURLSubstitution w = some v →
      v = w ∧ containsDotDot w = false ∧ (∀ b ∈ queryEscapeURL v, b ≠ 47 ∧ b ≠ 92) ∧
      dotDotSegments (d ++ queryEscapeURL v) ≤ dotDotSegments d

/-- PROVED part. Missing for the full statement: (1) the Rx obligation
    `matchString urlDoubleDotSegmentPattern w = containsDotDot w` (unanchored two-alternative pattern; only the
    single-class unanchored case is in Proofs/RxSearch), (2) the straddling argument "d does not end in `.`/`%2e`/`%`/`%h`
    and the escaped data contains no `%2e` ⇒ no new `..` across the boundary" (the hypothesis it needs is exactly
    `rx_truPrefixRejects`; the oracle checks the conclusion on every real template output, clause tru-new-dotdot-segment). -/
theorem C14_tru_subst_partial (w v : Bytes) (h : validateTrustedResourceURLSubstitution w = some v) :
    v = w ∧ urlContainsDoubleDotSegment w = false ∧ (∀ b ∈ queryEscapeURL v, b ≠ 47 ∧ b ≠ 92) := by
  unfold validateTrustedResourceURLSubstitution at h
  cases hd : urlContainsDoubleDotSegment w <;> simp [hd] at h
  subst h
  exact ⟨rfl, rfl, fun b hb => ⟨(C14_query_no_delims _ b hb).2.2.2.2.1, (C14_query_no_delims _ b hb).2.2.2.2.2.2⟩⟩

/-- the last path segment of a validated TrustedResourceURL prefix is not exactly `.` / `%2e`
    (needs deliver/fix-C14-tru-dot.diff) -/
theorem C14_tru_prefix_no_final_dot (p d : Bytes) (hv : validateTrustedResourceURLPrefix p = true)
    (hd : decodeURLPrefix p = some d) : endsWithDotSegment d = false := by
  unfold validateTrustedResourceURLPrefix at hv
  rw [hd] at hv
  simp only [rx_endsWithDotSegment, Bool.and_eq_true, Bool.not_eq_true'] at hv
  exact hv.2

/-! ### which chain `sanitizersForAttributeValue` picks (non-empty prefix) -/

theorem C14_choice (sc : SC) (p : Bytes) :
    chooseChain sc p =
      (if !prefixValid sc p then none
       else match sc with
         | .other => some .htmlOnly
         | .tru => some .queryNoDotDot
         | _ => if inQueryOrFragment p then some .query else some .norm) := by
  cases sc <;> simp only [chooseChain, prefixValid]
  · rfl
  · by_cases h : validateURLPrefix p = true <;> by_cases hq : inQueryOrFragment p = true <;> simp [h, hq]
  · by_cases h : validateURLPrefix p = true <;> by_cases hq : inQueryOrFragment p = true <;> simp [h, hq]
  · by_cases h : validateTrustedResourceURLPrefix p = true <;> simp [h]

/-- in a URL context an action after a prefix with `?` or `#` (literally, or as a character reference that Go's
    decoder resolves) is always fully percent-encoded; after a TrustedResourceURL prefix always -/
theorem C14_choice_query (sc : SC) (p w v : Bytes) (ch : Chain) (hsc : sc ≠ .other)
    (hq : inQueryOrFragment p = true ∨ sc = .tru)
    (hc : chooseChain sc p = some ch) (hr : runChain ch w = some v) :
    unreservedOrPct v = true ∧ ∀ b ∈ v, b ≠ 38 ∧ b ≠ 61 ∧ b ≠ 35 ∧ b ≠ 63 ∧ b ≠ 47 ∧ b ≠ 58 ∧ b ≠ 92 := by
  rw [C14_choice] at hc
  cases hv : prefixValid sc p <;> simp only [hv, Bool.not_false, Bool.not_true, if_true, Bool.false_eq_true, if_false] at hc
  · exact absurd hc (by simp)
  · cases sc with
    | other => exact absurd rfl hsc
    | tru =>
      simp only [Option.some.injEq] at hc; subst hc
      simp only [runChain, Option.map_eq_some_iff] at hr
      obtain ⟨u, _, rfl⟩ := hr
      exact ⟨C14_query_wellformed u, fun b hb => C14_query_no_delims u b hb⟩
    | url =>
      rcases hq with hq | hq
      · simp only [hq, if_true, Option.some.injEq] at hc; subst hc
        simp only [runChain, Option.some.injEq] at hr; subst hr
        exact ⟨C14_query_wellformed w, fun b hb => C14_query_no_delims w b hb⟩
      · exact absurd hq (by simp)
    | truOrUrl =>
      rcases hq with hq | hq
      · simp only [hq, if_true, Option.some.injEq] at hc; subst hc
        simp only [runChain, Option.some.injEq] at hr; subst hr
        exact ⟨C14_query_wellformed w, fun b hb => C14_query_no_delims w b hb⟩
      · exact absurd hq (by simp)

/-! ### rejected prefixes -/

/-- (1) raw whitespace / control; (2) partial character reference at the end (regenerated pattern);
    (3) whitespace / control after Go's HTML-unescaping; (4) partial percent escape at the end after unescaping
    (regenerated pattern): `decodeURLPrefix` fails, hence both validators reject. -/
theorem C14_prefix_rejects_decode (p : Bytes)
    (h : p.any isWsOrCtl = true ∨
         matchString template_endsWithCharRefPrefixPattern p = true ∨
         (GoHtml.unescapeString p).any isWsOrCtl = true ∨
         matchString template_endsWithPercentEncodingPrefixPattern (GoHtml.unescapeString p) = true) :
    decodeURLPrefix p = none := by
  unfold decodeURLPrefix validateDoesNotEndsWithCharRefPrefix
  simp only [rx_containsWhitespaceOrControl]
  rcases h with h | h | h | h
  · simp [h]
  · simp [h]
  · simp [h]
  · simp [h]

theorem C14_prefix_rejects (p : Bytes)
    (h : p.any isWsOrCtl = true ∨
         matchString template_endsWithCharRefPrefixPattern p = true ∨
         (GoHtml.unescapeString p).any isWsOrCtl = true ∨
         matchString template_endsWithPercentEncodingPrefixPattern (GoHtml.unescapeString p) = true) :
    validateURLPrefix p = false ∧ validateTrustedResourceURLPrefix p = false := by
  have := C14_prefix_rejects_decode p h
  simp [validateURLPrefix, validateTrustedResourceURLPrefix, this]

/-- (5) a prefix that could still be completed into a scheme: an accepted URL prefix either has a complete scheme
    that `URLSanitized` accepts (so: not `javascript:`), or already contains `/`, `?` or `#` -/
theorem C14_prefix_rejects_scheme (p : Bytes) (h : validateURLPrefix p = true) :
    ∃ d, decodeURLPrefix p = some d ∧
      ((matchString template_startsWithFullySpecifiedSchemePattern d = true ∧ urlSanitized d = d) ∨
       containsAny d [47, 63, 35] = true) := by
  unfold validateURLPrefix at h
  cases hd : decodeURLPrefix p with
  | none => simp [hd] at h
  | some d =>
    refine ⟨d, rfl, ?_⟩
    simp only [hd] at h
    cases hs : matchString template_startsWithFullySpecifiedSchemePattern d <;> simp [hs] at h
    · exact Or.inr h
    · exact Or.inl ⟨rfl, h⟩

/-! ### soundness of an accepted prefix -/

/-- FULL statement (PROVED, with no hypothesis, in Proofs/C14Sound2.lean: `C14_prefix_sound`): for an accepted prefix `p` of a URL-typed attribute and string data `w`, the browser (WHATWG
    attribute-value decoding of `p ++ html-escaped chain output`) sees the decoded prefix followed by exactly the
    chain output, the scheme is the one the prefix fixed and is not `javascript`, and when the decoded prefix is
    already in the query or fragment part the data is fully percent-encoded. -/
def C14_prefix_sound_statement : Prop :=
  ∀ (sc : SC) (p w v : Bytes) (ch : Chain), sc ≠ .other → p ≠ [] →
    chooseChain sc p = some ch → runChain ch w = some v →
      let bp := CharRef.decodeAttr p
      let bd := CharRef.decodeAttr (p ++ htmlEscapeString v)
      bd = bp ++ v ∧ whatwgScheme bd = whatwgScheme bp ∧ whatwgScheme bd ≠ some javascript ∧
      ((bp.contains 63 || bp.contains 35) = true → unreservedOrPct v = true)

/-- PROVED part: whatever the prefix, the chain output is in the alphabet of its chain — fully percent-encoded for
    `query`/`queryNoDotDot`, the normalised alphabet for `norm`; with `C14_choice`/`C14_choice_query` this gives the
    component claim for prefixes whose `?`/`#` Go's decoder sees.
    The other conjuncts are proved in Proofs/CharRefAppend.lean and Proofs/C14Sound.lean: decoding
    (`decodeAttr_append`, `C14_prefix_sound_decode`), scheme (`C14_prefix_sound_scheme_of`, unconditional), both regex
    obligations as equalities; the component conjunct on Go's reading (`C14_prefix_sound_go`) and on the browser's
    reading under decoder agreement (`C14_prefix_sound_final`). The oracle (Oracle/C14.urlattr) checks every conjunct on
    every real template output as well. -/
theorem C14_prefix_sound_partial (sc : SC) (p w v : Bytes) (ch : Chain)
    (hc : chooseChain sc p = some ch) (hr : runChain ch w = some v) :
    match ch with
    | .htmlOnly => v = w
    | .norm => ∀ b ∈ v, 32 < b ∧ b < 127 ∧ b ≠ 34 ∧ b ≠ 39 ∧ b ≠ 60 ∧ b ≠ 62 ∧ b ≠ 92 ∧ b ≠ 96
    | .query => unreservedOrPct v = true
    | .queryNoDotDot => unreservedOrPct v = true ∧ urlContainsDoubleDotSegment w = false := by
  cases ch with
  | htmlOnly => simp only [runChain, Option.some.injEq] at hr; exact hr.symm
  | norm =>
    simp only [runChain, Option.some.injEq] at hr; subst hr
    exact fun b hb => C14_norm_alphabet w b hb
  | query =>
    simp only [runChain, Option.some.injEq] at hr; subst hr
    exact C14_query_wellformed w
  | queryNoDotDot =>
    simp only [runChain, Option.map_eq_some_iff] at hr
    obtain ⟨u, hu, rfl⟩ := hr
    have := C14_tru_subst_partial w u hu
    exact ⟨C14_query_wellformed u, this.2.1⟩

/-! ### repaired finding: a TAB written as "&#9" + non-digit was not seen by Go's decoder -/

/-- the property text's clause "whitespace or control characters (also when written as character references)
    are rejected", read with the browser's decoder. On the pinned tree this was FALSE (witness `/a&#9b/`, and in its
    scheme variant `java&#9script:` — accepted, read as `javascript:` by browsers; kernel-checked in
    Proofs/C14Sound.lean against the code before the repair). Since the repair (numeric character references
    without ';' are refused in URL prefixes) the statement is PROVED: Proofs/C14Ws.lean, `C14_rejects_browser_whitespace`. -/
def C14_rejects_browser_whitespace_statement : Prop :=
  ∀ p : Bytes, (CharRef.decodeAttr p).any isWsOrCtl = true → validateURLPrefix p = false

/-- the two former witnesses are rejected now -/
theorem C14_short_decimal_charref_rejected :
    validateURLPrefix [47, 97, 38, 35, 57, 98, 47] = false ∧
    validateURLPrefix (B "java&#9script:") = false ∧ validateURLPrefix (B "/x&#x9y/") = false := by
  decide +kernel

/-! ### known finding: two actions in one TrustedResourceURL attribute value -/

/-- the single-action claim of `C14_tru_subst_statement` extended to two adjacent actions after the prefix:
    each substitution is validated alone (`c.attr.value` holds static text only), so this is false -/
def C14_tru_two_actions_statement : Prop :=
  ∀ (p d a b va vb : Bytes), validateTrustedResourceURLPrefix p = true → decodeURLPrefix p = some d →
    validateTrustedResourceURLSubstitution a = some va → validateTrustedResourceURLSubstitution b = some vb →
      dotDotSegments (d ++ queryEscapeURL va ++ queryEscapeURL vb) ≤ dotDotSegments d

/-- witness: `<script src="/foo/{{.A}}{{.B}}">` with A = B = "." gives `/foo/..` -/
theorem C14_false_adjacent_actions_dotdot : ¬ C14_tru_two_actions_statement := by
  intro h
  have := h [47, 102, 111, 111, 47] [47, 102, 111, 111, 47] [46] [46] [46] [46] (by decide) (by decide) (by decide) (by decide)
  revert this
  decide

/-! ### Non-vacuity -/
-- queryEscape "a&b=c/d" = "a%26b%3dc%2fd"
example : queryEscapeURL [97, 38, 98, 61, 99, 47, 100] = [97, 37, 50, 54, 98, 37, 51, 100, 99, 37, 50, 102, 100] := by decide
-- normalize "a b%41%zz'" = "a%20b%41%25zz%27"
example : normalizeURL [97, 32, 98, 37, 52, 49, 37, 122, 122, 39] =
    [97, 37, 50, 48, 98, 37, 52, 49, 37, 50, 53, 122, 122, 37, 50, 55] := by decide
-- ".." and "%2E." are refused after a TrustedResourceURL prefix, "a.b" is not
example : validateTrustedResourceURLSubstitution [46, 46] = none := by decide
example : validateTrustedResourceURLSubstitution [37, 50, 69, 46] = none := by decide
example : validateTrustedResourceURLSubstitution [97, 46, 98] = some [97, 46, 98] := by decide
-- "/a?" accepted and puts the action into the query; "/a" normalises; "j" and "/a&#" and "/a%2" and "/a b" are refused
example : chooseChain .truOrUrl [47, 97, 63] = some .query := by decide
example : chooseChain .truOrUrl [47, 97] = some .norm := by decide
example : chooseChain .url [106] = none := by decide
example : chooseChain .url [47, 97, 38, 35] = none := by decide
example : chooseChain .url [47, 97, 37, 50] = none := by decide
example : chooseChain .url [47, 97, 32, 98] = none := by decide
-- "/a/" accepted as TrustedResourceURL prefix, "/a/." is not (after the fix)
example : chooseChain .tru [47, 97, 47] = some .queryNoDotDot := by decide
theorem C14_nonvacuity_tru_dot_segment_prefix_rejected : chooseChain .tru [47, 97, 47, 46] = none := by decide
-- "/a/x." stays accepted: "x." + "." = "x.." is not a dot segment
example : chooseChain .tru [47, 97, 47, 120, 46] = some .queryNoDotDot := by decide
example : dotDotSegments [47, 97, 47, 120, 46, 46] = 0 := by decide
example : dotDotSegments [47, 97, 47, 37, 50, 69, 46, 47, 98] = 1 := by decide

end SafeHtml.Props.C14
