/-
C11 — URLSanitized returns its input or the innocuous URL, and never a javascript: URL.

Statements only (proof machinery: Proofs/RxMore, Proofs/Utf8More, Proofs/UrlRx, Proofs/UrlScheme).
Spec vocabulary: Spec/UrlScheme (WHATWG input preprocessing + scheme start / scheme states, one round
of character-reference decoding as the law `DecLaw`, the two completeness predicates of the property text).

Model: Model/Url.lean. `strings.ToLower` is modelled by `toLowerForScheme` (ASCII upper-case lowered,
U+0130 ↦ 'i', U+212A ↦ 'k', every other non-ASCII rune kept, invalid byte ↦ U+FFFD); the harness validates
exhaustively over all runes that these are the only runes whose `unicode.ToLower` is ASCII, and compares
`URLSanitized` itself on every generated input.
-/
import SafeHtml.Proofs.UrlScheme
namespace SafeHtml.Props.C11
open SafeHtml SafeHtml.Rx SafeHtml.Model SafeHtml.UrlRx SafeHtml.UrlSchemeFacts SafeHtml.Spec.UrlScheme
open SafeHtml.Generated.Regexes

/-! ### obligations on regenerated facts -/

/-- the regenerated `safeURLPattern` means: "`[a-z0-9+.-]+` then ':'" (capture = that run), else
    "longest run without `& : / ? #`, then `/ ? #` or end" (no capture) — `handCaps`, Proofs/UrlRx. -/
theorem rx_safeURLPattern (t : Bytes) :
    ∃ w, findSubmatch safehtml_safeURLPattern safehtml_safeURLPattern_ncap t =
      (handCaps t).map (fun c => [some w, c]) :=
  UrlRx.rx_safeURLPattern t

/-- the regenerated `InnocuousURL` constant is the value named in the property text -/
theorem gen_innocuousURL : Generated.Tables.innocuousURL = innocuous := by decide

/-- the model's constant "javascript" is the spec's -/
theorem jsScheme_eq : jsScheme = javascript := rfl

/-- the innocuous URL passes its own check (so `URLSanitized` is idempotent on it) -/
theorem innocuous_isSafe : isSafeURL Generated.Tables.innocuousURL = true := by
  rw [gen_innocuousURL]
  exact accept_scheme [98, 111, 117, 116] [105, 110, 118, 97, 108, 105, 100, 35, 122, 71, 111, 83, 97, 102, 101, 122] 97
    (by decide) (by decide)

/-! ### property theorems (every byte string `s`; no well-formedness hypothesis is needed) -/

/-- clause 1: the result is `s` unchanged or the fixed value `about:invalid#zGoSafez` -/
theorem C11_shape (s : Bytes) : urlSanitized s = s ∨ urlSanitized s = innocuous := by
  unfold urlSanitized
  cases isSafeURL s
  · right; simpa using gen_innocuousURL
  · left; rfl

theorem returned_isSafe (s : Bytes) (h : urlSanitized s = s) : isSafeURL s = true := by
  unfold urlSanitized at h
  cases hs : isSafeURL s with
  | true => rfl
  | false =>
    rw [hs] at h
    simp only [Bool.false_eq_true, if_false] at h
    rw [← h, innocuous_isSafe] at hs
    exact hs.symm

/-- core of clause 2: if one round of reference decoding (any decoder obeying `DecLaw`) makes a WHATWG
    parser see the javascript scheme, the URL is rejected -/
theorem shape_rejected (dec : Bytes → Bytes) (hdec : DecLaw dec) (s pfx q : Bytes)
    (hds : dec s = pfx ++ 58 :: q) (hpfx : ∀ b ∈ pfx, b ≤ 32 ∨ isAlpha b = true)
    (hjs : (∀ b ∈ pfx, isAlpha b = true) → pfx.map asciiLower = javascript) : isSafeURL s = false := by
  obtain ⟨p0, q0, hs, _, _, hp0, hq0⟩ := span_split (fun b => b != 38) s
  have hp38 : 38 ∉ p0 := by
    intro hm; have := hp0 38 hm; simp at this
  have hdecs : dec s = p0 ++ dec q0 := by rw [hs]; exact hdec.keep p0 q0 hp38
  rw [hdecs] at hds
  rcases List.append_eq_append_iff.1 hds with ⟨a', h1, h2⟩ | ⟨c', h1, h2⟩
  · -- the colon comes out of the decoded part: s has an '&' after letters / C0 / space
    rcases hq0 with rfl | ⟨d, q0', rfl, hd⟩
    · rw [hdec.nil] at h2
      cases a' <;> simp at h2
    · have hd38 : d = 38 := by simpa using hd
      subst hd38
      rw [hs]
      apply reject p0 q0' 38 (Or.inr rfl)
      · intro b hb; exact hpfx b (by rw [h1]; simp [hb])
      · intro h; cases h
  · cases c' with
    | nil =>
      rw [List.append_nil] at h1
      rw [List.nil_append] at h2
      rcases hq0 with rfl | ⟨d, q0', rfl, hd⟩
      · rw [hdec.nil] at h2; cases h2
      · have hd38 : d = 38 := by simpa using hd
        subst hd38
        rw [hs, h1]
        apply reject pfx q0' 38 (Or.inr rfl) hpfx
        intro h; cases h
    | cons x c'' =>
      simp only [List.cons_append, List.cons.injEq] at h2
      obtain ⟨rfl, _⟩ := h2
      rw [hs, h1, List.append_assoc, List.cons_append]
      exact reject pfx (c'' ++ q0) 58 (Or.inl rfl) hpfx (fun _ => hjs)

theorem js_rejected (dec : Bytes → Bytes) (hdec : DecLaw dec) (s : Bytes)
    (h : whatwgScheme (dec s) = some javascript) : isSafeURL s = false := by
  obtain ⟨pfx, q, hds, hpfx, hjs⟩ := whatwg_js_shape _ h
  exact shape_rejected dec hdec s pfx q hds hpfx hjs

/-- the same for the code-point reading: the parser sees Go's decoding of the (decoded) string -/
theorem js_rejected_runes (dec : Bytes → Bytes) (hdec : DecLaw dec) (s : Bytes)
    (h : whatwgScheme (Utf8.decodeRunes (dec s)) = some javascript) : isSafeURL s = false := by
  obtain ⟨pfx, q, hds, hpfx, hjs⟩ := whatwg_js_shape _ h
  have hascii : ∀ b ∈ pfx ++ [58], b < 128 := by
    intro b hb
    rcases List.mem_append.1 hb with hb | hb
    · rcases hpfx b hb with h1 | h1
      · omega
      · simp only [isAlpha, isLowerAlpha, isUpperAlpha, Bool.or_eq_true, Bool.and_eq_true, decide_eq_true_eq] at h1
        omega
    · simp at hb; omega
  obtain ⟨x', hx'⟩ := Utf8.runes_ascii_prefix (pfx ++ [58]) hascii (dec s) q (by simpa using hds)
  exact shape_rejected dec hdec s pfx x' (by simpa using hx') hpfx hjs

/-- clause 2: whenever `s` itself is returned, a WHATWG URL parser (leading/trailing C0 control or space
    stripped, TAB LF CR removed anywhere, scheme compared case-insensitively) finds no `javascript`
    scheme in `s`, nor in `s` after one round of character-reference decoding — for EVERY decoder that
    copies the text before the first '&' unchanged (`DecLaw`). -/
theorem C11_safe (dec : Bytes → Bytes) (hdec : DecLaw dec) (s : Bytes) (h : urlSanitized s = s) :
    whatwgScheme s ≠ some javascript ∧ whatwgScheme (dec s) ≠ some javascript := by
  have hsafe := returned_isSafe s h
  constructor
  · intro hj
    have := js_rejected id ⟨rfl, fun _ _ _ => rfl⟩ s hj
    rw [hsafe] at this; cases this
  · intro hj
    have := js_rejected dec hdec s hj
    rw [hsafe] at this; cases this

/-- clause 2 in the code-point reading (what a parser working on decoded code points sees) -/
theorem C11_safe_runes (dec : Bytes → Bytes) (hdec : DecLaw dec) (s : Bytes) (h : urlSanitized s = s) :
    whatwgScheme (Utf8.decodeRunes s) ≠ some javascript ∧
    whatwgScheme (Utf8.decodeRunes (dec s)) ≠ some javascript := by
  have hsafe := returned_isSafe s h
  constructor
  · intro hj
    have := js_rejected_runes id ⟨rfl, fun _ _ _ => rfl⟩ s hj
    rw [hsafe] at this; cases this
  · intro hj
    have := js_rejected_runes dec hdec s hj
    rw [hsafe] at this; cases this

/-- the concrete decoder of Spec/UrlScheme (numeric references and a list of named ones) obeys the law -/
theorem decodeRefs_law : DecLaw decodeRefs := by
  refine ⟨rfl, ?_⟩
  intro a b ha
  unfold decodeRefs
  induction a with
  | nil => rfl
  | cons c t ih =>
    have hc : (c == 38) = false := by
      simp only [beq_eq_false_iff_ne]; intro h; exact ha (by simp [h])
    simp only [List.cons_append, decodeGo, hc]
    rw [ih (fun hm => ha (by simp [hm]))]
    rfl

theorem C11_safe_charref (s : Bytes) (h : urlSanitized s = s) :
    whatwgScheme s ≠ some javascript ∧ whatwgScheme (decodeRefs s) ≠ some javascript :=
  C11_safe decodeRefs decodeRefs_law s h

/-- clause 3a: a string that starts with an ASCII scheme `[A-Za-z0-9+.-]+` then ':' whose lower-cased
    form is not `javascript` is returned unchanged -/
theorem C11_complete_scheme (s sch : Bytes) (h : asciiSchemePrefix s = some sch)
    (hne : sch.map asciiLower ≠ javascript) : urlSanitized s = s := by
  unfold asciiSchemePrefix at h
  obtain ⟨a, r, hs, hta, hr, ha, _⟩ := span_split isAsciiSchemeByte s
  rw [hta, hr] at h
  have hsafe : isSafeURL s = true := by
    cases a with
    | nil => simp at h
    | cons c0 a' =>
      cases r with
      | nil => simp at h
      | cons d r' =>
        by_cases hd : d = 58
        · subst hd
          simp only [Option.some.injEq] at h
          subst h
          rw [hs]
          exact accept_scheme a' r' c0 ha hne
        · exfalso
          revert h
          split
          · next c1 sch1 r1 e1 e2 => simp only [List.cons.injEq] at e2; exact absurd e2.1 hd
          · simp
  simp [urlSanitized, hsafe]

/-- clause 3b: a string in which ':' and '&' occur only after the first '/', '?' or '#' is returned unchanged -/
theorem C11_complete_relative (s : Bytes) (h : noColonAmpBeforeFirstDelim s = true) : urlSanitized s = s := by
  simp [urlSanitized, accept_relative s h]

theorem C11_complete (s : Bytes) :
    (∀ sch, asciiSchemePrefix s = some sch → sch.map asciiLower ≠ javascript → urlSanitized s = s) ∧
    (noColonAmpBeforeFirstDelim s = true → urlSanitized s = s) :=
  ⟨fun sch h hne => C11_complete_scheme s sch h hne, C11_complete_relative s⟩

/-! ### non-vacuity (explicit byte lists; evaluated by the kernel) -/

-- "javascript:alert(1)" is replaced
example : urlSanitized [106,97,118,97,115,99,114,105,112,116,58,97,108,101,114,116,40,49,41] = innocuous := by decide
-- "JaVaScRiPt:x" is replaced
example : urlSanitized [74,97,86,97,83,99,82,105,80,116,58,120] = innocuous := by decide
-- "java\tscript:x": the WHATWG parser sees javascript; the sanitizer replaces it
example : whatwgScheme [106,97,118,97,9,115,99,114,105,112,116,58,120] = some javascript := by decide
example : urlSanitized [106,97,118,97,9,115,99,114,105,112,116,58,120] = innocuous := by decide
-- " javascript:x" (leading space), "\x01javascript:x"
example : whatwgScheme [32,106,97,118,97,115,99,114,105,112,116,58,120] = some javascript := by decide
example : urlSanitized [32,106,97,118,97,115,99,114,105,112,116,58,120] = innocuous := by decide
example : urlSanitized [1,106,97,118,97,115,99,114,105,112,116,58,120] = innocuous := by decide
-- "javascript&#58;x" and "javascript&colon;x": javascript after one round of decoding; replaced
example : whatwgScheme (decodeRefs [106,97,118,97,115,99,114,105,112,116,38,35,53,56,59,120]) = some javascript := by decide
example : urlSanitized [106,97,118,97,115,99,114,105,112,116,38,35,53,56,59,120] = innocuous := by decide
example : whatwgScheme (decodeRefs [106,97,118,97,115,99,114,105,112,116,38,99,111,108,111,110,59,120]) = some javascript := by decide
example : urlSanitized [106,97,118,97,115,99,114,105,112,116,38,99,111,108,111,110,59,120] = innocuous := by decide
-- "javascrİpt:x" (U+0130 = C4 B0): Go lower-cases İ to i, so it is replaced (harmless over-rejection)
example : urlSanitized [106,97,118,97,115,99,114,196,176,112,116,58,120] = innocuous := by decide
-- "https://x/", "mailto:a", "/a:b", "a/b?c:d&e", "" are returned unchanged
example : urlSanitized [104,116,116,112,115,58,47,47,120,47] = [104,116,116,112,115,58,47,47,120,47] := by decide
example : urlSanitized [109,97,105,108,116,111,58,97] = [109,97,105,108,116,111,58,97] := by decide
example : urlSanitized [47,97,58,98] = [47,97,58,98] := by decide
example : urlSanitized [97,47,98,63,99,58,100,38,101] = [97,47,98,63,99,58,100,38,101] := by decide
example : urlSanitized [] = [] := by decide
-- "a&b" (an '&' before any delimiter) is replaced: the second completeness clause is sharp
example : urlSanitized [97,38,98] = innocuous := by decide
example : asciiSchemePrefix [72,84,84,80,58,47] = some [72,84,84,80] := by decide
example : noColonAmpBeforeFirstDelim [97,47,98,63,99,58,100,38,101] = true := by decide

end SafeHtml.Props.C11
