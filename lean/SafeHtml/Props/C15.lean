/-
C15 — StyleFromProperties emits exactly the declared CSS declarations, nothing else.
Statements, Rx / table obligations, non-vacuity examples. Helper lemmas: Proofs/RxCss.lean.
(The code proved here is the FIXED code: `[+\-.]` in safeRegularPropertyValuePattern, see fix-C15.diff;
 on the unfixed tree `rx_regular_class` fails with witness byte 44 `,`.)
-/
import SafeHtml.Model.Style
import SafeHtml.Spec.CssParse
import SafeHtml.Proofs.RxCss
import SafeHtml.Proofs.Tactics
namespace SafeHtml.Props.C15
open SafeHtml SafeHtml.Rx SafeHtml.Model SafeHtml.Generated.Regexes SafeHtml.Generated.StyleFields
open SafeHtml.Spec.Css

/-! ### the documented alphabets (doc comment of `StyleProperties`) -/

def isEnumChar (c : Nat) : Bool := isAlpha c || c == 45

/-- alphanumerics, space, tab, and the set `+-.!#%_/*` -/
def docRegularChar (c : Nat) : Bool :=
  isAlnum c || c == 32 || c == 9 || c == 43 || c == 45 || c == 46 || c == 33 || c == 35 || c == 37 ||
  c == 95 || c == 47 || c == 42

/-- no `//`, `/*`, `*/` -/
def noCommentMarkers : List Nat → Bool
  | a :: b :: t =>
    !((a == 47 && b == 47) || (a == 47 && b == 42) || (a == 42 && b == 47)) && noCommentMarkers (b :: t)
  | _ => true

def docRegular (v : Bytes) : Bool := v.all docRegularChar && noCommentMarkers v
def docEnum (v : Bytes) : Bool := v.all isEnumChar

/-- the reviewed (documented) property names, in the documented order -/
def reviewedNames : List String :=
  ["background-image", "font-family", "display", "background-color", "background-position",
   "background-repeat", "background-size", "color", "height", "width", "left", "right", "top", "bottom",
   "font-weight", "padding", "z-index"]

/-! ### obligations on regenerated data -/

theorem fields_reviewed : fields.map (·.cssName) = reviewedNames := by decide

/-- the same names as bytes -/
def reviewedCss : List (List Nat) := [
   [98, 97, 99, 107, 103, 114, 111, 117, 110, 100, 45, 105, 109, 97, 103, 101],
   [102, 111, 110, 116, 45, 102, 97, 109, 105, 108, 121],
   [100, 105, 115, 112, 108, 97, 121],
   [98, 97, 99, 107, 103, 114, 111, 117, 110, 100, 45, 99, 111, 108, 111, 114],
   [98, 97, 99, 107, 103, 114, 111, 117, 110, 100, 45, 112, 111, 115, 105, 116, 105, 111, 110],
   [98, 97, 99, 107, 103, 114, 111, 117, 110, 100, 45, 114, 101, 112, 101, 97, 116],
   [98, 97, 99, 107, 103, 114, 111, 117, 110, 100, 45, 115, 105, 122, 101],
   [99, 111, 108, 111, 114],
   [104, 101, 105, 103, 104, 116],
   [119, 105, 100, 116, 104],
   [108, 101, 102, 116],
   [114, 105, 103, 104, 116],
   [116, 111, 112],
   [98, 111, 116, 116, 111, 109],
   [102, 111, 110, 116, 45, 119, 101, 105, 103, 104, 116],
   [112, 97, 100, 100, 105, 110, 103],
   [122, 45, 105, 110, 100, 101, 120]]

theorem fields_css_reviewed : fields.map (·.css) = reviewedCss := by decide

theorem fields_css_clean : ∀ f ∈ fields, ∀ c ∈ f.css, isEnumChar c = true := by decide

theorem pieces_reviewed :
    listSep = [44, 32] ∧ urlOpen = [117, 114, 108, 40, 34] ∧ urlClose = [34, 41] ∧ fontOpen = [34] ∧ fontClose = [34] := by
  decide

theorem innocuous_is_enum : Generated.Tables.innocuousPropertyValue.all isEnumChar = true := by decide

theorem rx_safeEnum (s : Bytes) :
    matchString safehtml_safeEnumPropertyValuePattern s = s.all isEnumChar := by
  unfold safehtml_safeEnumPropertyValuePattern
  rw [match_bot_star_eot_bytes _ (by decide)]
  congr 1
  funext b
  simp only [inCls, List.any, isEnumChar, isAlpha, isLowerAlpha, isUpperAlpha, Bool.or_false]
  cls_arith

/-- the two classes of the regenerated `safeRegularPropertyValuePattern` -/
def regA : List (Nat × Nat) := [(42, 42), (47, 47)]
def regS : List (Nat × Nat) :=
  [(9, 9), (32, 33), (35, 35), (37, 37), (43, 43), (45, 46), (48, 57), (65, 90), (95, 95), (97, 122)]

theorem rx_safeRegular (s : Bytes) :
    matchString safehtml_safeRegularPropertyValuePattern s = regOKs regA regS (Utf8.decodeSyms s) := by
  unfold safehtml_safeRegularPropertyValuePattern
  exact match_regular_shape _ _ s

/-- the "safe rune" class is the documented alphabet minus `*` and `/` (this is the lemma that fails on
    the unfixed `[+-.]`, which also admits 44 `,`) -/
theorem rx_regular_class (c : Nat) :
    inCls regS c = (docRegularChar c && c != 42 && c != 47) := by
  simp only [inCls, regS, List.any, docRegularChar, isAlnum, isAlpha, isLowerAlpha, isUpperAlpha, isDigit, Bool.or_false]
  cls_arith

theorem rx_regular_classA (c : Nat) : inCls regA c = (c == 42 || c == 47) := by
  simp only [inCls, regA, List.any, Bool.or_false]
  cls_arith

theorem docRegularChar_ascii (c : Nat) (h : docRegularChar c = true) : c < 128 := by
  simp only [docRegularChar, isAlnum, isAlpha, isLowerAlpha, isUpperAlpha, isDigit, Bool.or_eq_true,
    Bool.and_eq_true, decide_eq_true_eq, beq_iff_eq] at h
  omega

theorem ncm_cons_safe (d : Nat) (l : List Nat) (h1 : d ≠ 42) (h2 : d ≠ 47) :
    noCommentMarkers (d :: l) = noCommentMarkers l := by
  cases l with
  | nil => simp [noCommentMarkers]
  | cons x t =>
    have e1 : (d == 47) = false := by simp [h2]
    have e2 : (d == 42) = false := by simp [h1]
    rw [noCommentMarkers]
    simp [e1, e2]

theorem regOKs_doc : ∀ (n : Nat) (syms : List Sym), syms.length ≤ n → regOKs regA regS syms = true →
    (syms.map (·.rune)).all docRegularChar = true ∧ noCommentMarkers (syms.map (·.rune)) = true := by
  intro n
  induction n with
  | zero =>
    intro syms hn _
    have : syms = [] := by cases syms <;> simp_all
    subst this; simp [noCommentMarkers]
  | succ n ih =>
    intro syms hn h
    cases syms with
    | nil => simp [noCommentMarkers]
    | cons c t =>
      have hln : t.length ≤ n := by simp at hn; omega
      have hAdoc : inCls regA c.rune = true → docRegularChar c.rune = true := by
        intro hA
        rw [rx_regular_classA] at hA
        simp only [Bool.or_eq_true, beq_iff_eq] at hA
        rcases hA with h | h <;> simp [docRegularChar, h]
      cases t with
      | nil =>
        simp only [regOKs, Bool.and_true, Bool.or_eq_true] at h
        have hc : docRegularChar c.rune = true := by
          rcases h with h | h
          · exact hAdoc h
          · rw [rx_regular_class] at h; simp only [Bool.and_eq_true] at h; exact h.1.1
        simp [hc, noCommentMarkers]
      | cons d t' =>
        simp only [regOKs, Bool.or_eq_true, Bool.and_eq_true] at h
        rcases h with ⟨hA, hd, ht⟩ | ⟨hS, ht⟩
        · have hc := hAdoc hA
          rw [rx_regular_class] at hd
          simp only [Bool.and_eq_true, bne_iff_ne, ne_eq] at hd
          have := ih t' (by simp at hln; omega) ht
          simp only [List.map_cons, List.all_cons, Bool.and_eq_true]
          refine ⟨⟨hc, hd.1.1, this.1⟩, ?_⟩
          rw [noCommentMarkers, ncm_cons_safe _ _ hd.1.2 hd.2, this.2]
          have e1 : (d.rune == 47) = false := by simp [hd.2]
          have e2 : (d.rune == 42) = false := by simp [hd.1.2]
          simp [e1, e2]
        · rw [rx_regular_class] at hS
          simp only [Bool.and_eq_true, bne_iff_ne, ne_eq] at hS
          have := ih (d :: t') hln (by simpa [regOKs] using ht)
          simp only [List.map_cons, List.all_cons, Bool.and_eq_true] at this ⊢
          refine ⟨⟨hS.1.1, this.1⟩, ?_⟩
          rw [ncm_cons_safe _ _ hS.1.2 hS.2, this.2]

/-- a value accepted by the (fixed) regular pattern lies in the documented alphabet, without comment markers -/
theorem rx_safeRegular_doc (s : Bytes) (h : matchString safehtml_safeRegularPropertyValuePattern s = true) :
    docRegular s = true := by
  rw [rx_safeRegular] at h
  have hd := regOKs_doc _ _ (Nat.le_refl _) h
  have hascii : (Utf8.decodeSyms s).all (fun x => decide (x.rune < 128)) = true := by
    rw [List.all_eq_true]
    intro x hx
    have := hd.1
    rw [List.all_eq_true] at this
    have := this x.rune (List.mem_map_of_mem hx)
    simpa using docRegularChar_ascii _ this
  have hr : (Utf8.decodeSyms s).map (·.rune) = s := Utf8.runes_eq_of_all_ascii s hascii
  rw [hr] at hd
  simp [docRegular, hd.1, hd.2]

theorem innocuous_is_regular : docRegular Generated.Tables.innocuousPropertyValue = true := by decide

/-! ### C15_filter -/

/-- enum fields: inside the documented alphabet the value is kept, outside it becomes the innocuous value -/
theorem C15_filter_enum (v : Bytes) :
    filter v safehtml_safeEnumPropertyValuePattern =
      if docEnum v then v else Generated.Tables.innocuousPropertyValue := by
  unfold filter docEnum
  rw [rx_safeEnum]
  cases v.all isEnumChar <;> simp

/-- regular fields: a value outside the documented alphabet (or with a comment marker) becomes the innocuous value;
    whatever is emitted is the value itself or the innocuous value -/
theorem C15_filter_regular (v : Bytes) :
    (docRegular v = false → filter v safehtml_safeRegularPropertyValuePattern = Generated.Tables.innocuousPropertyValue) ∧
    (filter v safehtml_safeRegularPropertyValuePattern = v ∨
      filter v safehtml_safeRegularPropertyValuePattern = Generated.Tables.innocuousPropertyValue) := by
  unfold filter
  cases hm : matchString safehtml_safeRegularPropertyValuePattern v
  · simp
  · have := rx_safeRegular_doc v hm
    simp [this]

/-- per field: what `StyleFromProperties` emits for a plain field -/
theorem C15_filter (p : StyleProps) (f : Field) (v : Bytes) (hf : fieldValue p f = some v) :
    (f.kind = .enum → v = if docEnum (p.val f.goName) then p.val f.goName else Generated.Tables.innocuousPropertyValue) ∧
    (f.kind = .regular → (docRegular (p.val f.goName) = false → v = Generated.Tables.innocuousPropertyValue) ∧
        (v = p.val f.goName ∨ v = Generated.Tables.innocuousPropertyValue) ∧ docRegular v = true) := by
  constructor
  · intro hk
    simp only [fieldValue, hk] at hf
    split at hf
    · simp at hf
    · simp only [Option.some.injEq] at hf; rw [← hf, C15_filter_enum]
  · intro hk
    simp only [fieldValue, hk] at hf
    split at hf
    · simp at hf
    · simp only [Option.some.injEq] at hf
      have h := C15_filter_regular (p.val f.goName)
      rw [hf] at h
      refine ⟨h.1, h.2, ?_⟩
      rcases h.2 with e | e
      · -- kept: it matched
        rw [← hf]
        unfold filter
        cases hm : matchString safehtml_safeRegularPropertyValuePattern (p.val f.goName)
        · simp [innocuous_is_regular]
        · simpa using rx_safeRegular_doc _ hm
      · rw [e]; exact innocuous_is_regular

/-! ### C15_bg -/

/-- every background-image element is `url("` + cssEscapeString(u') + `")` where `u'` is the URL itself and
    `isSafeURL` approves it, or `u'` is the innocuous URL -/
theorem C15_bg (u : Bytes) :
    ∃ u', urlItem u = urlOpen ++ cssEscapeString u' ++ urlClose ∧
      ((u' = u ∧ isSafeURL u = true) ∨ u' = Generated.Tables.innocuousURL) := by
  refine ⟨urlSanitized u, rfl, ?_⟩
  unfold urlSanitized
  cases h : isSafeURL u <;> simp

/-! ### C15_ends -/

theorem emitField_ends (p : StyleProps) (f : Field) :
    emitField p f = [] ∨ (emitField p f).getLast? = some 59 := by
  unfold emitField
  cases fieldValue p f with
  | none => left; rfl
  | some v => right; rw [List.getLast?_append]; rfl

theorem C15_ends_with (fs : List Field) (p : StyleProps) :
    styleFromPropertiesWith fs p = [] ∨ (styleFromPropertiesWith fs p).getLast? = some 59 := by
  induction fs with
  | nil => left; rfl
  | cons f fs ih =>
    simp only [styleFromPropertiesWith, List.flatMap_cons] at ih ⊢
    rcases ih with h | h
    · rw [h, List.append_nil]; exact emitField_ends p f
    · right
      rw [List.getLast?_append, h]; rfl

/-- the result is empty or ends with `;` -/
theorem C15_ends (p : StyleProps) :
    styleFromProperties p = [] ∨ (styleFromProperties p).getLast? = some 59 :=
  C15_ends_with fields p

/-! ### C15_no_lt and the string-escaping alphabet -/

/-- bytes that may appear raw inside a `"`-delimited CSS string written by `cssEscapeString` -/
def rawStringByte (c : Nat) : Bool := c != 34 && c != 92 && c != 60 && c != 127 && 32 ≤ c

def isUpperHex (c : Nat) : Bool := isDigit c || (65 ≤ c && c ≤ 70)

/-- `(raw byte | \HHHHHH)*` : no raw quote, backslash, newline, control or `<`; every backslash starts a
    six-digit upper-case hex escape -/
def strSafe : Bytes → Bool
  | [] => true
  | c :: t =>
    if c == 92 then
      match t with
      | a :: b :: d :: e :: g :: h :: t' =>
        isUpperHex a && isUpperHex b && isUpperHex d && isUpperHex e && isUpperHex g && isUpperHex h && strSafe t'
      | _ => false
    else rawStringByte c && strSafe t

theorem strSafe_cons (c : Nat) (t : Bytes) :
    strSafe (c :: t) =
      if c == 92 then
        match t with
        | a :: b :: d :: e :: g :: h :: t' =>
          isUpperHex a && isUpperHex b && isUpperHex d && isUpperHex e && isUpperHex g && isUpperHex h && strSafe t'
        | _ => false
      else rawStringByte c && strSafe t := by
  cases t with
  | nil => simp [strSafe]
  | cons a t => cases t with
    | nil => simp [strSafe]
    | cons b t => cases t with
      | nil => simp [strSafe]
      | cons d t => cases t with
        | nil => simp [strSafe]
        | cons e t => cases t with
          | nil => simp [strSafe]
          | cons g t => cases t with
            | nil => simp [strSafe]
            | cons h t => simp [strSafe]

theorem enum_doc (v : Bytes) (h : v.all isEnumChar = true) : docRegular v = true := by
  simp only [docRegular, Bool.and_eq_true]
  constructor
  · rw [List.all_eq_true] at h ⊢
    intro x hx
    have := h x hx
    simp only [isEnumChar, Bool.or_eq_true, beq_iff_eq] at this
    simp only [docRegularChar, isAlnum, Bool.or_eq_true, beq_iff_eq]
    rcases this with h | h <;> simp [h]
  · induction v with
    | nil => rfl
    | cons c t ih =>
      simp only [List.all_cons, Bool.and_eq_true] at h
      have hc := h.1
      simp only [isEnumChar, isAlpha, isLowerAlpha, isUpperAlpha, Bool.or_eq_true, Bool.and_eq_true,
        decide_eq_true_eq, beq_iff_eq] at hc
      rw [ncm_cons_safe _ _ (by omega) (by omega)]
      exact ih h.2

theorem hexDigitUpper_ok (n : Nat) : isUpperHex (hexDigitUpper (n % 16)) = true := by
  have : n % 16 < 16 := Nat.mod_lt _ (by omega)
  simp only [isUpperHex, hexDigitUpper, isDigit]
  split <;> simp <;> omega

theorem strSafe_raw_append (a b : Bytes) (ha : a.all (fun c => rawStringByte c) = true) :
    strSafe (a ++ b) = strSafe b := by
  induction a with
  | nil => rfl
  | cons c t ih =>
    simp only [List.all_cons, Bool.and_eq_true] at ha
    have h92 : (c == 92) = false := by
      have := ha.1; simp only [rawStringByte, Bool.and_eq_true, bne_iff_ne, ne_eq] at this; simp [this.1.1.1.2]
    rw [List.cons_append, strSafe_cons]
    simp [h92, ha.1, ih ha.2]

theorem encodeRune_raw (c : Nat) (h : cssMustEscape c = false) (h0 : c ≠ 0) :
    (Utf8.encodeRune c).all (fun c => rawStringByte c) = true := by
  simp only [cssMustEscape, Bool.or_eq_false_iff, beq_eq_false_iff_ne, ne_eq, decide_eq_false_iff_not,
    Bool.and_eq_false_iff] at h
  unfold Utf8.encodeRune
  split
  · simp [rawStringByte]; omega
  · split
    · simp [rawStringByte]; omega
    · split
      · simp [rawStringByte]
      · split
        · simp [rawStringByte]; omega
        · simp [rawStringByte]; omega

theorem strSafe_escRune (c : Nat) (rest : Bytes) : strSafe (cssEscapeRune c ++ rest) = strSafe rest := by
  unfold cssEscapeRune
  split
  · exact strSafe_raw_append _ _ (by decide)
  · split
    · simp [hex6Upper, strSafe_cons, hexDigitUpper_ok]
    · rename_i h0 h1
      exact strSafe_raw_append _ _ (encodeRune_raw c (by simpa using h1) (by simpa using h0))

/-- `cssEscapeString` never emits a raw `"`, `\`, newline, control character or `<` -/
theorem cssEscapeString_safe (s : Bytes) : strSafe (cssEscapeString s) = true := by
  unfold cssEscapeString
  induction Utf8.decodeRunes s with
  | nil => rfl
  | cons c t ih => rw [List.flatMap_cons, strSafe_escRune]; exact ih

theorem strSafe_no_lt : ∀ (n : Nat) (s : Bytes), s.length ≤ n → strSafe s = true → 60 ∉ s := by
  intro n
  induction n with
  | zero => intro s hn _; have : s = [] := by cases s <;> simp_all
            subst this; simp
  | succ n ih =>
    intro s hn h
    cases s with
    | nil => simp
    | cons c t =>
      rw [strSafe_cons] at h
      split at h
      · rename_i h92
        split at h
        · rename_i a b d e5 g k t'
          simp only [Bool.and_eq_true] at h
          have := ih t' (by simp at hn; omega) h.2
          have hx : ∀ x, isUpperHex x = true → x ≠ 60 := by
            intro x hx; simp only [isUpperHex, isDigit, Bool.or_eq_true, Bool.and_eq_true, decide_eq_true_eq] at hx; omega
          have h92' : c = 92 := by simpa using h92
          simp only [List.mem_cons, not_or]
          refine ⟨by omega, fun e => hx a h.1.1.1.1.1.1 e.symm, fun e => hx b h.1.1.1.1.1.2 e.symm,
            fun e => hx d h.1.1.1.1.2 e.symm, fun e => hx e5 h.1.1.1.2 e.symm, fun e => hx g h.1.1.2 e.symm,
            fun e => hx k h.1.2 e.symm, this⟩
        · simp at h
      · simp only [Bool.and_eq_true] at h
        have := ih t (by simp at hn; omega) h.2
        have hc : c ≠ 60 := by
          have := h.1; simp only [rawStringByte, Bool.and_eq_true, bne_iff_ne, ne_eq] at this; exact this.1.1.2
        simp only [List.mem_cons, not_or]
        exact ⟨fun e => hc e.symm, this⟩

theorem cssEscapeString_no_lt (s : Bytes) : 60 ∉ cssEscapeString s :=
  strSafe_no_lt _ _ (Nat.le_refl _) (cssEscapeString_safe s)

theorem all_no_lt (v : Bytes) (p : Nat → Bool) (hp : p 60 = false) (h : v.all p = true) : 60 ∉ v := by
  intro hm
  rw [List.all_eq_true] at h
  have := h 60 hm
  simp [hp] at this

theorem joinSep_no_lt (xs : List Bytes) (h : ∀ x ∈ xs, 60 ∉ x) : 60 ∉ joinSep listSep xs := by
  induction xs with
  | nil => simp [joinSep]
  | cons x t ih =>
    cases t with
    | nil => simpa [joinSep] using h x (by simp)
    | cons y t' =>
      simp only [joinSep, List.mem_append, not_or]
      refine ⟨⟨h x (by simp), by decide⟩, ih (fun z hz => h z (by simp [hz]))⟩

theorem rx_identifier_ascii (s : Bytes) (h : matchString safehtml_identifierPattern s = true) : 60 ∉ s := by
  unfold safehtml_identifierPattern at h
  rw [match_bot_cls_plus_eot] at h
  have hall : (Utf8.decodeSyms s).all (fun x => inCls [(45, 45), (65, 90), (97, 122)] x.rune) = true := by
    generalize Utf8.decodeSyms s = syms at h
    match syms, h with
    | c :: d :: t, h =>
      simp only [Bool.and_eq_true] at h
      simp only [List.all_cons, Bool.and_eq_true]
      refine ⟨?_, h.1.2, h.2⟩
      have := h.1.1
      simp only [inCls, List.any, Bool.or_false, Bool.or_eq_true, Bool.and_eq_true, decide_eq_true_eq] at this ⊢
      omega
  rw [Utf8.all_ascii_iff _ (inCls_ascii _ (by decide))] at hall
  exact all_no_lt s _ (by decide) hall

theorem fieldValue_no_lt (p : StyleProps) (f : Field) (v : Bytes) (h : fieldValue p f = some v) : 60 ∉ v := by
  unfold fieldValue at h
  split at h
  · split at h
    · simp at h
    · simp only [Option.some.injEq] at h; subst h
      apply joinSep_no_lt
      intro x hx
      simp only [List.mem_map] at hx
      obtain ⟨u, _, rfl⟩ := hx
      simp only [urlItem, List.mem_append, not_or]
      exact ⟨⟨by decide, cssEscapeString_no_lt _⟩, by decide⟩
  · split at h
    · simp at h
    · simp only [Option.some.injEq] at h; subst h
      apply joinSep_no_lt
      intro x hx
      simp only [List.mem_map] at hx
      obtain ⟨u, _, rfl⟩ := hx
      unfold fontItem
      split
      · rename_i hm; exact rx_identifier_ascii u hm
      · simp only [List.mem_append, not_or]
        exact ⟨⟨by decide, cssEscapeString_no_lt _⟩, by decide⟩
  · split at h
    · simp at h
    · simp only [Option.some.injEq] at h; subst h
      rw [C15_filter_enum]
      split
      · rename_i hd; exact all_no_lt _ _ (by decide) hd
      · decide
  · split at h
    · simp at h
    · simp only [Option.some.injEq] at h; subst h
      rcases (C15_filter_regular (p.val f.goName)).2 with e | e
      · have : docRegular (filter (p.val f.goName) safehtml_safeRegularPropertyValuePattern) = true := by
          unfold filter
          cases hm : matchString safehtml_safeRegularPropertyValuePattern (p.val f.goName)
          · simp [innocuous_is_regular]
          · simpa using rx_safeRegular_doc _ hm
        simp only [docRegular, Bool.and_eq_true] at this
        exact all_no_lt _ _ (by decide) this.1
      · rw [e]; decide

theorem no_lt_with (fs : List Field) (hfs : ∀ f ∈ fs, 60 ∉ f.css) (p : StyleProps) :
    60 ∉ styleFromPropertiesWith fs p := by
  induction fs with
  | nil => simp [styleFromPropertiesWith]
  | cons f fs ih =>
    simp only [styleFromPropertiesWith, List.flatMap_cons, List.mem_append, not_or] at ih ⊢
    refine ⟨?_, ih (fun g hg => hfs g (by simp [hg]))⟩
    unfold emitField
    cases hv : fieldValue p f with
    | none => simp
    | some v =>
      simp only [List.mem_append, not_or, List.mem_singleton]
      exact ⟨⟨⟨hfs f (by simp), by omega⟩, fieldValue_no_lt p f v hv⟩, by omega⟩

/-- no `<` anywhere in the result -/
theorem C15_no_lt (p : StyleProps) : 60 ∉ styleFromProperties p :=
  no_lt_with fields (by decide) p

/-! ### the full statement, and what is proved of it -/

def declName? : Item → Option (List Nat)
  | .decl d => some d.name
  | _ => none

/-- C15 at full strength: under the CSS Syntax 3 tokenizer and declaration-list parser the result is exactly one
    declaration per non-empty field with the documented name, in order; no comment, bad / unterminated token or
    open block; empty or ends with `;`; no `<`; plain values filtered; URLs sanitized and string-escaped. -/
def C15_statement : Prop :=
  ∀ p : StyleProps,
    (declList (tokenize (Utf8.decodeRunes (styleFromProperties p)))).map declName? =
        (fields.filter (fun f => (fieldValue p f).isSome)).map (fun f => some f.css) ∧
    (tokenizeC (Utf8.decodeRunes (styleFromProperties p))).all (fun t => !isBadTok t && !isComment t) = true ∧
    (∀ d, Item.decl d ∈ declList (tokenize (Utf8.decodeRunes (styleFromProperties p))) → allClosedL d.value = true) ∧
    (styleFromProperties p = [] ∨ (styleFromProperties p).getLast? = some 59) ∧
    60 ∉ styleFromProperties p

/-- What is proved for ALL inputs: the last two clauses of `C15_statement`, `C15_filter`, `C15_bg`, and the
    character-level invariants that the tokenizer clauses rest on — every plain value is in the documented alphabet
    without comment markers (`C15_filter`), every string body satisfies `strSafe` (`cssEscapeString_safe`), names and
    literal pieces are the reviewed ones (`fields_css_reviewed`, `pieces_reviewed`).
    MISSING: the first three clauses, i.e. the lemma that `Spec.Css.tokensC`, run over a value of those two
    alphabets followed by `;`, emits only non-bracket, non-`;` tokens (resp. closed string tokens) and stops at the
    `;`. Those clauses are checked by `Oracle.C15` on every real output of every run instead. -/
theorem C15_partial (p : StyleProps) :
    (styleFromProperties p = [] ∨ (styleFromProperties p).getLast? = some 59) ∧
    60 ∉ styleFromProperties p ∧
    (∀ f v, fieldValue p f = some v → f.kind = .regular ∨ f.kind = .enum →
        docRegular v = true ∧ (v = p.val f.goName ∨ v = Generated.Tables.innocuousPropertyValue)) ∧
    (∀ u, strSafe (cssEscapeString u) = true) :=
  ⟨C15_ends p, C15_no_lt p, by
    intro f v hv hk
    have h := C15_filter p f v hv
    rcases hk with hk | hk
    · have := h.2 hk; exact ⟨this.2.2, this.2.1⟩
    · have := h.1 hk
      by_cases hd : docEnum (p.val f.goName) = true
      · simp only [hd, if_true] at this
        refine ⟨?_, Or.inl this⟩
        subst this
        exact enum_doc _ hd
      · simp only [hd] at this
        exact ⟨by rw [this]; exact innocuous_is_regular, Or.inr this⟩,
   cssEscapeString_safe⟩

/-! ### Non-vacuity -/
-- Color "a,b" is filtered (fixed code); Color "1px" kept; Display "a b" filtered
example : filter [97, 44, 98] safehtml_safeRegularPropertyValuePattern = Generated.Tables.innocuousPropertyValue := by decide
example : filter [49, 112, 120] safehtml_safeRegularPropertyValuePattern = [49, 112, 120] := by decide
example : filter [97, 32, 98] safehtml_safeEnumPropertyValuePattern = Generated.Tables.innocuousPropertyValue := by decide
example : cssEscapeString [34, 0, 10, 60, 97] =
    [92, 48, 48, 48, 48, 50, 50, 0xEF, 0xBF, 0xBD, 92, 48, 48, 48, 48, 48, 65, 92, 48, 48, 48, 48, 51, 67, 97] := by decide


/-- Color = "red", Width = "a;b", one URL `x")`, fonts `serif` and `a b` -/
def pEx : StyleProps :=
  { lists := [("BackgroundImageURLs", [[120, 34, 41]]), ("FontFamily", [[115, 101, 114, 105, 102], [97, 32, 98]])],
    vals := [("Color", [114, 101, 100]), ("Width", [97, 59, 98])] }

-- the tokenizer-level clauses of `C15_statement` on that instance (kernel evaluation of Spec.Css)
set_option maxRecDepth 20000 in
example : (declList (tokenize (Utf8.decodeRunes (styleFromProperties pEx)))).map declName? =
    (fields.filter (fun f => (fieldValue pEx f).isSome)).map (fun f => some f.css) := by decide
set_option maxRecDepth 20000 in
example : (declList (tokenize (Utf8.decodeRunes (styleFromProperties pEx)))).length = 4 := by decide
set_option maxRecDepth 20000 in
example : (tokenizeC (Utf8.decodeRunes (styleFromProperties pEx))).all (fun t => !isBadTok t && !isComment t) = true := by
  decide

end SafeHtml.Props.C15
