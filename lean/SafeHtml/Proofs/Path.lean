/-
Lemmas about `Spec.Path` (lexical Unix `Clean`/`Join`), all by induction, for all byte lists.
Used by Props/C20.lean. Core Lean only.
-/
import SafeHtml.Spec.Path
namespace SafeHtml.Spec.Path
open SafeHtml

/-! ### splitSep / joinSep -/

theorem splitSep_ne_nil (p : Bytes) : splitSep p ≠ [] := by
  cases p with
  | nil => simp [splitSep]
  | cons c t =>
    unfold splitSep
    split
    · simp
    · split <;> simp

theorem splitSep_cons_sep (t : Bytes) : splitSep (47 :: t) = [] :: splitSep t := by
  simp [splitSep]

theorem splitSep_cons_ne (c : Nat) (t : Bytes) (hc : c ≠ 47) :
    ∃ h r, splitSep t = h :: r ∧ splitSep (c :: t) = (c :: h) :: r := by
  cases hs : splitSep t with
  | nil => exact absurd hs (splitSep_ne_nil t)
  | cons h r => exact ⟨h, r, rfl, by rw [splitSep, if_neg hc, hs]⟩

/-- `strings.Split(a + "/" + b, "/") = Split(a) ++ Split(b)` -/
theorem splitSep_append_sep (a b : Bytes) :
    splitSep (a ++ 47 :: b) = splitSep a ++ splitSep b := by
  induction a with
  | nil => simp [splitSep]
  | cons c t ih =>
    by_cases hc : c = 47
    · subst hc
      rw [List.cons_append, splitSep_cons_sep, splitSep_cons_sep, ih, List.cons_append]
    · obtain ⟨h, r, hs, hcs⟩ := splitSep_cons_ne c t hc
      rw [hcs, List.cons_append]
      obtain ⟨h', r', hs', hcs'⟩ := splitSep_cons_ne c (t ++ 47 :: b) hc
      rw [hcs']
      rw [ih, hs, List.cons_append] at hs'
      injection hs' with h1 h2
      subst h1; subst h2; rfl

theorem splitSep_sepfree (f : Bytes) (hf : 47 ∉ f) : splitSep f = [f] := by
  induction f with
  | nil => rfl
  | cons c t ih =>
    have hc : c ≠ 47 := fun h => hf (by simp [h])
    have ht : 47 ∉ t := fun h => hf (List.mem_cons_of_mem _ h)
    obtain ⟨h, r, hs, hcs⟩ := splitSep_cons_ne c t hc
    rw [hcs]
    rw [ih ht] at hs
    injection hs with h1 h2
    subst h1; subst h2; rfl

/-- the pieces of a split contain no separator -/
theorem splitSep_sepfree_mem (p : Bytes) : ∀ c ∈ splitSep p, 47 ∉ c := by
  induction p with
  | nil => intro c hc; simp [splitSep] at hc; subst hc; simp
  | cons b t ih =>
    by_cases hb : b = 47
    · subst hb
      rw [splitSep_cons_sep]
      intro c hc
      rcases List.mem_cons.1 hc with h | h
      · subst h; simp
      · exact ih c h
    · obtain ⟨h, r, hs, hcs⟩ := splitSep_cons_ne b t hb
      rw [hcs]
      intro c hc
      rw [hs] at ih
      rcases List.mem_cons.1 hc with h' | h'
      · subst h'
        intro hm
        rcases List.mem_cons.1 hm with e | e
        · exact hb e.symm
        · exact ih h (by simp) e
      · exact ih c (List.mem_cons_of_mem _ h')

theorem joinSep_cons_cons (a b : Bytes) (t : List Bytes) :
    joinSep (a :: b :: t) = a ++ 47 :: joinSep (b :: t) := rfl

theorem joinSep_append_singleton (es : List Bytes) (hne : es ≠ []) (f : Bytes) :
    joinSep (es ++ [f]) = joinSep es ++ 47 :: f := by
  induction es with
  | nil => exact absurd rfl hne
  | cons a t ih =>
    cases t with
    | nil => rfl
    | cons b t' =>
      rw [List.cons_append, List.cons_append, joinSep_cons_cons, joinSep_cons_cons,
        ← List.cons_append, ih (by simp), List.append_assoc]
      rfl

/-- `Split(Join(es, "/"), "/") = es` for separator-free elements -/
theorem splitSep_joinSep (es : List Bytes) (hne : es ≠ []) (hs : ∀ e ∈ es, 47 ∉ e) :
    splitSep (joinSep es) = es := by
  induction es with
  | nil => exact absurd rfl hne
  | cons a t ih =>
    cases t with
    | nil => exact splitSep_sepfree a (hs a (by simp))
    | cons b t' =>
      rw [joinSep_cons_cons, splitSep_append_sep, splitSep_sepfree a (hs a (by simp)),
        ih (by simp) (fun e he => hs e (List.mem_cons_of_mem _ he))]
      rfl

/-! ### components -/

theorem components_append_sep (a b : Bytes) :
    components (a ++ 47 :: b) = components a ++ components b := by
  simp [components, splitSep_append_sep, List.filter_append]

theorem components_sepfree (f : Bytes) (hf : 47 ∉ f) (hk : keepElem f = true) :
    components f = [f] := by
  simp [components, splitSep_sepfree f hf, List.filter, hk]

theorem components_dot : components dot = [] := by decide
theorem components_nil : components [] = [] := by decide
theorem components_root : components [47] = [] := by decide

theorem mem_components (p c : Bytes) (h : c ∈ components p) : keepElem c = true ∧ 47 ∉ c := by
  simp only [components, List.mem_filter] at h
  exact ⟨h.2, splitSep_sepfree_mem p c h.1⟩

/-! ### isRooted -/

theorem isRooted_append (a b : Bytes) (ha : a ≠ []) : isRooted (a ++ b) = isRooted a := by
  cases a with
  | nil => exact absurd rfl ha
  | cons c t =>
    by_cases hc : c = 47
    · subst hc; rfl
    · simp only [List.cons_append]
      unfold isRooted
      split
      · rename_i h; injection h with h1 _; exact absurd h1 hc
      · split
        · rename_i h; injection h with h1 _; exact absurd h1 hc
        · rfl

theorem isRooted_sepfree (f : Bytes) (hf : 47 ∉ f) : isRooted f = false := by
  cases f with
  | nil => rfl
  | cons c t =>
    unfold isRooted
    split
    · rename_i h; injection h with h1 _; subst h1; exact absurd (by simp) hf
    · rfl

/-! ### step / resolve -/

theorem step_ne_dotdot (r : Bool) (stk : List Bytes) (c : Bytes) (hc : c ≠ dotdot) :
    step r stk c = c :: stk := by
  simp [step, hc]

theorem resolve_append_singleton (r : Bool) (cs : List Bytes) (f : Bytes) (hf : f ≠ dotdot) :
    resolve r (cs ++ [f]) = resolve r cs ++ [f] := by
  simp [resolve, List.foldl_append, step_ne_dotdot r _ f hf]

theorem mem_step (r : Bool) (stk : List Bytes) (c e : Bytes) (h : e ∈ step r stk c) :
    e ∈ stk ∨ e = c := by
  unfold step at h
  split at h
  · rename_i hcd
    cases stk with
    | nil =>
      simp only at h
      split at h
      · exact Or.inl h
      · right; rw [hcd]; simpa using h
    | cons t' rest =>
      simp only at h
      split at h
      · rcases List.mem_cons.1 h with h2 | h2
        · right; rw [hcd]; exact h2
        · exact Or.inl h2
      · exact Or.inl (List.mem_cons_of_mem _ h)
  · rcases List.mem_cons.1 h with h2 | h2
    · exact Or.inr h2
    · exact Or.inl h2

/-- every element of the stack comes from the old stack or from the input -/
theorem mem_foldl_step (r : Bool) (cs : List Bytes) :
    ∀ (stk : List Bytes) (e : Bytes), e ∈ cs.foldl (step r) stk → e ∈ stk ∨ e ∈ cs := by
  induction cs with
  | nil => intro stk e h; exact Or.inl h
  | cons c t ih =>
    intro stk e h
    rw [List.foldl_cons] at h
    rcases ih _ e h with h1 | h1
    · rcases mem_step r stk c e h1 with h2 | h2
      · exact Or.inl h2
      · right; rw [h2]; simp
    · right; exact List.mem_cons_of_mem _ h1

theorem mem_resolve (r : Bool) (cs : List Bytes) (e : Bytes) (h : e ∈ resolve r cs) : e ∈ cs := by
  unfold resolve at h
  rcases mem_foldl_step r cs [] e (List.mem_reverse.1 h) with h1 | h1
  · simp at h1
  · exact h1

/-! ### render / child -/

/-- "valid element list": what `resolve` of `components` produces -/
def goodElems (es : List Bytes) : Prop := ∀ e ∈ es, keepElem e = true ∧ 47 ∉ e

theorem keepElem_iff (c : Bytes) : keepElem c = true ↔ c ≠ [] ∧ c ≠ dot := by
  simp [keepElem]

theorem goodElems_resolve_components (r : Bool) (p : Bytes) : goodElems (resolve r (components p)) :=
  fun e he => mem_components p e (mem_resolve r _ e he)

theorem joinSep_ne_nil (es : List Bytes) (hne : es ≠ []) (hg : goodElems es) : joinSep es ≠ [] := by
  cases es with
  | nil => exact absurd rfl hne
  | cons a t =>
    have ha : a ≠ [] := ((keepElem_iff a).1 (hg a (by simp)).1).1
    cases t with
    | nil => exact ha
    | cons b t' => rw [joinSep_cons_cons]; simp [ha]

theorem joinSep_head (es : List Bytes) (hne : es ≠ []) (hg : goodElems es) :
    ∃ c t, joinSep es = c :: t ∧ c ≠ 47 := by
  cases es with
  | nil => exact absurd rfl hne
  | cons a t =>
    have ha : a ≠ [] := ((keepElem_iff a).1 (hg a (by simp)).1).1
    have hs : 47 ∉ a := (hg a (by simp)).2
    cases a with
    | nil => exact absurd rfl ha
    | cons c a' =>
      have hc : c ≠ 47 := fun h => hs (by simp [h])
      cases t with
      | nil => exact ⟨c, a', rfl, hc⟩
      | cons b t' => exact ⟨c, _, by rw [joinSep_cons_cons]; rfl, hc⟩

theorem joinSep_ne_dot (es : List Bytes) (hg : goodElems es) : joinSep es ≠ dot := by
  cases es with
  | nil => simp [joinSep, dot]
  | cons a t =>
    have ha := (keepElem_iff a).1 (hg a (by simp)).1
    cases t with
    | nil => exact ha.2
    | cons b t' =>
      rw [joinSep_cons_cons]
      intro h
      have : 47 ∈ dot := by rw [← h]; simp
      simp [dot] at this

theorem joinSep_ne_root (es : List Bytes) (hg : goodElems es) : joinSep es ≠ [47] := by
  cases es with
  | nil => simp [joinSep]
  | cons a t =>
    have ha := (keepElem_iff a).1 (hg a (by simp)).1
    have hs : 47 ∉ a := (hg a (by simp)).2
    cases t with
    | nil => intro h; rw [joinSep] at h; exact hs (by rw [h]; simp)
    | cons b t' =>
      rw [joinSep_cons_cons]
      cases a with
      | nil => exact absurd rfl ha.1
      | cons c a' =>
        intro h
        simp only [List.cons_append] at h
        injection h with h1 h2
        simp at h2

/-- appending one element to a rendered element list = taking the child of the rendered path -/
theorem render_append_singleton (r : Bool) (es : List Bytes) (hg : goodElems es) (f : Bytes) :
    render r (es ++ [f]) = child (render r es) f := by
  cases es with
  | nil =>
    cases r
    · simp [render, child, joinSep]
    · simp [render, child, joinSep, dot]
  | cons a t =>
    have hne : a :: t ≠ [] := by simp
    have h1 := joinSep_ne_nil _ hne hg
    have h2 := joinSep_ne_dot _ hg
    have h3 := joinSep_ne_root _ hg
    have hr : ∀ r, render r (a :: t) = (if r then 47 :: joinSep (a :: t) else joinSep (a :: t)) := by
      intro r; cases r <;> rfl
    have hr' : ∀ r, render r (a :: t ++ [f]) = (if r then 47 :: joinSep (a :: t ++ [f]) else joinSep (a :: t ++ [f])) := by
      intro r; cases r <;> rfl
    rw [hr, hr', joinSep_append_singleton _ hne]
    cases r
    · simp [child, h1, h2, h3]
    · simp [child, h1, dot]

/-! ### clean of an appended element -/

/-- THE lemma behind C20: appending one plain name to a non-empty path and cleaning
    gives the direct child of the cleaned path. -/
theorem clean_append_plain (p f : Bytes) (hp : p ≠ []) (hf : plainName f = true) :
    clean (p ++ 47 :: f) = child (clean p) f := by
  simp only [plainName, Bool.and_eq_true, Bool.not_eq_true', List.contains_eq_mem,
    decide_eq_false_iff_not, beq_eq_false_iff_ne, ne_eq] at hf
  obtain ⟨⟨⟨⟨hne, hdot⟩, hdd⟩, hsep⟩, _⟩ := hf
  have hk : keepElem f = true := (keepElem_iff f).2 ⟨hne, hdot⟩
  unfold clean
  rw [isRooted_append p _ hp, components_append_sep, components_sepfree f hsep hk,
    resolve_append_singleton _ _ _ hdd,
    render_append_singleton _ _ (goodElems_resolve_components _ p)]

/-- appending "." (or nothing) changes nothing -/
theorem clean_append_dot (p : Bytes) (hp : p ≠ []) : clean (p ++ 47 :: dot) = clean p := by
  unfold clean
  rw [isRooted_append p _ hp, components_append_sep, components_dot, List.append_nil]

theorem clean_append_empty (p : Bytes) (hp : p ≠ []) : clean (p ++ [47]) = clean p := by
  unfold clean
  rw [isRooted_append p _ hp, components_append_sep, components_nil, List.append_nil]

/-- a plain name is clean -/
theorem clean_plain (f : Bytes) (hf : plainName f = true) : clean f = f := by
  simp only [plainName, Bool.and_eq_true, Bool.not_eq_true', List.contains_eq_mem,
    decide_eq_false_iff_not, beq_eq_false_iff_ne, ne_eq] at hf
  obtain ⟨⟨⟨⟨hne, hdot⟩, hdd⟩, hsep⟩, _⟩ := hf
  have hk : keepElem f = true := (keepElem_iff f).2 ⟨hne, hdot⟩
  unfold clean
  rw [isRooted_sepfree f hsep, components_sepfree f hsep hk]
  simp [resolve, step, hdd, render, joinSep]

/-! ### shape of the resolved stack; idempotence of clean -/

/-- invariant of the reversed stack: `..` elements only at the bottom, and none when rooted -/
def okStk (r : Bool) : List Bytes → Prop
  | [] => True
  | t :: rest => if t = dotdot then (r = false ∧ ∀ x ∈ rest, x = dotdot) else okStk r rest

theorem okStk_all_dotdot (stk : List Bytes) (h : ∀ x ∈ stk, x = dotdot) : okStk false stk := by
  induction stk with
  | nil => trivial
  | cons t rest ih =>
    have ht : t = dotdot := h t (by simp)
    simp only [okStk, ht, if_true, true_and]
    exact fun x hx => h x (List.mem_cons_of_mem _ hx)

theorem okStk_tail (r : Bool) (t : Bytes) (rest : List Bytes) (h : okStk r (t :: rest)) : okStk r rest := by
  simp only [okStk] at h
  split at h
  · obtain ⟨hr, hall⟩ := h; subst hr; exact okStk_all_dotdot rest hall
  · exact h

theorem okStk_step (r : Bool) (stk : List Bytes) (c : Bytes) (h : okStk r stk) : okStk r (step r stk c) := by
  unfold step
  split
  · cases stk with
    | nil =>
      cases r
      · simp [okStk]
      · simp [okStk]
    | cons t rest =>
      simp only
      split
      · rename_i ht
        simp only [okStk, ht, if_true] at h
        simp only [okStk, if_true]
        refine ⟨h.1, ?_⟩
        intro x hx
        rcases List.mem_cons.1 hx with h1 | h1
        · rw [h1, ht]
        · exact h.2 x h1
      · exact okStk_tail r t rest h
  · rename_i hc
    simp only [okStk, hc, if_false]
    exact h

theorem okStk_foldl (r : Bool) (cs : List Bytes) :
    ∀ stk, okStk r stk → okStk r (cs.foldl (step r) stk) := by
  induction cs with
  | nil => intro stk h; exact h
  | cons c t ih => intro stk h; exact ih _ (okStk_step r stk c h)

/-- re-resolving a resolved stack gives it back -/
theorem foldl_step_reverse (r : Bool) (stk : List Bytes) (h : okStk r stk) :
    stk.reverse.foldl (step r) [] = stk := by
  induction stk with
  | nil => rfl
  | cons t rest ih =>
    rw [List.reverse_cons, List.foldl_append, ih (okStk_tail r t rest h)]
    simp only [List.foldl_cons, List.foldl_nil]
    simp only [okStk] at h
    split at h
    · rename_i ht
      obtain ⟨hr, hall⟩ := h
      subst hr
      cases rest with
      | nil => simp [step, ht]
      | cons t' rest' =>
        have : t' = dotdot := hall t' (by simp)
        simp [step, ht, this]
    · rename_i ht
      exact step_ne_dotdot r rest t ht

theorem resolve_resolve (r : Bool) (cs : List Bytes) : resolve r (resolve r cs) = resolve r cs := by
  unfold resolve
  rw [foldl_step_reverse r _ (okStk_foldl r cs [] trivial)]

theorem filter_keepElem_good (es : List Bytes) (hg : goodElems es) : es.filter keepElem = es := by
  rw [List.filter_eq_self]
  exact fun e he => (hg e he).1

/-- rendering keeps rootedness -/
theorem isRooted_render (r : Bool) (es : List Bytes) (hg : goodElems es) : isRooted (render r es) = r := by
  cases es with
  | nil => cases r <;> rfl
  | cons a t =>
    cases r
    · obtain ⟨c, t', hj, hc⟩ := joinSep_head (a :: t) (by simp) hg
      show isRooted (joinSep (a :: t)) = false
      rw [hj]
      unfold isRooted
      split
      · rename_i h; injection h with h1 _; exact absurd h1 hc
      · rfl
    · rfl

/-- splitting a rendered path into components gives the element list back -/
theorem components_render (r : Bool) (es : List Bytes) (hg : goodElems es) : components (render r es) = es := by
  cases es with
  | nil => cases r <;> decide
  | cons a t =>
    have hs : ∀ e ∈ a :: t, 47 ∉ e := fun e he => (hg e he).2
    cases r
    · show components (joinSep (a :: t)) = a :: t
      rw [components, splitSep_joinSep _ (by simp) hs, filter_keepElem_good _ hg]
    · show components (47 :: joinSep (a :: t)) = a :: t
      rw [components, splitSep_cons_sep, splitSep_joinSep _ (by simp) hs]
      have : keepElem [] = false := by decide
      rw [List.filter_cons_of_neg (by simp [this]), filter_keepElem_good _ hg]

/-- the components of a cleaned path are the resolved elements of the path -/
theorem components_clean (p : Bytes) : components (clean p) = elements p :=
  components_render _ _ (goodElems_resolve_components _ p)

theorem isRooted_clean (p : Bytes) : isRooted (clean p) = isRooted p :=
  isRooted_render _ _ (goodElems_resolve_components _ p)

/-- `Clean(Clean(p)) = Clean(p)` -/
theorem clean_idem (p : Bytes) : clean (clean p) = clean p := by
  have h1 := isRooted_clean p
  have h2 := components_clean p
  show render (isRooted (clean p)) (resolve (isRooted (clean p)) (components (clean p))) = clean p
  rw [h1, h2, elements, resolve_resolve]
  rfl

/-- a cleaned path is never empty -/
theorem clean_ne_nil (p : Bytes) : clean p ≠ [] := by
  unfold clean
  generalize hes : resolve (isRooted p) (components p) = es
  have hg : goodElems es := hes ▸ goodElems_resolve_components _ p
  cases es with
  | nil => cases isRooted p <;> simp [render, dot]
  | cons a t =>
    cases isRooted p
    · exact joinSep_ne_nil _ (by simp) hg
    · simp [render]

/-! ### join -/

theorem nonEmptyElems_nil : nonEmptyElems [] = [] := rfl

theorem nonEmptyElems_cons_nil (es : List Bytes) : nonEmptyElems ([] :: es) = nonEmptyElems es := by
  simp [nonEmptyElems]

theorem nonEmptyElems_cons_ne (a : Bytes) (es : List Bytes) (ha : a ≠ []) :
    nonEmptyElems (a :: es) = a :: nonEmptyElems es := by
  simp [nonEmptyElems, ha]

theorem join_of_nonEmpty_nil (es : List Bytes) (h : nonEmptyElems es = []) : join es = [] := by
  simp [join, h]

theorem join_of_nonEmpty_cons (es : List Bytes) (a : Bytes) (l : List Bytes) (h : nonEmptyElems es = a :: l) :
    join es = clean (joinSep (a :: l)) := by
  simp [join, h]

/-- `Join` returns "" (all elements empty) or a cleaned non-empty path -/
theorem join_cases (es : List Bytes) : join es = [] ∨ ∃ p, p ≠ [] ∧ join es = clean p := by
  cases h : nonEmptyElems es with
  | nil => exact Or.inl (join_of_nonEmpty_nil es h)
  | cons a l =>
    right
    refine ⟨joinSep (a :: l), ?_, join_of_nonEmpty_cons es a l h⟩
    have ha : a ≠ [] := by
      have : a ∈ nonEmptyElems es := by rw [h]; simp
      simp only [nonEmptyElems, List.mem_filter] at this
      simpa using this.2
    cases l with
    | nil => exact ha
    | cons b l' => rw [joinSep_cons_cons]; simp [ha]

/-- `Join` is "" exactly when every element is empty -/
theorem join_eq_nil_iff (es : List Bytes) : join es = [] ↔ ∀ e ∈ es, e = [] := by
  constructor
  · intro h e he
    cases hn : nonEmptyElems es with
    | nil =>
      simp only [nonEmptyElems, List.filter_eq_nil_iff] at hn
      simpa using hn e he
    | cons a l =>
      rw [join_of_nonEmpty_cons es a l hn] at h
      exact absurd h (clean_ne_nil _)
  · intro h
    apply join_of_nonEmpty_nil
    simp only [nonEmptyElems, List.filter_eq_nil_iff]
    intro e he
    simp [h e he]

/-- appending one more non-empty element to a join with a non-empty prefix -/
theorem join_append_singleton (es : List Bytes) (f : Bytes) (hf : f ≠ [])
    (a : Bytes) (l : List Bytes) (h : nonEmptyElems es = a :: l) :
    join (es ++ [f]) = clean (joinSep (a :: l) ++ 47 :: f) := by
  have : nonEmptyElems (es ++ [f]) = a :: (l ++ [f]) := by
    simp only [nonEmptyElems, List.filter_append] at h ⊢
    rw [h]; simp [hf]
  rw [join_of_nonEmpty_cons _ _ _ this, ← List.cons_append, joinSep_append_singleton _ (by simp)]

theorem join_append_singleton_nil (es : List Bytes) (f : Bytes) (hf : f ≠ [])
    (h : nonEmptyElems es = []) : join (es ++ [f]) = clean f := by
  have : nonEmptyElems (es ++ [f]) = [f] := by
    simp only [nonEmptyElems, List.filter_append] at h ⊢
    rw [h]; simp [hf]
  rw [join_of_nonEmpty_cons _ _ _ this]; rfl

theorem join_append_empty (es : List Bytes) : join (es ++ [[]]) = join es := by
  have : nonEmptyElems (es ++ [[]]) = nonEmptyElems es := by
    simp [nonEmptyElems, List.filter_append]
  simp [join, this]

/-- **Join with one more plain name = direct child of the join** (any number of leading elements) -/
theorem join_append_plain (es : List Bytes) (f : Bytes) (hf : plainName f = true) :
    join (es ++ [f]) = child (join es) f := by
  have hfn : f ≠ [] := by intro e; subst e; simp [plainName] at hf
  cases h : nonEmptyElems es with
  | nil =>
    rw [join_append_singleton_nil es f hfn h, join_of_nonEmpty_nil es h, clean_plain f hf]
    simp [child]
  | cons a l =>
    rw [join_append_singleton es f hfn a l h, join_of_nonEmpty_cons es a l h]
    refine clean_append_plain _ f ?_ hf
    intro hnil
    have ha : a ≠ [] := by
      have : a ∈ nonEmptyElems es := by rw [h]; simp
      simp only [nonEmptyElems, List.mem_filter] at this
      simpa using this.2
    cases l with
    | nil => exact ha hnil
    | cons b l' => rw [joinSep_cons_cons] at hnil; simp [ha] at hnil

/-- "." as last element adds nothing -/
theorem join_append_dot (es : List Bytes) : join (es ++ [dot]) = clean (join es) := by
  have hfn : dot ≠ [] := by decide
  cases h : nonEmptyElems es with
  | nil =>
    rw [join_append_singleton_nil es dot hfn h, join_of_nonEmpty_nil es h]; decide
  | cons a l =>
    rw [join_append_singleton es dot hfn a l h, join_of_nonEmpty_cons es a l h, clean_idem]
    refine clean_append_dot _ ?_
    intro hnil
    have ha : a ≠ [] := by
      have : a ∈ nonEmptyElems es := by rw [h]; simp
      simp only [nonEmptyElems, List.mem_filter] at this
      simpa using this.2
    cases l with
    | nil => exact ha hnil
    | cons b l' => rw [joinSep_cons_cons] at hnil; simp [ha] at hnil

end SafeHtml.Spec.Path
