/-
Inertness of the model of encoding/json (HTML-escaping mode): the output of `enc` never contains
`<`, `>`, `&` nor the byte sequences E2 80 A8 / E2 80 A9 — for strings (`appendString`), for
Marshaler / RawMessage bytes passed through `compact` (scanner-state invariant), and for trees.
-/
import SafeHtml.Model.GoJson
import SafeHtml.Spec.Json
import SafeHtml.Proofs.Utf8
set_option linter.unusedSimpArgs false
set_option linter.unusedVariables false
namespace SafeHtml.Model.GoJson
open SafeHtml

/-- no `<`, `>`, `&`, and no E2 80 A8 / E2 80 A9 -/
def inertB : Bytes → Bool
  | [] => true
  | c :: t => c != 60 && c != 62 && c != 38 && !(c == 226 && (lsTail t).isSome) && inertB t

/-- the text is empty or starts with an ASCII byte -/
def asciiHead : Bytes → Bool
  | [] => true
  | c :: _ => c < 128

/-- a byte that can neither be forbidden nor start a forbidden sequence -/
def safeByte (c : Nat) : Bool := c != 60 && c != 62 && c != 38 && c != 226

theorem inertB_cons (c : Nat) (t : Bytes) :
    inertB (c :: t) = (c != 60 && c != 62 && c != 38 && !(c == 226 && (lsTail t).isSome) && inertB t) := rfl

theorem inertB_cons_safe (c : Nat) (t : Bytes) (h : safeByte c = true) : inertB (c :: t) = inertB t := by
  simp only [safeByte, Bool.and_eq_true, bne_iff_ne, ne_eq] at h
  obtain ⟨⟨⟨h1, h2⟩, h3⟩, h4⟩ := h
  simp [inertB, h1, h2, h3, h4]

theorem inertB_append_safe (a b : Bytes) (h : a.all safeByte = true) : inertB (a ++ b) = inertB b := by
  induction a with
  | nil => rfl
  | cons c t ih =>
    simp only [List.all_cons, Bool.and_eq_true] at h
    rw [List.cons_append, inertB_cons_safe _ _ h.1, ih h.2]

theorem lsTail_append (a b : Bytes) (hb : asciiHead b = true) (h : (lsTail (a ++ b)).isSome = true) :
    (lsTail a).isSome = true := by
  match a, b with
  | [], [] => simp [lsTail] at h
  | [], [x] => simp [lsTail] at h
  | [], x :: y :: _ =>
    simp only [asciiHead, decide_eq_true_eq] at hb
    simp only [List.nil_append, lsTail] at h
    split at h
    · rename_i hc; simp at hc; omega
    · simp at h
  | [x], [] => simp [lsTail] at h
  | [x], y :: _ =>
    simp only [asciiHead, decide_eq_true_eq] at hb
    simp only [List.cons_append, List.nil_append, lsTail] at h
    split at h
    · rename_i hc; simp at hc; omega
    · simp at h
  | x :: y :: _, _ => simpa [lsTail] using h

/-- an inert text followed by an inert text that starts with an ASCII byte is inert -/
theorem inertB_append (a b : Bytes) (ha : inertB a = true) (hb : inertB b = true) (hh : asciiHead b = true) :
    inertB (a ++ b) = true := by
  induction a with
  | nil => simpa using hb
  | cons c t ih =>
    simp only [inertB, Bool.and_eq_true] at ha
    obtain ⟨⟨h1, h2⟩, h3⟩ := ha
    simp only [List.cons_append, inertB, Bool.and_eq_true]
    refine ⟨⟨h1, ?_⟩, ih h3⟩
    cases hc : (c == 226) with
    | false => simp
    | true =>
      simp only [hc, Bool.true_and, Bool.not_eq_true'] at h2 ⊢
      cases hl : (lsTail (t ++ b)).isSome with
      | false => rfl
      | true => have := lsTail_append t b hh hl; simp [this] at h2

/-! ### strings -/

theorem hexDigitLower_safe (n : Nat) (hn : n < 16) : safeByte (hexDigitLower n) = true := by
  unfold hexDigitLower safeByte
  split <;> simp only [Bool.and_eq_true, bne_iff_ne, ne_eq] <;> omega

theorem u00_safe (b : Nat) : (u00 b).all safeByte = true := by
  simp only [u00, List.all_cons, List.all_nil, hexDigitLower_safe _ (Nat.mod_lt _ (by decide : 0 < 16))]; decide

theorem u202_safe (b : Nat) : (u202 b).all safeByte = true := by
  simp only [u202, List.all_cons, List.all_nil, hexDigitLower_safe _ (Nat.mod_lt _ (by decide : 0 < 16))]; decide

theorem escByte_safe (b : Nat) (hb : b < 128) : (escByte b).all safeByte = true := by
  unfold escByte
  repeat' split
  all_goals (try exact u00_safe b)
  all_goals simp_all [safeByte]
  all_goals omega

/-- a successfully decoded multi-byte symbol other than U+2028/9 is copied; it adds nothing forbidden -/
theorem sym_inert (b0 : Nat) (t rest : Bytes) (hb : 128 ≤ b0)
    (h1 : ¬ ((Utf8.decode1 b0 t).1 = Utf8.runeError ∧ (Utf8.decode1 b0 t).2 = 1))
    (h2 : (Utf8.decode1 b0 t).1 ≠ 0x2028) (h3 : (Utf8.decode1 b0 t).1 ≠ 0x2029) :
    inertB ((b0 :: t).take (Utf8.decode1 b0 t).2 ++ rest) = inertB rest := by
  have hn : ¬ b0 < 128 := by omega
  have bad : ∀ {P : Prop}, Utf8.decode1 b0 t = (Utf8.runeError, 1) → P := by
    intro P hd; rw [hd] at h1; exact absurd ⟨rfl, rfl⟩ h1
  by_cases c1 : b0 < 194
  · exact bad (by simp [Utf8.decode1, hn, c1])
  by_cases c2 : b0 ≤ 223
  · match t with
    | [] => exact bad (by simp [Utf8.decode1, hn, c1, c2])
    | b1 :: t' =>
      by_cases hc : Utf8.isCont b1 = true
      · have hd : Utf8.decode1 b0 (b1 :: t') = (b0 % 32 * 64 + b1 % 64, 2) := by
          simp [Utf8.decode1, hn, c1, c2, hc]
        rw [hd]
        simp only [List.take_succ_cons, List.take_zero, List.cons_append, List.nil_append]
        simp only [Utf8.isCont, Bool.and_eq_true, decide_eq_true_eq] at hc
        rw [inertB_cons_safe, inertB_cons_safe] <;> simp [safeByte] <;> omega
      · exact bad (by simp [Utf8.decode1, hn, c1, c2, hc])
  by_cases c3 : b0 ≤ 239
  · match t with
    | [] => exact bad (by simp [Utf8.decode1, hn, c1, c2, c3])
    | [_] => exact bad (by simp [Utf8.decode1, hn, c1, c2, c3])
    | b1 :: b2 :: t' =>
      by_cases hc : (decide ((if b0 = 224 then 160 else 128) ≤ b1) && decide (b1 ≤ if b0 = 237 then 159 else 191) &&
                            Utf8.isCont b2) = true
      · have hd : Utf8.decode1 b0 (b1 :: b2 :: t') = (b0 % 16 * 4096 + b1 % 64 * 64 + b2 % 64, 3) := by
          simp only [Utf8.decode1, hn, c1, c2, c3, if_false, if_true]
          rw [if_pos hc]
        rw [hd] at h2 h3 ⊢
        simp only [List.take_succ_cons, List.take_zero, List.cons_append, List.nil_append]
        simp only [Utf8.isCont, Bool.and_eq_true, decide_eq_true_eq] at hc
        have r1 : 128 ≤ b1 ∧ b1 ≤ 191 := by
          obtain ⟨⟨ha, hb'⟩, _⟩ := hc
          split at ha <;> split at hb' <;> omega
        have s1 : safeByte b1 = true := by simp [safeByte]; omega
        have s2 : safeByte b2 = true := by simp [safeByte]; omega
        rw [inertB_cons b0, inertB_cons_safe _ _ s1, inertB_cons_safe _ _ s2]
        simp only [lsTail]
        have e1 : (b0 != 60) = true := by simp; omega
        have e2 : (b0 != 62) = true := by simp; omega
        have e3 : (b0 != 38) = true := by simp; omega
        simp only [e1, e2, e3, Bool.true_and]
        by_cases h226 : b0 = 226
        · subst h226
          by_cases h128 : b1 = 128
          · subst h128
            have : ¬ (b2 = 168 ∨ b2 = 169) := by
              intro h; rcases h with h | h <;> subst h <;> simp at h2 h3
            simp [this]
          · simp [h128]
        · simp [h226]
      · exact bad (by
          simp only [Utf8.decode1, hn, c1, c2, c3, if_false, if_true]
          rw [if_neg hc])
  by_cases c4 : b0 ≤ 244
  · match t with
    | [] => exact bad (by simp [Utf8.decode1, hn, c1, c2, c3, c4])
    | [_] => exact bad (by simp [Utf8.decode1, hn, c1, c2, c3, c4])
    | [_, _] => exact bad (by simp [Utf8.decode1, hn, c1, c2, c3, c4])
    | b1 :: b2 :: b3 :: t' =>
      by_cases hc : (decide ((if b0 = 240 then 144 else 128) ≤ b1) && decide (b1 ≤ if b0 = 244 then 143 else 191) &&
                            Utf8.isCont b2 && Utf8.isCont b3) = true
      · have hd : Utf8.decode1 b0 (b1 :: b2 :: b3 :: t') =
            (b0 % 8 * 262144 + b1 % 64 * 4096 + b2 % 64 * 64 + b3 % 64, 4) := by
          simp only [Utf8.decode1, hn, c1, c2, c3, c4, if_false, if_true]
          rw [if_pos hc]
        rw [hd]
        simp only [List.take_succ_cons, List.take_zero, List.cons_append, List.nil_append]
        simp only [Utf8.isCont, Bool.and_eq_true, decide_eq_true_eq] at hc
        have r1 : 128 ≤ b1 ∧ b1 ≤ 191 := by
          obtain ⟨⟨⟨ha, hb'⟩, _⟩, _⟩ := hc
          split at ha <;> split at hb' <;> omega
        have s1 : safeByte b1 = true := by simp [safeByte]; omega
        rw [inertB_cons_safe, inertB_cons_safe _ _ s1, inertB_cons_safe, inertB_cons_safe] <;>
          simp [safeByte] <;> omega
      · exact bad (by
          simp only [Utf8.decode1, hn, c1, c2, c3, c4, if_false, if_true]
          rw [if_neg hc])
  · exact bad (by simp [Utf8.decode1, hn, c1, c2, c3, c4])

theorem encSyms_inert (s rest : Bytes) :
    inertB ((Utf8.decodeSyms s).flatMap encSym ++ rest) = inertB rest := by
  induction s using Utf8.decode_induction with
  | hnil => simp [Utf8.decodeSyms_nil]
  | hcons b t ih =>
    rw [Utf8.decodeSyms_cons, List.flatMap_cons, List.append_assoc]
    by_cases hb : b < 128
    · rw [Utf8.decode1_ascii b t hb] at ih ⊢
      simp only [encSym, hb, if_true]
      rw [inertB_append_safe _ _ (escByte_safe b hb)]
      simpa using ih
    · have hr := Utf8.decode1_nonascii b t (by omega)
      have hnr : ¬ (Utf8.decode1 b t).1 < 128 := by omega
      simp only [encSym, hnr, if_false]
      split
      · rw [inertB_append_safe _ _ (by decide)]; exact ih
      · rename_i h1
        split
        · rw [inertB_append_safe _ _ (u202_safe _)]; exact ih
        · rename_i h2
          rw [sym_inert b t _ (by omega) ?_ ?_ ?_]
          · exact ih
          · intro hh
            apply h1
            have hw := Utf8.decode1_width_le b t
            have hl : ((b :: t).take (Utf8.decode1 b t).2).length = 1 := by
              rw [List.length_take]; omega
            simp [hh.1, hl]
          · intro hh; simp [hh] at h2
          · intro hh; simp [hh] at h2

theorem encodeString_inert (s : Bytes) : inertB (encodeString s) = true := by
  unfold encodeString
  rw [List.append_assoc, List.singleton_append, inertB_cons_safe _ _ (by decide), encSyms_inert]
  decide

theorem encodeString_asciiHead (s rest : Bytes) : asciiHead (encodeString s ++ rest) = true := by
  simp [encodeString, asciiHead]

/-! ### compact -/

/-- a byte ≥ 128 is an "uninteresting byte" for the scanner only inside a string literal, and leaves it there -/
theorem step_nonascii (st : Scan) (c : Nat) (hc : 128 ≤ c) (h : (step st c).2 = .cont) :
    st.fn = .inString ∧ step st c = (st, .cont) := by
  obtain ⟨fn, stack⟩ := st
  have e1 : isSpace c = false := by simp [isSpace]; omega
  have e2 : isDigit c = false := by simp [isDigit]; omega
  have e3 : isHex c = false := by simp [isHex]; omega
  have n1 : c ≠ 93 := by omega
  have n2 : c ≠ 123 := by omega
  have n3 : c ≠ 91 := by omega
  have n4 : c ≠ 34 := by omega
  have n5 : c ≠ 45 := by omega
  have n6 : c ≠ 48 := by omega
  have n7 : c ≠ 116 := by omega
  have n8 : c ≠ 102 := by omega
  have n9 : c ≠ 110 := by omega
  have n10 : c ≠ 125 := by omega
  have n11 : c ≠ 58 := by omega
  have n12 : c ≠ 44 := by omega
  have n13 : c ≠ 92 := by omega
  have n14 : c ≠ 98 := by omega
  have n15 : c ≠ 114 := by omega
  have n16 : c ≠ 47 := by omega
  have n17 : c ≠ 117 := by omega
  have n18 : c ≠ 46 := by omega
  have n19 : c ≠ 101 := by omega
  have n20 : c ≠ 69 := by omega
  have n21 : c ≠ 43 := by omega
  have n22 : c ≠ 97 := by omega
  have n23 : c ≠ 108 := by omega
  have n24 : c ≠ 115 := by omega
  have n25 : ¬ c ≤ 57 := by omega
  have n26 : ¬ c < 32 := by omega
  have hev : ∀ fn', (endValue ⟨fn', stack⟩ c).2 ≠ .cont := by
    intro fn'
    unfold endValue
    cases stack with
    | nil => simp [endTopStep, e1]
    | cons ps rest => cases ps <;> simp [e1, Scan.err, Scan.go, n10, n11, n12, n1]
  cases fn <;>
    simp [step, beginValue, beginString, state0, stateESign, lit1, endTopStep, Scan.err, Scan.go, Scan.push,
      e1, e2, e3, n1, n2, n3, n4, n5, n6, n7, n8, n9, n10, n11, n12, n13, n14, n15, n16, n17, n18, n19, n20,
      n21, n22, n23, n24, n25, n26, hev] at h ⊢

theorem step_inString (st : Scan) (c : Nat) (h : st.fn = .inString) :
    (step st c).2 = .cont ∨ (step st c).2 = .error := by
  obtain ⟨fn, stack⟩ := st
  simp only at h; subst h
  simp only [step, Scan.go, Scan.err]
  repeat' split
  all_goals simp

theorem compactAux_cons (st : Scan) (skip c : Nat) (t : Bytes) :
    compactAux st skip (c :: t) =
      (if (step st c).2 == .error then none
       else if skip > 0 then compactAux (step st c).1 (skip - 1) t
       else if c == 60 || c == 62 || c == 38 then (compactAux (step st c).1 0 t).map (u00 c ++ ·)
       else if c == 226 && (lsTail t).isSome then
         (compactAux (step st c).1 2 t).map (u202 ((lsTail t).getD 0) ++ ·)
       else if (step st c).2 == .skip || (step st c).2 == .fin then compactAux (step st c).1 0 t
       else (compactAux (step st c).1 0 t).map (c :: ·)) := by
  simp [compactAux]

/-- inside a string literal the next output byte is a backslash or the next source byte itself -/
theorem compact_inString_head (st : Scan) (x : Nat) (t b : Bytes) (hs : st.fn = .inString)
    (h : compactAux st 0 (x :: t) = some b) :
    (∃ b', b = 92 :: b') ∨ (∃ b', b = x :: b' ∧ compactAux (step st x).1 0 t = some b') := by
  rw [compactAux_cons] at h
  have hcode := step_inString st x hs
  split at h
  · simp at h
  · rename_i he
    simp only [Nat.lt_irrefl, if_false, gt_iff_lt] at h
    split at h
    · left
      simp only [Option.map_eq_some_iff] at h
      obtain ⟨b', _, hb⟩ := h
      exact ⟨_, by rw [← hb]; rfl⟩
    · split at h
      · left
        simp only [Option.map_eq_some_iff] at h
        obtain ⟨b', _, hb⟩ := h
        exact ⟨_, by rw [← hb]; rfl⟩
      · split at h
        · rename_i hk
          rcases hcode with hcode | hcode <;> simp [hcode] at hk he
        · right
          simp only [Option.map_eq_some_iff] at h
          obtain ⟨b', hb', hb⟩ := h
          exact ⟨b', hb.symm, hb'⟩

theorem lsTail_isSome_iff (b : Bytes) :
    (lsTail b).isSome = true ↔ ∃ d r, b = 128 :: d :: r ∧ (d = 168 ∨ d = 169) := by
  match b with
  | [] => simp [lsTail]
  | [_] => simp [lsTail]
  | x :: d :: r =>
    simp only [lsTail]
    constructor
    · intro h
      split at h
      · rename_i hc
        simp only [Bool.and_eq_true, beq_iff_eq, Bool.or_eq_true] at hc
        exact ⟨d, r, by rw [hc.1], hc.2⟩
      · simp at h
    · rintro ⟨d', r', he, hd⟩
      simp only [List.cons.injEq] at he
      obtain ⟨rfl, rfl, rfl⟩ := he
      rcases hd with rfl | rfl <;> simp

/-- after a copied `E2` the output can continue with `80 A8|A9` only if the source does -/
theorem compact_inString_ls (st : Scan) (t b : Bytes) (hs : st.fn = .inString)
    (h : compactAux st 0 t = some b) (hl : (lsTail b).isSome = true) : (lsTail t).isSome = true := by
  rw [lsTail_isSome_iff] at hl
  obtain ⟨d, r, rfl, hd⟩ := hl
  match t with
  | [] => simp [compactAux] at h
  | x :: t1 =>
    rcases compact_inString_head st x t1 _ hs h with ⟨b', hb⟩ | ⟨b', hb, h1⟩
    · simp at hb
    · simp only [List.cons.injEq] at hb
      obtain ⟨rfl, rfl⟩ := hb
      have hcode : (step st 128).2 = .cont := by
        rcases step_inString st 128 hs with hc | hc
        · exact hc
        · rw [compactAux_cons] at h; simp [hc] at h
      have hst := (step_nonascii st 128 (by omega) hcode).2
      rw [hst] at h1
      match t1 with
      | [] => simp [compactAux] at h1
      | y :: t2 =>
        rcases compact_inString_head st y t2 _ hs h1 with ⟨b'', hb⟩ | ⟨b'', hb, _⟩
        · simp only [List.cons.injEq] at hb
          rcases hd with rfl | rfl <;> simp at hb
        · simp only [List.cons.injEq] at hb
          obtain ⟨rfl, _⟩ := hb
          rw [lsTail_isSome_iff]
          exact ⟨_, _, rfl, hd⟩

theorem Code.cont_of (c : Code) (h1 : (c == .error) = false) (h2 : (c == .skip || c == .fin) = false) : c = .cont := by
  cases c <;> simp_all

/-- `appendCompact(…, escape=true)` never lets a forbidden byte or sequence through -/
theorem compactAux_inert : ∀ (src : Bytes) (st : Scan) (skip : Nat) (out : Bytes),
    compactAux st skip src = some out → inertB out = true := by
  intro src
  induction src with
  | nil =>
    intro st skip out h
    simp only [compactAux] at h
    split at h <;> simp at h
    subst h; rfl
  | cons c t ih =>
    intro st skip out h
    rw [compactAux_cons] at h
    split at h
    · simp at h
    · rename_i he
      split at h
      · exact ih _ _ _ h
      · split at h
        · simp only [Option.map_eq_some_iff] at h
          obtain ⟨b', hb', rfl⟩ := h
          rw [inertB_append_safe _ _ (u00_safe c)]
          exact ih _ _ _ hb'
        · rename_i hesc
          split at h
          · simp only [Option.map_eq_some_iff] at h
            obtain ⟨b', hb', rfl⟩ := h
            rw [inertB_append_safe _ _ (u202_safe _)]
            exact ih _ _ _ hb'
          · rename_i hls
            split at h
            · exact ih _ _ _ h
            · rename_i hk
              simp only [Option.map_eq_some_iff] at h
              obtain ⟨b', hb', rfl⟩ := h
              have hib := ih _ _ _ hb'
              simp only [Bool.or_eq_true, beq_iff_eq, not_or] at hesc
              rw [inertB_cons]
              simp only [hib, Bool.and_true, Bool.and_eq_true, bne_iff_ne, ne_eq, Bool.not_eq_true',
                Bool.and_eq_false_iff]
              refine ⟨⟨⟨hesc.1.1, hesc.1.2⟩, hesc.2⟩, ?_⟩
              by_cases h226 : c = 226
              · right
                subst h226
                have hcode := Code.cont_of _ (by simpa using he) (by simpa using hk)
                obtain ⟨hs, hst⟩ := step_nonascii st 226 (by omega) hcode
                rw [hst] at hb'
                cases hl : (lsTail b').isSome with
                | false => rfl
                | true =>
                  have := compact_inString_ls st t b' hs hb' hl
                  simp [this] at hls
              · left; simpa using h226

theorem compact_inert (src out : Bytes) (h : compact src = some out) : inertB out = true :=
  compactAux_inert src _ _ out h

/-! ### value trees -/

theorem JVal.induct {P : JVal → Prop} {PL : List JVal → Prop} {PM : List (Bytes × JVal) → Prop}
    (null : P .null) (bool : ∀ b, P (.bool b)) (num : ∀ l, P (.num l)) (str : ∀ s, P (.str s))
    (arr : ∀ xs, PL xs → P (.arr xs)) (obj : ∀ m kvs, PM kvs → P (.obj m kvs))
    (raw : ∀ b, P (.raw b)) (text : ∀ b, P (.text b)) (bad : P .bad)
    (nilL : PL []) (consL : ∀ x t, P x → PL t → PL (x :: t))
    (nilM : PM []) (consM : ∀ k x t, P x → PM t → PM ((k, x) :: t)) : ∀ v, P v :=
  fun v => JVal.rec (motive_1 := P) (motive_2 := PL) (motive_3 := PM) (motive_4 := fun p => P p.2)
    null bool num str arr obj raw text bad nilL consL nilM
    (fun head tail h4 h3 => by cases head; exact consM _ _ _ h4 h3) (fun _ _ h => h) v

mutual
/-- every number literal in the tree is a JSON number (true of whatever strconv prints for a finite number) -/
def wfNum : JVal → Bool
  | .num lit => Spec.Json.isNumber lit
  | .arr xs => wfNumL xs
  | .obj _ kvs => wfNumM kvs
  | _ => true
def wfNumL : List JVal → Bool
  | [] => true
  | x :: t => wfNum x && wfNumL t
def wfNumM : List (Bytes × JVal) → Bool
  | [] => true
  | (_, x) :: t => wfNum x && wfNumM t
end

open Spec.Json in
theorem dropDigits_numch (s : Bytes) (h : (dropDigits s).all isNumCh = true) : s.all isNumCh = true := by
  induction s with
  | nil => rfl
  | cons c t ih =>
    simp only [dropDigits] at h
    split at h
    · rename_i hd; simp [isNumCh, hd, ih h]
    · exact h

open Spec.Json in
theorem digits1_numch (s r : Bytes) (h : digits1 s = some r) (hr : r.all isNumCh = true) : s.all isNumCh = true := by
  cases s with
  | nil => simp [digits1] at h
  | cons c t =>
    simp only [digits1] at h
    split at h
    · rename_i hd
      simp only [Option.some.injEq] at h; subst h
      simp [isNumCh, hd, dropDigits_numch t hr]
    · simp at h

open Spec.Json in
theorem digits1_nil_numch (s : Bytes) (h : (digits1 s == some []) = true) : s.all isNumCh = true := by
  have : digits1 s = some [] := by simpa using h
  exact digits1_numch s [] this rfl

open Spec.Json in
theorem numExp_numch (s : Bytes) (h : numExp s = true) : s.all isNumCh = true := by
  cases s with
  | nil => rfl
  | cons c t =>
    simp only [numExp] at h
    split at h
    · rename_i hc
      have hcn : isNumCh c = true := by
        simp only [Bool.or_eq_true, beq_iff_eq] at hc
        rcases hc with rfl | rfl <;> decide
      cases t with
      | nil => simp at h
      | cons s' t' =>
        simp only at h
        split at h
        · rename_i hs
          have hsn : isNumCh s' = true := by
            simp only [Bool.or_eq_true, beq_iff_eq] at hs
            rcases hs with rfl | rfl <;> decide
          simp [hcn, hsn, digits1_nil_numch t' h]
        · have := digits1_nil_numch (s' :: t') h
          simp only [List.all_cons, Bool.and_eq_true] at this ⊢
          exact ⟨hcn, this⟩
    · simp at h

open Spec.Json in
theorem numFrac_numch (s : Bytes) (h : numFrac s = true) : s.all isNumCh = true := by
  cases s with
  | nil => rfl
  | cons c t =>
    simp only [numFrac] at h
    split at h
    · rename_i hc
      have hcn : isNumCh c = true := by
        simp only [beq_iff_eq] at hc; subst hc; decide
      split at h
      · rename_i r hr
        simp [hcn, digits1_numch t r hr (numExp_numch r h)]
      · simp at h
    · exact numExp_numch _ h

open Spec.Json in
theorem numInt_numch (s : Bytes) (h : numInt s = true) : s.all isNumCh = true ∧ ∃ c t, s = c :: t ∧ isDigit c = true := by
  cases s with
  | nil => simp [numInt] at h
  | cons c t =>
    simp only [numInt] at h
    split at h
    · rename_i hc
      simp only [beq_iff_eq] at hc; subst hc
      exact ⟨by simp [numFrac_numch t h]; decide, _, _, rfl, by decide⟩
    · split at h
      · rename_i hc
        have hd : isDigit c = true := by
          simp only [Bool.and_eq_true, decide_eq_true_eq] at hc
          simp [isDigit]; omega
        exact ⟨by simp [isNumCh, hd, dropDigits_numch t (numFrac_numch _ h)], _, _, rfl, hd⟩
      · simp at h

/-- a JSON number consists of number characters and starts with `-` or a digit -/
theorem isNumber_numch (s : Bytes) (h : Spec.Json.isNumber s = true) :
    s.all Spec.Json.isNumCh = true ∧ ∃ c t, s = c :: t ∧ (c = 45 ∨ isDigit c = true) := by
  cases s with
  | nil => simp [Spec.Json.isNumber] at h
  | cons c t =>
    simp only [Spec.Json.isNumber] at h
    split at h
    · rename_i hc
      simp only [beq_iff_eq] at hc; subst hc
      exact ⟨by simp [(numInt_numch t h).1]; decide, _, _, rfl, Or.inl rfl⟩
    · obtain ⟨h1, c', t', he, hd⟩ := numInt_numch _ h
      simp only [List.cons.injEq] at he
      exact ⟨h1, _, _, rfl, Or.inr (he.1 ▸ hd)⟩

theorem numch_safe_ascii (c : Nat) (h : Spec.Json.isNumCh c = true) : safeByte c = true ∧ c < 128 := by
  simp only [Spec.Json.isNumCh, isDigit, Bool.or_eq_true, Bool.and_eq_true, decide_eq_true_eq, beq_iff_eq] at h
  simp only [safeByte, Bool.and_eq_true, bne_iff_ne, ne_eq]
  omega

theorem number_inert (s : Bytes) (h : Spec.Json.isNumber s = true) : inertB s = true := by
  have h1 := (isNumber_numch s h).1
  have : s.all safeByte = true := by
    simp only [List.all_eq_true] at h1 ⊢
    exact fun x hx => (numch_safe_ascii x (h1 x hx)).1
  have := inertB_append_safe s [] this
  simpa [inertB] using this

theorem joinComma_inert (es : List Bytes) (h : ∀ e ∈ es, inertB e = true) (rest : Bytes)
    (hr : inertB rest = true) (ha : asciiHead rest = true) : inertB (joinComma es ++ rest) = true := by
  match es with
  | [] => simpa [joinComma] using hr
  | [a] => exact inertB_append a rest (h a (by simp)) hr ha
  | a :: b :: t =>
    have ih := joinComma_inert (b :: t) (fun e he => h e (by simp [he])) rest hr ha
    simp only [joinComma, List.append_assoc, List.singleton_append]
    apply inertB_append a _ (h a (by simp))
    · show inertB (44 :: (joinComma (b :: t) ++ rest)) = true
      rw [inertB_cons_safe _ _ (by decide)]; exact ih
    · rfl

theorem mem_insertKV {α} (kv x : Bytes × α) (l : List (Bytes × α)) : x ∈ insertKV kv l ↔ x = kv ∨ x ∈ l := by
  induction l with
  | nil => simp [insertKV]
  | cons y t ih =>
    simp only [insertKV]
    split
    · simp
    · simp only [List.mem_cons, ih]
      constructor
      · rintro (h | h | h) <;> simp [h]
      · rintro (h | h | h) <;> simp [h]

theorem mem_sortKV {α} (x : Bytes × α) (l : List (Bytes × α)) : x ∈ sortKV l ↔ x ∈ l := by
  induction l with
  | nil => simp [sortKV]
  | cons y t ih =>
    have : sortKV (y :: t) = insertKV y (sortKV t) := rfl
    rw [this, mem_insertKV, ih]; simp

theorem member_inert (p : Bytes × Bytes) (h : inertB p.2 = true) : inertB (member p) = true := by
  unfold member
  rw [List.append_assoc]
  apply inertB_append _ _ (encodeString_inert _)
  · rw [List.singleton_append, inertB_cons_safe _ _ (by decide)]; exact h
  · rfl

/-- **inertness of `json.Marshal` (model)**: for every value tree, including Marshaler / RawMessage bytes -/
theorem enc_inert : ∀ (v : JVal) (J : Bytes), wfNum v = true → enc v = some J → inertB J = true := by
  apply JVal.induct (P := fun v => ∀ J, wfNum v = true → enc v = some J → inertB J = true)
    (PL := fun xs => ∀ es, wfNumL xs = true → encL xs = some es → ∀ e ∈ es, inertB e = true)
    (PM := fun kvs => ∀ ps, wfNumM kvs = true → encM kvs = some ps → ∀ p ∈ ps, inertB p.2 = true)
  · intro J _ h; simp only [enc, Option.some.injEq] at h; subst h; decide
  · intro b J _ h; simp only [enc, Option.some.injEq] at h; subst h; cases b <;> decide
  · intro l J hw h
    simp only [enc, Option.some.injEq] at h; subst h
    exact number_inert _ (by simpa [wfNum] using hw)
  · intro s J _ h; simp only [enc, Option.some.injEq] at h; subst h; exact encodeString_inert s
  · intro xs ih J hw h
    simp only [enc, Option.map_eq_some_iff] at h
    obtain ⟨es, hes, rfl⟩ := h
    rw [List.append_assoc, List.singleton_append, inertB_cons_safe _ _ (by decide)]
    exact joinComma_inert es (ih es (by simpa [wfNum] using hw) hes) _ (by decide) (by decide)
  · intro m kvs ih J hw h
    simp only [enc, Option.map_eq_some_iff] at h
    obtain ⟨ps, hps, rfl⟩ := h
    rw [List.append_assoc, List.singleton_append, inertB_cons_safe _ _ (by decide)]
    apply joinComma_inert _ _ _ (by decide) (by decide)
    intro e he
    simp only [List.mem_map] at he
    obtain ⟨p, hp, rfl⟩ := he
    apply member_inert
    apply ih ps (by simpa [wfNum] using hw) hps
    cases m
    · simpa using hp
    · simpa [mem_sortKV] using hp
  · intro b J _ h; simp only [enc] at h; exact compact_inert b J h
  · intro s J _ h; simp only [enc, Option.some.injEq] at h; subst h; exact encodeString_inert s
  · intro J _ h; simp [enc] at h
  · intro es _ h e he; simp only [encL, Option.some.injEq] at h; subst h; simp at he
  · intro x t ihx iht es hw h e he
    simp only [wfNumL, Bool.and_eq_true] at hw
    simp only [encL] at h
    split at h
    · rename_i a b ha hb
      simp only [Option.some.injEq] at h; subst h
      simp only [List.mem_cons] at he
      rcases he with rfl | he
      · exact ihx _ hw.1 ha
      · exact iht _ hw.2 hb e he
    · simp at h
  · intro ps _ h p hp; simp only [encM, Option.some.injEq] at h; subst h; simp at hp
  · intro k x t ihx iht ps hw h p hp
    simp only [wfNumM, Bool.and_eq_true] at hw
    simp only [encM] at h
    split at h
    · rename_i a b ha hb
      simp only [Option.some.injEq] at h; subst h
      simp only [List.mem_cons] at hp
      rcases hp with rfl | hp
      · exact ihx _ hw.1 ha
      · exact iht _ hw.2 hb p hp
    · simp at h

/-- the recursive recogniser `inertB` says what the statement says -/
theorem inertB_spec (J : Bytes) (h : inertB J = true) :
    60 ∉ J ∧ 62 ∉ J ∧ 38 ∉ J ∧ containsSub [226, 128, 168] J = false ∧ containsSub [226, 128, 169] J = false := by
  induction J with
  | nil => simp [containsSub]
  | cons c t ih =>
    rw [inertB_cons] at h
    simp only [Bool.and_eq_true, bne_iff_ne, ne_eq, Bool.not_eq_true', Bool.and_eq_false_iff, beq_eq_false_iff_ne] at h
    obtain ⟨⟨⟨⟨h1, h2⟩, h3⟩, h4⟩, h5⟩ := h
    obtain ⟨i1, i2, i3, i4, i5⟩ := ih h5
    refine ⟨by simp [i1]; omega, by simp [i2]; omega, by simp [i3]; omega, ?_, ?_⟩
    · simp only [containsSub, i4, Bool.or_false]
      rcases h4 with h4 | h4
      · simp only [List.isPrefixOf, Bool.and_eq_false_iff, beq_eq_false_iff_ne]
        exact Or.inl (fun hc => h4 hc.symm)
      · match t, h4 with
        | [], _ => simp [List.isPrefixOf]
        | [_], _ => simp [List.isPrefixOf]
        | x :: y :: r, h4 =>
          simp only [lsTail] at h4
          split at h4
          · simp at h4
          · rename_i hc
            simp only [List.isPrefixOf]
            simp only [Bool.and_eq_true, beq_iff_eq, Bool.or_eq_true, not_and, not_or] at hc
            cases hh : (226 == c) <;> cases hx : (128 == x) <;> cases hy : (168 == y) <;> simp_all
    · simp only [containsSub, i5, Bool.or_false]
      rcases h4 with h4 | h4
      · simp only [List.isPrefixOf, Bool.and_eq_false_iff, beq_eq_false_iff_ne]
        exact Or.inl (fun hc => h4 hc.symm)
      · match t, h4 with
        | [], _ => simp [List.isPrefixOf]
        | [_], _ => simp [List.isPrefixOf]
        | x :: y :: r, h4 =>
          simp only [lsTail] at h4
          split at h4
          · simp at h4
          · rename_i hc
            simp only [List.isPrefixOf]
            simp only [Bool.and_eq_true, beq_iff_eq, Bool.or_eq_true, not_and, not_or] at hc
            cases hh : (226 == c) <;> cases hx : (128 == x) <;> cases hy : (169 == y) <;> simp_all

end SafeHtml.Model.GoJson
