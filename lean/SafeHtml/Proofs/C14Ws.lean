/-
C14: a URL prefix whose BROWSER decoding (WHATWG attribute-value character-reference decoding) contains ASCII white
space or a control character is refused by `validateURLPrefix` and `validateTrustedResourceURLPrefix`
(`C14_rejects_browser_whitespace_statement` of Props/C14.lean, for the library after commit 213930e).

The engine tests the raw prefix and Go's `html.UnescapeString` of it, and refuses numeric references without `;`.
Per reference: if what the browser substitutes contains a byte ≤ 0x20 or 0x7f, then (the reference not being an
unterminated numeric one) Go substitutes exactly the same: a `;`-terminated numeric reference with an ASCII value
(C1 remapping, NUL, surrogates and overflow only ever give non-ASCII output in the browser), or a `;`-terminated
name of the table; legacy names without `;` never denote such a byte (table scan). And Go's decoder visits every
`&` (`C14Sound2.go_visits`).
Core Lean only.
-/
import SafeHtml.Proofs.C14Sound2
namespace SafeHtml.Proofs.C14Ws
open SafeHtml SafeHtml.Rx SafeHtml.Spec SafeHtml.Spec.CharRef SafeHtml.Generated.Regexes
open SafeHtml.Proofs.CharRefAppend SafeHtml.Proofs.CharRefEsc SafeHtml.Proofs.C14Sound SafeHtml.Proofs.C14Sound2
open SafeHtml.Model SafeHtml.Model.TmplUrl SafeHtml.Props.C14 SafeHtml.Spec.UrlComp

/-- contains ASCII white space or a control character -/
def hasWs (l : Bytes) : Bool := l.any isWsOrCtl

theorem hasWs_iff (l : Bytes) : hasWs l = true ↔ ∃ b ∈ l, isWsOrCtl b = true := by
  simp [hasWs]

theorem hasWs_amp : hasWs [38] = false := by decide

theorem isWsOrCtl_lt (b : Nat) (h : isWsOrCtl b = true) : b < 128 := by
  simp only [isWsOrCtl, Bool.or_eq_true, decide_eq_true_eq, beq_iff_eq] at h; omega

/-! ### table scan: a name without the final `;` never denotes white space or a control -/

theorem table_ws : (tableList.all fun ent =>
    ent.1 % 256 == 59 || !hasWs (encodeEntity ent.2)) = true := by
  decide +kernel

theorem legacy_no_ws (rest : Bytes) (j : Nat) (e : Nat × Nat) (h1 : 1 ≤ j) (hj : j ≤ CharRef.alnumRun rest)
    (hl : EntityTable.lookup ((rest.take (CharRef.alnumRun rest)).take j) = some e) :
    hasWs (encodeEntity e) = false := by
  rw [List.take_take, Nat.min_eq_left hj] at hl
  have hk := alnumRun_le rest
  have hne : rest.take j ≠ [] := by
    intro h0
    have := congrArg List.length h0
    simp only [List.length_take, List.length_nil] at this
    omega
  obtain ⟨i, x, hix⟩ := exists_snoc _ hne
  have hx : isAlnum x = true := alnumRun_take_all rest j hj x (by rw [hix]; simp)
  have hx256 := alnum_lt x hx
  have hx59 : x ≠ 59 := by rintro rfl; revert hx; decide
  obtain ⟨ent, hmem, hkey, he⟩ := lookup_some_entry _ e hl
  have := List.all_eq_true.1 table_ws ent hmem
  rw [hkey, he, hix, nameKey_snoc i x hx256] at this
  simp only [Bool.or_eq_true, beq_iff_eq, Bool.not_eq_true'] at this
  rcases this with h | h
  · exact absurd h hx59
  · exact h

/-! ### one reference -/

theorem named_ws (c : Nat) (u : Bytes) (hc : c ≠ 35) :
    hasWs (namedBody true (c :: u)).1 = false ∨ GoHtml.unescapeEntity (c :: u) = namedBody true (c :: u) := by
  by_cases hk : CharRef.alnumRun (c :: u) = 0
  · left; unfold namedBody; rw [hk]; exact hasWs_amp
  · cases hsl : semiLookup ((c :: u).take (CharRef.alnumRun (c :: u))) ((c :: u).drop (CharRef.alnumRun (c :: u))) with
    | some e =>
      right
      obtain ⟨w, hd, hl⟩ := semiLookup_some _ _ _ hsl
      have he := (lookup_facts _ e hl).1
      rw [go_named_semi c u w e hc hk hd hl he]
      unfold namedBody
      rw [hsl, if_neg (by simpa using hk)]
    | none =>
      left
      unfold namedBody
      rw [hsl, if_neg (by simpa using hk)]
      simp only []
      cases hlp : longestPrefix ((c :: u).take (CharRef.alnumRun (c :: u))) (CharRef.alnumRun (c :: u)) with
      | none => exact hasWs_amp
      | some ej =>
        obtain ⟨e, j⟩ := ej
        simp only []
        split
        · exact hasWs_amp
        · rw [longestPrefix_eq_G] at hlp
          obtain ⟨h1, hj, hl⟩ := longestPrefixG_spec _ _ _ _ _ hlp
          exact legacy_no_ws (c :: u) j e h1 hj hl

theorem hasWs_encodeRune_nonascii (r : Nat) (h : 128 ≤ r) : hasWs (Utf8.encodeRune r) = false := by
  cases hh : hasWs (Utf8.encodeRune r) with
  | false => rfl
  | true =>
    obtain ⟨b, hb, hw⟩ := (hasWs_iff _).1 hh
    have h1 := Utf8.encodeRune_nonascii r h b hb
    have h2 := isWsOrCtl_lt b hw
    omega

theorem num_ws (isHex : Bool) (pre ds : Bytes)
    (hpre : (isHex = true ∧ (pre = [120] ∨ pre = [88])) ∨
            (isHex = false ∧ pre = [] ∧ ∃ c u, ds = c :: u ∧ c ≠ 120 ∧ c ≠ 88))
    (hu : untermBody isHex ds = false) :
    hasWs (numBody isHex ds).1 = false ∨ GoHtml.unescapeEntity (35 :: (pre ++ ds)) = numBody isHex ds := by
  rw [numBody_eq]
  cases hd : digitsOf isHex ds with
  | mk x n =>
    unfold untermBody at hu
    rw [hd] at hu
    simp only [] at hu ⊢
    by_cases hn : n = 0
    · subst hn; left; exact hasWs_amp
    · have hn' : (n == 0) = false := by simp [hn]
      have hn'' : (n != 0) = true := by simp [hn]
      rw [hn'', Bool.true_and] at hu
      have hs : semiOf (ds.drop n) ≠ 0 := by simpa using hu
      obtain ⟨w, hw, hs1⟩ := semiOf_ne_zero _ hs
      simp only [hn', Bool.false_eq_true, if_false, hs1]
      by_cases hx : numericCodePoint x < 128
      · right; exact go_numeric isHex pre ds w x n hpre hd hn hw hx
      · left; exact hasWs_encodeRune_nonascii _ (by omega)

/-- **One reference.** If what the browser substitutes for the bytes after an `&` (not an unterminated numeric
    reference) contains white space or a control, Go substitutes the same and consumes the same bytes. -/
theorem ref_ws (rest : Bytes) (hu : untermAt rest = false) (h : hasWs (consume true rest).1 = true) :
    GoHtml.unescapeEntity rest = consume true rest := by
  cases rest with
  | nil => rw [consume_nil, hasWs_amp] at h; cases h
  | cons c u =>
    by_cases hc : c = 35
    · subst hc
      cases u with
      | nil => rw [consume_dec_nil] at h; revert h; decide
      | cons d w =>
        by_cases h1 : d = 120
        · subst h1
          rw [consume_hex_x] at h ⊢
          rcases num_ws true [120] w (Or.inl ⟨rfl, Or.inl rfl⟩) hu with h0 | he
          · rw [h0] at h; cases h
          · exact he
        · by_cases h2 : d = 88
          · subst h2
            rw [consume_hex_X] at h ⊢
            rcases num_ws true [88] w (Or.inl ⟨rfl, Or.inr rfl⟩) hu with h0 | he
            · rw [h0] at h; cases h
            · exact he
          · rw [consume_dec true d w h1 h2] at h ⊢
            rw [untermAt_dec d w h1 h2] at hu
            rcases num_ws false [] (d :: w) (Or.inr ⟨rfl, rfl, d, w, rfl, h1, h2⟩) hu with h0 | he
            · rw [h0] at h; cases h
            · exact he
    · rw [consume_named_eq true c u hc] at h ⊢
      rcases named_ws c u hc with h0 | he
      · rw [h0] at h; cases h
      · exact he

/-! ### browser sees white space / control ⇒ so does the engine -/

theorem hasWs_append (a b : Bytes) : hasWs (a ++ b) = (hasWs a || hasWs b) := by
  simp [hasWs]

theorem hasWs_cons (c : Nat) (t : Bytes) : hasWs (c :: t) = (isWsOrCtl c || hasWs t) := rfl

theorem hasWs_of_drop (n : Nat) (t : Bytes) (h : hasWs (t.drop n) = true) : hasWs t = true := by
  obtain ⟨b, hb, hw⟩ := (hasWs_iff _).1 h
  exact (hasWs_iff _).2 ⟨b, List.mem_of_mem_drop hb, hw⟩

theorem ws_aux (p : Bytes) : ∀ (f : Nat) (q pre : Bytes), p = pre ++ q → hasUnterm q = false →
    hasWs (decodeAux true f q) = true →
    hasWs q = true ∨ ∃ pre' t, p = pre' ++ 38 :: t ∧ hasWs (GoHtml.unescapeEntity t).1 = true
  | 0, q, _, _, _, h => by left; simpa [decodeAux] using h
  | f+1, [], _, _, _, h => by rw [decodeAux_nil] at h; cases h
  | f+1, c :: t, pre, hp, hu, h => by
    rw [hasUnterm_cons, Bool.or_eq_false_iff] at hu
    by_cases hc : c = 38
    · subst hc
      have hut : untermAt t = false := by simpa using hu.1
      rw [decodeAux_amp, hasWs_append, Bool.or_eq_true] at h
      rcases h with h1 | h2
      · right
        have he := ref_ws t hut h1
        exact ⟨pre, t, hp, by rw [he]; exact h1⟩
      · have hp' : p = (pre ++ 38 :: t.take (consume true t).2) ++ t.drop (consume true t).2 := by
          rw [hp, List.append_assoc, List.cons_append, List.take_append_drop]
        rcases ws_aux p f _ _ hp' (hasUnterm_drop _ _ hu.2) h2 with hl | hr
        · left; rw [hasWs_cons, hasWs_of_drop _ _ hl, Bool.or_true]
        · exact Or.inr hr
    · rw [decodeAux_other _ _ _ _ hc, hasWs_cons, Bool.or_eq_true] at h
      rcases h with h1 | h2
      · left; rw [hasWs_cons, h1, Bool.true_or]
      · have hp' : p = (pre ++ [c]) ++ t := by rw [hp]; simp
        rcases ws_aux p f t _ hp' hu.2 h2 with hl | hr
        · left; rw [hasWs_cons, hl, Bool.or_true]
        · exact Or.inr hr

/-- **Browser sees white space / control ⇒ the engine sees it**, for every string without unterminated numeric
    reference: in the raw string or in Go's `html.UnescapeString` of it. -/
theorem browser_ws_engine (p : Bytes) (hu : hasUnterm p = false) (h : hasWs (CharRef.decodeAttr p) = true) :
    hasWs p = true ∨ hasWs (GoHtml.unescapeString p) = true := by
  rcases ws_aux p p.length p [] rfl hu h with hl | ⟨pre', t, hp, ht⟩
  · exact Or.inl hl
  · right
    obtain ⟨b, hb, hw⟩ := (hasWs_iff _).1 ht
    exact (hasWs_iff _).2 ⟨b, go_visits p.length p pre' t (Nat.le_refl _) hp b hb, hw⟩

/-- the hypothesis `hasUnterm p = false` cannot be dropped: `/a&#9b/` (browser: TAB; Go: unchanged) -/
theorem browser_ws_engine_needs_hyp :
    hasWs (CharRef.decodeAttr [47, 97, 38, 35, 57, 98, 47]) = true ∧ hasWs [47, 97, 38, 35, 57, 98, 47] = false ∧
    hasWs (GoHtml.unescapeString [47, 97, 38, 35, 57, 98, 47]) = false := by decide

/-! ### the statements -/

/-- whatever `decodeURLPrefix` accepts has no white space or control in the browser's reading -/
theorem decodeURLPrefix_browser_no_ws (p d : Bytes) (h : decodeURLPrefix p = some d) :
    (CharRef.decodeAttr p).any isWsOrCtl = false := by
  cases hw : (CharRef.decodeAttr p).any isWsOrCtl with
  | false => rfl
  | true =>
    exfalso
    have hu : hasUnterm p = false := by
      rw [← rx_unterminatedNumericCharRef]; exact decodeURLPrefix_no_unterm p d h
    have hnone : decodeURLPrefix p = none := by
      rcases browser_ws_engine p hu hw with h1 | h1
      · exact C14_prefix_rejects_decode p (Or.inl h1)
      · exact C14_prefix_rejects_decode p (Or.inr (Or.inr (Or.inl h1)))
    rw [hnone] at h; cases h

/-- **`C14_rejects_browser_whitespace_statement` of Props/C14.lean** -/
theorem C14_rejects_browser_whitespace : C14_rejects_browser_whitespace_statement := by
  intro p hw
  cases hd : decodeURLPrefix p with
  | none => simp [validateURLPrefix, hd]
  | some d => rw [decodeURLPrefix_browser_no_ws p d hd] at hw; cases hw

/-- the same for TrustedResourceURL prefixes -/
theorem C14_rejects_browser_whitespace_tru (p : Bytes) (hw : (CharRef.decodeAttr p).any isWsOrCtl = true) :
    validateTrustedResourceURLPrefix p = false := by
  cases hd : decodeURLPrefix p with
  | none => simp [validateTrustedResourceURLPrefix, hd]
  | some d => rw [decodeURLPrefix_browser_no_ws p d hd] at hw; cases hw

/-- in terms of `chooseChain`: in every URL context a prefix whose browser decoding contains white space or a control
    makes the template be rejected -/
theorem C14_rejects_browser_whitespace_choose (sc : SC) (p : Bytes) (hsc : sc ≠ .other)
    (hw : (CharRef.decodeAttr p).any isWsOrCtl = true) : chooseChain sc p = none := by
  cases hc : chooseChain sc p with
  | none => rfl
  | some ch =>
    have hvalid := prefixValid_of_choose sc p ch hc
    obtain ⟨d, hd⟩ := prefixValid_decodes sc p hsc hvalid
    rw [decodeURLPrefix_browser_no_ws p d hd] at hw; cases hw

end SafeHtml.Proofs.C14Ws

#print axioms SafeHtml.Proofs.C14Ws.ref_ws
#print axioms SafeHtml.Proofs.C14Ws.browser_ws_engine
#print axioms SafeHtml.Proofs.C14Ws.C14_rejects_browser_whitespace
#print axioms SafeHtml.Proofs.C14Ws.C14_rejects_browser_whitespace_tru
#print axioms SafeHtml.Proofs.C14Ws.C14_rejects_browser_whitespace_choose
