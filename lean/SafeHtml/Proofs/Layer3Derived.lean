/-
Follow-up to `Layer3Helpers` (C01 at the level of `Api.step`): a straight-line helper called from a NON-default
context `cc` — inside an element (`<p>{{template "h" .}}</p>`) or inside a quoted attribute value
(`<p title="{{template "h" .}}">`).

* `TopCtx`, `mangle_length`, `mangle_ne_self`: outside the top-level text context the derived name `mangle cc h` is
  longer than, hence different from, the helper's name. (That it differs from the MAIN template's name is a hypothesis:
  the known finding mangled-name-collision.)
* `analyseD v cc cc'`: the analysis of the main template; a call is accepted exactly in the context `cc` and the
  analysis continues in the helper's output context `cc'` (`analyse v cc hps = some (cc', esH)`; `cc'` need not be
  `cc`: in an attribute value the static prefix `attrValue` grows). `analyseD_inline`: it is the straight-line analysis
  of the main template with the helper inlined; `SimpleD`, `SimpleAll_inlineD` the same for the grammar hypothesis.
* `escapeTree_derived_miss`: the first call — `mangle` gives the derived name `dn`, the helper's tree is copied under
  `dn` into `derived` (the pristine list is empty at the first `Execute`), `computeOutCtx` analyses the copy from `cc` in
  the scratch escaper `scratchD`, its edits (keyed by `dn`) are merged, `output[dn] = cc'`; `escapeTree_derived_hit`:
  later calls in the same context are memo hits; `escapeNode_tmpl_diff`: the call node gets a template edit to `dn`.
* `DSt`, `runD`, `MInvD`, `refD`: the model's `escapeList` on the main template's tree computes `runD`;
  `runD_keys`, `find_runD`, `find_d_true`, `find_d_false`: keys and lookups of the three edit lists;
  `escapeTree_mainD`: `escapeTree` on the main template returns `escAfterD`.
* `applyD`: `applyEdits` rewrites the main tree to `outM dn` (the calls renamed to the derived name);
  `applyEdits_node_none`/`list_none`; `commit_derived`: `commit` installs the derived copy in the text set (rewritten
  with its own edits), rewrites the main template and leaves the helper's original tree as it is.
* `apiExecute2_any`: the first `Execute` after `New`, `Parse` returns the walk of the committed main tree in the
  committed text set (`markOk` does not register derived templates as objects).
* `C01_api_main_plus_derived_helper` (and `'` with the grammar hypothesis split into `SimpleAll v cc hps` for the
  helper and `SimpleD v cc' {} ms` for the main template): same conclusion as `C01_api_main_plus_helper`.
* Examples (kernel-evaluated outputs of the whole state machine): `ex_api_derived_element` (`<p>{{template "h" .}}</p>`
  with helper `<b>{{.T}}</b>`), `ex_api_derived_attr` (`<p title="{{template "h" .}}">x</p>` with helper `a {{.T}} b`),
  `ex_api_derived_twice` (`<p>{{template "h" .}}{{template "h" .}}{{.T}}</p>` with helper `{{.T}}, `: memo hit).
Not covered: calls in two different contexts (two derived copies; a memo hit with a different `attrValue`/`ambiguous` is
the known memo finding), helpers with branches or nested calls, a second `Execute`, `csp = true`.
Core Lean only; axioms: propext, Classical.choice, Quot.sound.
-/
import SafeHtml.Proofs.Layer3Helpers
set_option linter.unusedSimpArgs false
set_option linter.unusedVariables false
namespace SafeHtml.Proofs.Layer3Derived
open SafeHtml SafeHtml.Model SafeHtml.Model.Tmpl SafeHtml.Spec SafeHtml.Spec.HtmlTok SafeHtml.Generated.Policy
open SafeHtml.Props.C01 (InertPos run_nil run_cons run_append)
open SafeHtml.Props.C02 (Untrusted)
open SafeHtml.Proofs.HtmlTokSim
open SafeHtml.Proofs.Layer3 SafeHtml.Proofs.Layer3E2E SafeHtml.Proofs.Layer3Branch SafeHtml.Proofs.Layer3Calls
open SafeHtml.Proofs.Layer3Helpers

/-! ### string facts about `mangle` -/

/-- the contexts in which `mangle` is the identity -/
def TopCtx (c : Ctx) : Bool := c.state == .text && c.elemName == [] && c.elemNames.isEmpty

theorem mangle_length (c : Ctx) (name : String) (hc : TopCtx c = false) : name.length < (mangle c name).length := by
  unfold TopCtx at hc
  unfold mangle
  rw [if_neg (by simpa using hc)]
  simp only [String.length_append]
  have : "$htmltemplate_".length = 14 := by decide
  omega

/-- outside the top-level text context the derived name differs from the helper's name -/
theorem mangle_ne_self (c : Ctx) (name : String) (hc : TopCtx c = false) : mangle c name ≠ name := by
  intro h
  have := mangle_length c name hc
  rw [h] at this
  omega

/-! ### the analysis of a main template whose calls sit in the context `cc` -/

/-- a call is accepted exactly in the call context `cc`; the analysis continues in the helper's output context `cc'` -/
def analyseD (v : Validators) (cc cc' : Ctx) : Ctx → List MP → Option (Ctx × List EM)
  | c, [] => some (c, [])
  | c, .text s :: ps =>
    match scan c s with
    | none => none
    | some (c', out) =>
      if c'.state == .error then none
      else match analyseD v cc cc' c' ps with
        | none => none
        | some (cf, es) => some (cf, .text out :: es)
  | c, .action a :: ps =>
    match actionStep v c with
    | none => none
    | some (c', ch) =>
      match analyseD v cc cc' c' ps with
      | none => none
      | some (cf, es) => some (cf, .action a ch :: es)
  | c, .call :: ps =>
    if c = cc then
      match analyseD v cc cc' cc' ps with
      | none => none
      | some (cf, es) => some (cf, .call :: es)
    else none

theorem analyseD_inline (v : Validators) (cc cc' : Ctx) (hps : List Piece) (esH : List EPiece)
    (hH : analyse v cc hps = some (cc', esH)) :
    ∀ (ms : List MP) (c cf : Ctx) (es : List EM), analyseD v cc cc' c ms = some (cf, es) →
      analyse v c (inlineP hps ms) = some (cf, inlineE esH es)
  | [], c, cf, es, h => by
    simp only [analyseD, Option.some.injEq, Prod.mk.injEq] at h
    obtain ⟨rfl, rfl⟩ := h
    simp [inlineP, inlineE, analyse]
  | .text s :: ms, c, cf, es, h => by
    simp only [analyseD] at h
    cases hsc : scan c s with
    | none => simp [hsc] at h
    | some r =>
      obtain ⟨c', out⟩ := r
      simp only [hsc] at h
      split at h
      · cases h
      · next hne =>
        cases hrec : analyseD v cc cc' c' ms with
        | none => simp [hrec] at h
        | some r2 =>
          obtain ⟨cx, ex⟩ := r2
          simp only [hrec, Option.some.injEq, Prod.mk.injEq] at h
          obtain ⟨rfl, rfl⟩ := h
          have := analyseD_inline v cc cc' hps esH hH ms c' cx ex hrec
          simp [inlineP, inlineE, analyse, hsc, hne, this]
  | .action a :: ms, c, cf, es, h => by
    simp only [analyseD] at h
    cases hact : actionStep v c with
    | none => simp [hact] at h
    | some r =>
      obtain ⟨c', ch⟩ := r
      simp only [hact] at h
      cases hrec : analyseD v cc cc' c' ms with
      | none => simp [hrec] at h
      | some r2 =>
        obtain ⟨cx, ex⟩ := r2
        simp only [hrec, Option.some.injEq, Prod.mk.injEq] at h
        obtain ⟨rfl, rfl⟩ := h
        have := analyseD_inline v cc cc' hps esH hH ms c' cx ex hrec
        simp [inlineP, inlineE, analyse, hact, this]
  | .call :: ms, c, cf, es, h => by
    simp only [analyseD] at h
    split at h
    · next hc =>
      subst hc
      cases hrec : analyseD v c cc' cc' ms with
      | none => simp [hrec] at h
      | some r2 =>
        obtain ⟨cx, ex⟩ := r2
        simp only [hrec, Option.some.injEq, Prod.mk.injEq] at h
        obtain ⟨rfl, rfl⟩ := h
        have := analyseD_inline v c cc' hps esH hH ms cc' cx ex hrec
        simpa [inlineP, inlineE] using analyse_append v hps _ c cc' cx esH _ hH this
    · cases h

theorem analyseD_args (v : Validators) (cc cc' : Ctx) : ∀ (ms : List MP) (c cf : Ctx) (es : List EM),
    analyseD v cc cc' c ms = some (cf, es) → ArgsOKM ms → ArgsOKE es
  | [], c, cf, es, h, _ => by
    simp only [analyseD, Option.some.injEq, Prod.mk.injEq] at h; obtain ⟨_, rfl⟩ := h; trivial
  | .text s :: ms, c, cf, es, h, hok => by
    simp only [analyseD] at h
    split at h
    · cases h
    · split at h
      · cases h
      · split at h
        · cases h
        · next cf' es' hrec =>
          simp only [Option.some.injEq, Prod.mk.injEq] at h
          obtain ⟨_, rfl⟩ := h
          exact (analyseD_args v cc cc' ms _ _ es' hrec hok : ArgsOKE es')
  | .action a :: ms, c, cf, es, h, hok => by
    simp only [analyseD] at h
    split at h
    · cases h
    · split at h
      · cases h
      · next cf' es' hrec =>
        simp only [Option.some.injEq, Prod.mk.injEq] at h
        obtain ⟨_, rfl⟩ := h
        exact ⟨hok.1, analyseD_args v cc cc' ms _ _ _ hrec hok.2⟩
  | .call :: ms, c, cf, es, h, hok => by
    simp only [analyseD] at h
    split at h
    · split at h
      · cases h
      · next cf' es' hrec =>
        simp only [Option.some.injEq, Prod.mk.injEq] at h
        obtain ⟨_, rfl⟩ := h
        exact (analyseD_args v cc cc' ms _ _ es' hrec hok : ArgsOKE es')
    · cases h

/-- the static texts of the main template are simple for the contexts they are scanned in; after a call the
    analysis continues in the helper's output context `cc'` -/
def SimpleD (v : Validators) (cc' : Ctx) : Ctx → List MP → Prop
  | _, [] => True
  | c, .text s :: ps =>
    (∃ js out se, Simple js c.elemName c.state c.delim s out se ∧
      (memKey specialElements c.elemName = true → InTagState c.state → ∀ x ∈ s, x ≠ 60) ∧
      (js = true → isJsTemplateBalanced s = true)) ∧
    SimpleD v cc' (scanD c s).1 ps
  | c, .action _ :: ps =>
    (c.state = .beforeValue → c.attrName ≠ []) ∧
    match actionStep v c with
    | some (c', _) => SimpleD v cc' c' ps
    | none => True
  | _, .call :: ps => SimpleD v cc' cc' ps

theorem SimpleAll_inlineD (v : Validators) (cc cc' : Ctx) (hps : List Piece) (esH : List EPiece)
    (hH : analyse v cc hps = some (cc', esH)) (hsH : SimpleAll v cc hps) : ∀ (ms : List MP) (c cf : Ctx) (es : List EM),
    analyseD v cc cc' c ms = some (cf, es) → SimpleD v cc' c ms → SimpleAll v c (inlineP hps ms)
  | [], c, cf, es, _, _ => trivial
  | .text s :: ms, c, cf, es, h, hs => by
    simp only [analyseD] at h
    cases hsc : scan c s with
    | none => simp [hsc] at h
    | some r =>
      obtain ⟨c', out⟩ := r
      simp only [hsc] at h
      split at h
      · cases h
      · cases hrec : analyseD v cc cc' c' ms with
        | none => simp [hrec] at h
        | some r2 =>
          obtain ⟨cx, ex⟩ := r2
          have hsd : (scanD c s).1 = c' := by simp [scanD, hsc]
          simp only [SimpleD, hsd] at hs
          simp only [inlineP, SimpleAll, hsd]
          exact ⟨hs.1, SimpleAll_inlineD v cc cc' hps esH hH hsH ms c' cx ex hrec hs.2⟩
  | .action a :: ms, c, cf, es, h, hs => by
    simp only [analyseD] at h
    cases hact : actionStep v c with
    | none => simp [hact] at h
    | some r =>
      obtain ⟨c', ch⟩ := r
      simp only [hact] at h
      cases hrec : analyseD v cc cc' c' ms with
      | none => simp [hrec] at h
      | some r2 =>
        obtain ⟨cx, ex⟩ := r2
        simp only [SimpleD, hact] at hs
        simp only [inlineP, SimpleAll, hact]
        exact ⟨hs.1, SimpleAll_inlineD v cc cc' hps esH hH hsH ms c' cx ex hrec hs.2⟩
  | .call :: ms, c, cf, es, h, hs => by
    simp only [analyseD] at h
    split at h
    · next hc =>
      subst hc
      cases hrec : analyseD v c cc' cc' ms with
      | none => simp [hrec] at h
      | some r2 =>
        obtain ⟨cx, ex⟩ := r2
        simp only [SimpleD] at hs
        simp only [inlineP]
        exact SimpleAll_append v hps _ c cc' esH hH hsH (SimpleAll_inlineD v c cc' hps esH hH hsH ms cc' cx ex hrec hs)
    · cases h

/-! ### the model's analysis of a call in the context `cc`: derived copy (memo miss) and memo hit -/

/-- the scratch escaper of the main template `m` before the first call -/
def escD0 (m : String) (A : List (EditKey × List String)) (T : List (EditKey × String)) (X : List (EditKey × Bytes)) :
    Esc :=
  { output := [(m, {})], memoPrefix := [(m, ([], false))], actionEdits := A, tmplEdits := T, textEdits := X }

/-- … and after it: the derived copy `dt` of the helper under the name `dn`, memoised with output context `cc'` -/
def escD1 (m dn : String) (cc cc' : Ctx) (dt : Tree) (A : List (EditKey × List String)) (T : List (EditKey × String))
    (X : List (EditKey × Bytes)) : Esc :=
  { output := [(m, {}), (dn, cc')], derived := [(dn, dt)], called := [dn],
    memoPrefix := [(m, ([], false)), (dn, (cc.attrValue, cc.ambiguous))],
    actionEdits := A, tmplEdits := T, textEdits := X }

/-- the scratch escaper in which the derived copy's body is analysed -/
def scratchD (m dn : String) (cc : Ctx) : Esc :=
  { output := [(m, {}), (dn, cc)], pristine := [],
    memoPrefix := [(m, ([], false)), (dn, (cc.attrValue, cc.ambiguous))] }

theorem esc_of_otherEqD (m dn : String) (cc : Ctx) (s1 : Esc) (hoe : OtherEq (scratchD m dn cc) s1) :
    s1 = { output := [(m, {}), (dn, cc)], memoPrefix := [(m, ([], false)), (dn, (cc.attrValue, cc.ambiguous))],
           actionEdits := s1.actionEdits, textEdits := s1.textEdits } := by
  obtain ⟨h1, h2, h3, h4, h5, h6, h7⟩ := hoe
  cases s1
  simp only [scratchD] at h1 h2 h3 h4 h5 h6 h7
  simp_all

/-- first call: the helper's tree is copied under the derived name, the copy is analysed from the call context and its
    edits (keyed by the derived name) are merged -/
theorem escapeTree_derived_miss (env : Env) (m h dn : String) (cc cc' : Ctx) (hdn : mangle cc h = dn)
    (hdm : dn ≠ m) (hdh : dn ≠ h) (hcc : cc.state ≠ .error) (hcc' : cc'.state ≠ .error) (trh : Tree)
    (A : List (EditKey × List String)) (T : List (EditKey × String)) (X : List (EditKey × Bytes)) (s1 : Esc) (f : Nat)
    (hlook : env.text.lookup h = some (some trh)) (hlookd : env.text.lookup dn = none)
    (hl : escapeList env f dn (scratchD m dn cc) cc trh.root = .ok (s1, cc'))
    (hoe : OtherEq (scratchD m dn cc) s1) (hk : KeysOK dn s1)
    (hA : ∀ p ∈ A, p.1.1 = m) (hX : ∀ p ∈ X, p.1.1 = m) :
    escapeTree env (f + 3) (escD0 m A T X) cc h =
      .ok (escD1 m dn cc cc' { trh with name := dn } (A ++ s1.actionEdits) T (X ++ s1.textEdits), cc', dn) := by
  have hmd' : (m == dn) = false := by simpa using (Ne.symm hdm)
  have hdm' : (dn == m) = false := by simpa using hdm
  have hdh' : (dn == h) = false := by simpa using hdh
  have hce : (cc.state == State.error) = false := by simpa using hcc
  have hce' : (cc'.state == State.error) = false := by simpa using hcc'
  have hs1 := esc_of_otherEqD m dn cc s1 hoe
  have hm1 := mergeEdits_ok s1.actionEdits A (fun p hp => by
    rw [List.any_eq_false]; intro q hq
    have h1 := hA q hq; have h2 := hk.1 p hp
    have : q.1 ≠ p.1 := fun he => hdm (by rw [← h1, ← h2, he])
    simpa using this) hk.2.1
  have hm2 := mergeEdits_ok s1.textEdits X (fun p hp => by
    rw [List.any_eq_false]; intro q hq
    have h1 := hX q hq; have h2 := hk.2.2.1 p hp
    have : q.1 ≠ p.1 := fun he => hdm (by rw [← h1, ← h2, he])
    simpa using this) hk.2.2.2
  have hm3 : mergeEdits T ([] : List (EditKey × String)) = .ok T := by simp [mergeEdits, List.foldlM, pure]
  rw [hs1] at hl
  simp only [scratchD] at hl
  simp only [escapeTree, hdn]
  simp [escD0, escD1, Esc.template, hlook, hlookd, alookup, aset, computeOutCtx, escapeTemplateBody, hl, bind, Out.bind,
    hm1, hm2, hm3, pure, hmd', hdm', hdh', hdm, hdh, Ne.symm hdm, Ne.symm hdh, hce, hce', hcc, hcc']

/-- later calls in the same context: memo hit -/
theorem escapeTree_derived_hit (env : Env) (m h dn : String) (cc cc' : Ctx) (hdn : mangle cc h = dn)
    (hdm : dn ≠ m) (hcc : cc.state ≠ .error) (dt : Tree)
    (A : List (EditKey × List String)) (T : List (EditKey × String)) (X : List (EditKey × Bytes)) (f : Nat) :
    escapeTree env (f + 1) (escD1 m dn cc cc' dt A T X) cc h = .ok (escD1 m dn cc cc' dt A T X, cc', dn) := by
  have hmd' : (m == dn) = false := by simpa using (Ne.symm hdm)
  have hce : (cc.state == State.error) = false := by simpa using hcc
  simp [escapeTree, hdn, escD1, alookup, hmd', hdm, Ne.symm hdm, hce, hcc]

/-! ### the model's analysis of the main template -/

/-- state of the main template's scratch escaper: derived copy analysed yet?, action / template / text edits -/
structure DSt where
  fl : Bool
  A : List (EditKey × List String)
  T : List (EditKey × String)
  X : List (EditKey × Bytes)

def escOfD (m dn : String) (cc cc' : Ctx) (dt : Tree) (st : DSt) : Esc :=
  if st.fl then escD1 m dn cc cc' dt st.A st.T st.X else escD0 m st.A st.T st.X

/-- the escaper state after the analysis of the main pieces; `AH`, `XH` are the derived copy's edits; every call node
    gets a template edit to the derived name `dn` -/
def runD (v : Validators) (m dn : String) (cc' : Ctx) (AH : List (EditKey × List String)) (XH : List (EditKey × Bytes)) :
    Nat → Ctx → List MP → DSt → DSt
  | _, _, [], st => st
  | i, c, .text s :: ps, st => runD v m dn cc' AH XH (i + 1) (scanD c s).1 ps { st with X := addText m i c s st.X }
  | i, c, .action _ :: ps, st =>
    match actionStep v c with
    | some (c', ch) => runD v m dn cc' AH XH (i + 1) c' ps { st with A := st.A ++ [((m, i), ch)] }
    | none => st
  | i, _, .call :: ps, st =>
    if st.fl then runD v m dn cc' AH XH (i + 1) cc' ps { st with T := st.T ++ [((m, i), dn)] }
    else runD v m dn cc' AH XH (i + 1) cc' ps
      { fl := true, A := st.A ++ AH, T := st.T ++ [((m, i), dn)], X := st.X ++ XH }

/-- invariant of the state at node id `i`: no edit yet for the ids `≥ i` of the main template; before the first
    call all action / text edits belong to the main template -/
def MInvD (m : String) (i : Nat) (st : DSt) : Prop :=
  (∀ k, i ≤ k → st.A.any (fun p => p.1 == (m, k)) = false ∧ st.T.any (fun p => p.1 == (m, k)) = false ∧
    st.X.any (fun p => p.1 == (m, k)) = false) ∧
  (st.fl = false → (∀ p ∈ st.A, p.1.1 = m) ∧ (∀ p ∈ st.X, p.1.1 = m))

theorem escOfD_text (m dn : String) (cc cc' : Ctx) (dt : Tree) (st : DSt) (X' : List (EditKey × Bytes)) :
    { escOfD m dn cc cc' dt st with textEdits := X' } = escOfD m dn cc cc' dt { st with X := X' } := by
  unfold escOfD; cases st.fl <;> rfl

theorem escOfD_action (m dn : String) (cc cc' : Ctx) (dt : Tree) (st : DSt) (A' : List (EditKey × List String)) :
    { escOfD m dn cc cc' dt st with actionEdits := A' } = escOfD m dn cc cc' dt { st with A := A' } := by
  unfold escOfD; cases st.fl <;> rfl

theorem escOfD_edits (m dn : String) (cc cc' : Ctx) (dt : Tree) (st : DSt) :
    (escOfD m dn cc cc' dt st).actionEdits = st.A ∧ (escOfD m dn cc cc' dt st).textEdits = st.X := by
  unfold escOfD; cases st.fl <;> exact ⟨rfl, rfl⟩

theorem escapeNode_tmpl_diff (env : Env) (f : Nat) (tn : String) (e e' : Esc) (c c' : Ctx) (id : Nat) (name dn : String)
    (p : Option Pipe) (h : escapeTree env f e c name = .ok (e', c', dn)) (hne : dn ≠ name)
    (hfr : e'.tmplEdits.any (fun p => p.1 == (tn, id)) = false) :
    escapeNode env (f + 1) tn e c (.tmpl id name p) =
      .ok ({ e' with tmplEdits := e'.tmplEdits ++ [((tn, id), dn)] }, c') := by
  rw [escapeNode]
  simp [h, bind, Out.bind, pure, hne, Esc.editTmpl, hfr]

theorem any_snoc_lt {β} (l : List (EditKey × β)) (m : String) (i k : Nat) (x : β) (hik : i < k)
    (h : l.any (fun p => p.1 == (m, k)) = false) : (l ++ [((m, i), x)]).any (fun p => p.1 == (m, k)) = false := by
  simp only [List.any_append, h, List.any_cons, List.any_nil, Bool.or_false, Bool.false_or]
  simp; omega

theorem refD (env : Env) (hcsp : env.csp = false) (m h dn : String) (cc cc' : Ctx) (hdn : mangle cc h = dn)
    (hdm : dn ≠ m) (hdh : dn ≠ h) (hcc : cc.state ≠ .error) (hcc' : cc'.state ≠ .error) (trh : Tree) (nH : Nat)
    (s1 : Esc) (hlookH : env.text.lookup h = some (some trh)) (hlookd : env.text.lookup dn = none)
    (hlH : ∀ f, nH ≤ f → escapeList env f dn (scratchD m dn cc) cc trh.root = .ok (s1, cc'))
    (hoe : OtherEq (scratchD m dn cc) s1) (hk : KeysOK dn s1) :
    ∀ (ms : List MP) (i : Nat) (c cf : Ctx) (st : DSt) (es : List EM) (f : Nat),
      analyseD env.v cc cc' c ms = some (cf, es) → MInvD m i st → ArgsOKM ms → ms.length + nH + 5 ≤ f →
      escapeList env f m (escOfD m dn cc cc' { trh with name := dn } st) c (NodeList.ofList (nodesM h i ms)) =
        .ok (escOfD m dn cc cc' { trh with name := dn }
          (runD env.v m dn cc' s1.actionEdits s1.textEdits i c ms st), cf)
  | [], i, c, cf, st, es, f, ha, _, _, hf => by
    obtain ⟨f', rfl⟩ : ∃ f', f = f' + 1 := ⟨f - 1, by omega⟩
    simp only [analyseD, Option.some.injEq, Prod.mk.injEq] at ha
    simp [nodesM, NodeList.ofList, escapeList, runD, ha.1]
  | .text s :: ms, i, c, cf, st, es, f, ha, hinv, hok, hf => by
    obtain ⟨f', rfl⟩ : ∃ f', f = f' + 2 := ⟨f - 2, by simp at hf; omega⟩
    simp only [analyseD] at ha
    cases hsc : scan c s with
    | none => simp [hsc] at ha
    | some r =>
      obtain ⟨c', out⟩ := r
      simp only [hsc] at ha
      split at ha
      · cases ha
      · cases hrec : analyseD env.v cc cc' c' ms with
        | none => simp [hrec] at ha
        | some r2 =>
          obtain ⟨cf', es'⟩ := r2
          simp only [hrec, Option.some.injEq, Prod.mk.injEq] at ha
          obtain ⟨rfl, _⟩ := ha
          have hsd : (scanD c s).1 = c' := by simp [scanD, hsc]
          have hkk : (escOfD m dn cc cc' { trh with name := dn } st).textEdits.any (fun p => p.1 == (m, i)) = false := by
            rw [(escOfD_edits m dn cc cc' _ st).2]; exact (hinv.1 i (Nat.le_refl _)).2.2
          have h1 := escapeTextNode_scan env hcsp m (escOfD m dn cc cc' { trh with name := dn } st) c c' i s out hsc hkk
          rw [(escOfD_edits m dn cc cc' _ st).2, escOfD_text] at h1
          have hinv' : MInvD m (i + 1) { st with X := addText m i c s st.X } := by
            refine ⟨fun k hk' => ⟨(hinv.1 k (by omega)).1, (hinv.1 k (by omega)).2.1, ?_⟩,
              fun hd => ⟨(hinv.2 hd).1, ?_⟩⟩
            · simp only [addText]
              split
              · exact any_snoc_lt _ m i k _ (by omega) (hinv.1 k (by omega)).2.2
              · exact (hinv.1 k (by omega)).2.2
            · simp only [addText]
              split
              · intro p hp
                rcases List.mem_append.1 hp with hp | hp
                · exact (hinv.2 hd).2 p hp
                · simp at hp; rw [hp]
              · exact (hinv.2 hd).2
          have ih := refD env hcsp m h dn cc cc' hdn hdm hdh hcc hcc' trh nH s1 hlookH hlookd hlH hoe hk ms (i + 1) c'
            cf' _ es' (f' + 1) hrec hinv' hok (by simp at hf ⊢; omega)
          simp only [nodesM, NodeList.ofList, escapeList, escapeNode, h1, bind, Out.bind, runD, hsd]
          exact ih
  | .action a :: ms, i, c, cf, st, es, f, ha, hinv, hok, hf => by
    obtain ⟨f', rfl⟩ : ∃ f', f = f' + 2 := ⟨f - 2, by simp at hf; omega⟩
    simp only [analyseD] at ha
    cases hact : actionStep env.v c with
    | none => simp [hact] at ha
    | some r =>
      obtain ⟨c', ch⟩ := r
      simp only [hact] at ha
      cases hrec : analyseD env.v cc cc' c' ms with
      | none => simp [hrec] at ha
      | some r2 =>
        obtain ⟨cf', es'⟩ := r2
        simp only [hrec, Option.some.injEq, Prod.mk.injEq] at ha
        obtain ⟨rfl, _⟩ := ha
        have hkk : (escOfD m dn cc cc' { trh with name := dn } st).actionEdits.any (fun p => p.1 == (m, i)) = false := by
          rw [(escOfD_edits m dn cc cc' _ st).1]; exact (hinv.1 i (Nat.le_refl _)).1
        have h1 := escapeAction_arg env m (escOfD m dn cc cc' { trh with name := dn } st) c c' ch i a hok.1 hact hkk
        rw [(escOfD_edits m dn cc cc' _ st).1, escOfD_action] at h1
        have hinv' : MInvD m (i + 1) { st with A := st.A ++ [((m, i), ch)] } := by
          refine ⟨fun k hk' => ⟨?_, (hinv.1 k (by omega)).2⟩, fun hd => ⟨?_, (hinv.2 hd).2⟩⟩
          · exact any_snoc_lt _ m i k _ (by omega) (hinv.1 k (by omega)).1
          · intro p hp
            rcases List.mem_append.1 hp with hp | hp
            · exact (hinv.2 hd).1 p hp
            · simp at hp; rw [hp]
        have ih := refD env hcsp m h dn cc cc' hdn hdm hdh hcc hcc' trh nH s1 hlookH hlookd hlH hoe hk ms (i + 1) c'
          cf' _ es' (f' + 1) hrec hinv' hok.2 (by simp at hf ⊢; omega)
        simp only [nodesM, NodeList.ofList, escapeList, escapeNode, h1, bind, Out.bind, runD, hact]
        exact ih
  | .call :: ms, i, c, cf, st, es, f, ha, hinv, hok, hf => by
    obtain ⟨f', rfl⟩ : ∃ f', f = f' + 5 := ⟨f - 5, by simp at hf; omega⟩
    simp only [analyseD] at ha
    split at ha
    · next hc =>
      subst hc
      cases hrec : analyseD env.v c cc' cc' ms with
      | none => simp [hrec] at ha
      | some r2 =>
        obtain ⟨cf', es'⟩ := r2
        simp only [hrec, Option.some.injEq, Prod.mk.injEq] at ha
        obtain ⟨rfl, _⟩ := ha
        obtain ⟨fl, A, T, X⟩ := st
        cases fl with
        | true =>
          have h1 : escapeTree env (f' + 3) (escD1 m dn c cc' { trh with name := dn } A T X) c h =
              .ok (escD1 m dn c cc' { trh with name := dn } A T X, cc', dn) :=
            escapeTree_derived_hit env m h dn c cc' hdn hdm hcc _ A T X (f' + 2)
          have ih := refD env hcsp m h dn c cc' hdn hdm hdh hcc hcc' trh nH s1 hlookH hlookd hlH hoe hk ms (i + 1) cc'
            cf' ⟨true, A, T ++ [((m, i), dn)], X⟩ es' (f' + 4) hrec
            ⟨fun k hk' => ⟨(hinv.1 k (by omega)).1, any_snoc_lt _ m i k _ (by omega) (hinv.1 k (by omega)).2.1,
              (hinv.1 k (by omega)).2.2⟩, fun hd => by cases hd⟩ hok (by simp at hf ⊢; omega)
          simp only [nodesM, NodeList.ofList]
          rw [escapeList_cons, show escOfD m dn c cc' { trh with name := dn } ⟨true, A, T, X⟩ =
              escD1 m dn c cc' { trh with name := dn } A T X from rfl,
            escapeNode_tmpl_diff env (f' + 3) m _ _ _ _ i h dn _ h1 hdh (hinv.1 i (Nat.le_refl _)).2.1]
          simpa [escOfD, runD, escD1] using ih
        | false =>
          have hl := hlH f' (by simp at hf; omega)
          have h1 := escapeTree_derived_miss env m h dn c cc' hdn hdm hdh hcc hcc' trh A T X s1 f' hlookH hlookd hl hoe hk
            (hinv.2 rfl).1 (hinv.2 rfl).2
          have ih := refD env hcsp m h dn c cc' hdn hdm hdh hcc hcc' trh nH s1 hlookH hlookd hlH hoe hk ms (i + 1) cc'
            cf' ⟨true, A ++ s1.actionEdits, T ++ [((m, i), dn)], X ++ s1.textEdits⟩ es' (f' + 4) hrec
            ⟨fun k hk' => ⟨by
                simp only [List.any_append, (hinv.1 k (by omega)).1, Bool.false_or]
                exact any_other_name _ m dn k (Ne.symm hdm) hk.1,
                any_snoc_lt _ m i k _ (by omega) (hinv.1 k (by omega)).2.1, by
                simp only [List.any_append, (hinv.1 k (by omega)).2.2, Bool.false_or]
                exact any_other_name _ m dn k (Ne.symm hdm) hk.2.2.1⟩, fun hd => by cases hd⟩ hok
            (by simp at hf ⊢; omega)
          simp only [nodesM, NodeList.ofList]
          rw [escapeList_cons, show escOfD m dn c cc' { trh with name := dn } ⟨false, A, T, X⟩ = escD0 m A T X from rfl,
            escapeNode_tmpl_diff env (f' + 3) m _ _ _ _ i h dn _ h1 hdh (hinv.1 i (Nat.le_refl _)).2.1]
          simpa [escOfD, runD, escD1] using ih
    · cases ha

/-! ### the edits of the main template's analysis: invariant, keys, lookups -/

theorem MInvD_text (m : String) (i : Nat) (c : Ctx) (s : Bytes) (st : DSt) (hinv : MInvD m i st) :
    MInvD m (i + 1) { st with X := addText m i c s st.X } := by
  refine ⟨fun k hk' => ⟨(hinv.1 k (by omega)).1, (hinv.1 k (by omega)).2.1, ?_⟩, fun hd => ⟨(hinv.2 hd).1, ?_⟩⟩
  · simp only [addText]
    split
    · exact any_snoc_lt _ m i k _ (by omega) (hinv.1 k (by omega)).2.2
    · exact (hinv.1 k (by omega)).2.2
  · simp only [addText]
    split
    · intro p hp
      rcases List.mem_append.1 hp with hp | hp
      · exact (hinv.2 hd).2 p hp
      · simp at hp; rw [hp]
    · exact (hinv.2 hd).2

theorem MInvD_action (m : String) (i : Nat) (ch : List String) (st : DSt) (hinv : MInvD m i st) :
    MInvD m (i + 1) { st with A := st.A ++ [((m, i), ch)] } := by
  refine ⟨fun k hk' => ⟨?_, (hinv.1 k (by omega)).2⟩, fun hd => ⟨?_, (hinv.2 hd).2⟩⟩
  · exact any_snoc_lt _ m i k _ (by omega) (hinv.1 k (by omega)).1
  · intro p hp
    rcases List.mem_append.1 hp with hp | hp
    · exact (hinv.2 hd).1 p hp
    · simp at hp; rw [hp]

theorem MInvD_callT (m dn : String) (i : Nat) (st : DSt) (hfl : st.fl = true) (hinv : MInvD m i st) :
    MInvD m (i + 1) { st with T := st.T ++ [((m, i), dn)] } :=
  ⟨fun k hk' => ⟨(hinv.1 k (by omega)).1, any_snoc_lt _ m i k _ (by omega) (hinv.1 k (by omega)).2.1,
    (hinv.1 k (by omega)).2.2⟩, fun hd => by simp [hfl] at hd⟩

theorem MInvD_callF (m dn : String) (hdm : dn ≠ m) (i : Nat) (st : DSt) (AH : List (EditKey × List String))
    (XH : List (EditKey × Bytes)) (hAH : ∀ p ∈ AH, p.1.1 = dn) (hXH : ∀ p ∈ XH, p.1.1 = dn) (hinv : MInvD m i st) :
    MInvD m (i + 1) { fl := true, A := st.A ++ AH, T := st.T ++ [((m, i), dn)], X := st.X ++ XH } :=
  ⟨fun k hk' => ⟨by
      simp only [List.any_append, (hinv.1 k (by omega)).1, Bool.false_or]
      exact any_other_name _ m dn k (Ne.symm hdm) hAH,
      any_snoc_lt _ m i k _ (by omega) (hinv.1 k (by omega)).2.1, by
      simp only [List.any_append, (hinv.1 k (by omega)).2.2, Bool.false_or]
      exact any_other_name _ m dn k (Ne.symm hdm) hXH⟩, fun hd => by cases hd⟩

/-- the lookups of earlier node ids of the main template are not affected by later edits -/
theorem find_runD (v : Validators) (m dn : String) (hdm : dn ≠ m) (cc' : Ctx) (AH : List (EditKey × List String))
    (XH : List (EditKey × Bytes)) (hAH : ∀ p ∈ AH, p.1.1 = dn) (hXH : ∀ p ∈ XH, p.1.1 = dn) :
    ∀ (ms : List MP) (i : Nat) (c : Ctx) (st : DSt) (k : Nat), k < i →
      (runD v m dn cc' AH XH i c ms st).X.find? (fun p => p.1 == (m, k)) = st.X.find? (fun p => p.1 == (m, k)) ∧
      (runD v m dn cc' AH XH i c ms st).A.find? (fun p => p.1 == (m, k)) = st.A.find? (fun p => p.1 == (m, k)) ∧
      (runD v m dn cc' AH XH i c ms st).T.find? (fun p => p.1 == (m, k)) = st.T.find? (fun p => p.1 == (m, k))
  | [], i, c, st, k, _ => ⟨rfl, rfl, rfl⟩
  | .text s :: ms, i, c, st, k, hk => by
    simp only [runD]
    obtain ⟨h1, h2, h3⟩ := find_runD v m dn hdm cc' AH XH hAH hXH ms (i + 1) (scanD c s).1
      { st with X := addText m i c s st.X } k (by omega)
    refine ⟨?_, h2, h3⟩
    rw [h1]
    simp only [addText]
    split
    · exact find_append_other _ m i k _ hk
    · rfl
  | .action a :: ms, i, c, st, k, hk => by
    simp only [runD]
    split
    · next c' ch _ =>
      obtain ⟨h1, h2, h3⟩ := find_runD v m dn hdm cc' AH XH hAH hXH ms (i + 1) c'
        { st with A := st.A ++ [((m, i), ch)] } k (by omega)
      exact ⟨h1, h2.trans (find_append_other _ m i k _ hk), h3⟩
    · exact ⟨rfl, rfl, rfl⟩
  | .call :: ms, i, c, st, k, hk => by
    simp only [runD]
    split
    · obtain ⟨h1, h2, h3⟩ := find_runD v m dn hdm cc' AH XH hAH hXH ms (i + 1) cc'
        { st with T := st.T ++ [((m, i), dn)] } k (by omega)
      exact ⟨h1, h2, h3.trans (find_append_other _ m i k _ hk)⟩
    · obtain ⟨h1, h2, h3⟩ := find_runD v m dn hdm cc' AH XH hAH hXH ms (i + 1) cc'
        { fl := true, A := st.A ++ AH, T := st.T ++ [((m, i), dn)], X := st.X ++ XH } k (by omega)
      exact ⟨h1.trans (find_append_name _ _ m dn k (Ne.symm hdm) hXH),
        h2.trans (find_append_name _ _ m dn k (Ne.symm hdm) hAH), h3.trans (find_append_other _ m i k _ hk)⟩

/-- after the analysis: the derived copy has been analysed (if there is a call), and the keys of the edits are fine -/
theorem runD_keys (v : Validators) (m dn : String) (hdm : dn ≠ m) (cc cc' : Ctx) (AH : List (EditKey × List String))
    (XH : List (EditKey × Bytes)) (hAH : ∀ p ∈ AH, p.1.1 = dn) (hAHn : (AH.map (·.1)).Nodup)
    (hXH : ∀ p ∈ XH, p.1.1 = dn) (hXHn : (XH.map (·.1)).Nodup) :
    ∀ (ms : List MP) (i : Nat) (c cf : Ctx) (st : DSt) (es : List EM), analyseD v cc cc' c ms = some (cf, es) →
      MInvD m i st → Keys2 m dn st.A → Keys2 m dn st.T → Keys2 m dn st.X →
      Keys2 m dn (runD v m dn cc' AH XH i c ms st).A ∧ Keys2 m dn (runD v m dn cc' AH XH i c ms st).T ∧
      Keys2 m dn (runD v m dn cc' AH XH i c ms st).X ∧
      ((st.fl = true ∨ MP.call ∈ ms) → (runD v m dn cc' AH XH i c ms st).fl = true)
  | [], i, c, cf, st, es, _, _, k1, k2, k3 => by
    simp only [runD]
    exact ⟨k1, k2, k3, fun h => by rcases h with h | h; exact h; simp at h⟩
  | .text s :: ms, i, c, cf, st, es, ha, hinv, k1, k2, k3 => by
    simp only [analyseD] at ha
    cases hsc : scan c s with
    | none => simp [hsc] at ha
    | some r =>
      obtain ⟨c', out⟩ := r
      simp only [hsc] at ha
      split at ha
      · cases ha
      · cases hrec : analyseD v cc cc' c' ms with
        | none => simp [hrec] at ha
        | some r2 =>
          obtain ⟨cf', es'⟩ := r2
          have hsd : (scanD c s).1 = c' := by simp [scanD, hsc]
          have k3' : Keys2 m dn (addText m i c s st.X) := by
            simp only [addText]
            split
            · exact Keys2_snoc m dn _ i _ k3 (hinv.1 i (Nat.le_refl _)).2.2
            · exact k3
          have := runD_keys v m dn hdm cc cc' AH XH hAH hAHn hXH hXHn ms (i + 1) c' cf'
            { st with X := addText m i c s st.X } es' hrec (MInvD_text m i c s st hinv) k1 k2 k3'
          simp only [runD, hsd]
          exact ⟨this.1, this.2.1, this.2.2.1,
            fun hh => this.2.2.2 (by rcases hh with hh | hh; exact Or.inl hh; simp at hh; exact Or.inr hh)⟩
  | .action a :: ms, i, c, cf, st, es, ha, hinv, k1, k2, k3 => by
    simp only [analyseD] at ha
    cases hact : actionStep v c with
    | none => simp [hact] at ha
    | some r =>
      obtain ⟨c', ch⟩ := r
      simp only [hact] at ha
      cases hrec : analyseD v cc cc' c' ms with
      | none => simp [hrec] at ha
      | some r2 =>
        obtain ⟨cf', es'⟩ := r2
        have := runD_keys v m dn hdm cc cc' AH XH hAH hAHn hXH hXHn ms (i + 1) c' cf'
          { st with A := st.A ++ [((m, i), ch)] } es' hrec (MInvD_action m i ch st hinv)
          (Keys2_snoc m dn _ i ch k1 (hinv.1 i (Nat.le_refl _)).1) k2 k3
        simp only [runD, hact]
        exact ⟨this.1, this.2.1, this.2.2.1,
          fun hh => this.2.2.2 (by rcases hh with hh | hh; exact Or.inl hh; simp at hh; exact Or.inr hh)⟩
  | .call :: ms, i, c, cf, st, es, ha, hinv, k1, k2, k3 => by
    simp only [analyseD] at ha
    split at ha
    · cases hrec : analyseD v cc cc' cc' ms with
      | none => simp [hrec] at ha
      | some r2 =>
        obtain ⟨cf', es'⟩ := r2
        have k2' := Keys2_snoc m dn _ i dn k2 (hinv.1 i (Nat.le_refl _)).2.1
        obtain ⟨fl, A, T, X⟩ := st
        cases fl with
        | true =>
          have := runD_keys v m dn hdm cc cc' AH XH hAH hAHn hXH hXHn ms (i + 1) cc' cf'
            ⟨true, A, T ++ [((m, i), dn)], X⟩ es' hrec (MInvD_callT m dn i ⟨true, A, T, X⟩ rfl hinv) k1 k2' k3
          simp only [runD, if_true]
          exact ⟨this.1, this.2.1, this.2.2.1, fun _ => this.2.2.2 (Or.inl rfl)⟩
        | false =>
          have hA := (hinv.2 rfl).1
          have hX := (hinv.2 rfl).2
          have := runD_keys v m dn hdm cc cc' AH XH hAH hAHn hXH hXHn ms (i + 1) cc' cf'
            { fl := true, A := A ++ AH, T := T ++ [((m, i), dn)], X := X ++ XH } es' hrec
            (MInvD_callF m dn hdm i ⟨false, A, T, X⟩ AH XH hAH hXH hinv)
            (Keys2_append m dn (Ne.symm hdm) A AH hA k1.2 hAH hAHn) k2'
            (Keys2_append m dn (Ne.symm hdm) X XH hX k3.2 hXH hXHn)
          simp only [runD, Bool.false_eq_true, if_false]
          exact ⟨this.1, this.2.1, this.2.2.1, fun _ => this.2.2.2 (Or.inl rfl)⟩
    · cases ha

/-- once the derived copy has been analysed, the main template's further edits do not touch the lookups of its nodes -/
theorem find_d_true (v : Validators) (m dn : String) (hdm : dn ≠ m) (cc' : Ctx) (AH : List (EditKey × List String))
    (XH : List (EditKey × Bytes)) : ∀ (ms : List MP) (i : Nat) (c : Ctx) (st : DSt) (k : Nat), st.fl = true →
      (runD v m dn cc' AH XH i c ms st).X.find? (fun p => p.1 == (dn, k)) = st.X.find? (fun p => p.1 == (dn, k)) ∧
      (runD v m dn cc' AH XH i c ms st).A.find? (fun p => p.1 == (dn, k)) = st.A.find? (fun p => p.1 == (dn, k))
  | [], i, c, st, k, _ => ⟨rfl, rfl⟩
  | .text s :: ms, i, c, st, k, hst => by
    simp only [runD]
    obtain ⟨h1, h2⟩ := find_d_true v m dn hdm cc' AH XH ms (i + 1) (scanD c s).1
      { st with X := addText m i c s st.X } k hst
    refine ⟨?_, h2⟩
    rw [h1]
    simp only [addText]
    split
    · exact find_snoc_name _ m dn i k _ (Ne.symm hdm)
    · rfl
  | .action a :: ms, i, c, st, k, hst => by
    simp only [runD]
    split
    · next c' ch _ =>
      obtain ⟨h1, h2⟩ := find_d_true v m dn hdm cc' AH XH ms (i + 1) c' { st with A := st.A ++ [((m, i), ch)] } k hst
      exact ⟨h1, h2.trans (find_snoc_name _ m dn i k _ (Ne.symm hdm))⟩
    · exact ⟨rfl, rfl⟩
  | .call :: ms, i, c, st, k, hst => by
    obtain ⟨fl, A, T, X⟩ := st
    simp only at hst
    subst hst
    simp only [runD, if_true]
    exact find_d_true v m dn hdm cc' AH XH ms (i + 1) cc' ⟨true, A, T ++ [((m, i), dn)], X⟩ k rfl

/-- if the main template calls the helper, the lookups of the derived copy's nodes in the final escaper are the
    lookups in the copy's own edits -/
theorem find_d_false (v : Validators) (m dn : String) (hdm : dn ≠ m) (cc cc' : Ctx) (AH : List (EditKey × List String))
    (XH : List (EditKey × Bytes)) : ∀ (ms : List MP) (i : Nat) (c cf : Ctx) (st : DSt) (es : List EM) (k : Nat),
      analyseD v cc cc' c ms = some (cf, es) → st.fl = false → (∀ p ∈ st.A, p.1.1 = m) → (∀ p ∈ st.X, p.1.1 = m) →
      MP.call ∈ ms →
      (runD v m dn cc' AH XH i c ms st).X.find? (fun p => p.1 == (dn, k)) = XH.find? (fun p => p.1 == (dn, k)) ∧
      (runD v m dn cc' AH XH i c ms st).A.find? (fun p => p.1 == (dn, k)) = AH.find? (fun p => p.1 == (dn, k))
  | [], i, c, cf, st, es, k, _, _, _, _, hc => by simp at hc
  | .text s :: ms, i, c, cf, st, es, k, ha, hst, hA, hX, hc => by
    simp only [analyseD] at ha
    cases hsc : scan c s with
    | none => simp [hsc] at ha
    | some r =>
      obtain ⟨c', out⟩ := r
      simp only [hsc] at ha
      split at ha
      · cases ha
      · cases hrec : analyseD v cc cc' c' ms with
        | none => simp [hrec] at ha
        | some r2 =>
          obtain ⟨cf', es'⟩ := r2
          have hsd : (scanD c s).1 = c' := by simp [scanD, hsc]
          simp only [runD, hsd]
          refine find_d_false v m dn hdm cc cc' AH XH ms (i + 1) c' cf' _ es' k hrec hst hA ?_ (by simpa using hc)
          simp only [addText]
          split
          · intro p hp
            rcases List.mem_append.1 hp with hp | hp
            · exact hX p hp
            · simp at hp; rw [hp]
          · exact hX
  | .action a :: ms, i, c, cf, st, es, k, ha, hst, hA, hX, hc => by
    simp only [analyseD] at ha
    cases hact : actionStep v c with
    | none => simp [hact] at ha
    | some r =>
      obtain ⟨c', ch⟩ := r
      simp only [hact] at ha
      cases hrec : analyseD v cc cc' c' ms with
      | none => simp [hrec] at ha
      | some r2 =>
        obtain ⟨cf', es'⟩ := r2
        simp only [runD, hact]
        refine find_d_false v m dn hdm cc cc' AH XH ms (i + 1) c' cf' _ es' k hrec hst ?_ hX (by simpa using hc)
        intro p hp
        rcases List.mem_append.1 hp with hp | hp
        · exact hA p hp
        · simp at hp; rw [hp]
  | .call :: ms, i, c, cf, st, es, k, ha, hst, hA, hX, hc => by
    obtain ⟨fl, A, T, X⟩ := st
    simp only at hst hA hX
    subst hst
    simp only [runD, Bool.false_eq_true, if_false]
    obtain ⟨h1, h2⟩ := find_d_true v m dn hdm cc' AH XH ms (i + 1) cc'
      { fl := true, A := A ++ AH, T := T ++ [((m, i), dn)], X := X ++ XH } k rfl
    exact ⟨h1.trans (find_prefix_name _ _ m dn k (Ne.symm hdm) hX), h2.trans (find_prefix_name _ _ m dn k (Ne.symm hdm) hA)⟩

/-! ### `escapeTree` on the main template -/

/-- the escaper after the analysis of the main template `m` that called the helper in the context `cc` -/
def escAfterD (m dn : String) (cc cc' : Ctx) (dt : Tree) (cf : Ctx) (A : List (EditKey × List String))
    (T : List (EditKey × String)) (X : List (EditKey × Bytes)) : Esc :=
  { output := [(m, cf), (dn, cc')], derived := [(dn, dt)], called := [m, dn],
    memoPrefix := [(m, ([], false)), (dn, (cc.attrValue, cc.ambiguous))],
    actionEdits := A, tmplEdits := T, textEdits := X }

theorem escapeTree_mainD (env : Env) (m dn : String) (hdm : dn ≠ m) (cc cc' : Ctx) (dt : Tree) (trm : Tree) (cf : Ctx)
    (A : List (EditKey × List String)) (T : List (EditKey × String)) (X : List (EditKey × Bytes))
    (hlook : env.text.lookup m = some (some trm)) (f' : Nat)
    (hl : escapeList env f' m (escD0 m [] [] []) {} trm.root = .ok (escD1 m dn cc cc' dt A T X, cf))
    (hkA : (A.map (·.1)).Nodup) (hkT : (T.map (·.1)).Nodup) (hkX : (X.map (·.1)).Nodup) (hne : cf.state ≠ .error) :
    escapeTree env (f' + 3) {} {} m = .ok (escAfterD m dn cc cc' dt cf A T X, cf, m) := by
  have hmd' : (m == dn) = false := by simpa using (Ne.symm hdm)
  have hdm' : (dn == m) = false := by simpa using hdm
  have hm1 := mergeEdits_ok A [] (by simp) hkA
  have hm2 := mergeEdits_ok X [] (by simp) hkX
  have hm3 := mergeEdits_ok T [] (by simp) hkT
  have hne' : (cf.state != State.error) = true := by simpa using hne
  simp only [List.nil_append] at hm1 hm2 hm3
  simp only [escD0, escD1] at hl
  simp only [escapeTree, mangle_empty]
  simp [Esc.template, hlook, alookup, aset, computeOutCtx, escapeTemplateBody, hl, bind, Out.bind, hne',
    hm1, hm2, hm3, pure, escAfterD, hmd', hdm', hdm, Ne.symm hdm]

/-! ### `applyEdits` on the main template: the call nodes are renamed to the derived name -/

theorem applyD (v : Validators) (m h dn : String) (hdm : dn ≠ m) (cc cc' : Ctx) (AH : List (EditKey × List String))
    (XH : List (EditKey × Bytes)) (hAH : ∀ p ∈ AH, p.1.1 = dn) (hXH : ∀ p ∈ XH, p.1.1 = dn) (E : Esc) :
    ∀ (ms : List MP) (i : Nat) (c cf : Ctx) (st : DSt) (es : List EM), analyseD v cc cc' c ms = some (cf, es) →
      MInvD m i st → ArgsOKM ms →
      (∀ k, k < i + ms.length →
        E.textEdits.find? (fun p => p.1 == (m, k)) =
          (runD v m dn cc' AH XH i c ms st).X.find? (fun p => p.1 == (m, k)) ∧
        E.actionEdits.find? (fun p => p.1 == (m, k)) =
          (runD v m dn cc' AH XH i c ms st).A.find? (fun p => p.1 == (m, k)) ∧
        E.tmplEdits.find? (fun p => p.1 == (m, k)) =
          (runD v m dn cc' AH XH i c ms st).T.find? (fun p => p.1 == (m, k))) →
      NodeList.applyEdits m E (NodeList.ofList (nodesM h i ms)) = some (NodeList.ofList (outM dn i es))
  | [], i, c, cf, st, es, ha, _, _, _ => by
    simp only [analyseD, Option.some.injEq, Prod.mk.injEq] at ha
    obtain ⟨_, rfl⟩ := ha
    simp [nodesM, outM, NodeList.ofList, NodeList.applyEdits]
  | .text s :: ms, i, c, cf, st, es, ha, hinv, hok, hag => by
    simp only [analyseD] at ha
    cases hsc : scan c s with
    | none => simp [hsc] at ha
    | some r =>
      obtain ⟨c', out⟩ := r
      simp only [hsc] at ha
      split at ha
      · cases ha
      · cases hrec : analyseD v cc cc' c' ms with
        | none => simp [hrec] at ha
        | some r2 =>
          obtain ⟨cf', es'⟩ := r2
          simp only [hrec, Option.some.injEq, Prod.mk.injEq] at ha
          obtain ⟨rfl, rfl⟩ := ha
          have hsd : (scanD c s).1 = c' := by simp [scanD, hsc]
          simp only [runD, hsd] at hag
          have hk := find_none_of_any _ _ (hinv.1 i (Nat.le_refl _)).2.2
          have hfind := ((hag i (by simp)).1).trans
            (find_runD v m dn hdm cc' AH XH hAH hXH ms (i + 1) c' { st with X := addText m i c s st.X } i (by omega)).1
          have ih := applyD v m h dn hdm cc cc' AH XH hAH hXH E ms (i + 1) c' cf' _ es' hrec
            (MInvD_text m i c s st hinv) hok (fun k hk' => hag k (by simp at hk' ⊢; omega))
          simp only [nodesM, outM, NodeList.ofList]
          refine applyEdits_cons m E _ _ _ _ ?_ ih
          simp only [Node.applyEdits, hfind, Option.some.injEq]
          simp only [scan] at hsc
          simp only [addText]
          cases het : escapeText false c s with
          | panic => simp [het] at hsc
          | done c2 nt =>
            cases nt with
            | none =>
              simp only [het, Option.some.injEq, Prod.mk.injEq] at hsc
              simp [hk, hsc.2]
            | some nb =>
              simp only [het, Option.some.injEq, Prod.mk.injEq] at hsc
              simp [List.find?_append, hk, hsc.2]
  | .action a :: ms, i, c, cf, st, es, ha, hinv, hok, hag => by
    simp only [analyseD] at ha
    cases hact : actionStep v c with
    | none => simp [hact] at ha
    | some r =>
      obtain ⟨c', ch⟩ := r
      simp only [hact] at ha
      cases hrec : analyseD v cc cc' c' ms with
      | none => simp [hrec] at ha
      | some r2 =>
        obtain ⟨cf', es'⟩ := r2
        simp only [hrec, Option.some.injEq, Prod.mk.injEq] at ha
        obtain ⟨rfl, rfl⟩ := ha
        simp only [runD, hact] at hag
        have hk := find_none_of_any _ _ (hinv.1 i (Nat.le_refl _)).1
        have hf2 : E.actionEdits.find? (fun q => q.1 == (m, i)) = some ((m, i), ch) := by
          rw [((hag i (by simp)).2.1).trans
            (find_runD v m dn hdm cc' AH XH hAH hXH ms (i + 1) c' { st with A := st.A ++ [((m, i), ch)] } i
              (by omega)).2.1]
          simp [List.find?_append, hk]
        have ih := applyD v m h dn hdm cc cc' AH XH hAH hXH E ms (i + 1) c' cf' _ es' hrec
          (MInvD_action m i ch st hinv) hok.2 (fun k hk' => hag k (by simp at hk' ⊢; omega))
        simp only [nodesM, outM, NodeList.ofList]
        refine applyEdits_cons m E _ _ _ _ ?_ ih
        simp [Node.applyEdits, hf2, ensure_chain a hok.1 ch]
  | .call :: ms, i, c, cf, st, es, ha, hinv, hok, hag => by
    simp only [analyseD] at ha
    split at ha
    · cases hrec : analyseD v cc cc' cc' ms with
      | none => simp [hrec] at ha
      | some r2 =>
        obtain ⟨cf', es'⟩ := r2
        simp only [hrec, Option.some.injEq, Prod.mk.injEq] at ha
        obtain ⟨rfl, rfl⟩ := ha
        obtain ⟨fl, A, T, X⟩ := st
        have hk := find_none_of_any _ _ (hinv.1 i (Nat.le_refl _)).2.1
        simp only [nodesM, outM, NodeList.ofList]
        cases fl with
        | true =>
          simp only [runD, if_true] at hag
          have hf2 : E.tmplEdits.find? (fun q => q.1 == (m, i)) = some ((m, i), dn) := by
            rw [((hag i (by simp)).2.2).trans
              (find_runD v m dn hdm cc' AH XH hAH hXH ms (i + 1) cc' ⟨true, A, T ++ [((m, i), dn)], X⟩ i (by omega)).2.2]
            simp only at hk
            simp [List.find?_append, hk]
          have hnode : Node.applyEdits m E (.tmpl i h (some dotPipe)) = some (.tmpl i dn (some dotPipe)) := by
            simp [Node.applyEdits, hf2]
          exact applyEdits_cons m E _ _ _ _ hnode
            (applyD v m h dn hdm cc cc' AH XH hAH hXH E ms (i + 1) cc' cf' ⟨true, A, T ++ [((m, i), dn)], X⟩ es' hrec
              (MInvD_callT m dn i ⟨true, A, T, X⟩ rfl hinv) hok
              (fun k hk' => hag k (by simp at hk' ⊢; omega)))
        | false =>
          simp only [runD, Bool.false_eq_true, if_false] at hag
          have hf2 : E.tmplEdits.find? (fun q => q.1 == (m, i)) = some ((m, i), dn) := by
            rw [((hag i (by simp)).2.2).trans
              (find_runD v m dn hdm cc' AH XH hAH hXH ms (i + 1) cc'
                ⟨true, A ++ AH, T ++ [((m, i), dn)], X ++ XH⟩ i (by omega)).2.2]
            simp only at hk
            simp [List.find?_append, hk]
          have hnode : Node.applyEdits m E (.tmpl i h (some dotPipe)) = some (.tmpl i dn (some dotPipe)) := by
            simp [Node.applyEdits, hf2]
          exact applyEdits_cons m E _ _ _ _ hnode
            (applyD v m h dn hdm cc cc' AH XH hAH hXH E ms (i + 1) cc' cf'
              ⟨true, A ++ AH, T ++ [((m, i), dn)], X ++ XH⟩ es' hrec
              (MInvD_callF m dn hdm i ⟨false, A, T, X⟩ AH XH hAH hXH hinv) hok
              (fun k hk' => hag k (by simp at hk' ⊢; omega)))
    · cases ha

/-! ### `commit`: the derived copy is installed in the text set, the main template's calls are renamed -/

mutual
/-- without pending edits for template `tn`, `applyEdits tn` is the identity -/
theorem applyEdits_node_none (tn : String) (E : Esc) (h1 : ∀ p ∈ E.actionEdits, p.1.1 ≠ tn)
    (h2 : ∀ p ∈ E.textEdits, p.1.1 ≠ tn) (h3 : ∀ p ∈ E.tmplEdits, p.1.1 ≠ tn) :
    ∀ n : Node, Node.applyEdits tn E n = some n
  | .text id b => by
    have : E.textEdits.find? (fun p => p.1 == (tn, id)) = none := by
      rw [List.find?_eq_none]; intro p hp he
      have := h2 p hp; simp at he; rw [he] at this; exact this rfl
    simp [Node.applyEdits, this]
  | .action id p => by
    have : E.actionEdits.find? (fun q => q.1 == (tn, id)) = none := by
      rw [List.find?_eq_none]; intro p hp he
      have := h1 p hp; simp at he; rw [he] at this; exact this rfl
    simp [Node.applyEdits, this]
  | .tmpl id name p => by
    have : E.tmplEdits.find? (fun q => q.1 == (tn, id)) = none := by
      rw [List.find?_eq_none]; intro p hp he
      have := h3 p hp; simp at he; rw [he] at this; exact this rfl
    simp [Node.applyEdits, this]
  | .ifN id p t el => by
    simp [Node.applyEdits, applyEdits_list_none tn E h1 h2 h3 t, applyEdits_list_none tn E h1 h2 h3 el, bind,
      Option.bind]
  | .rangeN id p t el => by
    simp [Node.applyEdits, applyEdits_list_none tn E h1 h2 h3 t, applyEdits_list_none tn E h1 h2 h3 el, bind,
      Option.bind]
  | .withN id p t el => by
    simp [Node.applyEdits, applyEdits_list_none tn E h1 h2 h3 t, applyEdits_list_none tn E h1 h2 h3 el, bind,
      Option.bind]
  | .brk id => by simp [Node.applyEdits]
  | .cont id => by simp [Node.applyEdits]
  | .comment id => by simp [Node.applyEdits]
theorem applyEdits_list_none (tn : String) (E : Esc) (h1 : ∀ p ∈ E.actionEdits, p.1.1 ≠ tn)
    (h2 : ∀ p ∈ E.textEdits, p.1.1 ≠ tn) (h3 : ∀ p ∈ E.tmplEdits, p.1.1 ≠ tn) :
    ∀ l : NodeList, NodeList.applyEdits tn E l = some l
  | .nil => by simp [NodeList.applyEdits]
  | .cons n ns => by
    simp [NodeList.applyEdits, applyEdits_node_none tn E h1 h2 h3 n, applyEdits_list_none tn E h1 h2 h3 ns, bind,
      Option.bind]
end

theorem commit_derived (m h dn : String) (hmh : m ≠ h) (hdm : dn ≠ m) (hdh : dn ≠ h) (cc cc' : Ctx) (trm trh dt : Tree)
    (cf : Ctx) (A : List (EditKey × List String)) (T : List (EditKey × String)) (X : List (EditKey × Bytes))
    (rm rd : NodeList)
    (hA : ∀ p ∈ A, p.1.1 = m ∨ p.1.1 = dn) (hT : ∀ p ∈ T, p.1.1 = m ∨ p.1.1 = dn)
    (hX : ∀ p ∈ X, p.1.1 = m ∨ p.1.1 = dn)
    (happm : NodeList.applyEdits m { escAfterD m dn cc cc' dt cf A T X with pristine := [(m, trm), (dn, dt)] } trm.root =
      some rm)
    (happd : NodeList.applyEdits dn { escAfterD m dn cc cc' dt cf A T X with pristine := [(m, trm), (dn, dt)] } dt.root =
      some rd) :
    ∃ E', commit [(m, some trm), (h, some trh)] (escAfterD m dn cc cc' dt cf A T X) =
      .ok ([(m, some { trm with root := rm }), (h, some trh), (dn, some { dt with root := rd })], E') := by
  have hmh' : (m == h) = false := by simpa using hmh
  have hhm' : (h == m) = false := by simpa using (Ne.symm hmh)
  have hmd' : (m == dn) = false := by simpa using (Ne.symm hdm)
  have hdm' : (dn == m) = false := by simpa using hdm
  have hhd' : (h == dn) = false := by simpa using (Ne.symm hdh)
  have hdh' : (dn == h) = false := by simpa using hdh
  have hnames : ∀ x ∈ (A.map (·.1.1) ++ T.map (·.1.1) ++ X.map (·.1.1)).eraseDups, x = m ∨ x = dn := by
    intro x hx
    rw [List.mem_eraseDups] at hx
    simp only [List.mem_append, List.mem_map] at hx
    rcases hx with (⟨p, hp, rfl⟩ | ⟨p, hp, rfl⟩) | ⟨p, hp, rfl⟩
    · exact hA p hp
    · exact hT p hp
    · exact hX p hp
  have hnd := nodup_eraseDups _ (A.map (·.1.1) ++ T.map (·.1.1) ++ X.map (·.1.1)) (Nat.le_refl _)
  -- a template without edits is its own rewriting
  have hself : ∀ (tn : String) (tr : Tree) (r : NodeList),
      tn ∉ (A.map (·.1.1) ++ T.map (·.1.1) ++ X.map (·.1.1)).eraseDups →
      NodeList.applyEdits tn { escAfterD m dn cc cc' dt cf A T X with pristine := [(m, trm), (dn, dt)] } tr.root =
        some r → r = tr.root := by
    intro tn tr r hnot happ
    rw [List.mem_eraseDups] at hnot
    simp only [List.mem_append, List.mem_map, not_or, not_exists, not_and] at hnot
    have := applyEdits_list_none tn { escAfterD m dn cc cc' dt cf A T X with pristine := [(m, trm), (dn, dt)] }
      (fun p hp he => hnot.1.1 p hp he) (fun p hp he => hnot.2 p hp he) (fun p hp he => hnot.1.2 p hp he) tr.root
    rw [happ] at this
    simpa using this
  unfold commit
  simp only [escAfterD, List.all_cons, List.all_nil, TextSet.lookup, List.find?_cons, beq_self_eq_true, hmh', hhm',
    hmd', hdm', hhd', hdh',
    Option.isSome_some, Bool.true_or, Bool.or_true, Bool.and_true, Bool.and_self, Bool.not_true, Bool.false_eq_true,
    if_false, List.foldl_cons, List.foldl_nil, alookup, List.find?_nil, Option.isSome_none, List.nil_append, bind,
    Out.bind, TextSet.set, List.any_cons, List.any_nil, Bool.or_false, Bool.or_self, List.cons_append]
  have happm' := happm
  have happd' := happd
  simp only [escAfterD] at happm' happd' hself
  rcases two_names m dn (Ne.symm hdm) _ hnd hnames with h0 | h0 | h0 | h0 | h0
  · have e1 := hself m trm rm (by rw [h0]; simp) happm'
    have e2 := hself dn dt rd (by rw [h0]; simp) happd'
    rw [h0]
    simp only [List.foldlM, pure, e1, e2]
    exact ⟨_, rfl⟩
  · have e2 := hself dn dt rd (by rw [h0]; simpa using hdm) happd'
    rw [h0]
    simp [List.foldlM, TextSet.lookup, TextSet.set, happm', e2, bind, Out.bind, pure, hmh', hhm', hmd', hdm', hhd',
      hdh', hmh, Ne.symm hmh, hdm, Ne.symm hdm, hdh, Ne.symm hdh]
  · have e1 := hself m trm rm (by rw [h0]; simpa using (Ne.symm hdm)) happm'
    rw [h0]
    simp [List.foldlM, TextSet.lookup, TextSet.set, happd', e1, bind, Out.bind, pure, hmh', hhm', hmd', hdm', hhd',
      hdh', hmh, Ne.symm hmh, hdm, Ne.symm hdm, hdh, Ne.symm hdh]
  · rw [h0]
    simp [List.foldlM, TextSet.lookup, TextSet.set, happm', happd', bind, Out.bind, pure, hmh', hhm', hmd', hdm', hhd',
      hdh', hmh, Ne.symm hmh, hdm, Ne.symm hdm, hdh, Ne.symm hdh]
  · rw [h0]
    simp [List.foldlM, TextSet.lookup, TextSet.set, happm', happd', bind, Out.bind, pure, hmh', hhm', hmd', hdm', hhd',
      hdh', hmh, Ne.symm hmh, hdm, Ne.symm hdm, hdh, Ne.symm hdh]

/-! ### the API state machine: first `Execute` with any committed text set -/

/-- `apiExecute2_gen` for an arbitrary committed text set (here: with the derived copy added) -/
theorem apiExecute2_any (v : Validators) (fuel : Nat) (m h : String) (hmh : m ≠ h) (trm trh trm' : Tree) (cf : Ctx)
    (E E' : Esc) (text' : TextSet) (d : Value)
    (het : escapeTree ⟨[(m, some trm), (h, some trh)], fun n => (alookup [(m, 1), (h, 2)] n).isSome, false, v⟩ fuel {} {}
      m = .ok (E, cf, m))
    (hfin : finalError cf = none)
    (hc : commit [(m, some trm), (h, some trh)] E = .ok (text', E'))
    (hlk : text'.lookup m = some (some trm')) :
    (apiExecute (setupW2 v fuel m h trm trh) 0 d).2 = resOf (walkList false text' 0 fuel d d [] trm'.root) := by
  have hmh' : (m == h) = false := by simpa using hmh
  have hhm' : (h == m) = false := by simpa using (Ne.symm hmh)
  have ht : escapeTemplateTop (worldE2 v fuel m h trm trh) 0 m =
      .inr (markOk (worldE2 v fuel m h trm trh) 0 m text' E', none) := by
    unfold escapeTemplateTop
    simp only [worldE2_ns]
    have hfu : (worldE2 v fuel m h trm trh).fuel = fuel := rfl
    have hv : (worldE2 v fuel m h trm trh).v = v := rfl
    have hesc : (nsE2 m h trm trh).esc = {} := rfl
    have hset : (nsE2 m h trm trh).set = [(m, 1), (h, 2)] := rfl
    have hcsp : (nsE2 m h trm trh).csp = false := rfl
    have htx : (nsE2 m h trm trh).text = [(m, some trm), (h, some trh)] := rfl
    rw [hfu, hv, hesc, hset, hcsp, htx, het]
    simp only [hfin, hc]
  have hobj : (setupW2 v fuel m h trm trh).obj 0 =
      some (1, { ns := 0, name := m, registered := true, treeNil := false }) := by
    simp [setupW2, World.obj, nlookup, bind, Option.bind]
  unfold apiExecute
  simp only [hobj, setNs_escaped2, Bool.false_eq_true, if_false, ht]
  simp [markOk, worldE2_ns, nsE2, alookup, worldE2, World.setNs, World.setObj, nset, nlookup, textExecute, World.ns,
    hlk, resOf, hmh', hhm', hmh, Ne.symm hmh]
  rfl

/-! ### C01 for `New`, `Parse` (main + helper), `Execute`, the helper being called in a non-default context -/

/-- the derived copy's analysis in the scratch escaper of the first call only appends edits keyed by the derived name -/
theorem helper_keepD (v : Validators) (m dn : String) (cc : Ctx) (hps : List Piece) :
    OtherEq (scratchD m dn cc) (editsOf v dn 0 cc hps (scratchD m dn cc)) ∧
    KeysOK dn (editsOf v dn 0 cc hps (scratchD m dn cc)) := by
  rw [editsOf_frame]
  obtain ⟨k1, k2⟩ := keys_edits v dn hps 0 cc
  refine ⟨⟨rfl, rfl, rfl, rfl, rfl, rfl, rfl⟩, ⟨?_, ?_, ?_, ?_⟩⟩ <;> simp [scratchD]
  · intro a b c hp; exact (k1.1 _ hp).1
  · exact k1.2
  · intro a b c hp; exact (k2.1 _ hp).1
  · exact k2.2

theorem C01_api_main_plus_derived_helper (v : Validators) (fuel : Nat) (m h : String) (hmh : m ≠ h) (trm trh : Tree)
    (ms : List MP) (hps : List Piece) (asH : List Arg) (cc cc' cf : Ctx) (es : List EM) (esH : List EPiece)
    (hnm : trm.name = m) (hnh : trh.name = h)
    (hrootM : trm.root = NodeList.ofList (nodesM h 0 ms))
    (hrootH : trh.root = NodeList.ofList (toNodesA 0 hps asH))
    (hokM : ArgsOKM ms) (hasH : ∀ a ∈ asH, ActArg a) (hcall : MP.call ∈ ms)
    (htop : TopCtx cc = false) (hcoll : mangle cc h ≠ m) (hcc : cc.state ≠ .error) (hcc' : cc'.state ≠ .error)
    (hH : analyse v cc hps = some (cc', esH)) (hM : analyseD v cc cc' {} ms = some (cf, es))
    (hs : SimpleAll v {} (inlineP hps ms))
    (hfin : finalError cf = none) (hf : ms.length + hps.length + 9 ≤ fuel) (d1 d2 : Value)
    (hu1 : ∀ vs, valsM d1 esH asH es = some vs → ∀ x ∈ vs, Untrusted x)
    (hu2 : ∀ vs, valsM d2 esH asH es = some vs → ∀ x ∈ vs, Untrusted x)
    (o1 o2 : Bytes) (w1 w2 : World)
    (h1 : Api.step (setup2 v fuel m trm trh) (.exec 0 d1) = (w1, .exec (.ok o1)))
    (h2 : Api.step (setup2 v fuel m trm trh) (.exec 0 d2) = (w2, .exec (.ok o2))) :
    skeleton (HtmlTok.tokenize o1).tokens = skeleton (HtmlTok.tokenize o2).tokens ∧
    (HtmlTok.tokenize o1).final = .data ∧ (HtmlTok.tokenize o2).final = .data := by
  obtain ⟨f', rfl⟩ : ∃ f', fuel = f' + 3 := ⟨fuel - 3, by omega⟩
  have hdh : mangle cc h ≠ h := mangle_ne_self cc h htop
  generalize hdn : mangle cc h = dn at hcoll hdh
  have hdm : dn ≠ m := hcoll
  have hmh' : (m == h) = false := by simpa using hmh
  have hhm' : (h == m) = false := by simpa using (Ne.symm hmh)
  have hmd' : (m == dn) = false := by simpa using (Ne.symm hdm)
  have hhd' : (h == dn) = false := by simpa using (Ne.symm hdh)
  have hst : cf.state = .text := by
    by_cases hc : cf.state = .text
    · exact hc
    · exfalso
      unfold finalError at hfin
      split at hfin
      · next h => cases he : cf.err <;> simp_all
      · simp [hc] at hfin
  have hne : cf.state ≠ .error := by rw [hst]; decide
  -- the derived copy's analysis
  obtain ⟨hoe, hk⟩ := helper_keepD v m dn cc hps
  generalize hs1 : editsOf v dn 0 cc hps (scratchD m dn cc) = s1 at hoe hk
  have hfreshH : Fresh dn 0 (scratchD m dn cc) := fun k _ => ⟨rfl, rfl⟩
  let env : Env := ⟨[(m, some trm), (h, some trh)], fun n => (alookup [(m, 1), (h, 2)] n).isSome, false, v⟩
  have hlH : ∀ f, hps.length + 1 ≤ f → escapeList env f dn (scratchD m dn cc) cc trh.root = .ok (s1, cc') := by
    intro f hf
    rw [hrootH, ← hs1]
    exact escapeList_refinesA env rfl dn hps 0 cc cc' (scratchD m dn cc) esH asH f hH hfreshH hasH hf
  have hlookH : env.text.lookup h = some (some trh) := by
    simp [env, TextSet.lookup, alookup, hhm', hmh, Ne.symm hmh]
  have hlookM : env.text.lookup m = some (some trm) := by
    simp [env, TextSet.lookup, alookup]
  have hlookd : env.text.lookup dn = none := by
    simp [env, TextSet.lookup, alookup, hmd', hhd', hdm, hdh, Ne.symm hdm, Ne.symm hdh]
  -- the main template's analysis
  have hinv0 : MInvD m 0 ⟨false, [], [], []⟩ := ⟨fun k _ => ⟨rfl, rfl, rfl⟩, fun _ => ⟨by simp, by simp⟩⟩
  have hl := refD env rfl m h dn cc cc' hdn hdm hdh hcc hcc' trh (hps.length + 1) s1 hlookH hlookd hlH hoe hk ms 0 {} cf
    ⟨false, [], [], []⟩ es f' hM hinv0 hokM (by omega)
  obtain ⟨kA, kT, kX, hflag⟩ := runD_keys v m dn hdm cc cc' s1.actionEdits s1.textEdits hk.1 hk.2.1 hk.2.2.1 hk.2.2.2 ms
    0 {} cf ⟨false, [], [], []⟩ es hM hinv0 ⟨by simp, by simp⟩ ⟨by simp, by simp⟩ ⟨by simp, by simp⟩
  have hflag := hflag (Or.inr hcall)
  generalize hstF : runD v m dn cc' s1.actionEdits s1.textEdits 0 {} ms ⟨false, [], [], []⟩ = stF at hl kA kT kX hflag
  obtain ⟨fl, A, T, X⟩ := stF
  simp only at hflag kA kT kX
  subst hflag
  have e0 : escOfD m dn cc cc' { trh with name := dn } ⟨false, [], [], []⟩ = escD0 m [] [] [] := by simp [escOfD]
  have e1' : escOfD m dn cc cc' { trh with name := dn } ⟨true, A, T, X⟩ =
      escD1 m dn cc cc' { trh with name := dn } A T X := by simp [escOfD]
  rw [e0, e1', ← hrootM] at hl
  have het := escapeTree_mainD env m dn hdm cc cc' _ trm cf A T X hlookM f' hl kA.2 kT.2 kX.2 hne
  -- commit
  have happm := applyD v m h dn hdm cc cc' s1.actionEdits s1.textEdits hk.1 hk.2.2.1
    { escAfterD m dn cc cc' { trh with name := dn } cf A T X with pristine := [(m, trm), (dn, { trh with name := dn })] }
    ms 0 {} cf ⟨false, [], [], []⟩ es hM hinv0 hokM (by intro k _; rw [hstF]; exact ⟨rfl, rfl, rfl⟩)
  have hagree : Agree dn (0 + hps.length)
      { escAfterD m dn cc cc' { trh with name := dn } cf A T X with
        pristine := [(m, trm), (dn, { trh with name := dn })] }
      (editsOf v dn 0 cc hps (scratchD m dn cc)) := by
    intro k _
    obtain ⟨g1, g2⟩ := find_d_false v m dn hdm cc cc' s1.actionEdits s1.textEdits ms 0 {} cf ⟨false, [], [], []⟩ es k
      hM rfl (by simp) (by simp) hcall
    rw [hstF] at g1 g2
    rw [hs1]
    exact ⟨g1, g2⟩
  have happd := applyEdits_outA v dn
    { escAfterD m dn cc cc' { trh with name := dn } cf A T X with pristine := [(m, trm), (dn, { trh with name := dn })] }
    hps 0 cc cc' (scratchD m dn cc) esH asH hH hfreshH hasH hagree
  rw [← hrootM] at happm
  rw [← hrootH] at happd
  obtain ⟨E', hc⟩ := commit_derived m h dn hmh hdm hdh cc cc' trm trh { trh with name := dn } cf A T X _ _ kA.1 kT.1 kX.1
    happm happd
  -- the API run
  rw [setup2_eq v (f' + 3) m h hmh trm trh hnm hnh] at h1 h2
  have hlkm : TextSet.lookup [(m, some { trm with root := NodeList.ofList (outM dn 0 es) }), (h, some trh),
      (dn, some { ({ trh with name := dn } : Tree) with root := NodeList.ofList (outNodes 0 esH asH) })] m =
      some (some { trm with root := NodeList.ofList (outM dn 0 es) }) := by
    simp [TextSet.lookup]
  have r1 := apiExecute2_any v (f' + 3) m h hmh trm trh _ cf _ E' _ d1 het hfin hc hlkm
  have r2 := apiExecute2_any v (f' + 3) m h hmh trm trh _ cf _ E' _ d2 het hfin hc hlkm
  simp only [Api.step] at h1 h2
  have x1 : (apiExecute (setupW2 v (f' + 3) m h trm trh) 0 d1).2 = .ok o1 := by
    have := congrArg Prod.snd h1; simpa using this
  have x2 : (apiExecute (setupW2 v (f' + 3) m h trm trh) 0 d2).2 = .ok o2 := by
    have := congrArg Prod.snd h2; simpa using this
  rw [r1] at x1
  rw [r2] at x2
  obtain ⟨n1, rfl⟩ := resOf_ok x1
  obtain ⟨n2, rfl⟩ := resOf_ok x2
  have hlk : TextSet.lookup [(m, some { trm with root := NodeList.ofList (outM dn 0 es) }), (h, some trh),
      (dn, some { ({ trh with name := dn } : Tree) with root := NodeList.ofList (outNodes 0 esH asH) })] dn =
      some (some { ({ trh with name := dn } : Tree) with root := NodeList.ofList (outNodes 0 esH asH) }) := by
    simp [TextSet.lookup, hmd', hhd', hdm, hdh, Ne.symm hdm, Ne.symm hdh]
  have hE := analyseD_args v cc cc' ms {} cf es hM hokM
  obtain ⟨vs, p1, hv1, hx1, ho1⟩ := walkM_exec _ 0 (by decide) dn _ esH asH hasH hlk rfl d1 d1 es 0 [] (f' + 3) hE n1
  obtain ⟨ws, p2, hv2, hx2, ho2⟩ := walkM_exec _ 0 (by decide) dn _ esH asH hasH hlk rfl d2 d2 es 0 [] (f' + 3) hE n2
  rw [ho1, ho2]
  simp only [List.nil_append]
  have := C01_straight_line v (inlineP hps ms) cf (inlineE esH es) vs ws p1 p2 hs
    (analyseD_inline v cc cc' hps esH hH ms {} cf es hM) (hu1 vs hv1) (hu2 ws hv2) hx1 hx2
  exact ⟨this.1, this.2.2 hst⟩

/-- `C01_api_main_plus_derived_helper` with the grammar hypothesis stated separately for the two templates -/
theorem C01_api_main_plus_derived_helper' (v : Validators) (fuel : Nat) (m h : String) (hmh : m ≠ h) (trm trh : Tree)
    (ms : List MP) (hps : List Piece) (asH : List Arg) (cc cc' cf : Ctx) (es : List EM) (esH : List EPiece)
    (hnm : trm.name = m) (hnh : trh.name = h)
    (hrootM : trm.root = NodeList.ofList (nodesM h 0 ms))
    (hrootH : trh.root = NodeList.ofList (toNodesA 0 hps asH))
    (hokM : ArgsOKM ms) (hasH : ∀ a ∈ asH, ActArg a) (hcall : MP.call ∈ ms)
    (htop : TopCtx cc = false) (hcoll : mangle cc h ≠ m) (hcc : cc.state ≠ .error) (hcc' : cc'.state ≠ .error)
    (hH : analyse v cc hps = some (cc', esH)) (hM : analyseD v cc cc' {} ms = some (cf, es))
    (hsH : SimpleAll v cc hps) (hsM : SimpleD v cc' {} ms)
    (hfin : finalError cf = none) (hf : ms.length + hps.length + 9 ≤ fuel) (d1 d2 : Value)
    (hu1 : ∀ vs, valsM d1 esH asH es = some vs → ∀ x ∈ vs, Untrusted x)
    (hu2 : ∀ vs, valsM d2 esH asH es = some vs → ∀ x ∈ vs, Untrusted x)
    (o1 o2 : Bytes) (w1 w2 : World)
    (h1 : Api.step (setup2 v fuel m trm trh) (.exec 0 d1) = (w1, .exec (.ok o1)))
    (h2 : Api.step (setup2 v fuel m trm trh) (.exec 0 d2) = (w2, .exec (.ok o2))) :
    skeleton (HtmlTok.tokenize o1).tokens = skeleton (HtmlTok.tokenize o2).tokens ∧
    (HtmlTok.tokenize o1).final = .data ∧ (HtmlTok.tokenize o2).final = .data :=
  C01_api_main_plus_derived_helper v fuel m h hmh trm trh ms hps asH cc cc' cf es esH hnm hnh hrootM hrootH hokM hasH
    hcall htop hcoll hcc hcc' hH hM (SimpleAll_inlineD v cc cc' hps esH hH hsH ms {} cf es hM hsM) hfin hf d1 d2 hu1 hu2
    o1 o2 w1 w2 h1 h2

/-! ### non-vacuity (1): the helper `<b>{{.T}}</b>` called inside an element, main `<p>{{template "h" .}}</p>` -/

def pO : Bytes := [60, 112, 62]          -- `<p>`
def pC : Bytes := [60, 47, 112, 62]      -- `</p>`
def bO : Bytes := [60, 98, 62]           -- `<b>`
def bC : Bytes := [60, 47, 98, 62]       -- `</b>`
example : B "<p>" = pO ∧ B "</p>" = pC ∧ B "<b>" = bO ∧ B "</b>" = bC := by decide +kernel

def cP : Ctx := { state := .text, elemName := [112] }
def cB : Ctx := { state := .text, elemName := [98] }

def exM1 : List MP := [.text pO, .call, .text pC]
def exM1Out : List EM := [.text pO, .call, .text pC]
def exH1 : List Piece := [.text bO, .action, .text bC]
def exH1Out : List EPiece := [.text bO, .action ["_sanitizeHTML"], .text bC]
def exArgs1 : List Arg := [.field ["T"]]
def exM1Tree : Tree := { name := "main", root := NodeList.ofList (nodesM "h" 0 exM1) }
def exH1Tree : Tree := { name := "h", root := NodeList.ofList (toNodesA 0 exH1 exArgs1) }

/-- the derived name -/
example : mangle cP "h" = "h$htmltemplate_StateText_elementP" := by decide +kernel

theorem ex1_helper : analyse v0 cP exH1 = some ({}, exH1Out) := by decide +kernel
theorem ex1_main : analyseD v0 cP {} {} exM1 = some ({}, exM1Out) := by decide +kernel

theorem ex1_scan0 : scanD {} pO = (cP, pO) := by decide +kernel
theorem ex1_scan1 : scanD {} pC = ({}, pC) := by decide +kernel
theorem ex1_scanH0 : scanD cP bO = (cB, bO) := by decide +kernel
theorem ex1_actH : actionStep v0 cB = some (cB, ["_sanitizeHTML"]) := by decide +kernel
theorem ex1_scanH1 : scanD cB bC = ({}, bC) := by decide +kernel

theorem ex1_simple_pO : Simple false [] .text .none pO pO .text :=
  Simple.openTag [] [] 112 [] _ _ (by decide) (by decide) (by decide) (by decide) (by decide)
    (Simple.tagEnd _ [] [] [] [] (by decide) (fun h => absurd h (by decide)) (Simple.nil _ _ _))
theorem ex1_simple_pC : Simple false [] .text .none pC pC .text :=
  Simple.closeTag _ [] 112 [] _ _ (by decide) (by decide) (by decide)
    (Simple.tagEnd _ [] [] [] [] (by decide) (fun h => absurd h (by decide)) (Simple.nil _ _ _))
theorem ex1_simple_bO : Simple false [112] .text .none bO bO .text :=
  Simple.openTag [112] [] 98 [] _ _ (by decide) (by decide) (by decide) (by decide) (by decide)
    (Simple.tagEnd _ [] [] [] [] (by decide) (fun h => absurd h (by decide)) (Simple.nil _ _ _))
theorem ex1_simple_bC : Simple false [98] .text .none bC bC .text :=
  Simple.closeTag _ [] 98 [] _ _ (by decide) (by decide) (by decide)
    (Simple.tagEnd _ [] [] [] [] (by decide) (fun h => absurd h (by decide)) (Simple.nil _ _ _))

theorem ex1_simpleM : SimpleD v0 {} {} exM1 := by
  simp only [exM1, SimpleD, ex1_scan0, ex1_scan1]
  exact ⟨⟨false, pO, .text, ex1_simple_pO, fun h => absurd h (by decide), fun h => by simp at h⟩,
    ⟨false, pC, .text, ex1_simple_pC, fun h => absurd h (by decide), fun h => by simp at h⟩, trivial⟩

theorem ex1_simpleH : SimpleAll v0 cP exH1 := by
  simp only [exH1, SimpleAll, ex1_scanH0, ex1_actH, ex1_scanH1]
  refine ⟨⟨false, bO, .text, ex1_simple_bO, fun h => absurd h (by decide), fun h => by simp at h⟩, ?_, ?_⟩
  · intro h; cases h
  · exact ⟨⟨false, bC, .text, ex1_simple_bC, fun h => absurd h (by decide), fun h => by simp at h⟩, trivial⟩

theorem ex1_vals (b : Bytes) : valsM (exData b) exH1Out exArgs1 exM1Out = some [.str b] := by
  simp [valsM, exM1Out, exH1Out, exArgs1, argVals, argVal, fieldChain, exData, Value.indirect, KVList.get]

/-- the output of the example for the value `"><`: `<p><b>&#34;&gt;&lt;</b></p>` -/
example : retBytes (Api.step (setup2 v0 100 "main" exM1Tree exH1Tree) (.exec 0 (exData [34, 62, 60]))).2 =
    [60, 112, 62, 60, 98, 62, 38, 35, 51, 52, 59, 38, 103, 116, 59, 38, 108, 116, 59, 60, 47, 98, 62, 60, 47, 112, 62] := by
  decide +kernel

theorem ex_api_derived_element (b1 b2 o1 o2 : Bytes) (w1 w2 : World)
    (h1 : Api.step (setup2 v0 100 "main" exM1Tree exH1Tree) (.exec 0 (exData b1)) = (w1, .exec (.ok o1)))
    (h2 : Api.step (setup2 v0 100 "main" exM1Tree exH1Tree) (.exec 0 (exData b2)) = (w2, .exec (.ok o2))) :
    skeleton (HtmlTok.tokenize o1).tokens = skeleton (HtmlTok.tokenize o2).tokens ∧
    (HtmlTok.tokenize o1).final = .data ∧ (HtmlTok.tokenize o2).final = .data :=
  C01_api_main_plus_derived_helper' v0 100 "main" "h" (by decide) exM1Tree exH1Tree exM1 exH1 exArgs1 cP {} {} exM1Out
    exH1Out rfl rfl rfl rfl trivial
    (by intro a ha; simp [exArgs1] at ha; subst ha; exact Or.inr ⟨_, rfl⟩) (by simp [exM1])
    (by decide) (by decide +kernel) (by decide) (by decide)
    ex1_helper ex1_main ex1_simpleH ex1_simpleM (by decide) (by decide) _ _
    (by rw [ex1_vals]; intro vs hv x hx; cases hv; simp at hx; subst hx; intro t y h; simp [Value.indirect] at h)
    (by rw [ex1_vals]; intro vs hv x hx; cases hv; simp at hx; subst hx; intro t y h; simp [Value.indirect] at h)
    o1 o2 w1 w2 h1 h2

/-! ### non-vacuity (2): the helper `a {{.T}} b` called inside a quoted attribute value, main
    `<p title="{{template "h" .}}">x</p>` -/

def tE : Bytes := [34, 62, 120, 60, 47, 112, 62]      -- `">x</p>`
def hA : Bytes := [97, 32]                            -- `a `
def hB : Bytes := [32, 98]                            -- ` b`
example : B "\">x</p>" = tE ∧ B "a " = hA ∧ B " b" = hB := by decide +kernel

def cA1 : Ctx := { cAttr with attrValue := [97, 32] }
def cA2 : Ctx := { cAttr with attrValue := [97, 32, 32, 98] }

def exM2 : List MP := [.text t0, .call, .text tE]
def exM2Out : List EM := [.text t0, .call, .text tE]
def exH2 : List Piece := [.text hA, .action, .text hB]
def exH2Out : List EPiece := [.text hA, .action ["_evalArgs", "_sanitizeHTML"], .text hB]
def exM2Tree : Tree := { name := "main", root := NodeList.ofList (nodesM "h" 0 exM2) }
def exH2Tree : Tree := { name := "h", root := NodeList.ofList (toNodesA 0 exH2 exArgs1) }

example : mangle cAttr "h" = "h$htmltemplate_StateAttr_DelimDoubleQuote_attrTitle_elementP" := by decide +kernel

theorem ex2_helper : analyse v0 cAttr exH2 = some (cA2, exH2Out) := by decide +kernel
theorem ex2_main : analyseD v0 cAttr cA2 {} exM2 = some ({}, exM2Out) := by decide +kernel

theorem ex2_scan1 : scanD cA2 tE = ({}, tE) := by decide +kernel
theorem ex2_scanH0 : scanD cAttr hA = (cA1, hA) := by decide +kernel
theorem ex2_actH : actionStep v0 cA1 = some (cA1, ["_evalArgs", "_sanitizeHTML"]) := by decide +kernel
theorem ex2_scanH1 : scanD cA1 hB = (cA2, hB) := by decide +kernel

theorem ex2_simple_tE : Simple false [112] .attr .dq tE tE .text :=
  Simple.closeQ _ .dq [] _ _ (Or.inl rfl) (by decide)
    (Simple.tagEnd _ [] [] _ _ (by decide) (fun h => absurd h (by decide))
      (Simple.closeTag _ [120] 112 [] _ _ (by decide) (by decide) (by decide)
        (Simple.tagEnd _ [] [] [] [] (by decide) (fun h => absurd h (by decide)) (Simple.nil _ _ _))))
theorem ex2_simple_hA : Simple false [112] .attr .dq hA hA .attr :=
  Simple.val _ .dq _ (Or.inl rfl) (by decide) (by decide)
theorem ex2_simple_hB : Simple false [112] .attr .dq hB hB .attr :=
  Simple.val _ .dq _ (Or.inl rfl) (by decide) (by decide)

theorem ex2_simpleM : SimpleD v0 cA2 {} exM2 := by
  simp only [exM2, SimpleD, ex_scan0, ex2_scan1]
  exact ⟨⟨false, t0, .attr, ex_simple0, fun h => absurd h (by decide), fun h => by simp at h⟩,
    ⟨false, tE, .text, ex2_simple_tE, fun h => absurd h (by decide), fun h => by simp at h⟩, trivial⟩

theorem ex2_simpleH : SimpleAll v0 cAttr exH2 := by
  simp only [exH2, SimpleAll, ex2_scanH0, ex2_actH, ex2_scanH1]
  refine ⟨⟨false, hA, .attr, ex2_simple_hA, fun h => absurd h (by decide), fun h => by simp at h⟩, ?_, ?_⟩
  · intro h; cases h
  · exact ⟨⟨false, hB, .attr, ex2_simple_hB, fun h => absurd h (by decide), fun h => by simp at h⟩, trivial⟩

theorem ex2_vals (b : Bytes) : valsM (exData b) exH2Out exArgs1 exM2Out = some [.str b] := by
  simp [valsM, exM2Out, exH2Out, exArgs1, argVals, argVal, fieldChain, exData, Value.indirect, KVList.get]

/-- the output of the example for the value `"><`: `<p title="a &#34;&gt;&lt; b">x</p>` -/
example : retBytes (Api.step (setup2 v0 100 "main" exM2Tree exH2Tree) (.exec 0 (exData [34, 62, 60]))).2 =
    [60, 112, 32, 116, 105, 116, 108, 101, 61, 34, 97, 32, 38, 35, 51, 52, 59, 38, 103, 116, 59, 38, 108, 116, 59, 32, 98,
     34, 62, 120, 60, 47, 112, 62] := by
  decide +kernel

theorem ex_api_derived_attr (b1 b2 o1 o2 : Bytes) (w1 w2 : World)
    (h1 : Api.step (setup2 v0 100 "main" exM2Tree exH2Tree) (.exec 0 (exData b1)) = (w1, .exec (.ok o1)))
    (h2 : Api.step (setup2 v0 100 "main" exM2Tree exH2Tree) (.exec 0 (exData b2)) = (w2, .exec (.ok o2))) :
    skeleton (HtmlTok.tokenize o1).tokens = skeleton (HtmlTok.tokenize o2).tokens ∧
    (HtmlTok.tokenize o1).final = .data ∧ (HtmlTok.tokenize o2).final = .data :=
  C01_api_main_plus_derived_helper' v0 100 "main" "h" (by decide) exM2Tree exH2Tree exM2 exH2 exArgs1 cAttr cA2 {} exM2Out
    exH2Out rfl rfl rfl rfl trivial
    (by intro a ha; simp [exArgs1] at ha; subst ha; exact Or.inr ⟨_, rfl⟩) (by simp [exM2])
    (by decide) (by decide +kernel) (by decide) (by decide)
    ex2_helper ex2_main ex2_simpleH ex2_simpleM (by decide) (by decide) _ _
    (by rw [ex2_vals]; intro vs hv x hx; cases hv; simp at hx; subst hx; intro t y h; simp [Value.indirect] at h)
    (by rw [ex2_vals]; intro vs hv x hx; cases hv; simp at hx; subst hx; intro t y h; simp [Value.indirect] at h)
    o1 o2 w1 w2 h1 h2


/-! ### non-vacuity (3): memo hit — the helper `{{.T}}, ` called twice inside an element, main
    `<p>{{template "h" .}}{{template "h" .}}{{.T}}</p>` -/

def hS : Bytes := [44, 32]                            -- `, `
example : B ", " = hS := by decide +kernel

def exM3 : List MP := [.text pO, .call, .call, .action (.field ["T"]), .text pC]
def exM3Out : List EM := [.text pO, .call, .call, .action (.field ["T"]) ["_sanitizeHTML"], .text pC]
def exH3 : List Piece := [.action, .text hS]
def exH3Out : List EPiece := [.action ["_sanitizeHTML"], .text hS]
def exM3Tree : Tree := { name := "main", root := NodeList.ofList (nodesM "h" 0 exM3) }
def exH3Tree : Tree := { name := "h", root := NodeList.ofList (toNodesA 0 exH3 exArgs1) }

theorem ex3_helper : analyse v0 cP exH3 = some (cP, exH3Out) := by decide +kernel
theorem ex3_main : analyseD v0 cP cP {} exM3 = some ({}, exM3Out) := by decide +kernel

theorem ex3_scan1 : scanD cP pC = ({}, pC) := by decide +kernel
theorem ex3_act : actionStep v0 cP = some (cP, ["_sanitizeHTML"]) := by decide +kernel
theorem ex3_scanH : scanD cP hS = (cP, hS) := by decide +kernel

theorem ex3_simple_pC : Simple false [112] .text .none pC pC .text :=
  Simple.closeTag _ [] 112 [] _ _ (by decide) (by decide) (by decide)
    (Simple.tagEnd _ [] [] [] [] (by decide) (fun h => absurd h (by decide)) (Simple.nil _ _ _))
theorem ex3_simple_hS : Simple false [112] .text .none hS hS .text :=
  Simple.text [112] hS (by decide) (by decide)

theorem ex3_simpleM : SimpleD v0 cP {} exM3 := by
  simp only [exM3, SimpleD, ex1_scan0, ex3_scan1, ex3_act]
  refine ⟨⟨false, pO, .text, ex1_simple_pO, fun h => absurd h (by decide), fun h => by simp at h⟩, ?_, ?_⟩
  · intro h; cases h
  · exact ⟨⟨false, pC, .text, ex3_simple_pC, fun h => absurd h (by decide), fun h => by simp at h⟩, trivial⟩

theorem ex3_simpleH : SimpleAll v0 cP exH3 := by
  simp only [exH3, SimpleAll, ex3_act, ex3_scanH]
  refine ⟨?_, ⟨false, hS, .text, ex3_simple_hS, fun h => absurd h (by decide), fun h => by simp at h⟩, trivial⟩
  intro h; cases h

theorem ex3_vals (b : Bytes) : valsM (exData b) exH3Out exArgs1 exM3Out = some [.str b, .str b, .str b] := by
  simp [valsM, exM3Out, exH3Out, exArgs1, argVals, argVal, fieldChain, exData, Value.indirect, KVList.get]

theorem ex_api_derived_twice (b1 b2 o1 o2 : Bytes) (w1 w2 : World)
    (h1 : Api.step (setup2 v0 100 "main" exM3Tree exH3Tree) (.exec 0 (exData b1)) = (w1, .exec (.ok o1)))
    (h2 : Api.step (setup2 v0 100 "main" exM3Tree exH3Tree) (.exec 0 (exData b2)) = (w2, .exec (.ok o2))) :
    skeleton (HtmlTok.tokenize o1).tokens = skeleton (HtmlTok.tokenize o2).tokens ∧
    (HtmlTok.tokenize o1).final = .data ∧ (HtmlTok.tokenize o2).final = .data :=
  C01_api_main_plus_derived_helper' v0 100 "main" "h" (by decide) exM3Tree exH3Tree exM3 exH3 exArgs1 cP cP {} exM3Out
    exH3Out rfl rfl rfl rfl ⟨Or.inr ⟨_, rfl⟩, trivial⟩
    (by intro a ha; simp [exArgs1] at ha; subst ha; exact Or.inr ⟨_, rfl⟩) (by simp [exM3])
    (by decide) (by decide +kernel) (by decide) (by decide)
    ex3_helper ex3_main ex3_simpleH ex3_simpleM (by decide) (by decide) _ _
    (by rw [ex3_vals]; intro vs hv x hx; cases hv; simp at hx; subst hx; intro t y h; simp [Value.indirect] at h)
    (by rw [ex3_vals]; intro vs hv x hx; cases hv; simp at hx; subst hx; intro t y h; simp [Value.indirect] at h)
    o1 o2 w1 w2 h1 h2

/-- the output of the example for the value `"><`: `<p>&#34;&gt;&lt;, &#34;&gt;&lt;, &#34;&gt;&lt;</p>` -/
example : retBytes (Api.step (setup2 v0 100 "main" exM3Tree exH3Tree) (.exec 0 (exData [34, 62, 60]))).2 =
    [60, 112, 62, 38, 35, 51, 52, 59, 38, 103, 116, 59, 38, 108, 116, 59, 44, 32, 38, 35, 51, 52, 59, 38, 103, 116, 59, 38,
     108, 116, 59, 44, 32, 38, 35, 51, 52, 59, 38, 103, 116, 59, 38, 108, 116, 59, 60, 47, 112, 62] := by
  decide +kernel

end SafeHtml.Proofs.Layer3Derived
